//go:build verif

package mem

import (
	"bytes"
	"fmt"
	"runtime"
	"sort"
	"strings"
	"sync"
	"testing"
	"unsafe"

	imem "google.golang.org/grpc/internal/mem"
	"google.golang.org/grpc/internal/verif/vk"
)

// ---- C53, pool leg (E3): Get(n) has length n and capacity >= n; zeroing pools
// hand out only zeros, also right after dirty memory was put back ----
//
// Every history of <= L steps over (size, action) is run on a FRESH pool of
// every configuration; sizes are every tier boundary -1/+0/+1 (plus 0,1,2, the
// page size and one page above the largest tier).

type c53PoolCfg struct {
	name   string
	zero   bool
	mk     func() BufferPool
	tiers  []int
	maxLen int // longest history for this configuration (thorough)
}

type c53PStep struct {
	Size int    `json:"size"`
	Act  string `json:"act"` // hold | put | putshrunk | foreign
}

type c53PCase struct {
	Pool  string     `json:"pool"`
	Steps []c53PStep `json:"steps"`
}

func (c c53PCase) key(class string) string {
	var sb strings.Builder
	fmt.Fprintf(&sb, "pool/%s/%s/", class, c.Pool)
	for _, s := range c.Steps {
		fmt.Fprintf(&sb, "%s(%d)", s.Act, s.Size)
	}
	return sb.String()
}

func c53PoolCfgs() []c53PoolCfg {
	pow := func(es ...uint8) []int {
		var t []int
		for _, e := range es {
			t = append(t, 1<<e)
		}
		return t
	}
	bin := func(name string, zero bool, es ...uint8) c53PoolCfg {
		return c53PoolCfg{name: name, zero: zero, tiers: pow(es...), maxLen: 3, mk: func() BufferPool {
			var p BufferPool
			var err error
			if zero {
				p, err = NewBinaryTieredBufferPool(append([]uint8(nil), es...)...)
			} else {
				p, err = imem.NewDirtyBinaryTieredBufferPool(append([]uint8(nil), es...)...)
			}
			if err != nil {
				panic(err)
			}
			return p
		}}
	}
	tiered := func(name string, sizes ...int) c53PoolCfg {
		return c53PoolCfg{name: name, zero: true, tiers: sizes, maxLen: 3, mk: func() BufferPool {
			return NewTieredBufferPool(append([]int(nil), sizes...)...)
		}}
	}
	cfgs := []c53PoolCfg{
		bin("binary{8,12,14,15,20}(default exponents)", true, 8, 12, 14, 15, 20),
		bin("binary{10}", true, 10),
		bin("binary{0,1,2}", true, 0, 1, 2),
		bin("binary{}", true),
		bin("binary{4,6,13}", true, 4, 6, 13),
		tiered("tiered{256,4096,16384,32768,1048576}", 256, 4096, 16384, 32768, 1048576),
		tiered("tiered{1024}", 1024),
		tiered("tiered{1000,3000}", 1000, 3000),
		tiered("tiered{}"),
		tiered("tiered{64,128,8192}", 64, 128, 8192),
		{name: "DefaultBufferPool()", zero: true, tiers: pow(8, 12, 14, 15, 20), maxLen: 2, mk: func() BufferPool { return DefaultBufferPool() }},
		{name: "NopBufferPool", zero: true, tiers: nil, maxLen: 2, mk: func() BufferPool { return NopBufferPool{} }},
		bin("dirty-binary{8,12,14}", false, 8, 12, 14),
		{name: "dirty-simple", zero: false, tiers: nil, maxLen: 3, mk: func() BufferPool { return imem.NewDirtySimplePool() }},
	}
	for i := range cfgs {
		for _, t := range cfgs[i].tiers {
			if t > 1<<16 {
				cfgs[i].maxLen = 2 // megabyte-sized steps: pairs only
			}
		}
	}
	return cfgs
}

func c53PoolSizes(c c53PoolCfg) []int {
	set := map[int]bool{0: true, 1: true, 2: true, 4095: true, 4096: true, 4097: true}
	mx := 0
	for _, t := range c.tiers {
		for _, d := range []int{-1, 0, 1} {
			if t+d >= 0 {
				set[t+d] = true
			}
		}
		mx = max(mx, t)
	}
	set[mx+4096] = true
	set[mx+4097] = true
	out := make([]int, 0, len(set))
	for s := range set {
		out = append(out, s)
	}
	sort.Ints(out)
	return out
}

var c53Zeros = make([]byte, 64<<10)

// c53FirstNonZero returns the index of the first non-zero byte, or -1.
func c53FirstNonZero(b []byte) int {
	for off := 0; off < len(b); off += len(c53Zeros) {
		chunk := b[off:min(len(b), off+len(c53Zeros))]
		if !bytes.Equal(chunk, c53Zeros[:len(chunk)]) {
			for i, x := range chunk {
				if x != 0 {
					return off + i
				}
			}
		}
	}
	return -1
}

func c53Fill(b []byte, x byte) {
	if len(b) == 0 {
		return
	}
	b[0] = x
	for n := 1; n < len(b); n *= 2 {
		copy(b[n:], b[:n])
	}
}

type c53POut struct {
	class, desc string
}

// c53RunPoolCase runs one history; returns a failure (class "" = none), the
// number of Gets that were served with memory that had been put back dirty, and
// whether some spare capacity beyond len was handed out non-zero.
func c53RunPoolCase(cfg c53PoolCfg, steps []c53PStep) (fail c53POut, reused, spareDirty int) {
	defer func() {
		if p := recover(); p != nil {
			fail = c53POut{"panic", fmt.Sprintf("pool panicked: %v", p)}
		}
	}()
	pool := cfg.mk()
	type held struct {
		p    *[]byte
		base uintptr
		capN int
	}
	var out []held              // handed out, not yet put back
	putBack := map[uintptr]bool{} // base addresses put back dirty
	base := func(b []byte) uintptr {
		if cap(b) == 0 {
			return 0
		}
		return uintptr(unsafe.Pointer(unsafe.SliceData(b[:1])))
	}
	for j, st := range steps {
		fill := byte(0xA0 + j)
		if st.Act == "foreign" {
			// caller memory handed to NewBuffer ends up in the pool via Put
			b := make([]byte, st.Size)
			c53Fill(b, fill)
			if cap(b) > 0 {
				putBack[base(b)] = true
			}
			pool.Put(&b)
			continue
		}
		p := pool.Get(st.Size)
		if p == nil {
			return c53POut{"get-nil", fmt.Sprintf("step %d: Get(%d) returned nil", j, st.Size)}, reused, spareDirty
		}
		b := *p
		if len(b) != st.Size || cap(b) < st.Size {
			return c53POut{"get-len-cap", fmt.Sprintf("step %d: Get(%d) returned len %d cap %d", j, st.Size, len(b), cap(b))}, reused, spareDirty
		}
		bb := base(b)
		for _, h := range out {
			if bb != 0 && bb < h.base+uintptr(h.capN) && h.base < bb+uintptr(cap(b)) {
				return c53POut{"get-aliases-outstanding", fmt.Sprintf("step %d: Get(%d) returned memory overlapping a buffer that is still handed out", j, st.Size)}, reused, spareDirty
			}
		}
		if putBack[bb] {
			reused++
			delete(putBack, bb)
		}
		if cfg.zero {
			if i := c53FirstNonZero(b); i >= 0 {
				return c53POut{"get-not-zero", fmt.Sprintf("step %d: Get(%d) of a zeroing pool returned byte %#x at offset %d (old data leaks)", j, st.Size, b[i], i)}, reused, spareDirty
			}
			if c53FirstNonZero(b[:cap(b)][len(b):]) >= 0 {
				spareDirty++
			}
		}
		c53Fill(b[:cap(b)], fill)
		switch st.Act {
		case "hold":
			out = append(out, held{p, bb, cap(b)})
		case "put":
			if cap(b) > 0 {
				putBack[bb] = true
			}
			pool.Put(p)
		case "putshrunk":
			*p = b[:len(b)/2] // a prefix of what Get returned
			if cap(b) > 0 {
				putBack[bb] = true
			}
			pool.Put(p)
		}
	}
	for _, h := range out {
		pool.Put(h.p)
	}
	return c53POut{}, reused, spareDirty
}

func TestVerif_C53_Pools(t *testing.T) {
	r := vk.Start(t, "c53_pools", "exploration", c53P)
	defer r.Finish()
	r.Rule(c53P, "every history of <=L (size, action) steps, action in {Get+hold, Get+dirty+Put, Get+dirty+Put shrunk prefix, Put of dirty caller memory}, size in {0,1,2,page-1,page,page+1, every tier-1/+0/+1, largest tier+page, +page+1}, on a fresh pool of every listed configuration (L = 2 quick, where steps above 64 KiB are Get+hold/Get+Put only and are paired only with another such step (tier-1/+0/+1 only); L = 3 thorough, 2 for configurations with tiers above 64 KiB, where steps above 64 KiB are paired with another such step or with sizes 0/page); after each Get: len==n, cap>=n, no overlap with buffers still handed out, all bytes zero for zeroing pools. Non-trivial = histories in which a Get was served from memory that had been put back dirty.")
	r.Assume(c53P, "sync.Pool may drop or keep a returned buffer; the verdict does not depend on it, the measured reuse count does")
	r.Assume(c53P, "only the first len bytes of a Get result are required to be zero; dirty spare capacity is recorded as an outcome")
	cfgs := c53PoolCfgs()
	if r.ReplayFile() != "" {
		var c c53PCase
		if err := r.LoadReplay(&c); err != nil {
			r.EngineError("replay: %v", err)
			return
		}
		if c.Pool == "" {
			return // a replay for the other leg
		}
		for _, cfg := range cfgs {
			if cfg.name == c.Pool {
				f, _, _ := c53RunPoolCase(cfg, c.Steps)
				r.Eval(c53P, 1)
				fmt.Printf("replay %s -> %q %s\n", c.key(""), f.class, f.desc)
				if f.class != "" {
					r.Violation(c53P, c.key(f.class), f.desc, c)
				}
				return
			}
		}
		r.EngineError("replay: unknown pool %q", c.Pool)
		return
	}
	acts := []string{"hold", "put", "putshrunk", "foreign"}
	type cfgRes struct {
		mu                  sync.Mutex
		evals, reuse, spare int64
		outcomes            map[string]int64
		viols               []c53PCase
		vdesc               []c53POut
		reported            map[string]bool
		sizes, L            int
	}
	type job struct {
		ci    int
		first c53PStep
		alpha []c53PStep
	}
	big := func(s c53PStep) bool { return s.Size > 1<<16 }
	small := func(s c53PStep) bool { return s.Size == 0 || s.Size == 4096 }
	results := make([]*cfgRes, len(cfgs))
	var jobs []job
	for ci, cfg := range cfgs {
		res := &cfgRes{outcomes: map[string]int64{}, reported: map[string]bool{}}
		results[ci] = res
		sizes := c53PoolSizes(cfg)
		res.sizes, res.L = len(sizes), 2
		if r.Thorough() {
			res.L = cfg.maxLen
		}
		var alpha []c53PStep
		for _, s := range sizes {
			for _, a := range acts {
				if !r.Thorough() && s > 1<<16 && (a == "putshrunk" || a == "foreign") {
					continue // quick tier: megabyte-sized steps only as Get+hold / Get+dirty+Put
				}
				alpha = append(alpha, c53PStep{s, a})
			}
		}
		for _, a := range alpha {
			jobs = append(jobs, job{ci, a, alpha})
		}
	}
	runJob := func(j job) {
		cfg, res := cfgs[j.ci], results[j.ci]
		var evals, reuse, spare int64
		outcomes := map[string]int64{}
		idx := 0
		var rec func(cur []c53PStep)
		rec = func(cur []c53PStep) {
			if len(cur) == 2 && (big(cur[0]) || big(cur[1])) {
				// first-touch of megabytes is what this leg's time goes into: a
				// megabyte-sized step is paired only with another one (quick) or
				// additionally with sizes 0 / page (thorough)
				other := cur[1]
				if big(cur[1]) {
					other = cur[0]
				}
				if !big(other) && (!r.Thorough() || !small(other)) {
					return
				}
				if !r.Thorough() && (cur[0].Size > 1<<20+1 || cur[1].Size > 1<<20+1) {
					return // quick tier: sizes one page above the megabyte tier only as single steps
				}
			}
			idx++
			if r.Mine(idx) {
				f, reused, sp := c53RunPoolCase(cfg, cur)
				evals++
				if reused > 0 {
					reuse++
				}
				if sp > 0 {
					spare++
				}
				switch {
				case f.class != "":
					res.mu.Lock()
					if !res.reported[f.class] {
						res.reported[f.class] = true
						res.viols = append(res.viols, c53PCase{Pool: cfg.name, Steps: append([]c53PStep(nil), cur...)})
						res.vdesc = append(res.vdesc, f)
					}
					res.mu.Unlock()
				case reused > 0 && cfg.zero:
					outcomes["pools:dirty-memory-reused-and-handed-out-zeroed"]++
				case reused > 0:
					outcomes["pools:dirty-pool-reuse(len/cap only)"]++
				default:
					outcomes["pools:fresh-memory"]++
				}
			}
			if len(cur) == res.L {
				return
			}
			for _, a := range j.alpha {
				rec(append(cur, a))
			}
		}
		rec([]c53PStep{j.first})
		res.mu.Lock()
		res.evals += evals
		res.reuse += reuse
		res.spare += spare
		for k, v := range outcomes {
			res.outcomes[k] += v
		}
		res.mu.Unlock()
	}
	var wg sync.WaitGroup
	ch := make(chan job, 64)
	for w := 0; w < max(1, runtime.GOMAXPROCS(0)); w++ {
		wg.Add(1)
		go func() {
			defer wg.Done()
			for j := range ch {
				runJob(j)
			}
		}()
	}
	for _, j := range jobs {
		ch <- j
	}
	close(ch)
	wg.Wait()
	var evals, nontriv int64
	perCfg := map[string]any{}
	for ci, cfg := range cfgs {
		res := results[ci]
		evals += res.evals
		nontriv += res.reuse
		for i, c := range res.viols {
			r.Violation(c53P, c.key(res.vdesc[i].class), res.vdesc[i].desc+"\n  case: "+c.key(""), c)
		}
		for o := range res.outcomes {
			r.Outcome(c53P, o)
		}
		perCfg[cfg.name] = map[string]any{"histories": res.evals, "histories_with_dirty_reuse": res.reuse, "histories_with_dirty_spare_capacity": res.spare, "sizes": fmt.Sprint(res.sizes), "max_len": fmt.Sprint(res.L)}
	}
	r.Eval(c53P, evals)
	r.NontrivialN(c53P, nontriv)
	r.Set(c53P, "pool_configurations", perCfg)
	r.Sample(c53P, c53PCase{Pool: cfgs[0].name, Steps: []c53PStep{{4097, "put"}, {4096, "hold"}, {1, "put"}}})
	if nontriv < 2 {
		r.EngineError("pool leg vacuous: only %d histories reused dirty memory", nontriv)
	}
}
