//go:build verif

package mem

import (
	"bytes"
	"fmt"
	"io"
	"strings"
	"sync"
	"testing"
	"unsafe"

	"google.golang.org/grpc/internal/verif/seqx"
	"google.golang.org/grpc/internal/verif/vk"
)

// ---- C53: pooled buffers are released exactly once and never leak old data ----
//
// E2 (seqx BFS over operation sequences on fresh real Buffers / BufferSlices /
// Readers) with a tracking + poisoning pool.
//
// The oracle is a flat LEDGER written from the property statement: every
// reference the client holds (a Buffer it was handed by NewBuffer / Copy / Ref /
// Slice / split / MaterializeToBuffer / ReadAll and has not freed, every entry
// of a BufferSlice, every not yet consumed entry of an open Reader) pins the
// memory it points into. The pool must see that memory exactly once, at the
// step that releases the last reference, and never earlier; until then every
// reference reads the bytes that were originally put there. The pool poisons
// memory on Put, so a premature Put shows up as wrong bytes as well.

const (
	c53P      = "C53"
	c53Poison = 0xDB
	c53Dirty  = 0xA5
)

// ------------------------------------------------------------ the pool ----

type c53Alloc struct {
	id      int
	base    uintptr
	backing []byte // full capacity
	fromGet bool
	puts    int
	root    *c53Root
}

type c53Pool struct {
	allocs []*c53Alloc
	fails  []seqx.Fail
	gets   int
	arena  *c53Arena
}

// c53Arena is recycled scratch memory for one run (fresh heap memory is
// expensive to touch; nothing of a run outlives it). Every byte handed out is
// overwritten by the caller before use.
type c53Arena struct {
	buf []byte
	off int
}

var c53ArenaPool = sync.Pool{New: func() any { return &c53Arena{buf: make([]byte, 192<<10)} }}

func (a *c53Arena) alloc(n, c int) []byte {
	c = (c + 63) &^ 63
	if a == nil || a.off+c > len(a.buf) {
		return make([]byte, n, max(c, n))
	}
	b := a.buf[a.off : a.off+n : a.off+c]
	a.off += c
	return b
}

func (p *c53Pool) fail(class, format string, a ...any) {
	for _, f := range p.fails {
		if f.Key == class {
			return
		}
	}
	p.fails = append(p.fails, seqx.Fail{Prop: c53P, Key: class, Desc: fmt.Sprintf(format, a...)})
}

func c53Base(b []byte) uintptr {
	if cap(b) == 0 {
		return 0
	}
	return uintptr(unsafe.Pointer(unsafe.SliceData(b[:1])))
}

// register makes harness-owned memory known to the pool (NewBuffer takes
// caller memory and later returns it to the pool).
func (p *c53Pool) register(b []byte, fromGet bool) *c53Alloc {
	a := &c53Alloc{id: len(p.allocs), backing: b[:cap(b)], fromGet: fromGet, base: c53Base(b)}
	p.allocs = append(p.allocs, a)
	return a
}

// Get hands out fresh DIRTY memory of length n and a capacity rounded up to a
// multiple of 512 (real pools hand out cap >= n too).
func (p *c53Pool) Get(n int) *[]byte {
	p.gets++
	c := (n + 511) / 512 * 512
	b := p.arena.alloc(n, c)
	b = b[:n:c]
	c53Fill(b[:c], c53Dirty)
	p.register(b, true)
	return &b
}

func (p *c53Pool) find(addr uintptr) *c53Alloc {
	for _, a := range p.allocs {
		if a.base != 0 && addr >= a.base && addr < a.base+uintptr(len(a.backing)) {
			return a
		}
	}
	return nil
}

func (p *c53Pool) Put(b *[]byte) {
	if b == nil {
		p.fail("put-nil", "Put(nil)")
		return
	}
	if cap(*b) == 0 {
		p.fail("put-empty", "Put of a zero-capacity slice: the pooled memory cannot be identified/reused")
		return
	}
	addr := c53Base(*b)
	a := p.find(addr)
	switch {
	case a == nil:
		p.fail("put-unknown", "Put of memory the pool never handed out and the client never registered")
		return
	case a.base != addr || cap(*b) != len(a.backing):
		p.fail("put-not-prefix", "Put of a slice that is not a prefix of allocation #%d: starts %d bytes in, cap %d of %d", a.id, addr-a.base, cap(*b), len(a.backing))
	}
	a.puts++
	if a.puts > 1 {
		p.fail("double-put", "allocation #%d was returned to the pool %d times", a.id, a.puts)
	}
	c53Fill(a.backing, c53Poison)
}

// ----------------------------------------------------------- the model ----

// c53Root is one piece of memory with its original contents.
type c53Root struct {
	id     int
	alloc  *c53Alloc
	lo     int    // data describes alloc.backing[lo:lo+len(data)]
	data   []byte // original bytes
	pooled bool   // capacity above the pooling threshold: must go back to the pool
}

// c53View is one real Buffer. For reference-counted buffers (*buffer) it stands
// for the OBJECT (Ref hands out the same object; SplitUnsafe/ReadUnsafe modify
// the receiver), for plain values (SliceBuffer, emptyBuffer) every slot has its
// own copy.
type c53View struct {
	root    *c53Root
	off     int // relative to root.data
	end     int
	counted bool
	obj     Buffer
}

func (v *c53View) exp() []byte {
	if v.root == nil {
		return nil
	}
	return v.root.data[v.off:v.end]
}
func (v *c53View) length() int { return v.end - v.off }

type c53Rd struct {
	r      *Reader
	ents   []*c53View
	ends   []int // cumulative end offset of every entry
	exp    []byte
	pos    int
	closed bool
}

type c53World struct {
	pool     *c53Pool
	roots    []*c53Root
	h        []*c53View
	s, s2    []*c53View
	rd       *c53Rd
	maxH     int
	stale    bool // probe dead objects (sequential scenario only)
	fails    []seqx.Fail
	patterns int
	obs      string
}

func (w *c53World) fail(class, format string, a ...any) {
	for _, f := range w.fails {
		if f.Key == class {
			return
		}
	}
	w.fails = append(w.fails, seqx.Fail{Prop: c53P, Key: class, Desc: fmt.Sprintf(format, a...)})
}

// pattern returns n fresh bytes, different for every call and never equal to
// the poison or the pool's dirty filler.
func (w *c53World) pattern(n int) []byte {
	w.patterns++
	b := w.pool.arena.alloc(n, n)
	add := byte(w.patterns * 61 % 160)
	for i := range b {
		x := c53PatBase[i] + add
		if x >= 160 {
			x -= 160
		}
		b[i] = x
	}
	return b
}

var c53PatBase = func() []byte {
	b := make([]byte, 4096)
	for i := range b {
		b[i] = byte((i*7 + i/251) % 160)
	}
	return b
}()

func (w *c53World) newRoot(a *c53Alloc, lo int, data []byte) *c53Root {
	cp := w.pool.arena.alloc(len(data), len(data))
	copy(cp, data)
	r := &c53Root{id: len(w.roots), alloc: a, lo: lo, data: cp}
	if a != nil {
		r.pooled = !IsBelowBufferPoolingThreshold(len(a.backing))
		a.root = r
	}
	w.roots = append(w.roots, r)
	return r
}

func c53IsBuf(b Buffer) (*buffer, bool) {
	x, ok := b.(*buffer)
	return x, ok
}

func c53Same(a, b Buffer) bool {
	x, ok1 := a.(*buffer)
	y, ok2 := b.(*buffer)
	return ok1 && ok2 && x == y
}

// adopt builds the model view of a Buffer the real code just handed out. exp
// is what it must contain; hint is the root it derives from (nil if it must be
// new memory); share lists live views whose object it may legitimately be.
func (w *c53World) adopt(b Buffer, exp []byte, hint *c53Root, hintOff int, share []*c53View) *c53View {
	if b == nil {
		w.fail("nil-buffer", "the API returned a nil Buffer")
		return &c53View{obj: emptyBuffer{}}
	}
	for _, v := range share {
		if v.counted && c53Same(v.obj, b) {
			return v
		}
	}
	_, counted := c53IsBuf(b)
	v := &c53View{obj: b, counted: counted}
	data := c53SafeData(b)
	if len(data) == 0 {
		// a zero-length result may or may not pin memory (both conform);
		// if it is reference counted it pins what it derives from
		if counted {
			if bb, _ := c53IsBuf(b); bb.rootBuf != nil && bb.rootBuf.origData != nil {
				if a := w.pool.find(c53Base(*bb.rootBuf.origData)); a != nil && a.root != nil {
					hint = a.root
				}
			}
			v.root, v.off, v.end = hint, min(hintOff, c53Len(hint)), min(hintOff, c53Len(hint))
		}
		if v.root == nil {
			v.root = w.newRoot(nil, 0, nil)
		}
		return v
	}
	a := w.pool.find(c53Base(data))
	switch {
	case a != nil && a.root != nil:
		v.root = a.root
		v.off = int(c53Base(data)-a.base) - a.root.lo
		v.end = v.off + len(data)
		if v.off < 0 || v.end > len(a.root.data) {
			w.fail("view-outside-root", "a Buffer views bytes [%d,%d) of allocation #%d, outside the %d bytes that were ever filled", v.off+a.root.lo, v.end+a.root.lo, a.id, len(a.root.data))
			v.off, v.end = 0, 0
		}
	case a != nil:
		lo := int(c53Base(data) - a.base)
		v.root = w.newRoot(a, lo, exp)
		v.off, v.end = 0, len(data)
		if len(data) != len(exp) {
			v.end = min(len(data), len(exp)) // content check reports the length mismatch
		}
	default:
		v.root = w.newRoot(nil, 0, exp)
		v.off, v.end = 0, min(len(data), len(exp))
	}
	return v
}

func c53Len(r *c53Root) int {
	if r == nil {
		return 0
	}
	return len(r.data)
}

func c53SafeData(b Buffer) (d []byte) {
	defer func() {
		if recover() != nil {
			d = nil
		}
	}()
	return b.ReadOnlyData()
}

// clone gives a slot its own copy of a plain view (value semantics).
func c53SlotCopy(v *c53View) *c53View {
	if v.counted {
		return v
	}
	c := *v
	return &c
}

func (w *c53World) readerHolds(v *c53View) bool {
	if w.rd == nil || w.rd.closed {
		return false
	}
	for _, e := range w.rd.ents {
		if e == v {
			return true
		}
	}
	return false
}

// ---------------------------------------------------------- the ledger ----

func (w *c53World) ledger() {
	type cnt struct{ definite, optional int }
	c := map[*c53Root]*cnt{}
	for _, r := range w.roots {
		c[r] = &cnt{}
	}
	add := func(v *c53View, optional bool) {
		if !v.counted || v.root == nil {
			return
		}
		if optional {
			c[v.root].optional++
		} else {
			c[v.root].definite++
		}
	}
	for _, v := range w.h {
		add(v, false)
	}
	for _, v := range w.s {
		add(v, false)
	}
	for _, v := range w.s2 {
		add(v, false)
	}
	if w.rd != nil && !w.rd.closed {
		for i, v := range w.rd.ents {
			// an entry whose bytes were all consumed may already have been released
			add(v, w.rd.pos >= w.rd.ends[i])
		}
	}
	for _, r := range w.roots {
		if r.alloc == nil || !r.pooled {
			continue
		}
		k := c[r]
		switch {
		case k.definite > 0 && r.alloc.puts > 0:
			w.fail("put-while-referenced", "allocation #%d went back to the pool while %d reference(s) to it are still live", r.alloc.id, k.definite)
		case k.definite == 0 && k.optional == 0 && r.alloc.puts == 0:
			w.fail("leak", "allocation #%d (cap %d, above the pooling threshold) was not returned to the pool although every reference to it has been freed", r.alloc.id, len(r.alloc.backing))
		}
	}
	for _, a := range w.pool.allocs {
		if a.fromGet && a.root == nil && a.puts == 0 && !IsBelowBufferPoolingThreshold(len(a.backing)) {
			w.fail("leak-unwrapped", "allocation #%d was taken from the pool by the library, is referenced by no Buffer and was not put back", a.id)
		}
	}
}

// ------------------------------------------------------- observations ----

func (w *c53World) checkView(where string, v *c53View) {
	defer func() {
		if p := recover(); p != nil {
			w.fail("panic-on-live-reference", "%s: reading a live reference panicked: %v", where, p)
		}
	}()
	got := v.obj.ReadOnlyData()
	exp := v.exp()
	if !bytes.Equal(got, exp) {
		d := 0
		for d < len(got) && d < len(exp) && got[d] == exp[d] {
			d++
		}
		what := "different bytes"
		if d < len(got) && got[d] == c53Poison {
			what = "POISON (memory already returned to the pool)"
		} else if d < len(got) && got[d] == c53Dirty {
			what = "uninitialised pool memory"
		}
		w.fail("live-reference-reads-wrong-bytes", "%s: live reference reads %d bytes, want %d original bytes; first difference at %d: %s", where, len(got), len(exp), d, what)
	}
	if l := v.obj.Len(); l != len(exp) {
		w.fail("len", "%s: Len()=%d want %d", where, l, len(exp))
	}
}

func c53Concat(vs []*c53View) []byte {
	var out []byte
	for _, v := range vs {
		out = append(out, v.exp()...)
	}
	return out
}

func c53Real(vs []*c53View) BufferSlice {
	out := make(BufferSlice, len(vs))
	for i, v := range vs {
		out[i] = v.obj
	}
	return out
}

func (w *c53World) checkSlice(name string, vs []*c53View) {
	if vs == nil {
		return
	}
	defer func() {
		if p := recover(); p != nil {
			w.fail("panic-on-live-reference", "%s: reading a live BufferSlice panicked: %v", name, p)
		}
	}()
	s := c53Real(vs)
	exp := c53Concat(vs)
	if l := s.Len(); l != len(exp) {
		w.fail("slice-len", "%s.Len()=%d want %d", name, l, len(exp))
	}
	if m := s.Materialize(); !bytes.Equal(m, exp) {
		w.fail("materialize", "%s.Materialize() returned %d bytes that differ from the %d referenced bytes", name, len(m), len(exp))
	}
	for _, n := range []int{len(exp) + 3, len(exp) / 2} {
		dst := bytes.Repeat([]byte{0xEE}, n)
		got := s.CopyTo(dst)
		want := min(n, len(exp))
		if got != want || !bytes.Equal(dst[:want], exp[:want]) {
			w.fail("copyto", "%s.CopyTo(dst[%d]) = %d, want %d and the referenced bytes", name, n, got, want)
		}
		for _, x := range dst[want:] {
			if x != 0xEE {
				w.fail("copyto", "%s.CopyTo wrote past the bytes it reported", name)
				break
			}
		}
	}
}

func (w *c53World) checkReader() {
	rd := w.rd
	if rd == nil {
		return
	}
	defer func() {
		if p := recover(); p != nil {
			w.fail("panic-on-live-reference", "observing an open Reader panicked: %v", p)
		}
	}()
	rem := len(rd.exp) - rd.pos
	if rd.closed {
		rem = 0
	}
	if got := rd.r.Remaining(); got != rem {
		w.fail("reader-remaining", "Reader.Remaining()=%d want %d", got, rem)
	}
	if rd.closed {
		return
	}
	rest := rd.exp[rd.pos:]
	for _, n := range []int{0, 1, rem, rem + 1} {
		res, err := rd.r.Peek(n, nil)
		if n > rem {
			if err == nil {
				w.fail("peek", "Peek(%d) with %d bytes remaining returned no error", n, rem)
			}
			continue
		}
		if err != nil {
			w.fail("peek", "Peek(%d) with %d bytes remaining failed: %v", n, rem, err)
			continue
		}
		var cat []byte
		for _, x := range res {
			cat = append(cat, x...)
		}
		if !bytes.Equal(cat, rest[:n]) {
			w.fail("peek", "Peek(%d) returned %d bytes that are not the next referenced bytes", n, len(cat))
		}
	}
}

func (w *c53World) observe() {
	for i, v := range w.h {
		w.checkView(fmt.Sprintf("handle %d", i), v)
	}
	for i, v := range w.s {
		w.checkView(fmt.Sprintf("S[%d]", i), v)
	}
	for i, v := range w.s2 {
		w.checkView(fmt.Sprintf("T[%d]", i), v)
	}
	w.checkSlice("S", w.s)
	w.checkSlice("T", w.s2)
	w.checkReader()
	w.ledger()
}

// ---------------------------------------------------------------- key ----

func (w *c53World) key() string {
	var sb strings.Builder
	rid := map[*c53Root]int{}
	vid := map[*c53View]int{}
	view := func(v *c53View) {
		if id, ok := vid[v]; ok && v.counted {
			fmt.Fprintf(&sb, "v%d ", id)
			return
		}
		id := len(vid)
		vid[v] = id
		r, seenRoot := rid[v.root]
		if !seenRoot {
			r = len(rid)
			rid[v.root] = r
		}
		fmt.Fprintf(&sb, "v%d{r%d %d:%d", id, r, v.off, v.end)
		switch b := v.obj.(type) {
		case *buffer:
			rr := int32(-1)
			if b.rootBuf != nil {
				rr = b.rootBuf.refs.Load()
			}
			fmt.Fprintf(&sb, " buf refs=%d root=%v rootrefs=%d len=%d", b.refs.Load(), b.rootBuf == b, rr, len(b.data))
		case SliceBuffer:
			fmt.Fprintf(&sb, " slice len=%d", len(b))
		case emptyBuffer:
			sb.WriteString(" empty")
		default:
			fmt.Fprintf(&sb, " %T", b)
		}
		if !seenRoot && v.root != nil {
			puts, cp := -1, 0
			if v.root.alloc != nil {
				puts, cp = v.root.alloc.puts, len(v.root.alloc.backing)
			}
			fmt.Fprintf(&sb, " R{n=%d cap=%d pooled=%v puts=%d}", len(v.root.data), cp, v.root.pooled, puts)
		}
		sb.WriteString("} ")
	}
	sb.WriteString("H[")
	for _, v := range w.h {
		view(v)
	}
	sb.WriteString("] S[")
	for _, v := range w.s {
		view(v)
	}
	if w.s == nil {
		sb.WriteString("-")
	}
	sb.WriteString("] T[")
	for _, v := range w.s2 {
		view(v)
	}
	if w.s2 == nil {
		sb.WriteString("-")
	}
	sb.WriteString("] R[")
	if w.rd == nil {
		sb.WriteString("-")
	} else {
		fmt.Fprintf(&sb, "pos=%d/%d closed=%v impl{len=%d idx=%d n=%d} ", w.rd.pos, len(w.rd.exp), w.rd.closed, w.rd.r.len, w.rd.r.bufferIdx, len(w.rd.r.data))
		if !w.rd.closed {
			for i, v := range w.rd.ents {
				if w.rd.pos >= w.rd.ends[i] {
					// consumed: the reader may already have released it, so the
					// real object may be dead (and recycled) - not ours to read
					sb.WriteString("consumed ")
					continue
				}
				view(v)
			}
		}
	}
	sb.WriteString("]")
	return sb.String()
}

// ----------------------------------------------------------------- ops ----

type c53Op struct {
	name string
	// f applies the op to the real objects and the model; returns true if the
	// op is not applicable in this state.
	f func(w *c53World) (skip bool)
}

func (w *c53World) addHandle(v *c53View) { w.h = append(w.h, v) }

func (w *c53World) dropHandle(i int) {
	w.h = append(append([]*c53View(nil), w.h[:i]...), w.h[i+1:]...)
}

// pinned counts the reference-counted holders of anything on root r. Only when
// it is zero is every Buffer object on r guaranteed dead (the object created by
// NewBuffer stays alive, by design, for as long as any slice/split piece of it
// lives, even after its own last reference was freed).
func (w *c53World) pinned(r *c53Root) int {
	n := 0
	for _, l := range [][]*c53View{w.h, w.s, w.s2} {
		for _, x := range l {
			if x.counted && x.root == r {
				n++
			}
		}
	}
	if w.rd != nil && !w.rd.closed {
		for _, x := range w.rd.ents {
			if x.counted && x.root == r {
				n++
			}
		}
	}
	return n
}

func c53MustPanic(f func()) (panicked bool) {
	defer func() {
		if recover() != nil {
			panicked = true
		}
	}()
	f()
	return false
}

// probeDead: after the last reference to a reference-counted Buffer object is
// gone, every further use of the stale object must panic (and must leave every
// other buffer intact, which the next observation checks).
func (w *c53World) probeDead(v *c53View) {
	b, ok := c53IsBuf(v.obj)
	if !ok {
		return
	}
	probes := []struct {
		name string
		f    func()
	}{
		{"ReadOnlyData", func() { b.ReadOnlyData() }},
		{"Len", func() { b.Len() }},
		{"Slice", func() { b.Slice(0, 0) }},
		{"split", func() { SplitUnsafe(b, 0) }},
		{"read", func() { ReadUnsafe(nil, b) }},
		{"Free", func() { b.Free() }},
		{"Ref", func() { b.Ref() }},
	}
	for _, p := range probes {
		if !c53MustPanic(p.f) {
			w.fail("use-after-free-not-refused:"+p.name, "%s on a Buffer whose last reference was just freed did not panic", p.name)
		}
	}
	w.obs = "stale-use-refused"
}

func c53Ops(maxH int) []c53Op {
	var ops []c53Op
	add := func(name string, f func(w *c53World) bool) { ops = append(ops, c53Op{name, f}) }
	room := func(w *c53World) bool { return len(w.h) < w.maxH }

	add("h+=NewBuffer(1401/2048)", func(w *c53World) bool {
		if !room(w) {
			return true
		}
		data := w.pool.arena.alloc(1401, 2048)
		data = data[:1401:2048]
		copy(data, w.pattern(1401))
		c53Fill(data[1401:2048], c53Dirty)
		a := w.pool.register(data, false)
		root := w.newRoot(a, 0, data)
		b := NewBuffer(&data, w.pool)
		w.addHandle(w.adopt(b, root.data, root, 0, nil))
		return false
	})
	add("h+=Copy(1400)", func(w *c53World) bool {
		if !room(w) {
			return true
		}
		src := w.pattern(1400)
		b := Copy(src, w.pool)
		w.addHandle(w.adopt(b, src, nil, 0, nil))
		return false
	})
	add("h+=NewBuffer(699/1024,unpooled)", func(w *c53World) bool {
		if !room(w) {
			return true
		}
		data := w.pool.arena.alloc(699, 1024)
		data = data[:699:1024]
		copy(data, w.pattern(699))
		a := w.pool.register(data, false)
		root := w.newRoot(a, 0, data)
		b := NewBuffer(&data, w.pool)
		w.addHandle(w.adopt(b, root.data, root, 0, nil))
		return false
	})
	for i := 0; i < maxH; i++ {
		i := i
		add(fmt.Sprintf("h%d.Ref()", i), func(w *c53World) bool {
			if i >= len(w.h) || !room(w) {
				return true
			}
			v := w.h[i]
			v.obj.Ref()
			w.addHandle(c53SlotCopy(v))
			return false
		})
		add(fmt.Sprintf("h%d.Free()", i), func(w *c53World) bool {
			if i >= len(w.h) {
				return true
			}
			v := w.h[i]
			v.obj.Free()
			w.dropHandle(i)
			if w.stale && v.counted && w.pinned(v.root) == 0 {
				w.probeDead(v)
			}
			return false
		})
	}
	for i := 0; i < maxH; i++ {
		i := i
		for _, variant := range []string{"full", "mid", "empty"} {
			variant := variant
			add(fmt.Sprintf("h+=h%d.Slice(%s)", i, variant), func(w *c53World) bool {
				if i >= len(w.h) || !room(w) {
					return true
				}
				v := w.h[i]
				l := v.length()
				var a, b int
				switch variant {
				case "full":
					a, b = 0, l
				case "mid":
					a, b = l/3, l-l/3
					if a == 0 || b <= a {
						return true
					}
				case "empty":
					if l == 0 {
						return true
					}
					a, b = 0, 0
				}
				nb := v.obj.Slice(a, b)
				w.addHandle(w.adopt(nb, v.exp()[a:b], v.root, v.off+a, []*c53View{v}))
				return false
			})
		}
	}
	for i := 0; i < maxH; i++ {
		i := i
		for _, variant := range []string{"0", "mid", "len"} {
			variant := variant
			add(fmt.Sprintf("h%d/h+=SplitUnsafe(h%d:%s)", i, i, variant), func(w *c53World) bool {
				if i >= len(w.h) || !room(w) {
					return true
				}
				v := w.h[i]
				if w.readerHolds(v) {
					return true // a Reader caches the length of what it holds
				}
				l := v.length()
				n := 0
				switch variant {
				case "mid":
					n = l / 2
					if n == 0 {
						return true
					}
				case "len":
					n = l
					if n == 0 {
						return true
					}
				}
				exp := v.exp()
				left, right := SplitUnsafe(v.obj, n)
				if v.counted && c53Same(left, v.obj) {
					v.end = v.off + n // the receiver now views the first n bytes, for every holder
				} else {
					w.h[i] = w.adopt(left, exp[:n], v.root, v.off, nil)
				}
				w.addHandle(w.adopt(right, exp[n:], v.root, v.off+n, nil))
				return false
			})
		}
	}
	for i := 0; i < maxH; i++ {
		i := i
		for _, variant := range []string{"100", "all"} {
			variant := variant
			add(fmt.Sprintf("h%d=ReadUnsafe(%s:h%d)", i, variant, i), func(w *c53World) bool {
				if i >= len(w.h) {
					return true
				}
				v := w.h[i]
				if w.readerHolds(v) {
					return true
				}
				l := v.length()
				k := l + 1
				if variant == "100" {
					k = 100
					if l <= k {
						return true
					}
				}
				exp := append([]byte(nil), v.exp()...)
				dst := bytes.Repeat([]byte{0xEE}, k)
				n, rest := ReadUnsafe(dst, v.obj)
				want := min(k, l)
				if n != want || !bytes.Equal(dst[:want], exp[:want]) {
					w.fail("read-unsafe", "ReadUnsafe(dst[%d]) on %d referenced bytes returned n=%d / other bytes", k, l, n)
				}
				switch {
				case rest == nil:
					if n < l {
						w.fail("read-unsafe", "ReadUnsafe returned no remainder although %d bytes are unread", l-n)
					}
					w.dropHandle(i) // the reference was consumed
					if w.stale && v.counted && w.pinned(v.root) == 0 {
						w.probeDead(v)
					}
				case v.counted && c53Same(rest, v.obj):
					v.off += n
				default:
					w.h[i] = w.adopt(rest, exp[n:], v.root, v.off+n, nil)
				}
				return false
			})
		}
	}
	return ops
}

func c53SliceOps() []c53Op {
	var ops []c53Op
	add := func(name string, f func(w *c53World) bool) { ops = append(ops, c53Op{name, f}) }
	push := func(last bool) func(w *c53World) bool {
		return func(w *c53World) bool {
			if len(w.h) == 0 || len(w.s) >= 3 || (last && len(w.h) == 1) {
				return true
			}
			i := 0
			if last {
				i = len(w.h) - 1
			}
			w.s = append(append([]*c53View{}, w.s...), w.h[i])
			w.dropHandle(i)
			return false
		}
	}
	add("S+=h0", push(false))
	add("S+=hLast", push(true))
	add("T=S;S.Ref()", func(w *c53World) bool {
		if len(w.s) == 0 || w.s2 != nil {
			return true
		}
		c53Real(w.s).Ref()
		w.s2 = []*c53View{}
		for _, v := range w.s {
			w.s2 = append(w.s2, c53SlotCopy(v))
		}
		return false
	})
	add("S.Free()", func(w *c53World) bool {
		if w.s == nil {
			return true
		}
		c53Real(w.s).Free()
		w.s = nil
		return false
	})
	add("T.Free()", func(w *c53World) bool {
		if w.s2 == nil {
			return true
		}
		c53Real(w.s2).Free()
		w.s2 = nil
		return false
	})
	add("h+=S.MaterializeToBuffer()", func(w *c53World) bool {
		if w.s == nil || len(w.h) >= w.maxH {
			return true
		}
		nb := c53Real(w.s).MaterializeToBuffer(w.pool)
		w.addHandle(w.adopt(nb, c53Concat(w.s), nil, 0, w.s))
		return false
	})
	mkReader := func(w *c53World, r *Reader) {
		rd := &c53Rd{r: r, exp: c53Concat(w.s)}
		for _, v := range w.s {
			rd.ents = append(rd.ents, c53SlotCopy(v))
			rd.ends = append(rd.ends, len(c53Concat(rd.ents)))
		}
		w.rd = rd
	}
	add("R=S.Reader()", func(w *c53World) bool {
		if w.s == nil || w.rd != nil {
			return true
		}
		mkReader(w, c53Real(w.s).Reader())
		return false
	})
	add("R.Reset(S)", func(w *c53World) bool {
		if w.s == nil || w.rd == nil {
			return true
		}
		r := w.rd.r
		r.Reset(c53Real(w.s))
		mkReader(w, r)
		return false
	})
	for _, k := range []int{1, 700, 5000} {
		k := k
		add(fmt.Sprintf("R.Read(%d)", k), func(w *c53World) bool {
			rd := w.rd
			if rd == nil {
				return true
			}
			rem := len(rd.exp) - rd.pos
			if rd.closed {
				rem = 0
			}
			dst := bytes.Repeat([]byte{0xEE}, k)
			n, err := rd.r.Read(dst)
			switch {
			case rem == 0:
				if n != 0 || err != io.EOF {
					w.fail("reader-read", "Read on an exhausted/closed Reader returned (%d, %v), want (0, EOF)", n, err)
				}
			case n <= 0 || n > min(k, rem) || (err != nil && err != io.EOF):
				w.fail("reader-read", "Read(buf[%d]) with %d bytes remaining returned (%d, %v)", k, rem, n, err)
				n = max(0, min(n, min(k, rem)))
			}
			if rem > 0 {
				if !bytes.Equal(dst[:n], rd.exp[rd.pos:rd.pos+n]) {
					what := ""
					if bytes.IndexByte(dst[:n], c53Poison) >= 0 {
						what = " (contains POISON: memory already returned to the pool)"
					}
					w.fail("reader-wrong-bytes", "Read delivered %d bytes that are not the next referenced bytes%s", n, what)
				}
				rd.pos += n
			}
			return false
		})
	}
	for _, k := range []int{1, 700, 5000} {
		k := k
		add(fmt.Sprintf("R.Discard(%d)", k), func(w *c53World) bool {
			rd := w.rd
			if rd == nil {
				return true
			}
			rem := len(rd.exp) - rd.pos
			if rd.closed {
				rem = 0
			}
			n, err := rd.r.Discard(k)
			want := min(k, rem)
			if n != want || (err == nil) != (want == k) {
				w.fail("reader-discard", "Discard(%d) with %d bytes remaining returned (%d, %v)", k, rem, n, err)
			}
			if !rd.closed {
				rd.pos += want
			}
			return false
		})
	}
	add("R.ReadByte()", func(w *c53World) bool {
		rd := w.rd
		if rd == nil {
			return true
		}
		rem := len(rd.exp) - rd.pos
		if rd.closed {
			rem = 0
		}
		b, err := rd.r.ReadByte()
		if rem == 0 {
			if err != io.EOF {
				w.fail("reader-read", "ReadByte on an exhausted/closed Reader returned (%d, %v), want EOF", b, err)
			}
			return false
		}
		if err != nil || b != rd.exp[rd.pos] {
			w.fail("reader-wrong-bytes", "ReadByte returned (%#x, %v), want %#x", b, err, rd.exp[rd.pos])
		}
		rd.pos++
		return false
	})
	add("R.Close()", func(w *c53World) bool {
		rd := w.rd
		if rd == nil || rd.closed {
			return true
		}
		if err := rd.r.Close(); err != nil {
			w.fail("reader-close", "Close returned %v", err)
		}
		rd.closed = true
		return false
	})
	add("T=ReadAll(R)", func(w *c53World) bool {
		rd := w.rd
		if rd == nil || w.s2 != nil {
			return true
		}
		rest := rd.exp[rd.pos:]
		if rd.closed {
			rest = nil
		}
		res, err := ReadAll(rd.r, w.pool)
		if err != nil {
			w.fail("readall", "ReadAll returned %v", err)
		}
		w.s2 = []*c53View{}
		off := 0
		for _, b := range res {
			l := len(c53SafeData(b))
			hi := min(off+l, len(rest))
			lo := min(off, hi)
			w.s2 = append(w.s2, w.adopt(b, rest[lo:hi], nil, 0, nil))
			off += l
		}
		if off != len(rest) {
			w.fail("readall", "ReadAll produced %d bytes, the reader had %d left", off, len(rest))
		}
		if !rd.closed {
			rd.pos = len(rd.exp)
		}
		return false
	})
	return ops
}

func c53Names(ops []c53Op) []string {
	out := make([]string, len(ops))
	for i, o := range ops {
		out[i] = o.name
	}
	return out
}

func c53Runner(ops []c53Op, maxH int, stale, everyStep bool) func(hist []int) seqx.Outcome {
	return func(hist []int) (out seqx.Outcome) {
		arena := c53ArenaPool.Get().(*c53Arena)
		arena.off = 0
		defer c53ArenaPool.Put(arena)
		w := &c53World{pool: &c53Pool{arena: arena}, maxH: maxH, stale: stale}
		cur := "init"
		defer func() {
			if p := recover(); p != nil {
				w.fail("panic:"+strings.SplitN(cur, "(", 2)[0], "legal operation %q panicked: %v", cur, p)
				out = seqx.Outcome{Key: "panic " + fmt.Sprint(hist), Terminal: true, Fails: append(w.fails, w.pool.fails...), Obs: "panic"}
			}
		}()
		skip := false
		for i, h := range hist {
			cur = ops[h].name
			w.obs = ""
			skip = ops[h].f(w)
			if skip {
				if i != len(hist)-1 {
					// cannot happen: seqx only extends applicable histories
					return seqx.Outcome{Key: "inapplicable-prefix", Skip: true}
				}
				return seqx.Outcome{Skip: true}
			}
			if everyStep || i == len(hist)-1 {
				w.observe()
			}
		}
		if len(hist) == 0 {
			w.observe()
		}
		obs := w.obs
		if obs == "" {
			obs = c53ObsClass(w)
		}
		fails := append(append([]seqx.Fail(nil), w.fails...), w.pool.fails...)
		return seqx.Outcome{Key: w.key(), Fails: fails, Obs: obs, Terminal: len(fails) > 0}
	}
}

func c53ObsClass(w *c53World) string {
	put, live := 0, 0
	for _, r := range w.roots {
		if r.alloc != nil && r.pooled {
			if r.alloc.puts > 0 {
				put++
			} else {
				live++
			}
		}
	}
	return fmt.Sprintf("pooled-roots:returned=%d,pinned=%d", min(put, 2), min(live, 2))
}

func TestVerif_C53_Mem(t *testing.T) {
	r := vk.Start(t, "c53_mem", "model_checking", c53P)
	defer r.Finish()
	r.Rule(c53P, "BFS over all operation sequences up to the depth bound on fresh real Buffers/BufferSlices/Readers with a tracking pool that hands out dirty memory and poisons on Put; a state = handles, slice registers S/T, reader R with the private refcounts/offsets of every real object plus the ledger; after the last (thorough: every) step every live reference is read back through ReadOnlyData/Len/Materialize/CopyTo/Peek/Remaining and the ledger (Put exactly once, exactly when the last reference goes) is checked. Distinct non-trivial = distinct states.")
	r.Assume(c53P, "Buffers are used from one goroutine; SplitUnsafe/ReadUnsafe are not applied to a Buffer object an open Reader holds (a Reader caches lengths); a zero-length result may or may not pin memory (decided by its dynamic type)")
	r.Assume(c53P, "a Reader may release a fully consumed buffer at once or only at Close/Reset (both satisfy the statement); memory with capacity at or below the pooling threshold is not 'pooled' and is exempt from the must-return rule")
	r.Assume(c53P, "use of a Buffer object after its last reference is freed is probed only immediately after the free, in a sequential scenario (the object goes back to a sync.Pool and may be legitimately recycled afterwards)")

	every := r.Thorough()
	run := func(name string, ops []c53Op, maxH, depth int, minStates int64) {
		seqx.BFS(r, []string{c53P}, seqx.Config{
			Name: name, Ops: c53Names(ops), MaxDepth: depth, Parallel: 16,
			Congruence: r.Thorough(), CongruenceMax: 100, MinStates: minStates,
			Run: c53Runner(ops, maxH, false, every),
		})
	}
	full := func(h int) []c53Op { return append(c53Ops(h), c53SliceOps()...) }
	if r.Thorough() {
		run("all-ops/4-handles", full(4), 4, 6, 1000)
		run("all-ops/3-handles", full(3), 3, 7, 1000)
		run("core-ops-deep/3-handles", c53Core(full(3)), 3, 8, 1000)
	} else {
		run("all-ops/3-handles", full(3), 3, 6, 1000)
	}
	{
		// sequential: dead objects are probed right after the free that killed them
		ops := c53Ops(3)
		seqx.BFS(r, []string{c53P}, seqx.Config{
			Name: "stale-use", Ops: c53Names(ops), MaxDepth: r.Pick(4, 5), Parallel: 1,
			MinStates: 50,
			Run: c53Runner(ops, 3, true, true),
		})
	}
}

// c53Core keeps one variant of every kind of operation (deeper exploration
// with a smaller alphabet).
func c53Core(ops []c53Op) []c53Op {
	keep := func(n string) bool {
		switch {
		case strings.Contains(n, "unpooled"), strings.Contains(n, "Slice(full)"), strings.Contains(n, "Slice(empty)"),
			strings.Contains(n, ":0)"), strings.Contains(n, ":len)"), strings.Contains(n, "ReadUnsafe(all"),
			strings.Contains(n, "hLast"), strings.Contains(n, "(1)"), strings.Contains(n, "(5000)"),
			strings.Contains(n, "Reset"), strings.Contains(n, "ReadByte"), strings.Contains(n, "Discard"):
			return false
		}
		return true
	}
	var out []c53Op
	for _, o := range ops {
		if keep(o.name) {
			out = append(out, o)
		}
	}
	return out
}

