//go:build verif

package wrr

// C46 (leg c): "The cluster is chosen among the route's weighted clusters in
// proportion to their weights" - the xDS config selector delegates the choice
// to wrr.NewRandom() (leg c46b checks that every cluster is added with exactly
// its weight and that the item returned by Next is the cluster used). Here the
// random source of randomWRR (the randInt64n seam) is driven through EVERY
// possible draw for every weight list of the grammar and the number of draws
// on which each item is chosen is compared with its weight.

import (
	"fmt"
	"sort"
	"testing"

	"google.golang.org/grpc/internal/verif/vk"
)

type c46cFail struct {
	ws        []int64
	key, desc string
}

type c46cCase struct {
	Weights []int64 `json:"weights"`
}

// c46cRun drives one weight list through all draws; returns the number of
// possible draws n (the argument the code passes to the random source) and how
// often each item was chosen. err != "" reports a structural problem.
func c46cRun(weights []int64) (n int64, counts []int64, err string) {
	defer func() {
		if p := recover(); p != nil {
			err = fmt.Sprintf("panic: %v", p)
		}
	}()
	w := NewRandom()
	for i, wt := range weights {
		w.Add(i, wt)
	}
	counts = make([]int64, len(weights))
	var calls int
	var draw int64
	var badN string
	saved := randInt64n
	defer func() { randInt64n = saved }()
	randInt64n = func(m int64) int64 {
		calls++
		if n == 0 {
			n = m
		} else if m != n {
			badN = fmt.Sprintf("random source asked for [0,%d) after [0,%d)", m, n)
		}
		return draw
	}
	// first call discovers n
	calls = 0
	it := w.Next()
	if calls != 1 {
		return n, counts, fmt.Sprintf("Next() consulted the random source %d times", calls)
	}
	if n <= 0 {
		return n, counts, fmt.Sprintf("random source asked for [0,%d)", n)
	}
	idx, ok := it.(int)
	if !ok || idx < 0 || idx >= len(weights) {
		return n, counts, fmt.Sprintf("Next() returned %v, not one of the added items", it)
	}
	counts[idx]++
	for draw = 1; draw < n; draw++ {
		calls = 0
		it := w.Next()
		if calls != 1 {
			return n, counts, fmt.Sprintf("Next() consulted the random source %d times", calls)
		}
		idx, ok := it.(int)
		if !ok || idx < 0 || idx >= len(weights) {
			return n, counts, fmt.Sprintf("Next() returned %v on draw %d, not one of the added items", it, draw)
		}
		counts[idx]++
	}
	if badN != "" {
		return n, counts, badN
	}
	return n, counts, ""
}

// c46cCheck applies the oracle. Returns "" or (key, desc).
func c46cCheck(weights []int64) (key, desc, outcome string, draws int64) {
	var sum int64
	for _, w := range weights {
		sum += w
	}
	if sum == 0 {
		// 0/0: the sentence does not define a proportion (the xDS client
		// never builds such a route: all-zero weighted_clusters are NACKed
		// and zero-weight clusters are dropped). Not judged.
		return "", "", "all-weights-zero (not judged)", 0
	}
	n, counts, err := c46cRun(weights)
	if err != "" {
		return fmt.Sprintf("wrr weights=%v: %s", weights, err), err, "error", n
	}
	outcome = "draws==sum(weights)"
	if n != sum {
		outcome = fmt.Sprintf("draws==%d*sum/%d", n, sum)
		if n == int64(len(weights)) {
			outcome = "draws==number of items (all weights equal)"
		}
	}
	for j, w := range weights {
		// chosen on exactly w_j/sum of the n possible draws
		if counts[j]*sum != w*n {
			return fmt.Sprintf("wrr weights=%v item=%d chosen on %d of %d draws", weights, j, counts[j], n),
				fmt.Sprintf("weights %v (sum %d): item %d with weight %d was chosen on %d of the %d possible draws; proportional share is %d*%d/%d", weights, sum, j, w, counts[j], n, w, n, sum), outcome, n
		}
	}
	return "", "", outcome, n
}

func TestVerif_C46_WRR(t *testing.T) {
	const P = "C46"
	r := vk.Start(t, "c46c_wrr", "exploration", P)
	defer r.Finish()
	r.Rule(P, "every weight list of length 1..N over the weight menu (quick: N=4 over {0,1,2,5}; thorough: N=5 over {0,1,2,3,5,7,100}) is added to a fresh wrr.NewRandom() and the randInt64n seam is driven through every value of [0,n) where n is the bound the code itself asks for; oracle: item j is returned on exactly w_j*n/sum(w) of the n draws; non-trivial = draws on lists with >=2 items and a positive weight sum (each (list, draw) pair is distinct)")

	if f := r.ReplayFile(); f != "" {
		var c c46cCase
		if err := r.LoadReplay(&c); err != nil {
			r.EngineError("replay: %v", err)
			return
		}
		key, desc, out, _ := c46cCheck(c.Weights)
		r.Eval(P, 1)
		fmt.Printf("replay: weights=%v outcome=%s violation=%q %s\n", c.Weights, out, key, desc)
		if key != "" {
			r.Violation(P, key, desc, c)
		}
		return
	}

	menu := []int64{0, 1, 2, 5}
	N := 4
	if r.Thorough() {
		menu = []int64{0, 1, 2, 3, 5, 7, 100}
		N = 5
	}
	var lists, evals, nontriv int64
	var fails []c46cFail
	var rec func(prefix []int64)
	rec = func(prefix []int64) {
		if len(prefix) > 0 {
			ws := append([]int64(nil), prefix...)
			key, desc, out, draws := c46cCheck(ws)
			lists++
			if draws == 0 {
				draws = 1
			}
			evals += draws
			if len(ws) >= 2 && out != "all-weights-zero (not judged)" {
				nontriv += draws
			}
			r.Outcome(P, "wrr: "+out)
			if key != "" {
				fails = append(fails, c46cFail{ws, key, desc})
			}
		}
		if len(prefix) == N {
			return
		}
		for _, w := range menu {
			rec(append(prefix, w))
		}
	}
	rec(nil)
	// report the 3 smallest failing weight lists
	sort.SliceStable(fails, func(i, j int) bool {
		a, b := fails[i].ws, fails[j].ws
		if len(a) != len(b) {
			return len(a) < len(b)
		}
		return fmt.Sprint(a) < fmt.Sprint(b)
	})
	for i, f := range fails {
		if i >= 3 {
			break
		}
		r.Violation(P, f.key, fmt.Sprintf("%s (%d failing weight lists in total)", f.desc, len(fails)), c46cCase{Weights: f.ws})
	}
	r.Eval(P, evals)
	r.NontrivialN(P, nontriv)
	r.Set(P, "wrr_weight_lists", lists)
	r.Set(P, "wrr_draws", evals)
	r.Sample(P, map[string]any{"wrr_weights": []int64{1, 2, 5}, "draws": 8, "expected_counts": []int64{1, 2, 5}})
	r.Assume(P, "WRR leg: the xDS resolver uses wrr.NewRandom (rinternal.NewWRR default); math/rand/v2.Int64N(n) is uniform on [0,n) (trusted). Weight lists whose sum is 0 are not judged.")
}
