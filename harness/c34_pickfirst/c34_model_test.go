//go:build verif

package pickfirst

// C34 — reference model (written from the property statement and gRFCs
// A61/A62, not from pickfirst.go) plus the recording fake ClientConn/SubConn
// the real balancer is built on.
//
// The model is deliberately a set of SAFETY/PROGRESS RULES over the recorded
// calls, not a second implementation of the connection cursor: wherever the
// statement is silent the model accepts every behaviour.
//
//   R-ready    READY is reported / a subchannel is returned by a pick only if
//              that subchannel is live (not shut down) and its latest state is
//              READY; after a live subchannel became READY the balancer
//              reports READY, picks it, and every other subchannel is shut down.
//   R-order    inside a pass, effective Connect() requests follow the reference
//              order = interleave(dedup(list)): listed address only, at most
//              one per address, increasing positions, no address skipped that
//              was not already attempted/failed, one new attempt per event.
//   R-he       (fresh pass only) 250 ms after the newest attempt the next
//              address is attempted.
//   R-tf       a pass with every address failed and nothing outstanding has
//              reported TRANSIENT_FAILURE; a pass with nothing outstanding that
//              is not over is a stall; TF is not reported (from a non-TF state)
//              before every address failed.
//   R-refresh  (A61 steady state) after a failed pass, every time as many further
//              connection failures were seen as there are subchannels, TF is
//              reported again (fresh error for the picker).
//   R-owned    what the balancer publishes depends only on subchannels it owns
//              (Shutdown() not called): a connectivity or health update of a
//              subchannel it already shut down causes no NewSubConn / Connect /
//              Shutdown / UpdateState, and a picker never returns such a
//              subchannel.
//   R-health   (health listener enabled) READY is reported only while the
//              selected live subchannel is raw READY and its latest health
//              report is READY; when that holds READY is reported.
//   R-sticky   once TF was reported for connectivity reasons every later
//              report is TF until a live subchannel becomes READY (or the
//              resolver removes every address).

import (
	"fmt"
	"sort"
	"strings"
	"sync"

	"google.golang.org/grpc/balancer"
	"google.golang.org/grpc/connectivity"
	estats "google.golang.org/grpc/experimental/stats"
	"google.golang.org/grpc/resolver"
)

const c34P = "C34"

type c34AddrInfo struct {
	name string
	addr string
	fam  int // 4, 6, 0 (= not an IP literal)
}

var c34AddrTab = []c34AddrInfo{
	{"v4a", "10.0.0.1:443", 4}, {"v4b", "10.0.0.2:443", 4},
	{"v6a", "[2001:db8::a]:443", 6}, {"v6b", "[2001:db8::b]:443", 6},
	{"ha", "host-a.example:443", 0}, {"hb", "host-b.example:443", 0},
}

func c34AddrOf(name string) resolver.Address {
	for _, a := range c34AddrTab {
		if a.name == name {
			return resolver.Address{Addr: a.addr}
		}
	}
	panic("c34: unknown address name " + name)
}

func c34NameOf(addr string) string {
	for _, a := range c34AddrTab {
		if a.addr == addr {
			return a.name
		}
	}
	return "?" + addr
}

func c34FamOf(name string) int {
	for _, a := range c34AddrTab {
		if a.name == name {
			return a.fam
		}
	}
	return -1
}

// c34RefOrder is the specification of address pre-processing: keep the first
// occurrence of every address; the element that is the k-th of its family
// (families ranked by first appearance) sorts by (k, family rank). That is
// exactly "round-robin over the families, first family first" (RFC 8305 §4
// with First Address Family Count = 1) and trivially a permutation that keeps
// the order inside each family.
func c34RefOrder(in []string) []string {
	seen := map[string]bool{}
	var d []string
	for _, x := range in {
		if !seen[x] {
			seen[x] = true
			d = append(d, x)
		}
	}
	type el struct {
		name    string
		k, rank int
	}
	rank := map[int]int{}
	cnt := map[int]int{}
	els := make([]el, 0, len(d))
	for _, x := range d {
		f := c34FamOf(x)
		if _, ok := rank[f]; !ok {
			rank[f] = len(rank)
		}
		els = append(els, el{x, cnt[f], rank[f]})
		cnt[f]++
	}
	sort.SliceStable(els, func(i, j int) bool {
		if els[i].k != els[j].k {
			return els[i].k < els[j].k
		}
		return els[i].rank < els[j].rank
	})
	out := make([]string, len(els))
	for i, e := range els {
		out[i] = e.name
	}
	return out
}

// ---- recording fakes ----

const (
	c34LogNewSC = iota
	c34LogConnect
	c34LogShutdown
	c34LogUpdateState
	c34LogResolveNow
	c34LogOther
	c34LogRegHealth
)

type c34Entry struct {
	kind   int
	sc     *c34SC
	live   bool // Connect: the subconn was not shut down when called
	idle   bool // Connect: the subconn's state was IDLE when called (a real subchannel ignores Connect otherwise)
	state  connectivity.State
	picker balancer.Picker
	what   string
}

type c34SC struct {
	balancer.SubConn // nil; satisfies the embedding enforcement
	w                *c34World
	id               int
	name             string // address name
	nAddrs           int
	listener         func(balancer.SubConnState)
	state            connectivity.State // latest state delivered to the listener
	connectPending   bool               // Connect() was called while IDLE and CONNECTING not yet delivered
	shutdown         bool
	gone             bool // SHUTDOWN was delivered: no further events
	healthListener   func(balancer.SubConnState) // registered since the last connectivity update
	// model annotations
	bornSticky bool
	stamp      int // pass number the flags below belong to
	connected  bool
	tfEvent    bool
	seenTF     bool
	seenBusy   bool
}

func (s *c34SC) Connect() {
	w := s.w
	w.mu.Lock()
	defer w.mu.Unlock()
	w.log = append(w.log, c34Entry{kind: c34LogConnect, sc: s, live: !s.shutdown, idle: s.state == connectivity.Idle})
	if !s.shutdown && s.state == connectivity.Idle {
		s.connectPending = true
	}
}

func (s *c34SC) Shutdown() {
	w := s.w
	w.mu.Lock()
	defer w.mu.Unlock()
	w.log = append(w.log, c34Entry{kind: c34LogShutdown, sc: s})
	// w.lastDead is chosen after the event (pick_first shuts subchannels down
	// in Go map iteration order; the harness must not depend on it)
	s.shutdown = true
}

func (s *c34SC) UpdateAddresses([]resolver.Address) { s.w.other("SubConn.UpdateAddresses") }
func (s *c34SC) RegisterHealthListener(l func(balancer.SubConnState)) {
	w := s.w
	w.mu.Lock()
	defer w.mu.Unlock()
	s.healthListener = l
	w.log = append(w.log, c34Entry{kind: c34LogRegHealth, sc: s})
}
func (s *c34SC) GetOrBuildProducer(balancer.ProducerBuilder) (balancer.Producer, func()) {
	s.w.other("SubConn.GetOrBuildProducer")
	return nil, func() {}
}

type c34CC struct {
	balancer.ClientConn // nil; satisfies the embedding enforcement
	w                   *c34World
}

func (c *c34CC) NewSubConn(addrs []resolver.Address, o balancer.NewSubConnOptions) (balancer.SubConn, error) {
	w := c.w
	w.mu.Lock()
	defer w.mu.Unlock()
	s := &c34SC{w: w, id: len(w.scs), nAddrs: len(addrs), listener: o.StateListener, state: connectivity.Idle}
	if len(addrs) > 0 {
		s.name = c34NameOf(addrs[0].Addr)
	}
	w.scs = append(w.scs, s)
	w.log = append(w.log, c34Entry{kind: c34LogNewSC, sc: s})
	return s, nil
}

func (c *c34CC) UpdateState(st balancer.State) {
	w := c.w
	w.mu.Lock()
	defer w.mu.Unlock()
	w.log = append(w.log, c34Entry{kind: c34LogUpdateState, state: st.ConnectivityState, picker: st.Picker})
}

func (c *c34CC) ResolveNow(resolver.ResolveNowOptions) {
	w := c.w
	w.mu.Lock()
	defer w.mu.Unlock()
	w.log = append(w.log, c34Entry{kind: c34LogResolveNow})
}
func (c *c34CC) RemoveSubConn(balancer.SubConn)                       { c.w.other("ClientConn.RemoveSubConn") }
func (c *c34CC) UpdateAddresses(balancer.SubConn, []resolver.Address) { c.w.other("ClientConn.UpdateAddresses") }
func (c *c34CC) Target() string                                       { return "c34:///target" }
func (c *c34CC) MetricsRecorder() estats.MetricsRecorder              { return nil }

// ---- world = real balancer + fakes + model ----

const (
	c34NoList = iota // no usable address list
	c34InPass        // a connection pass over `order` is in progress
	c34Ready         // a live subchannel is READY
	c34Failed        // the last pass ended with every address failed (steady-state retry mode)
	c34Idle          // the READY subchannel went IDLE; waiting for ExitIdle / a pick
)

var c34PhaseName = []string{"nolist", "inpass", "ready", "failed", "idle"}

type c34Fail struct{ Class, Desc string }

type c34World struct {
	mu       sync.Mutex
	bal      *pickfirstBalancer
	cc       *c34CC
	scs      []*c34SC
	lastDead *c34SC
	log      []c34Entry

	// model
	order    []string
	phase    int
	pass     int
	sticky   bool
	readySC  *c34SC
	reported bool
	S        connectivity.State
	picker   balancer.Picker
	// health listener mode: latest health report of readySC (valid if healthKnown)
	health      bool
	healthKnown bool
	healthSt    connectivity.State
	// steady-state TF refresh (0 = rule not armed for this failed phase)
	refreshN, refreshK int
	expectRefresh      bool

	fails []c34Fail
	trace []string
	// statistics
	nConnects, nPicksSC int
}

func (w *c34World) other(what string) {
	w.mu.Lock()
	defer w.mu.Unlock()
	w.log = append(w.log, c34Entry{kind: c34LogOther, what: what})
}

func (w *c34World) failf(class, format string, a ...any) {
	for _, f := range w.fails {
		if f.Class == class {
			return
		}
	}
	w.fails = append(w.fails, c34Fail{class, fmt.Sprintf(format, a...)})
}

func (w *c34World) flags(s *c34SC) *c34SC {
	if s.stamp != w.pass {
		s.stamp = w.pass
		s.connected, s.tfEvent, s.seenTF, s.seenBusy = false, false, false, false
	}
	return s
}

// liveFor returns the live (not shut down) subconns created for address name.
func (w *c34World) liveFor(name string) []*c34SC {
	var out []*c34SC
	for _, s := range w.scs {
		if !s.shutdown && s.name == name {
			out = append(out, s)
		}
	}
	return out
}

func (w *c34World) indexInOrder(name string) int {
	for i, x := range w.order {
		if x == name {
			return i
		}
	}
	return -1
}

func (w *c34World) attempted(name string) bool {
	for _, s := range w.liveFor(name) {
		f := w.flags(s)
		if f.connected || f.seenBusy || f.seenTF || f.tfEvent {
			return true
		}
	}
	return false
}

func (w *c34World) failedInPass(name string) bool {
	for _, s := range w.liveFor(name) {
		f := w.flags(s)
		if f.tfEvent || f.seenTF {
			return true
		}
	}
	return false
}

func (w *c34World) allFailed() bool {
	if len(w.order) == 0 {
		return false
	}
	for _, x := range w.order {
		if !w.failedInPass(x) {
			return false
		}
	}
	return true
}

func (w *c34World) outstanding() bool {
	for _, s := range w.scs {
		if s.shutdown || w.indexInOrder(s.name) < 0 {
			continue
		}
		if s.state == connectivity.Connecting || (s.state == connectivity.Idle && s.connectPending) {
			return true
		}
	}
	return false
}

// frontier = first position of the reference order that was not attempted in
// this pass; fresh = every earlier position was attempted by a Connect() of
// this pass (no re-used subchannel involved, so the newest attempt is at
// frontier-1 and its happy-eyeballs timer must be running).
func (w *c34World) frontier() (p int, fresh bool) {
	fresh = true
	for i, x := range w.order {
		if !w.attempted(x) {
			return i, fresh
		}
		c := false
		for _, s := range w.liveFor(x) {
			if w.flags(s).connected {
				c = true
			}
		}
		if !c {
			fresh = false
		}
	}
	return len(w.order), fresh
}

// enterFailed: the pass ended with every address failed. The refresh rule is
// armed only when the end of the pass is unambiguous (TF reported in reaction
// to a subchannel failure or a resolver update).
func (w *c34World) enterFailed(op *c34Op) {
	w.phase, w.sticky = c34Failed, true
	w.refreshN, w.refreshK = 0, 0
	if op != nil && (op.kind == c34OpSC || op.kind == c34OpUpdate) {
		for _, s := range w.scs {
			if !s.shutdown {
				w.refreshN++
			}
		}
	}
}

func (w *c34World) startPass() {
	w.refreshN, w.refreshK = 0, 0
	w.pass++
	w.phase = c34InPass
	w.readySC = nil
	for _, s := range w.scs {
		if s.shutdown {
			continue
		}
		f := w.flags(s)
		switch s.state {
		case connectivity.TransientFailure:
			f.seenTF, f.seenBusy = true, true
		case connectivity.Connecting:
			f.seenBusy = true
		}
	}
}

func c34Contains(l []string, x string) bool {
	for _, y := range l {
		if y == x {
			return true
		}
	}
	return false
}

// modelEvent applies the environment event to the model BEFORE the calls the
// balancer made in reaction to it are judged.
func (w *c34World) modelEvent(op *c34Op, target *c34SC, prev connectivity.State) {
	switch op.kind {
	case c34OpUpdate:
		flat := op.flat()
		if len(flat) == 0 {
			// every address removed: nothing can be connected, sticky-TF ends
			// with the subchannels it was about (assumption, see claims).
			w.order, w.phase, w.sticky, w.readySC = nil, c34NoList, false, nil
			return
		}
		ord := c34RefOrder(flat)
		switch {
		case w.phase == c34Ready && w.readySC != nil && c34Contains(ord, w.readySC.name):
			w.order = ord // the connected subchannel is kept
		case w.phase == c34Idle:
			w.order = ord // an idle channel does not connect until asked to
		default:
			w.order = ord
			w.startPass()
		}
	case c34OpExitIdle, c34OpPick:
		if w.phase == c34Idle {
			w.startPass() // leaving IDLE starts a new pass at the first address
		}
	case c34OpHealth, c34OpDeadHealth:
		if target.shutdown {
			return // in-flight health update of a subchannel the balancer already shut down
		}
		if w.phase == c34Ready && w.readySC == target {
			w.healthKnown, w.healthSt = true, op.st
		}
	case c34OpSC:
		if target.shutdown {
			return // stale update of a subchannel the balancer already shut down
		}
		f := w.flags(target)
		switch op.st {
		case connectivity.Connecting:
			f.seenBusy = true
		case connectivity.TransientFailure:
			f.tfEvent, f.seenBusy = true, true
			if w.phase == c34Failed && w.refreshN > 0 {
				w.refreshK++
				if w.refreshK%w.refreshN == 0 {
					w.refreshK, w.expectRefresh = 0, true
				}
			}
		case connectivity.Ready:
			w.phase, w.readySC, w.sticky = c34Ready, target, false
			w.healthKnown = false
		case connectivity.Idle:
			if prev == connectivity.Ready && w.phase == c34Ready && w.readySC == target {
				w.phase, w.readySC = c34Idle, nil
			}
		}
	}
}

func (w *c34World) stickyClass(op *c34Op, target *c34SC, st connectivity.State) string {
	if op.kind == c34OpSC && op.st == connectivity.Connecting && target != nil && !target.shutdown && target.bornSticky && st == connectivity.Connecting {
		return "sticky-tf-lost/new-address-while-tf"
	}
	k := op.kindName()
	if op.kind == c34OpSC {
		k = "subconn-" + strings.ToLower(op.st.String())
		if target != nil && target.shutdown {
			k = "stale-" + k
		}
	}
	return "sticky-tf-lost/" + k + "-reports-" + strings.ToLower(st.String())
}

// judge processes the calls recorded during one event, in order.
func (w *c34World) judge(op *c34Op, target *c34SC, log []c34Entry) {
	connectsInPass := 0
	if target != nil && target.shutdown {
		// R-owned: the event concerns a subchannel the balancer has shut down
		for _, e := range log {
			if e.kind == c34LogNewSC || e.kind == c34LogConnect || e.kind == c34LogShutdown || e.kind == c34LogUpdateState {
				w.failf("dropped-subchannel-had-effect/"+op.kindName(), "event %q concerns subchannel #%d(%s) on which the balancer had already called Shutdown(), yet the balancer reacted with: %s", op.name, target.id, target.name, w.logString(log))
				break
			}
		}
	}
	for _, e := range log {
		switch e.kind {
		case c34LogNewSC:
			e.sc.bornSticky = w.sticky
			if e.sc.nAddrs != 1 {
				w.failf("order/subconn-not-single-address", "NewSubConn called with %d addresses", e.sc.nAddrs)
			}
			if w.phase == c34Ready {
				w.failf("ready-others-alive/new-subconn-while-ready", "NewSubConn(%s) while subchannel #%d(%s) is READY", e.sc.name, w.readySC.id, w.readySC.name)
			}
			if w.indexInOrder(e.sc.name) < 0 {
				w.failf("order/subconn-for-unlisted-address", "NewSubConn(%s) but the resolver's list is %v", e.sc.name, w.order)
			}
		case c34LogConnect:
			if !e.live || !e.idle {
				continue // no-op on a real subchannel
			}
			w.nConnects++
			if w.phase != c34InPass {
				continue
			}
			s := e.sc
			k := w.indexInOrder(s.name)
			if k < 0 {
				w.failf("order/connect-unlisted-address", "Connect on #%d(%s), not in the list %v", s.id, s.name, w.order)
				continue
			}
			for _, o := range w.liveFor(s.name) {
				if w.flags(o).connected {
					w.failf("order/second-attempt-same-address", "second Connect for %s in one pass (reference order %v)", s.name, w.order)
				}
			}
			for j, x := range w.order {
				if j < k && !w.attempted(x) {
					w.failf("order/skipped-address", "Connect(%s) [position %d of %v] before %s [position %d] was attempted", s.name, k, w.order, x, j)
				}
				if j > k {
					for _, o := range w.liveFor(x) {
						if w.flags(o).connected {
							w.failf("order/out-of-order", "Connect(%s) [position %d of %v] after Connect(%s) [position %d] in the same pass", s.name, k, w.order, x, j)
						}
					}
				}
			}
			w.flags(s).connected = true
			connectsInPass++
			if connectsInPass > 1 {
				w.failf("order/multiple-new-attempts-in-one-event", "%d new connection attempts started by one event (%s) inside a pass", connectsInPass, op.name)
			}
		case c34LogShutdown:
			// liveness is tracked by the fake itself
		case c34LogUpdateState:
			st := e.state
			wasTF := w.reported && w.S == connectivity.TransientFailure
			w.reported, w.S, w.picker = true, st, e.picker
			if st == connectivity.Ready {
				if w.phase != c34Ready || w.readySC == nil || w.readySC.shutdown || w.readySC.state != connectivity.Ready {
					w.failf("ready-unsound/reported-ready-without-ready-subchannel", "READY reported in model phase %s; subchannels: %s", c34PhaseName[w.phase], w.scString())
				} else if w.health && !w.healthy() {
					w.failf("ready-unsound/reported-ready-while-not-healthy", "READY reported although the latest health report of subchannel #%d(%s) is not READY (%s)", w.readySC.id, w.readySC.name, w.healthString())
				}
			}
			if w.sticky && st != connectivity.TransientFailure {
				w.failf(w.stickyClass(op, target, st), "TRANSIENT_FAILURE had been reported after every address failed and no subchannel became READY since, but event %q made the balancer report %v; subchannels: %s", op.name, st, w.scString())
			}
			if st == connectivity.TransientFailure {
				switch w.phase {
				case c34InPass:
					if w.allFailed() {
						w.enterFailed(op)
					} else if !wasTF {
						w.failf("premature-tf/not-every-address-failed", "TRANSIENT_FAILURE reported on %q although not every address of %v failed in this pass; subchannels: %s", op.name, w.order, w.scString())
						w.enterFailed(nil)
					}
				case c34Failed:
					w.sticky = true
				}
			}
		case c34LogOther:
			// not used by pick_first with health listening off; harmless
		}
	}
	if w.expectRefresh {
		w.expectRefresh = false
		seen := false
		for _, e := range log {
			if e.kind == c34LogUpdateState && e.state == connectivity.TransientFailure {
				seen = true
			}
		}
		if !seen && w.phase == c34Failed {
			w.failf("tf-refresh/missing-after-all-subchannels-failed-again", "steady-state retry mode with %d subchannels: %d further connection failures were reported but TRANSIENT_FAILURE (with the new error) was not reported again on %q; subchannels: %s", w.refreshN, w.refreshN, op.name, w.scString())
		}
	}
}

func (w *c34World) healthy() bool {
	return w.healthKnown && w.healthSt == connectivity.Ready
}

func (w *c34World) healthString() string {
	if !w.healthKnown {
		return "no health report yet"
	}
	return "health " + w.healthSt.String()
}

func (w *c34World) scString() string {
	var sb strings.Builder
	for _, s := range w.scs {
		fmt.Fprintf(&sb, "#%d(%s,%v", s.id, s.name, s.state)
		if s.connectPending {
			sb.WriteString(",connect-requested")
		}
		if s.shutdown {
			sb.WriteString(",SHUT")
		}
		sb.WriteString(") ")
	}
	return strings.TrimSpace(sb.String())
}

// quiescent checks after the event was fully processed.
func (w *c34World) checkQuiescent(op *c34Op, preFrontier int, preFresh, preInPass bool, prePass int) {
	// pick on the latest picker (an IDLE picker is only picked by the explicit op)
	var picked balancer.SubConn
	var pickErr error
	didPick := false
	if w.reported && w.picker != nil && (w.S != connectivity.Idle) {
		res, err := w.picker.Pick(balancer.PickInfo{})
		picked, pickErr, didPick = res.SubConn, err, true
	}
	if picked != nil {
		w.nPicksSC++
		ps, _ := picked.(*c34SC)
		if ps == nil || ps.shutdown || ps.state != connectivity.Ready {
			w.failf("ready-unsound/picked-non-ready-subchannel", "pick returned a subchannel whose latest state is not READY / that is shut down; subchannels: %s", w.scString())
		}
	}
	if w.reported && w.S == connectivity.Ready {
		if w.phase != c34Ready || w.readySC == nil || w.readySC.shutdown || w.readySC.state != connectivity.Ready {
			w.failf("ready-unsound/reported-ready-without-ready-subchannel", "balancer state is READY in model phase %s; subchannels: %s", c34PhaseName[w.phase], w.scString())
		} else if w.health && !w.healthy() {
			w.failf("ready-unsound/reported-ready-while-not-healthy", "balancer state is READY although the latest health report of subchannel #%d(%s) is not READY (%s)", w.readySC.id, w.readySC.name, w.healthString())
		} else if didPick && (pickErr != nil || picked != balancer.SubConn(w.readySC)) {
			w.failf("ready-unsound/ready-picker-wrong-result", "READY picker returned (%v, %v), want subchannel #%d", picked, pickErr, w.readySC.id)
		}
	}
	if w.phase == c34Ready {
		if (!w.reported || w.S != connectivity.Ready) && (!w.health || w.healthy()) {
			w.failf("ready-not-reported", "subchannel #%d(%s) is live and READY but the balancer state is %v", w.readySC.id, w.readySC.name, w.S)
		}
		for _, s := range w.scs {
			if s != w.readySC && !s.shutdown {
				w.failf("ready-others-alive/not-shut-down", "subchannel #%d(%s) is READY but #%d(%s) was not shut down", w.readySC.id, w.readySC.name, s.id, s.name)
			}
		}
	}
	if w.phase == c34InPass && !w.outstanding() {
		if w.allFailed() {
			if w.reported && w.S == connectivity.TransientFailure {
				w.enterFailed(nil)
			} else {
				w.failf("tf-missing/all-failed-nothing-outstanding", "every address of %v failed in this pass and no attempt is outstanding, but the balancer state is %v; subchannels: %s", w.order, w.S, w.scString())
			}
		} else {
			w.failf("stalled/in-pass-nothing-outstanding", "pass over %v is not finished but no connection attempt is outstanding or requested; state %v; subchannels: %s", w.order, w.S, w.scString())
		}
	}
	if op.kind == c34OpTimer && preInPass && w.phase == c34InPass && w.pass == prePass && preFresh && preFrontier > 0 && preFrontier < len(w.order) {
		if !w.attempted(w.order[preFrontier]) {
			w.failf("happy-eyeballs/timer-did-not-start-next-attempt", "250ms after the attempt on %s nothing was started on %s (reference order %v); subchannels: %s", w.order[preFrontier-1], w.order[preFrontier], w.order, w.scString())
		}
	}
}
