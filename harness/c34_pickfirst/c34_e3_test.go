//go:build verif

package pickfirst

// C34 — E3 leg: the address pre-processing helpers deDupAddresses and
// interleaveAddresses on ALL lists of length <= 6 over 3 families x 2
// addresses, judged by predicates taken from the statement plus the
// independent (k-th of family, family rank) ordering of c34RefOrder.

import (
	"fmt"
	"strings"
	"testing"

	"google.golang.org/grpc/internal/verif/vk"
	"google.golang.org/grpc/resolver"
)

type c34PreReplay struct {
	Input []string `json:"input"`
}

func c34Names(as []resolver.Address) []string {
	out := make([]string, len(as))
	for i, a := range as {
		out[i] = c34NameOf(a.Addr)
	}
	return out
}

// c34CheckPreprocess returns "" or (class, description).
func c34CheckPreprocess(in []string) (class, desc string, out []string) {
	addrs := c34ResolverAddrs(in)
	inCopy := append([]resolver.Address{}, addrs...)
	var dd, il []resolver.Address
	var pan any
	func() {
		defer func() { pan = recover() }()
		dd = deDupAddresses(addrs)
		il = interleaveAddresses(dd)
	}()
	if pan != nil {
		return "preprocess/panic", fmt.Sprintf("panic: %v", pan), nil
	}
	for i := range addrs {
		if addrs[i].Addr != inCopy[i].Addr {
			return "preprocess/input-mutated", fmt.Sprintf("the caller's slice was modified at %d", i), nil
		}
	}
	d, o := c34Names(dd), c34Names(il)
	out = o
	// de-duplication: every distinct input address exactly once, in order of first occurrence
	first := map[string]int{}
	for i, x := range in {
		if _, ok := first[x]; !ok {
			first[x] = i
		}
	}
	if len(d) != len(first) {
		return "preprocess/dedup-not-set-of-input", fmt.Sprintf("deDupAddresses(%v) = %v: %d elements, %d distinct inputs", in, d, len(d), len(first)), out
	}
	seen := map[string]bool{}
	for i, x := range d {
		if _, ok := first[x]; !ok || seen[x] {
			return "preprocess/dedup-not-set-of-input", fmt.Sprintf("deDupAddresses(%v) = %v: element %d is foreign or repeated", in, d, i), out
		}
		seen[x] = true
		if i > 0 && first[d[i-1]] > first[x] {
			return "preprocess/dedup-reorders", fmt.Sprintf("deDupAddresses(%v) = %v does not keep first-occurrence order", in, d), out
		}
	}
	// interleaving: a permutation of the de-duplicated list
	if len(o) != len(d) {
		return "preprocess/not-a-permutation", fmt.Sprintf("interleave(dedup(%v)) = %v has %d elements, want %d", in, o, len(o), len(d)), out
	}
	pos := map[string]int{}
	for i, x := range o {
		if _, dup := pos[x]; dup || !seen[x] {
			return "preprocess/not-a-permutation", fmt.Sprintf("interleave(dedup(%v)) = %v: element %d repeated or foreign", in, o, i), out
		}
		pos[x] = i
	}
	// relative order inside each family is preserved
	for i := 0; i < len(d); i++ {
		for j := i + 1; j < len(d); j++ {
			if c34FamOf(d[i]) == c34FamOf(d[j]) && pos[d[i]] > pos[d[j]] {
				return "preprocess/family-order-not-preserved", fmt.Sprintf("interleave(dedup(%v)) = %v: %s and %s of the same family swapped", in, o, d[i], d[j]), out
			}
		}
	}
	// RFC 8305: first address stays first; families alternate in order of first
	// appearance as long as they have members left.
	if len(o) > 0 && o[0] != d[0] {
		return "preprocess/first-address-moved", fmt.Sprintf("interleave(dedup(%v)) = %v does not start with the first address %s", in, o, d[0]), out
	}
	want := c34RefOrder(in)
	if strings.Join(want, ",") != strings.Join(o, ",") {
		return "preprocess/not-alternating-families", fmt.Sprintf("interleave(dedup(%v)) = %v, RFC 8305 interleaving is %v", in, o, want), out
	}
	return "", "", out
}

func TestVerif_C34_Preprocess(t *testing.T) {
	const P = c34P
	r := vk.Start(t, "c34_preprocess_e3", "exploration", P)
	defer r.Finish()
	const maxLen = 6
	syms := make([]string, len(c34AddrTab))
	for i, a := range c34AddrTab {
		syms[i] = a.name
	}
	r.Rule(P, fmt.Sprintf("every address list of length 0..%d over {v4a,v4b,v6a,v6b,ha,hb} (IPv4, IPv6 and non-IP-literal family, 2 addresses each) is passed through the real deDupAddresses and interleaveAddresses; non-trivial = distinct lists with at least 2 families or a duplicate", maxLen))
	// the families the oracle assumes must be the families the code computes
	for _, a := range c34AddrTab {
		want := map[int]ipAddrFamily{4: ipAddrFamilyV4, 6: ipAddrFamilyV6, 0: ipAddrFamilyUnknown}[a.fam]
		if got := addressFamily(a.addr); got != want {
			r.Violation(P, "preprocess/address-family/"+a.name, fmt.Sprintf("addressFamily(%q) = %v, want %v", a.addr, got, want), c34PreReplay{Input: []string{a.name}})
		}
	}
	check := func(in []string) {
		class, desc, out := c34CheckPreprocess(in)
		r.Eval(P, 1)
		fams, dup := map[int]bool{}, false
		seen := map[string]bool{}
		for _, x := range in {
			fams[c34FamOf(x)] = true
			if seen[x] {
				dup = true
			}
			seen[x] = true
		}
		if len(fams) >= 2 || dup {
			r.NontrivialN(P, 1)
		}
		moved := strings.Join(out, ",") != strings.Join(in, ",")
		r.Outcome(P, fmt.Sprintf("pre:families=%d,dup=%v,len_out=%d,reordered_or_shortened=%v", len(fams), dup, len(out), moved))
		if class != "" {
			// canonical key: the class plus the first (shortest, lowest) failing list
			r.Violation(P, class, desc, c34PreReplay{Input: in})
		}
	}
	if r.ReplayFile() != "" {
		var rp c34PreReplay
		if err := r.LoadReplay(&rp); err != nil {
			r.EngineError("replay: %v", err)
			return
		}
		class, desc, out := c34CheckPreprocess(rp.Input)
		fmt.Printf("replay input=%v output=%v class=%q %s\n", rp.Input, out, class, desc)
		r.Eval(P, 1)
		if class != "" {
			r.Violation(P, class, desc, rp)
		}
		return
	}
	n := len(syms)
	for l := 0; l <= maxLen; l++ {
		total := 1
		for i := 0; i < l; i++ {
			total *= n
		}
		for code := 0; code < total; code++ {
			in := make([]string, l)
			x := code
			for k := l - 1; k >= 0; k-- {
				in[k] = syms[x%n]
				x /= n
			}
			check(in)
		}
	}
	_, _, o := c34CheckPreprocess([]string{"v6a", "v6b", "v4a", "v6a", "ha", "v4b"})
	r.Sample(P, map[string]any{"input": []string{"v6a", "v6b", "v4a", "v6a", "ha", "v4b"}, "output": o})
	r.Assume(P, "pre-processing leg: addresses differ only in Addr (no attributes / ServerName variants); 4-in-6 mapped literals are not enumerated")
}
