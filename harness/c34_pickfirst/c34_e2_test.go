//go:build verif

package pickfirst

// C34 — E2 leg: seqx BFS over environment-event histories applied to a FRESH
// REAL pick_first balancer (built through its builder on the recording fake
// ClientConn of c34_model_test.go), every history inside its own synctest
// bubble so that the happy-eyeballs timer is a real time.AfterFunc timer fired
// by advancing virtual time.

import (
	"errors"
	"fmt"
	"sort"
	"strings"
	"sync"
	"testing"
	"testing/synctest"
	"time"

	"google.golang.org/grpc/balancer"
	pfinternal "google.golang.org/grpc/balancer/pickfirst/internal"
	"google.golang.org/grpc/connectivity"
	"google.golang.org/grpc/internal/verif/seqx"
	"google.golang.org/grpc/internal/verif/vk"
	"google.golang.org/grpc/resolver"
)

const (
	c34OpUpdate = iota
	c34OpRErr
	c34OpSC
	c34OpDead
	c34OpTimer
	c34OpExitIdle
	c34OpPick
	c34OpHealth     // health report of the live subchannel of an address
	c34OpDeadHealth // in-flight health report of the last subchannel the balancer shut down
)

type c34Op struct {
	name      string
	kind      int
	addrs     []string   // update, addresses form
	endpoints [][]string // update, endpoints form
	shuffle   bool       // update, addresses form with shuffleAddressList (the permutation is owned by the harness: reversal)
	target    string     // subconn op: address name
	st        connectivity.State
}

func (o *c34Op) kindName() string {
	return [...]string{"resolver-update", "resolver-error", "subconn", "stale-subconn", "timer", "exit-idle", "pick", "health-update", "stale-health-update"}[o.kind]
}

// flat is the list the statement talks about: the addresses in resolver order
// (endpoints flattened in order; harness-owned permutation applied if shuffling).
func (o *c34Op) flat() []string {
	var l []string
	if o.endpoints != nil {
		for _, e := range o.endpoints {
			l = append(l, e...)
		}
		return l
	}
	l = append(l, o.addrs...)
	if o.shuffle {
		for i, j := 0, len(l)-1; i < j; i, j = i+1, j-1 {
			l[i], l[j] = l[j], l[i]
		}
	}
	return l
}

func c34Upd(addrs ...string) c34Op {
	return c34Op{name: "update[" + strings.Join(addrs, ",") + "]", kind: c34OpUpdate, addrs: append([]string{}, addrs...)}
}

func c34UpdShuffled(addrs ...string) c34Op {
	return c34Op{name: "update-shuffle[" + strings.Join(addrs, ",") + "]", kind: c34OpUpdate, addrs: append([]string{}, addrs...), shuffle: true}
}

func c34UpdE(eps ...[]string) c34Op {
	var parts []string
	for _, e := range eps {
		parts = append(parts, "["+strings.Join(e, ",")+"]")
	}
	if eps == nil {
		eps = [][]string{}
	}
	return c34Op{name: "update{" + strings.Join(parts, ",") + "}", kind: c34OpUpdate, endpoints: eps}
}

var c34StShort = map[connectivity.State]string{connectivity.Connecting: "connecting", connectivity.Ready: "ready", connectivity.TransientFailure: "tf", connectivity.Idle: "idle", connectivity.Shutdown: "shutdown"}

func c34SCOps(names ...string) []c34Op {
	var out []c34Op
	for _, n := range names {
		for _, st := range []connectivity.State{connectivity.Connecting, connectivity.Ready, connectivity.TransientFailure, connectivity.Idle} {
			out = append(out, c34Op{name: n + "." + c34StShort[st], kind: c34OpSC, target: n, st: st})
		}
	}
	return out
}

func c34DeadOps() []c34Op {
	var out []c34Op
	for _, st := range []connectivity.State{connectivity.Connecting, connectivity.Ready, connectivity.TransientFailure, connectivity.Shutdown} {
		out = append(out, c34Op{name: "lastShutDown." + c34StShort[st], kind: c34OpDead, st: st})
	}
	return out
}

var c34HealthShort = map[connectivity.State]string{connectivity.Ready: "health-serving", connectivity.TransientFailure: "health-notserving", connectivity.Connecting: "health-connecting"}

func c34HealthOps(names ...string) []c34Op {
	var out []c34Op
	for _, n := range names {
		for _, st := range []connectivity.State{connectivity.Ready, connectivity.TransientFailure, connectivity.Connecting} {
			out = append(out, c34Op{name: n + "." + c34HealthShort[st], kind: c34OpHealth, target: n, st: st})
		}
	}
	return out
}

// in-flight events of the last subchannel the balancer shut down: health
// reports queued before its SHUTDOWN notification, and that notification itself
// (the real channel delivers it asynchronously, after Shutdown() returned).
func c34DeadHealthOps() []c34Op {
	return []c34Op{
		{name: "lastShutDown." + c34HealthShort[connectivity.Ready], kind: c34OpDeadHealth, st: connectivity.Ready},
		{name: "lastShutDown." + c34HealthShort[connectivity.TransientFailure], kind: c34OpDeadHealth, st: connectivity.TransientFailure},
		{name: "lastShutDown.shutdown", kind: c34OpDead, st: connectivity.Shutdown},
	}
}

var (
	c34OpTimerV    = c34Op{name: "advance250ms", kind: c34OpTimer}
	c34OpRErrV     = c34Op{name: "resolverError", kind: c34OpRErr}
	c34OpExitIdleV = c34Op{name: "exitIdle", kind: c34OpExitIdle}
	c34OpPickV     = c34Op{name: "pickWhileIdle", kind: c34OpPick}
)

type c34Scenario struct {
	name     string
	ops      []c34Op
	pre      []string // preamble (op names) applied before every history
	depthQ   int
	depthT   int
	useDead  bool
	health   bool // every resolver update enables the generic health listener (pickfirst.EnableHealthListener)
	minState int64
}

func c34Cat(parts ...[]c34Op) []c34Op {
	var out []c34Op
	for _, p := range parts {
		out = append(out, p...)
	}
	return out
}

func c34Scenarios() []*c34Scenario {
	return []*c34Scenario{
		{ // one family, two addresses: list replacement, duplicates, empty list, resolver error, idle exit
			name: "two-v4",
			ops: c34Cat([]c34Op{c34Upd("v4a"), c34Upd("v4b"), c34Upd("v4a", "v4b"), c34Upd("v4b", "v4a", "v4b"), c34Upd(), c34OpRErrV},
				c34SCOps("v4a", "v4b"), []c34Op{c34OpTimerV, c34OpExitIdleV, c34OpPickV}),
			depthQ: 8, depthT: 14, minState: 200,
		},
		{ // two families, three addresses, interleaving changes the order; endpoints form with a cross-endpoint duplicate
			name: "dual-stack-3",
			ops: c34Cat([]c34Op{c34Upd("v4a", "v4b", "v6a"), c34UpdE([]string{"v6a", "v4a"}, []string{"v4b", "v6a"}), c34Upd("v6a")},
				c34SCOps("v4a", "v4b", "v6a"), []c34Op{c34OpTimerV, c34OpExitIdleV}),
			depthQ: 8, depthT: 14, minState: 200,
		},
		{ // the same three addresses, starting after a complete failed pass (sticky TF, steady-state retries)
			name: "dual-stack-3-after-failed-pass",
			pre:  []string{"update[v4a,v4b,v6a]", "v4a.connecting", "v4a.tf", "v6a.connecting", "v6a.tf", "v4b.connecting", "v4b.tf"},
			ops: c34Cat([]c34Op{c34Upd("v4a", "v4b", "v6a"), c34Upd("v6a", "v4b"), c34OpRErrV},
				c34SCOps("v4a", "v4b", "v6a"), []c34Op{c34OpTimerV}),
			depthQ: 7, depthT: 13, minState: 100,
		},
		{ // IPv6 first, second IPv6 address, endpoints form with several addresses per endpoint, shuffled list
			name: "v6-first",
			ops: c34Cat([]c34Op{c34UpdE([]string{"v6a", "v6b"}, []string{"v4a"}), c34UpdShuffled("v4a", "v6b", "v6a"), c34Upd("v6b", "v6b", "v4a")},
				c34SCOps("v6a", "v6b", "v4a"), []c34Op{c34OpTimerV}),
			depthQ: 7, depthT: 13, minState: 100,
		},
		{ // steady-state retry mode with two subchannels (A61: TF is reported again after every 2 further failures)
			name: "two-v4-steady-state-retries",
			pre:  []string{"update[v4a,v4b]", "v4a.connecting", "v4a.tf", "v4b.connecting", "v4b.tf", "v4a.idle", "v4a.connecting", "v4b.idle", "v4b.connecting"},
			ops:  c34Cat([]c34Op{c34Upd("v4a", "v4b"), c34OpRErrV}, c34SCOps("v4a", "v4b"), []c34Op{c34OpTimerV}),
			depthQ: 8, depthT: 14, minState: 50,
		},
		{ // IDLE after a failed pass + recovery: v4a and v4b failed (TF), v4a reconnected, was READY, lost its transport.
			// A pass started by ExitIdle / a pick must judge failures of THIS pass only.
			name: "two-v4-idle-after-failed-pass-and-recovery",
			pre: []string{"update[v4a,v4b]", "v4a.connecting", "v4a.tf", "v4b.connecting", "v4b.tf", "v4a.idle", "v4a.connecting", "v4a.ready", "v4a.idle"},
			ops: c34Cat([]c34Op{c34OpPickV, c34OpExitIdleV}, c34SCOps("v4a", "v4b"), []c34Op{c34OpTimerV, c34Upd("v4a", "v4b")}),
			depthQ: 7, depthT: 12, minState: 50,
		},
		{ // generic health listener enabled (pick_first as leaf under a health-reporting parent): READY needs raw READY + healthy;
			// health reports also for the last shut-down subchannel until its SHUTDOWN notification is delivered
			name:   "health-listener",
			health: true, useDead: true,
			ops: c34Cat([]c34Op{c34Upd("v4a"), c34Upd("v4b"), c34Upd("v4a", "v4b")},
				c34SCOps("v4a", "v4b"), c34HealthOps("v4a", "v4b"), c34DeadHealthOps(), []c34Op{c34OpTimerV}),
			depthQ: 8, depthT: 12, minState: 200,
		},
		{ // the same with the selected subchannel already READY and healthy; the empty list drops it too
			name:   "health-listener-from-ready",
			health: true, useDead: true,
			pre:    []string{"update[v4a,v4b]", "v4a.connecting", "v4a.ready", "v4a.health-serving"},
			ops: c34Cat([]c34Op{c34Upd("v4a", "v4b"), c34Upd("v4b"), c34Upd()},
				c34SCOps("v4a", "v4b"), c34HealthOps("v4a", "v4b"), c34DeadHealthOps(), []c34Op{c34OpRErrV}),
			depthQ: 7, depthT: 11, minState: 100,
		},
		{ // stale (in-flight) updates of subchannels the balancer has already shut down
			name: "stale-updates",
			ops: c34Cat([]c34Op{c34Upd("v4a"), c34Upd("v4b"), c34Upd("v4a", "v4b")},
				c34SCOps("v4a", "v4b"), c34DeadOps(), []c34Op{c34OpTimerV}),
			depthQ: 8, depthT: 13, useDead: true, minState: 200,
		},
	}
}

var c34ErrConn = errors.New("c34: connection refused")
var c34ErrResolver = errors.New("c34: resolver error")

func c34Legal(s *c34SC, st connectivity.State) bool {
	switch st {
	case connectivity.Connecting:
		return s.state == connectivity.Idle && s.connectPending
	case connectivity.Ready, connectivity.TransientFailure:
		return s.state == connectivity.Connecting
	case connectivity.Idle:
		return s.state == connectivity.TransientFailure || s.state == connectivity.Ready
	case connectivity.Shutdown:
		return true
	}
	return false
}

func c34ResolverAddrs(names []string) []resolver.Address {
	out := make([]resolver.Address, 0, len(names))
	for _, n := range names {
		out = append(out, c34AddrOf(n))
	}
	return out
}

// step applies one event to the real balancer and the model; false = the event
// is not applicable in the current state (nothing was touched).
func (w *c34World) step(op *c34Op) bool {
	var target *c34SC
	switch op.kind {
	case c34OpSC:
		lives := w.liveFor(op.target)
		if len(lives) == 0 {
			return false
		}
		target = lives[len(lives)-1]
		if !c34Legal(target, op.st) {
			return false
		}
	case c34OpDead:
		target = w.lastDead
		if target == nil || target.gone || !c34Legal(target, op.st) {
			return false
		}
	case c34OpPick:
		if !w.reported || w.S != connectivity.Idle || w.picker == nil {
			return false
		}
	case c34OpHealth, c34OpDeadHealth:
		if op.kind == c34OpHealth {
			lives := w.liveFor(op.target)
			if len(lives) == 0 {
				return false
			}
			target = lives[len(lives)-1]
		} else {
			target = w.lastDead
		}
		// a health report reaches the listener registered since the subchannel's
		// last connectivity update, while that update says READY (also when
		// Shutdown() was already called but SHUTDOWN has not been delivered yet)
		if target == nil || target.gone || target.healthListener == nil || target.state != connectivity.Ready {
			return false
		}
	}
	preInPass, prePass := w.phase == c34InPass, w.pass
	preFrontier, preFresh := 0, false
	if preInPass {
		preFrontier, preFresh = w.frontier()
	}
	w.mu.Lock()
	w.log = nil
	w.mu.Unlock()
	var prev connectivity.State
	switch op.kind {
	case c34OpUpdate:
		var rs resolver.State
		if op.endpoints != nil {
			for _, e := range op.endpoints {
				rs.Endpoints = append(rs.Endpoints, resolver.Endpoint{Addresses: c34ResolverAddrs(e)})
			}
		} else {
			rs.Addresses = c34ResolverAddrs(op.addrs)
		}
		if w.health && (len(rs.Addresses) > 0 || len(rs.Endpoints) > 0) {
			rs = EnableHealthListener(rs)
		}
		ccs := balancer.ClientConnState{ResolverState: rs}
		if op.shuffle {
			ccs.BalancerConfig = pfConfig{ShuffleAddressList: true}
		}
		w.bal.UpdateClientConnState(ccs)
	case c34OpRErr:
		w.bal.ResolverError(c34ErrResolver)
	case c34OpSC, c34OpDead:
		prev = target.state
		target.state = op.st
		target.connectPending = false
		target.healthListener = nil // a connectivity update invalidates the health listener
		if op.st == connectivity.Shutdown {
			target.gone = true
		}
		scs := balancer.SubConnState{ConnectivityState: op.st}
		if op.st == connectivity.TransientFailure {
			scs.ConnectionError = c34ErrConn
		}
		target.listener(scs)
	case c34OpHealth, c34OpDeadHealth:
		hs := balancer.SubConnState{ConnectivityState: op.st}
		if op.st == connectivity.TransientFailure {
			hs.ConnectionError = c34ErrConn
		}
		target.healthListener(hs)
	case c34OpTimer:
		c34Sleep250()
	case c34OpExitIdle:
		w.bal.ExitIdle()
	case c34OpPick:
		w.picker.Pick(balancer.PickInfo{})
	}
	synctest.Wait()
	w.mu.Lock()
	log := w.log
	w.log = nil
	w.mu.Unlock()
	// "the last subchannel shut down": of those shut down by this event the one
	// that is READY, else the first by address name (deterministic although
	// pick_first iterates a Go map)
	var nd *c34SC
	for _, e := range log {
		if e.kind != c34LogShutdown || e.sc == w.lastDead {
			continue
		}
		s := e.sc
		if nd == nil || (s.state == connectivity.Ready && nd.state != connectivity.Ready) ||
			((s.state == connectivity.Ready) == (nd.state == connectivity.Ready) && (s.name < nd.name || (s.name == nd.name && s.id < nd.id))) {
			nd = s
		}
	}
	if nd != nil {
		w.lastDead = nd
	}
	w.modelEvent(op, target, prev)
	w.judge(op, target, log)
	w.checkQuiescent(op, preFrontier, preFresh, preInPass, prePass)
	w.trace = append(w.trace, op.name+" => "+w.logString(log)+fmt.Sprintf("  [state %s, model %s%s]", w.stateString(), c34PhaseName[w.phase], map[bool]string{true: ",sticky-TF", false: ""}[w.sticky]))
	return true
}

func (w *c34World) stateString() string {
	if !w.reported {
		return "(none reported)"
	}
	return w.S.String()
}

func (w *c34World) logString(log []c34Entry) string {
	if len(log) == 0 {
		return "-"
	}
	var parts []string
	for _, e := range log {
		switch e.kind {
		case c34LogNewSC:
			parts = append(parts, fmt.Sprintf("NewSubConn(%s)=#%d", e.sc.name, e.sc.id))
		case c34LogConnect:
			parts = append(parts, fmt.Sprintf("#%d.Connect", e.sc.id))
		case c34LogShutdown:
			parts = append(parts, fmt.Sprintf("#%d.Shutdown", e.sc.id))
		case c34LogUpdateState:
			parts = append(parts, "UpdateState("+e.state.String()+")")
		case c34LogResolveNow:
			parts = append(parts, "ResolveNow")
		case c34LogOther:
			parts = append(parts, e.what)
		case c34LogRegHealth:
			parts = append(parts, fmt.Sprintf("#%d.RegisterHealthListener", e.sc.id))
		}
	}
	return strings.Join(parts, " ")
}

// key: every private field of the real balancer that influences behaviour,
// the fake subchannels' state and the model state, canonicalised (live
// subchannels are numbered by (address, creation order); shut-down ones only
// matter through "the last one shut down" when the scenario can address it).
func (w *c34World) key(useDead bool) string {
	b := w.bal
	var live []*c34SC
	for _, s := range w.scs {
		if !s.shutdown {
			live = append(live, s)
		}
	}
	sort.SliceStable(live, func(i, j int) bool {
		if live[i].name != live[j].name {
			return live[i].name < live[j].name
		}
		return live[i].id < live[j].id
	})
	ord := map[*c34SC]int{}
	for i, s := range live {
		ord[s] = i
	}
	scRef := func(sc balancer.SubConn) string {
		s, _ := sc.(*c34SC)
		if s == nil {
			return "nil"
		}
		if i, ok := ord[s]; ok {
			return fmt.Sprint("L", i)
		}
		if s == w.lastDead {
			return "lastdead"
		}
		return "dead"
	}
	var sb strings.Builder
	b.mu.Lock()
	fmt.Fprintf(&sb, "B:%v,fp=%v,ntf=%d,hc=%v,al=", b.state, b.firstPass, b.numTF, b.healthCheckingEnabled)
	for _, a := range b.addressList.addresses {
		sb.WriteString(c34NameOf(a.Addr) + ",")
	}
	fmt.Fprintf(&sb, "@%d;", b.addressList.idx)
	var sds []string
	for a, sd := range b.subConns.All() {
		sds = append(sds, fmt.Sprintf("%s:%v/%v/f=%v/e=%v/%s", c34NameOf(a.Addr), sd.rawConnectivityState, sd.effectiveState, sd.connectionFailedInFirstPass, sd.lastErr != nil, scRef(sd.subConn)))
	}
	b.mu.Unlock()
	sort.Strings(sds)
	sb.WriteString(strings.Join(sds, " "))
	sb.WriteString("|F:")
	for i, s := range live {
		fmt.Fprintf(&sb, "L%d=%s/%v/p=%v/b=%v/h=%v", i, s.name, s.state, s.connectPending, s.bornSticky, s.healthListener != nil)
		if w.phase == c34InPass {
			f := w.flags(s)
			fmt.Fprintf(&sb, "/c=%v,t=%v,s=%v,y=%v", f.connected, f.tfEvent, f.seenTF, f.seenBusy)
		}
		sb.WriteString(" ")
	}
	if useDead && w.lastDead != nil {
		d := w.lastDead
		fmt.Fprintf(&sb, "D=%s/%v/p=%v/g=%v/h=%v", d.name, d.state, d.connectPending, d.gone, d.healthListener != nil)
	}
	fmt.Fprintf(&sb, "|M:%s,sticky=%v,order=%s,rep=%v,S=%v,rf=%d/%d,hl=%v/%v,", c34PhaseName[w.phase], w.sticky, strings.Join(w.order, ","), w.reported, w.S, w.refreshK, w.refreshN, w.healthKnown, w.healthSt)
	if w.readySC != nil {
		sb.WriteString("ready=" + scRef(w.readySC) + ",")
	}
	switch p := w.picker.(type) {
	case nil:
		sb.WriteString("P=nil")
	case *picker:
		fmt.Fprintf(&sb, "P=picker(%s,%v)", scRef(p.result.SubConn), p.err)
	case *idlePicker:
		sb.WriteString("P=idle")
	default:
		fmt.Fprintf(&sb, "P=%T", p)
	}
	return sb.String()
}

type c34Result struct {
	key      string
	skip     bool
	fails    []c34Fail
	obs      string
	trace    []string
	connects int
	picksSC  int
}

// c34RunHistory must be called inside a synctest bubble.
func c34RunHistory(sc *c34Scenario, pre []int, hist []int) (res c34Result) {
	w := &c34World{health: sc.health}
	w.cc = &c34CC{w: w}
	w.bal = pickfirstBuilder{}.Build(w.cc, balancer.BuildOptions{}).(*pickfirstBalancer)
	defer func() {
		if p := recover(); p != nil {
			res.fails = append(res.fails, c34Fail{"panic", fmt.Sprintf("panic: %v\n  trace: %s", p, strings.Join(w.trace, "\n         "))})
			res.key = "fail/panic"
			res.trace = w.trace
		}
		func() {
			defer func() { recover() }()
			w.bal.Close()
		}()
		synctest.Wait()
	}()
	full := append(append([]int{}, pre...), hist...)
	for i, oi := range full {
		if !w.step(&sc.ops[oi]) {
			res.skip = true
			if i < len(pre) {
				res.fails = append(res.fails, c34Fail{"engine/preamble-not-applicable", sc.ops[oi].name})
			}
			return res
		}
		if len(w.fails) > 0 {
			break
		}
	}
	res.trace = w.trace
	res.connects, res.picksSC = w.nConnects, w.nPicksSC
	if len(w.fails) > 0 {
		res.fails = w.fails
		for i := range res.fails {
			res.fails[i].Desc += "\n  trace: " + strings.Join(w.trace, "\n         ")
		}
		res.key = "fail/" + w.fails[0].Class
		res.obs = "violation"
		return res
	}
	res.key = w.key(sc.useDead)
	res.obs = c34PhaseName[w.phase] + "/" + w.stateString()
	if w.sticky {
		res.obs += "/sticky"
	}
	return res
}

// the Connection Attempt Delay of gRFC A61 / RFC 8305
func c34Sleep250() { time.Sleep(250 * time.Millisecond) }

// ---- violation collection: ONE canonical key per failure class, shortest history ----

type c34Found struct {
	scenario string
	hist     []int
	ops      []string
	desc     string
}

type c34Collector struct {
	mu    sync.Mutex
	found map[string]*c34Found
}

func c34Less(a, b []int) bool {
	if len(a) != len(b) {
		return len(a) < len(b)
	}
	for i := range a {
		if a[i] != b[i] {
			return a[i] < b[i]
		}
	}
	return false
}

func (c *c34Collector) add(sc *c34Scenario, hist []int, f c34Fail) {
	c.mu.Lock()
	defer c.mu.Unlock()
	if cur, ok := c.found[f.Class]; ok && (cur.scenario != sc.name || !c34Less(hist, cur.hist)) {
		return
	}
	ops := append([]string{}, sc.pre...)
	for _, h := range hist {
		ops = append(ops, sc.ops[h].name)
	}
	c.found[f.Class] = &c34Found{scenario: sc.name, hist: append([]int{}, hist...), ops: ops, desc: f.Desc}
}

type c34Replay struct {
	Scenario string   `json:"scenario"`
	Ops      []string `json:"ops"` // complete event list, preamble included
}

func c34Bubble(t *testing.T, sc *c34Scenario, pre, hist []int) (res c34Result) {
	synctest.Test(t, func(*testing.T) { res = c34RunHistory(sc, pre, hist) })
	return res
}

func c34OpIndex(sc *c34Scenario, names []string) ([]int, error) {
	idx := map[string]int{}
	for i := range sc.ops {
		idx[sc.ops[i].name] = i
	}
	out := make([]int, 0, len(names))
	for _, n := range names {
		i, ok := idx[n]
		if !ok {
			return nil, fmt.Errorf("scenario %s has no op %q", sc.name, n)
		}
		out = append(out, i)
	}
	return out, nil
}

func TestVerif_C34_PickFirst(t *testing.T) {
	const P = c34P
	r := vk.Start(t, "c34_pickfirst_e2", "model_checking", P)
	defer r.Finish()
	// The shuffle permutation is owned by the harness (a constant function, so
	// installing it globally is safe for parallel histories): reversal.
	oldShuffle := pfinternal.RandShuffle
	pfinternal.RandShuffle = func(n int, swap func(i, j int)) {
		for i, j := 0, n-1; i < j; i, j = i+1, j-1 {
			swap(i, j)
		}
	}
	defer func() { pfinternal.RandShuffle = oldShuffle }()

	scenarios := c34Scenarios()
	r.Rule(P, "seqx BFS: every history of environment events up to the depth bound, per scenario alphabet {resolver update with a listed address/endpoint list, resolver error, subchannel(addr) -> CONNECTING|READY|TRANSIENT_FAILURE|IDLE (only transitions a real subchannel makes), advance 250ms, ExitIdle, pick while IDLE, stale update of the last shut-down subchannel}, applied to a fresh real pick_first balancer in its own synctest bubble; after EVERY event the recorded NewSubConn/Connect/Shutdown/UpdateState calls are judged by the reference rules and the latest picker is picked; distinct non-trivial = distinct canonical states (real private fields + fake subchannels + model)")
	r.Assume(P, "subchannel state changes are delivered synchronously and in order; Connect() on a non-IDLE or shut-down subchannel is a no-op (as in grpc's addrConn); CONNECTING->IDLE (grpc-go issue 7862) and health-listener updates are not generated")
	r.Assume(P, "interpretation: a resolver update with zero addresses ends sticky TRANSIENT_FAILURE (all subchannels it was about are gone); an update arriving while the balancer is IDLE does not start connecting; ExitIdle/pick-while-IDLE starts a new pass")
	r.Assume(P, "trusted: seqx BFS, testing/synctest virtual time and quiescence detection, the state key (thorough tier checks it is a congruence; whether the happy-eyeballs timer is armed is not directly observable and is covered only through that check)")

	if r.ReplayFile() != "" {
		var rp c34Replay
		if err := r.LoadReplay(&rp); err != nil {
			r.EngineError("replay: %v", err)
			return
		}
		for _, sc := range scenarios {
			if sc.name != rp.Scenario {
				continue
			}
			hist, err := c34OpIndex(sc, rp.Ops)
			if err != nil {
				r.EngineError("replay: %v", err)
				return
			}
			res := c34Bubble(t, sc, nil, hist)
			r.Eval(P, 1)
			fmt.Printf("replay scenario=%s\n  %s\n", sc.name, strings.Join(res.trace, "\n  "))
			if res.skip {
				fmt.Printf("  (an event of the history was not applicable)\n")
			}
			for _, f := range res.fails {
				fmt.Printf("FAIL %s: %s\n", f.Class, f.Desc)
				r.Violation(P, f.Class, f.Desc, rp)
			}
		}
		return
	}

	col := &c34Collector{found: map[string]*c34Found{}}
	reported := map[string]bool{}
	var connects, picks int64
	distinct := map[string]bool{}
	var cmu sync.Mutex
	for si, sc := range scenarios {
		// one scenario per worker process: synctest bubbles must not run
		// concurrently inside one process (go1.25.0 runtime race), so the leg is
		// parallelised by shards, not by goroutines
		if !r.Mine(si) {
			continue
		}
		pre, err := c34OpIndex(sc, sc.pre)
		if err != nil {
			r.EngineError("%v", err)
			continue
		}
		names := make([]string, len(sc.ops))
		for i := range sc.ops {
			names[i] = sc.ops[i].name
		}
		seqx.BFS(r, []string{P}, seqx.Config{
			Name: sc.name, Ops: names, MaxDepth: r.Pick(sc.depthQ, sc.depthT), Parallel: 1,
			Congruence: r.Thorough(), CongruenceMax: 300,
			Run: func(hist []int) seqx.Outcome {
				res := c34Bubble(t, sc, pre, hist)
				if res.skip && len(res.fails) == 0 {
					return seqx.Outcome{Skip: true}
				}
				if len(res.fails) == 0 {
					cmu.Lock()
					distinct[sc.name+"\x00"+res.key] = true
					cmu.Unlock()
				}
				for _, f := range res.fails {
					col.add(sc, hist, f)
				}
				cmu.Lock()
				connects += int64(res.connects)
				picks += int64(res.picksSC)
				cmu.Unlock()
				// violations are reported by the collector under ONE canonical key
				// per class (seqx would key them by scenario and history)
				return seqx.Outcome{Key: res.key, Terminal: len(res.fails) > 0, Obs: res.obs}
			}})
		// report this scenario's new failure classes now (shortest history, ties
		// broken by alphabet order), after confirming they reproduce
		col.mu.Lock()
		var classes []string
		for c := range col.found {
			if !reported[c] {
				classes = append(classes, c)
			}
		}
		sort.Strings(classes)
		col.mu.Unlock()
		// vacuity guard (own one: a violation makes its state terminal, so a
		// violating tree legitimately explores little)
		nStates := int64(0)
		for k := range distinct {
			if strings.HasPrefix(k, sc.name+"\x00") {
				nStates++
			}
		}
		if len(col.found) == 0 && nStates < sc.minState {
			r.EngineError("scenario %s: vacuous exploration: %d violation-free states < %d", sc.name, nStates, sc.minState)
		}
		for _, c := range classes {
			reported[c] = true
			f := col.found[c]
			if strings.HasPrefix(c, "engine/") {
				r.EngineError("scenario %s: %s: %s", sc.name, c, f.desc)
				continue
			}
			again := c34Bubble(t, sc, pre, f.hist)
			ok := false
			for _, g := range again.fails {
				if g.Class == c {
					ok = true
				}
			}
			if !ok {
				r.EngineError("scenario %s: failure %s on %v did not reproduce", sc.name, c, f.ops)
				continue
			}
			r.Violation(P, c, fmt.Sprintf("%s\n  shortest history (%d events, scenario %s): %s", f.desc, len(f.ops), sc.name, strings.Join(f.ops, " ; ")), c34Replay{Scenario: sc.name, Ops: f.ops})
		}
	}
	r.AddInt(P, "effective_connect_requests_judged", connects)
	r.AddInt(P, "picks_returning_a_subchannel_judged", picks)
	// one written-out case with the calls the balancer made
	if sc := scenarios[1]; r.Mine(0) {
		if hist, err := c34OpIndex(sc, []string{"update[v4a,v4b,v6a]", "v4a.connecting", "advance250ms", "v6a.connecting", "v6a.tf", "v4b.connecting", "v4b.ready"}); err == nil {
			res := c34Bubble(t, sc, nil, hist)
			r.Sample(P, map[string]any{"scenario": sc.name, "trace": res.trace})
		}
	}
}
