//go:build verif

package conn

import (
	"bytes"
	"crypto/cipher"
	"encoding/binary"
	"fmt"
	"io"
	"net"
	"sync"
	"testing"

	core "google.golang.org/grpc/credentials/alts/internal"
	"google.golang.org/grpc/internal/verif/vk"
	"google.golang.org/grpc/internal/verif/vsched"
)

// ---- C52, schedule leg (E1): full-duplex use of one ALTS conn ----
//
// net.Conn allows one Read concurrent with one Write. Two real conns (client /
// server side) are joined by an in-memory duplex pipe; every side has a writer
// thread and a reader thread. The record-protocol code has no synchronisation
// of its own, so the scheduling points are created at the crypto-primitive
// boundary: the innermost cipher.AEAD of every direction (rekeyAEAD.gcmAEAD,
// aes128gcm.aead) is wrapped so that Seal/Open yield to the scheduler before
// delegating and record the nonce they are actually called with; the pipe's
// Read/Write are scheduling points too.
//
// Oracle (property text): each side reads exactly what the other wrote, in
// order; no Read fails on an untampered stream; the nonce a direction presents
// to its AEAD is that direction's own counter value (never another direction's,
// never used twice). Structural: the two directions of one conn do not share a
// stateful AEAD object.

const c52sP = "C52"

var (
	c52sRegOnce sync.Once
	c52sKeyGCM  = []byte{0x1f, 0x8b, 0x08, 0x00, 0x00, 0x09, 0x6e, 0x88, 0x02, 0xff, 0xe2, 0xd2, 0x4c, 0xce, 0x4f, 0x49}
	c52sKeyRek  = []byte{
		0x0b, 0x0b, 0x0b, 0x0b, 0x0b, 0x0b, 0x0b, 0x0b, 0x0b, 0x0b, 0x0b, 0x0b, 0x0b, 0x0b, 0x0b, 0x0b,
		0x10, 0x21, 0x32, 0x43, 0x54, 0x65, 0x76, 0x87, 0x98, 0xa9, 0xba, 0xcb, 0xdc, 0xed, 0xfe, 0x0f,
		0x01, 0x02, 0x03, 0x04, 0x05, 0x06, 0x07, 0x08, 0x09, 0x0a, 0x0b, 0x0c}
)

func c52sRegister() {
	c52sRegOnce.Do(func() {
		for name, f := range map[string]ALTSRecordFunc{
			"c52s_gcm":   func(s core.Side, k []byte) (ALTSRecordCrypto, error) { return NewAES128GCM(s, k) },
			"c52s_rekey": func(s core.Side, k []byte) (ALTSRecordCrypto, error) { return NewAES128GCMRekey(s, k) },
		} {
			if err := RegisterProtocol(name, f); err != nil {
				panic(err)
			}
		}
	})
}

func c52sKey(proto string) []byte {
	if proto == "c52s_rekey" {
		return c52sKeyRek
	}
	return c52sKeyGCM
}

// ------------------------------------------------------------ the pipe ----

type c52sQueue struct {
	mu     sync.Mutex // native: harness bookkeeping, invisible to the scheduler
	buf    []byte
	closed bool
}

func (q *c52sQueue) ready() bool {
	q.mu.Lock()
	defer q.mu.Unlock()
	return len(q.buf) > 0 || q.closed
}

func (q *c52sQueue) close() {
	q.mu.Lock()
	q.closed = true
	q.mu.Unlock()
}

// c52sEnd is one end of the duplex pipe.
type c52sEnd struct {
	net.Conn
	rd, wr *c52sQueue
}

func (e *c52sEnd) Write(b []byte) (int, error) {
	vsched.Yield() // the bytes reach the peer's socket buffer in a step of their own
	e.wr.mu.Lock()
	defer e.wr.mu.Unlock()
	e.wr.buf = append(e.wr.buf, b...)
	return len(b), nil
}

func (e *c52sEnd) Read(b []byte) (int, error) {
	// blocks (disabled thread) until the peer has written something
	vsched.Point(vsched.Op{Kind: vsched.OpUser, Obj: e.rd, Enabled: e.rd.ready})
	e.rd.mu.Lock()
	defer e.rd.mu.Unlock()
	if len(e.rd.buf) == 0 {
		return 0, io.EOF // torn down
	}
	n := copy(b, e.rd.buf)
	e.rd.buf = e.rd.buf[n:]
	return n, nil
}

func (e *c52sEnd) Close() error { return nil }

// ------------------------------------------------- the recording AEAD ----

type c52sWorld struct {
	x     *vsched.X
	proto string
	mu    sync.Mutex // native
	// what the next Seal / Open of a side must be called with (set by the
	// thread that owns that direction right before its Write / Read)
	expect map[string][]byte
	seals  map[string]string // every nonce handed to a Seal -> who used it
	// in-flight crypto calls per side (between entry and delegation)
	pending map[string]int
	overlap map[string]bool
	got     map[string][][]byte // reader name -> messages read
	readErr map[string]string
	wrErr   map[string]string
	calls   int
}

type c52sAEAD struct {
	cipher.AEAD
	side string // "A" (client) or "B" (server)
	w    *c52sWorld
}

func (a *c52sAEAD) enter(op string) {
	w := a.w
	w.mu.Lock()
	defer w.mu.Unlock()
	otherOp := "open"
	if op == "open" {
		otherOp = "seal"
	}
	if w.pending[a.side+otherOp] > 0 {
		w.overlap[a.side] = true
	}
	w.pending[a.side+op]++
}

// used checks the nonce the inner AEAD is about to be called with.
func (a *c52sAEAD) used(op string, nonce []byte) {
	w := a.w
	w.mu.Lock()
	defer w.mu.Unlock()
	w.calls++
	k := a.side + op
	w.pending[k]--
	vsched.Observe("%s.%s(%x)", a.side, op, nonce)
	if exp := w.expect[k]; exp != nil && !bytes.Equal(exp, nonce) {
		what := "a value outside its counter sequence"
		otherOp := "open"
		if op == "open" {
			otherOp = "seal"
		}
		if bytes.Equal(nonce, w.expect[a.side+otherOp]) {
			what = "the nonce of the SAME conn's other direction"
		}
		w.x.Fail(c52sP, "foreign-nonce:"+op, "%s: side %s %s was handed nonce %x, the direction's counter says %x: %s", w.proto, a.side, op, nonce, exp, what)
	}
	if op == "seal" {
		if who, dup := w.seals[string(nonce)]; dup {
			w.x.Fail(c52sP, "nonce-reused", "%s: nonce %x sealed twice under one key (%s and %s.seal)", w.proto, nonce, who, a.side)
		}
		w.seals[string(nonce)] = a.side + ".seal"
	}
}

func (a *c52sAEAD) Seal(dst, nonce, plaintext, ad []byte) []byte {
	a.enter("seal")
	vsched.Yield() // the window between preparing the nonce and using it
	a.used("seal", nonce)
	return a.AEAD.Seal(dst, nonce, plaintext, ad)
}

func (a *c52sAEAD) Open(dst, nonce, ciphertext, ad []byte) ([]byte, error) {
	a.enter("open")
	vsched.Yield()
	a.used("open", nonce)
	return a.AEAD.Open(dst, nonce, ciphertext, ad)
}

// c52sWrap (re-)installs the recording wrapper around the innermost AEAD(s) of
// c's record protocol. dir: "in", "out" or "" (both). The rekey cipher creates
// its inner GCM lazily and replaces it at every rekey, hence the re-wrapping.
func c52sWrap(w *c52sWorld, c *conn, side, dir string) {
	wrap := func(a cipher.AEAD) cipher.AEAD {
		if a == nil {
			return nil
		}
		if _, ok := a.(*c52sAEAD); ok {
			return a
		}
		return &c52sAEAD{AEAD: a, side: side, w: w}
	}
	switch cr := c.crypto.(type) {
	case *aes128gcm:
		if dir == "" { // one stateless AEAD, installed once before the threads start
			cr.aead = wrap(cr.aead)
		}
	case *aes128gcmRekey:
		if ra, ok := cr.inAEAD.(*rekeyAEAD); ok && dir != "out" {
			ra.gcmAEAD = wrap(ra.gcmAEAD)
		}
		if ra, ok := cr.outAEAD.(*rekeyAEAD); ok && dir != "in" {
			ra.gcmAEAD = wrap(ra.gcmAEAD)
		}
	}
}

// c52sCounter is the specification of the ALTS record counter: 96-bit little
// endian sequence number, top bit set for records sealed by the server.
func c52sCounter(server bool, seq uint64) []byte {
	b := make([]byte, 12)
	binary.LittleEndian.PutUint64(b, seq)
	if server {
		b[11] |= 0x80
	}
	return b
}

// c52sNonce is what the innermost AEAD must see for record seq of the
// direction: the counter itself (AES128-GCM) or counter XOR the nonce mask,
// bytes 32..43 of the key (AES128-GCM-REKEY).
func c52sNonce(proto string, server bool, seq uint64) []byte {
	n := c52sCounter(server, seq)
	if proto == "c52s_rekey" {
		for i := range n {
			n[i] ^= c52sKeyRek[32+i]
		}
	}
	return n
}

func c52sMsg(side string, k int) []byte { return []byte(fmt.Sprintf("%s-msg-%d-payload", side, k)) }

// c52sScenario: side A (client) writes wa messages, side B (server) wb; each
// side's reader reads what the other wrote. start is the sequence number of
// the warm-up record of both directions (0xffff puts the first scheduled record
// of each direction on a rekey boundary).
func c52sScenario(name, proto string, wa, wb int, start uint64, bound int) vsched.Scenario {
	return vsched.Scenario{Name: name, Bound: bound, MinOutcomes: 2, Body: func(x *vsched.X) {
		w := &c52sWorld{x: x, proto: proto, expect: map[string][]byte{}, seals: map[string]string{},
			pending: map[string]int{}, overlap: map[string]bool{}, got: map[string][][]byte{}, readErr: map[string]string{}, wrErr: map[string]string{}}
		ab, ba := &c52sQueue{}, &c52sQueue{}
		na, err1 := NewConn(&c52sEnd{rd: ba, wr: ab}, core.ClientSide, proto, c52sKey(proto), nil)
		nb, err2 := NewConn(&c52sEnd{rd: ab, wr: ba}, core.ServerSide, proto, c52sKey(proto), nil)
		if err1 != nil || err2 != nil {
			x.Fail(c52sP, "constructor", "NewConn failed: %v / %v", err1, err2)
			return
		}
		a, b := na.(*conn), nb.(*conn)
		// structural: a stateful AEAD must not serve both directions of a conn
		for _, c := range []*conn{a, b} {
			if cr, ok := c.crypto.(*aes128gcmRekey); ok {
				in, ok1 := cr.inAEAD.(*rekeyAEAD)
				out, ok2 := cr.outAEAD.(*rekeyAEAD)
				if ok1 && ok2 && in == out {
					x.Fail(c52sP, "shared-stateful-aead", "%s: the conn's read and write directions share ONE rekeyAEAD (nonce scratch buffer, KDF counter and inner GCM are per-object state; Read and Write may run concurrently)", proto)
				}
			}
		}
		if start != 0 {
			for _, c := range []*conn{a, b} {
				switch cr := c.crypto.(type) {
				case *aes128gcm:
					cr.outCounter = CounterFromValue(c52sCounter(c == b, start), overflowLenAES128GCM)
					cr.inCounter = CounterFromValue(c52sCounter(c == a, start), overflowLenAES128GCM)
				case *aes128gcmRekey:
					cr.outCounter = CounterFromValue(c52sCounter(c == b, start), overflowLenAES128GCMRekey)
					cr.inCounter = CounterFromValue(c52sCounter(c == a, start), overflowLenAES128GCMRekey)
				}
			}
		}
		// warm-up (un-scheduled): one record per direction, so the lazily
		// created inner GCMs exist and can be wrapped
		buf := make([]byte, 64)
		for _, p := range [][2]*conn{{a, b}, {b, a}} {
			if _, err := p[0].Write([]byte("warm-up")); err != nil {
				x.Fail(c52sP, "warmup", "warm-up Write failed: %v", err)
				return
			}
			if n, err := p[1].Read(buf); err != nil || string(buf[:n]) != "warm-up" {
				x.Fail(c52sP, "warmup", "warm-up Read returned (%q, %v)", buf[:n], err)
				return
			}
		}
		c52sWrap(w, a, "A", "")
		c52sWrap(w, b, "B", "")

		writer := func(side string, c *conn, server bool, n int) func() {
			return func() {
				for k := 0; k < n; k++ {
					w.mu.Lock()
					w.expect[side+"seal"] = c52sNonce(proto, server, start+1+uint64(k))
					w.mu.Unlock()
					msg := c52sMsg(side, k)
					if m, err := c.Write(msg); err != nil || m != len(msg) {
						w.mu.Lock()
						w.wrErr[side] = fmt.Sprintf("Write #%d returned (%d, %v)", k, m, err)
						w.mu.Unlock()
						return
					}
					c52sWrap(w, c, side, "out") // a rekey replaced the inner AEAD
				}
			}
		}
		reader := func(side string, c *conn, server bool, n int) func() {
			return func() {
				rb := make([]byte, 64)
				for k := 0; k < n; k++ {
					w.mu.Lock()
					// this side opens what the PEER sealed
					w.expect[side+"open"] = c52sNonce(proto, !server, start+1+uint64(k))
					w.mu.Unlock()
					m, err := c.Read(rb)
					w.mu.Lock()
					if err != nil {
						w.readErr[side] = fmt.Sprintf("Read #%d: %v", k, err)
						w.mu.Unlock()
						return
					}
					w.got[side] = append(w.got[side], append([]byte(nil), rb[:m]...))
					w.mu.Unlock()
					c52sWrap(w, c, side, "in")
				}
			}
		}
		x.Go("A.writer", writer("A", a, false, wa))
		x.Go("A.reader", reader("A", a, false, wb))
		x.Go("B.writer", writer("B", b, true, wb))
		x.Go("B.reader", reader("B", b, true, wa))

		x.Final(func(x *vsched.X) {
			for _, p := range x.Panics {
				x.Fail(c52sP, "panic", "%s", p)
			}
			if x.Stuck != "" {
				x.Fail(c52sP, "deadlock", "execution stuck: %s", x.Stuck)
				return
			}
			w.mu.Lock()
			defer w.mu.Unlock()
			for _, side := range []string{"A", "B"} {
				if e := w.wrErr[side]; e != "" {
					x.Fail(c52sP, "write-error", "%s side %s: %s", proto, side, e)
				}
				if e := w.readErr[side]; e != "" {
					x.Fail(c52sP, "read-fails-on-untampered-stream", "%s side %s: %s (nothing was tampered with; %d messages read before)", proto, side, e, len(w.got[side]))
					continue
				}
				peer, n := "B", wb
				if side == "B" {
					peer, n = "A", wa
				}
				if len(w.got[side]) != n {
					x.Fail(c52sP, "plaintext-mismatch", "%s side %s read %d messages, peer wrote %d", proto, side, len(w.got[side]), n)
					continue
				}
				for k, g := range w.got[side] {
					if !bytes.Equal(g, c52sMsg(peer, k)) {
						x.Fail(c52sP, "plaintext-mismatch", "%s side %s: message %d read as %q, written %q", proto, side, k, g, c52sMsg(peer, k))
					}
				}
			}
			x.Outcome(fmt.Sprintf("seal-open windows overlapped: A=%v B=%v", w.overlap["A"], w.overlap["B"]))
		})
		x.Cleanup(func() { ab.close(); ba.close() })
	}}
}

func TestVerif_C52_ALTSSched(t *testing.T) {
	r := vk.Start(t, "c52_alts_sched", "exploration", c52sP)
	defer r.Finish()
	c52sRegister()
	b := r.Pick(2, 3)
	r.Rule(c52sP, fmt.Sprintf("every schedule with at most %d preemptions of four threads on two real ALTS conns joined by an in-memory duplex pipe (A.writer, A.reader, B.writer, B.reader; 1-2 single-record Writes per direction), for AES128-GCM and AES128-GCM-REKEY; scheduling points: the innermost AEAD's Seal/Open (harness wrapper yields between the record protocol preparing the nonce and the primitive using it), the pipe's Write, and the pipe's Read (blocked until data); one un-scheduled warm-up record per direction creates the lazily built inner GCMs; one scenario starts both directions at sequence number 0xffff so the first scheduled record crosses a rekey boundary (the wrapper is re-installed after it); non-trivial = executions deviating from the default schedule", b))
	r.Assume(c52sP, "schedule leg: the record-protocol code has no synchronisation operations; interleavings are explored at the crypto-primitive and transport boundaries only (the record that itself triggers a rekey is sealed/opened without an interior scheduling point); the thorough tier's free-running -race pass guards the rest")
	scs := []vsched.Scenario{
		c52sScenario("rekey/2x2", "c52s_rekey", 2, 2, 0, b),
		c52sScenario("gcm/2x2", "c52s_gcm", 2, 2, 0, b),
		c52sScenario("rekey/2x1", "c52s_rekey", 2, 1, 0, b),
		c52sScenario("rekey/epoch-boundary/2x2", "c52s_rekey", 2, 2, 0xffff, b),
	}
	if r.Thorough() {
		scs = append(scs,
			c52sScenario("gcm/epoch-boundary/2x1", "c52s_gcm", 2, 1, 0xffff, b),
			c52sScenario("rekey/1x1", "c52s_rekey", 1, 1, 0, 4),
		)
	}
	vsched.RunScenarios(t, r, []string{c52sP}, scs)
	r.Sample(c52sP, map[string]any{"scenario": "rekey/2x2", "threads": []string{"A.writer: Write(m0); Write(m1)  [each: Seal point, pipe-write point]", "A.reader: Read; Read  [each: pipe-read point (blocked until data), Open point]", "B.writer / B.reader: mirror image"}})
	r.Sample(c52sP, map[string]any{"schedule": "A.writer runs Encrypt up to the Seal point (nonce prepared); B.writer completes a Write; A.reader runs Decrypt up to its Open point; A.writer resumes and seals", "kind": "two-preemption execution: Seal and Open of one conn in flight together", "required": "each primitive is called with its own direction's nonce; both peers read what was written"})
}
