//go:build verif

package grpc

// C18, E1 leg: every schedule with at most B preemptions of a sender goroutine
// (SendMsg m1, SendMsg m2, CloseSend), a receiver goroutine (RecvMsg until the
// end) and a scripted raw HTTP/2 server racing one or two policy retries of ONE
// streaming RPC on a real ClientConn.
//
// The root package is instrumented (clientStream.mu, csAttempt.mu, the picker
// wrapper's atomics ... are scheduling points), the transport is not: its
// goroutines run freely inside the bubble and the scheduler waits for
// quiescence between managed steps, as in the E4 legs.  The channel, the
// connection and the RPC's first attempt are created un-scheduled during
// set-up; exploration starts with the request HEADERS of attempt 1 at the
// server.  The server thread fails attempt 1 (and, in the two-retry scenarios,
// attempt 2) with trailers-only UNAVAILABLE - a step the explorer places
// anywhere among the sender's and receiver's steps - and answers the last
// attempt OK once that attempt's stream has been half-closed.  The retry backoff
// (a native timer wait with clientStream.mu held) is passed by an environment
// step that advances virtual time when nothing else can run.
//
// Oracle (from the property text, computed from the raw peer's frame log and
// the harness ledger of what the application was told):
//   - the LAST attempt's stream received exactly the messages whose SendMsg
//     returned nil, in order, each once, followed by END_STREAM iff CloseSend
//     returned;
//   - every attempt's stream received a prefix of the application's send
//     sequence (nothing duplicated, reordered or invented), END_STREAM only after
//     all of it;
//   - the number of attempts is what the script implies (bounded, one per
//     scripted failure + 1) and grpc-previous-rpc-attempts counts up;
//   - the receiver got the response of the last attempt and a clean end;
//   - after the RPC ended the stream is committed and the replay buffer released.

import (
	"context"
	"encoding/binary"
	"fmt"
	"io"
	"net"
	"strings"
	"sync"
	"testing"
	"testing/synctest"
	"time"

	"golang.org/x/net/http2"
	"google.golang.org/grpc/credentials/insecure"
	"google.golang.org/grpc/internal/verif/vk"
	"google.golang.org/grpc/internal/verif/vsched"
	"google.golang.org/grpc/internal/verif/wire"
	"google.golang.org/grpc/mem"
)

type c18sCodec struct{}

func (c18sCodec) Name() string { return "verif-raw" }
func (c18sCodec) Marshal(v any) (mem.BufferSlice, error) {
	switch b := v.(type) {
	case []byte:
		return mem.BufferSlice{mem.SliceBuffer(b)}, nil
	case *[]byte:
		return mem.BufferSlice{mem.SliceBuffer(*b)}, nil
	}
	return nil, fmt.Errorf("c18sCodec: unsupported %T", v)
}
func (c18sCodec) Unmarshal(data mem.BufferSlice, v any) error {
	p, ok := v.(*[]byte)
	if !ok {
		return fmt.Errorf("c18sCodec: unsupported %T", v)
	}
	*p = data.Materialize()
	return nil
}

const c18sServiceConfig = `{"methodConfig":[{"name":[{"service":"s"}],"retryPolicy":{"maxAttempts":3,"initialBackoff":"0.001s","maxBackoff":"0.001s","backoffMultiplier":1,"retryableStatusCodes":["UNAVAILABLE"]}}]}`

// c18sVariant is one scenario shape.
type c18sVariant struct {
	Name       string
	Failures   int    // scripted trailers-only UNAVAILABLE answers (attempts 1..Failures), the next attempt is answered OK
	Pushback   bool   // the failures carry grpc-retry-pushback-ms: 0
	Receiver   string // "recv": RecvMsg loop; "header": Header() then RecvMsg loop
	ServerStrm bool   // StreamDesc.ServerStreams
	RecvFirst  bool   // thread order: receiver before sender (decides the default schedule)
}

type c18sWorld struct {
	mu    sync.Mutex
	peers []*wire.Peer
}

func (w *c18sWorld) dial(context.Context, string) (net.Conn, error) {
	c, s := wire.Pipe()
	p := wire.NewServerPeer(s)
	p.AutoAckSettings = true
	p.AutoAckPing = true
	p.WriteSettings(http2.Setting{ID: http2.SettingMaxConcurrentStreams, Val: 100})
	w.mu.Lock()
	w.peers = append(w.peers, p)
	w.mu.Unlock()
	return c, nil
}

// c18sAttempt is one request stream in arrival order.
type c18sAttempt struct {
	peer   *wire.Peer
	stream uint32
	prev   string
	msgs   []string
	es     bool
	bad    string
}

// attempts decodes the peers' frame logs (independent 5-byte-prefix parser).
func (w *c18sWorld) attempts() []*c18sAttempt {
	w.mu.Lock()
	peers := append([]*wire.Peer(nil), w.peers...)
	w.mu.Unlock()
	var out []*c18sAttempt
	for _, p := range peers {
		log := p.Log()
		for _, f := range log {
			if f.Type != "HEADERS" || !f.EndHdrs {
				continue
			}
			a := &c18sAttempt{peer: p, stream: f.Stream, es: f.EndStream}
			a.prev, _ = wire.Field(f.Fields, "grpc-previous-rpc-attempts")
			var data []byte
			for _, d := range log {
				if d.Type != "DATA" || d.Stream != f.Stream {
					continue
				}
				if a.es {
					a.bad = "DATA after END_STREAM"
				}
				data = append(data, d.Data...)
				a.es = a.es || d.EndStream
			}
			for len(data) > 0 {
				if len(data) < 5 {
					a.bad = fmt.Sprintf("partial message prefix %x", data)
					break
				}
				n := int(binary.BigEndian.Uint32(data[1:5]))
				if data[0] != 0 || len(data) < 5+n {
					a.bad = fmt.Sprintf("broken message framing (flag %d, %d of %d payload bytes)", data[0], len(data)-5, n)
					break
				}
				a.msgs = append(a.msgs, string(data[5:5+n]))
				data = data[5+n:]
			}
			out = append(out, a)
		}
	}
	return out
}

func (a *c18sAttempt) String() string {
	s := strings.Join(a.msgs, ",")
	if a.es {
		s += "$"
	}
	if a.bad != "" {
		s += "!" + a.bad
	}
	return "[" + s + "]"
}

var c18sRespHdr = [][2]string{{":status", "200"}, {"content-type", "application/grpc"}}

func c18sScenario(r *vk.Run, v c18sVariant, bound int) vsched.Scenario {
	const P = "C18"
	return vsched.Scenario{Name: v.Name, Bound: bound, MinOutcomes: 3, Horizon: 20000, Body: func(x *vsched.X) {
		x.BackgroundSetup()
		// Free-running -race pass (no scheduler): grpc waits for the retry backoff
		// timer with clientStream.mu held, and a goroutine blocked in a native
		// sync.Mutex.Lock is not "durably blocked" for testing/synctest, so the
		// bubble's clock could never advance.  There the failures carry pushback 0
		// (timer due at once, no clock advance needed) in every scenario.
		free := !vsched.Active()
		w := &c18sWorld{}
		ctx, cancel := context.WithCancel(context.Background())
		var (
			mu        sync.Mutex // harness ledger (native: invisible to the scheduler)
			sendSeq   = []string{"m1", "m2"}
			acked     []string
			sendErrs  []string
			closed    bool
			got       []string
			recvEnd   string
			setupErr  string
			failedAt  []string // attempt logs at the instant the server failed them
			sleeps    int
			gaveUp    bool // the environment released a hung RPC (after recording why)
		)
		cc, err := NewClient("passthrough:///c18s", WithContextDialer(w.dial), WithTransportCredentials(insecure.NewCredentials()), WithDefaultServiceConfig(c18sServiceConfig))
		if err != nil {
			setupErr = "NewClient: " + err.Error()
		}
		var cs ClientStream
		if cc != nil {
			cc.Connect()
			synctest.Wait()
			cs, err = cc.NewStream(ctx, &StreamDesc{StreamName: "m", ClientStreams: true, ServerStreams: v.ServerStrm}, "/s/m", ForceCodecV2(c18sCodec{}))
			if err != nil {
				setupErr = "NewStream: " + err.Error()
			}
			synctest.Wait()
			if as := w.attempts(); setupErr == "" && len(as) != 1 {
				setupErr = fmt.Sprintf("%d request streams at the server after set-up", len(as))
			}
		}
		if setupErr != "" {
			r.EngineError("scenario %s: set-up failed: %s", v.Name, setupErr)
			x.Cleanup(func() {
				cancel()
				if cc != nil {
					cc.Close()
				}
				for _, p := range w.peers {
					p.Close()
				}
			})
			return
		}
		receiver := func() {
			if v.Receiver == "header" {
				cs.Header()
			}
			for i := 0; i < 4; i++ {
				var m []byte
				err := cs.RecvMsg(&m)
				mu.Lock()
				if err == nil {
					got = append(got, string(m))
				} else if err == io.EOF {
					recvEnd = "EOF"
				} else {
					recvEnd = err.Error()
				}
				mu.Unlock()
				if err != nil {
					return
				}
			}
		}
		sender := func() {
			for _, m := range sendSeq {
				err := cs.SendMsg([]byte(m))
				mu.Lock()
				if err == nil {
					acked = append(acked, m)
				} else {
					sendErrs = append(sendErrs, fmt.Sprintf("SendMsg(%s): %v", m, err))
				}
				mu.Unlock()
				if err != nil {
					break // usage protocol: stop sending after an error
				}
			}
			cs.CloseSend()
			mu.Lock()
			closed = true
			mu.Unlock()
		}
		if v.RecvFirst {
			x.Go("receiver", receiver)
			x.Go("sender", sender)
		} else {
			x.Go("sender", sender)
			x.Go("receiver", receiver)
		}
		// await parks the server thread until cond holds: a scheduling point with an
		// enabledness predicate under the explorer, a cheap virtual-time poll in the
		// free-running -race pass (where vsched's own spin would burn a million
		// iterations per virtual second of retry backoff).
		await := func(site string, cond func() bool) {
			if vsched.Active() {
				vsched.Point(vsched.Op{Kind: vsched.OpUser, Site: site, Enabled: cond})
				return
			}
			for !cond() {
				time.Sleep(time.Millisecond)
			}
		}
		x.Go("server", func() {
			for k := 1; k <= v.Failures; k++ {
				if k > 1 {
					// wait for the retry attempt to reach the server
					await("server: await retry attempt", func() bool { return len(w.attempts()) >= k })
				}
				as := w.attempts()
				a := as[k-1]
				mu.Lock()
				failedAt = append(failedAt, a.String())
				mu.Unlock()
				vsched.Observe("server fails attempt %d having received %s", k, a)
				h := append([][2]string{}, c18sRespHdr...)
				h = append(h, [2]string{"grpc-status", "14"}, [2]string{"grpc-message", "scripted"})
				if v.Pushback || free {
					h = append(h, [2]string{"grpc-retry-pushback-ms", "0"})
				}
				a.peer.WriteHeaders(a.stream, h, true)
			}
			// the attempt after the scripted failures is answered OK once it was half-closed
			await("server: await half-close of the last attempt", func() bool {
				mu.Lock()
				g := gaveUp
				mu.Unlock()
				as := w.attempts()
				return g || (len(as) > v.Failures && as[len(as)-1].es)
			})
			mu.Lock()
			g := gaveUp
			mu.Unlock()
			if g {
				return
			}
			as := w.attempts()
			a := as[len(as)-1]
			vsched.Observe("server answers attempt %d OK having received %s", len(as), a)
			a.peer.WriteHeaders(a.stream, c18sRespHdr, false)
			a.peer.WriteData(a.stream, false, wire.GrpcMsg(false, []byte("reply")))
			a.peer.WriteHeaders(a.stream, [][2]string{{"grpc-status", "0"}}, true)
		})
		x.OnStuck(func() bool {
			// nothing can run: the retry backoff timer (or nothing at all) is pending
			mu.Lock()
			done, g := closed, gaveUp
			mu.Unlock()
			if as := w.attempts(); done && !g && len(as) == v.Failures+1 && !as[len(as)-1].es && sleeps >= v.Failures {
				// CloseSend has returned, every scripted retry has happened and was
				// replayed, nothing is running and no timer is left - yet the live
				// attempt was never half-closed: the RPC would hang for ever.  Final
				// reports it (last attempt differs from what was acknowledged); release
				// the RPC so that the execution can end and exploration goes on.
				vsched.Observe("environment: RPC hangs (live attempt %s not half-closed after CloseSend returned), cancelling", as[len(as)-1])
				mu.Lock()
				gaveUp = true
				mu.Unlock()
				cancel()
				return true
			}
			if sleeps >= 6 {
				return false
			}
			sleeps++
			time.Sleep(time.Second)
			return true
		})
		x.Final(func(x *vsched.X) {
			for _, p := range x.Panics {
				x.Fail(P, "panic", "%s", p)
			}
			as := w.attempts()
			var logs []string
			for _, a := range as {
				logs = append(logs, a.String())
			}
			mu.Lock()
			defer mu.Unlock()
			state := fmt.Sprintf("attempts %v; SendMsg returned nil for %v (errors %v); CloseSend returned %v; receiver got %v then %q; server failed attempts holding %v", logs, acked, sendErrs, closed, got, recvEnd, failedAt)
			if x.Stuck != "" {
				x.Fail(P, "deadlock", "%s\n  %s", x.Stuck, state)
				return
			}
			// every attempt: a prefix of the application's send sequence, END_STREAM only after all of what was acknowledged
			for i, a := range as {
				if a.bad != "" {
					x.Fail(P, "malformed-request-stream", "attempt %d: %s\n  %s", i+1, a.bad, state)
				}
				if len(a.msgs) > len(sendSeq) || strings.Join(a.msgs, ",") != strings.Join(sendSeq[:min(len(a.msgs), len(sendSeq))], ",") {
					x.Fail(P, "attempt-not-a-prefix-of-the-send-history", "attempt %d received %s, the application sent %v in this order\n  %s", i+1, a, sendSeq, state)
				}
			}
			if len(as) != v.Failures+1 {
				x.Fail(P, "wrong-number-of-attempts", "%d attempts reached the server, the script (%d retryable failures, policy maxAttempts 3) implies %d\n  %s", len(as), v.Failures, v.Failures+1, state)
			}
			for i, a := range as {
				want := ""
				if i > 0 {
					want = fmt.Sprint(i)
				}
				if a.prev != want {
					x.Fail(P, "wrong-previous-attempts-header", "attempt %d carries grpc-previous-rpc-attempts %q, want %q\n  %s", i+1, a.prev, want, state)
				}
			}
			if len(as) > 0 {
				last := as[len(as)-1]
				want := strings.Join(acked, ",")
				if closed {
					want += "$"
				}
				have := strings.Join(last.msgs, ",")
				if last.es {
					have += "$"
				}
				if have != want {
					x.Fail(P, fmt.Sprintf("last-attempt-received[%s]-acknowledged[%s]", have, want), "the last attempt (%d) received [%s] but the application was told that [%s] had been sent (SendMsg returned nil for each, CloseSend returned)\n  %s", len(as), have, want, state)
				}
			}
			if gaveUp {
				x.Outcome(fmt.Sprintf("HUNG failed@%v attempts=%v", failedAt, logs))
				return
			}
			if len(sendErrs) > 0 {
				x.Fail(P, "send-error-on-retryable-rpc", "%v although every failed attempt was retryable and the last attempt stayed open until its half-close\n  %s", sendErrs, state)
			}
			if strings.Join(got, ",") != "reply" || recvEnd != "EOF" {
				x.Fail(P, "wrong-rpc-result", "receiver got %v then %q, want [reply] then EOF\n  %s", got, recvEnd, state)
			}
			if c, ok := cs.(*clientStream); ok {
				c.mu.Lock()
				if !c.committed || c.replayBuffer != nil {
					x.Fail(P, "buffer-not-released", "after the RPC ended committed=%v and %d ops are still in the replay buffer", c.committed, len(c.replayBuffer))
				}
				c.mu.Unlock()
			}
			lastLog := "none"
			if len(as) > 0 {
				lastLog = as[len(as)-1].String()
			}
			x.Outcome(fmt.Sprintf("failed@%v last=%s", failedAt, lastLog))
		})
		x.Cleanup(func() {
			cancel()
			cc.Close()
			w.mu.Lock()
			ps := append([]*wire.Peer(nil), w.peers...)
			w.mu.Unlock()
			for _, p := range ps {
				p.Close()
			}
			synctest.Wait()
		})
	}}
}

func TestVerif_C18_RetrySched(t *testing.T) {
	const P = "C18"
	r := vk.Start(t, "c18_retry_sched", "exploration", P)
	defer r.Finish()
	b := r.Pick(2, 4)
	r.Rule(P, fmt.Sprintf("every schedule with at most %d preemptions (quick 2, thorough 4) of {sender: SendMsg(m1), SendMsg(m2), CloseSend; receiver: RecvMsg loop (or Header() first); server: trailers-only UNAVAILABLE on attempt 1 (and 2, optionally with pushback 0), OK on the last attempt after its half-close} on the instrumented real clientStream of a real ClientConn (retry policy maxAttempts 3); scenarios vary the number of retries, pushback, the receiver's first call, the stream kind and the thread order (= the default schedule); non-trivial = executions deviating from the default schedule; outcomes = what each failed attempt had received when it was failed", b))
	r.Assume(P, "scheduling points are the synchronisation operations of the instrumented root package (vsync/vatomic, channel statements, selects); internal/transport and the raw peer are not instrumented and run to quiescence between managed steps (synctest); a managed thread blocked natively inside the transport is resumed by the transport, not by the explorer; the retry backoff is passed by advancing virtual time when nothing is enabled")
	scs := []vsched.Scenario{
		c18sScenario(r, c18sVariant{Name: "1retry/recv-first/bidi", Failures: 1, Receiver: "recv", ServerStrm: true, RecvFirst: true}, b),
		c18sScenario(r, c18sVariant{Name: "1retry/send-first/client-stream", Failures: 1, Receiver: "recv", ServerStrm: false, RecvFirst: false}, b),
		c18sScenario(r, c18sVariant{Name: "2retries-pushback/recv-first/bidi", Failures: 2, Pushback: true, Receiver: "recv", ServerStrm: true, RecvFirst: true}, b),
		c18sScenario(r, c18sVariant{Name: "2retries-backoff/send-first/client-stream", Failures: 2, Receiver: "recv", ServerStrm: false, RecvFirst: false}, b),
		c18sScenario(r, c18sVariant{Name: "1retry/header-first/bidi", Failures: 1, Receiver: "header", ServerStrm: true, RecvFirst: true}, b),
	}
	vsched.RunScenarios(t, r, []string{P}, scs)
	r.Sample(P, map[string]any{"scenario": "1retry/recv-first/bidi", "threads": []string{"receiver: RecvMsg until error", "sender: SendMsg(m1); SendMsg(m2); CloseSend()", "server: trailers-only UNAVAILABLE on attempt 1; await half-close of attempt 2; headers+message+OK trailers"}})
}
