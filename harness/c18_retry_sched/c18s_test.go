//go:build verif

package grpc

// C18 + C23, E1 leg: every schedule with at most B preemptions of a sender
// goroutine (SendMsg m1, SendMsg m2, CloseSend), a receiver goroutine (RecvMsg
// until the end) and a scripted raw HTTP/2 server racing one or two policy
// retries of ONE streaming RPC on a real ClientConn.
//
// The root package is instrumented (clientStream.mu, csAttempt.mu, the picker
// wrapper's atomics ... are scheduling points), the transport is not: its
// goroutines run freely inside the bubble and the scheduler waits for
// quiescence between managed steps, as in the E4 legs.  The channel, the
// connection and the RPC's first attempt are created un-scheduled during
// set-up; exploration starts with the request HEADERS of attempt 1 at the
// server.  The server thread fails attempt 1 (and, in the two-retry scenarios,
// attempt 2) with trailers-only UNAVAILABLE - a step the explorer places
// anywhere among the sender's and receiver's steps - and answers the last
// attempt OK once that attempt's stream has been half-closed.  The retry backoff
// (a native timer wait with clientStream.mu held) is passed by an environment
// step that advances virtual time when nothing else can run.  In the
// flow-control scenario the messages are 200 KB, the raw server never opens
// attempt 1's stream window, so the sender is blocked inside SendMsg (write
// quota) and the receiver inside RecvMsg when attempt 1 fails: two operations
// see the same failure.
//
// The channel uses a harness LB policy (one subchannel over the wire.Pipe
// connection) whose picker numbers every pick and hands out a recording Done
// callback.
//
// C18 oracle (from the property text, computed from the raw peer's frame log
// and the harness ledger of what the application was told):
//   - the LAST attempt's stream received exactly the messages whose SendMsg
//     returned nil, in order, each once, followed by END_STREAM iff CloseSend
//     returned;
//   - every attempt's stream received a prefix of the application's send
//     sequence (nothing duplicated, reordered or invented);
//   - the number of attempts is what the script implies (bounded, one per
//     scripted failure + 1) and grpc-previous-rpc-attempts counts up;
//   - the receiver got the response of the last attempt and a clean end; the RPC
//     does not hang;
//   - after the RPC ended the stream is committed and the replay buffer released.
//
// C23 oracle (from its statement, at the end of every execution, before the
// channel is closed): every pick that returned a SubConn had its Done callback
// invoked EXACTLY once (0 = the attempt was orphaned, 2 = double completion),
// never before the server had answered that pick's attempt (unless the RPC was
// cancelled), and there are as many picks as attempts at the server.

import (
	"context"
	"encoding/binary"
	"fmt"
	"io"
	"net"
	"strings"
	"sync"
	"testing"
	"testing/synctest"
	"time"

	"golang.org/x/net/http2"
	"google.golang.org/grpc/balancer"
	"google.golang.org/grpc/connectivity"
	"google.golang.org/grpc/credentials/insecure"
	"google.golang.org/grpc/internal/verif/vk"
	"google.golang.org/grpc/internal/verif/vsched"
	"google.golang.org/grpc/internal/verif/wire"
	"google.golang.org/grpc/mem"
)

type c18sCodec struct{}

func (c18sCodec) Name() string { return "verif-raw" }
func (c18sCodec) Marshal(v any) (mem.BufferSlice, error) {
	switch b := v.(type) {
	case []byte:
		return mem.BufferSlice{mem.SliceBuffer(b)}, nil
	case *[]byte:
		return mem.BufferSlice{mem.SliceBuffer(*b)}, nil
	}
	return nil, fmt.Errorf("c18sCodec: unsupported %T", v)
}
func (c18sCodec) Unmarshal(data mem.BufferSlice, v any) error {
	p, ok := v.(*[]byte)
	if !ok {
		return fmt.Errorf("c18sCodec: unsupported %T", v)
	}
	*p = data.Materialize()
	return nil
}

const c18sLBName = "verif_c18s_lb"

const c18sServiceConfig = `{"loadBalancingConfig":[{"` + c18sLBName + `":{}}],"methodConfig":[{"name":[{"service":"s"}],"retryPolicy":{"maxAttempts":3,"initialBackoff":"0.001s","maxBackoff":"0.001s","backoffMultiplier":1,"retryableStatusCodes":["UNAVAILABLE"]}}]}`

// c18sVariant is one scenario shape.
type c18sVariant struct {
	Name        string
	Failures    int    // scripted trailers-only UNAVAILABLE answers (attempts 1..Failures), the next attempt is answered OK
	Pushback    bool   // the failures carry grpc-retry-pushback-ms: 0
	Receiver    string // "recv": RecvMsg loop; "header": Header() then RecvMsg loop
	ServerStrm  bool   // StreamDesc.ServerStreams
	RecvFirst   bool   // thread order: receiver before sender (decides the default schedule)
	FlowCtl     bool   // 200 KB messages, attempt 1's stream window is never opened: SendMsg blocks on attempt 1
	MinOutcomes int
}

const c18sBigMsg = 200 << 10

// ---------------------------------------------------------------- LB policy with recording Done callbacks

type c18sDone struct {
	Err           string
	BytesSent     bool
	BytesReceived bool
	Early         bool // invoked although the server had not answered the pick's attempt and nothing was cancelled
}

type c18sPick struct {
	ID    int
	Dones []c18sDone
}

// c18sCur is the world of the execution that is currently running (executions
// run strictly one after the other in a process).
var c18sCur *c18sWorld

type c18sLBBuilder struct{}

func (c18sLBBuilder) Name() string { return c18sLBName }
func (c18sLBBuilder) Build(cc balancer.ClientConn, _ balancer.BuildOptions) balancer.Balancer {
	return &c18sLB{w: c18sCur, cc: cc}
}

func init() { balancer.Register(c18sLBBuilder{}) }

type c18sLB struct {
	w  *c18sWorld
	cc balancer.ClientConn
	mu sync.Mutex
	sc balancer.SubConn
}

func (b *c18sLB) UpdateClientConnState(s balancer.ClientConnState) error {
	b.mu.Lock()
	defer b.mu.Unlock()
	if b.sc != nil || len(s.ResolverState.Addresses) == 0 {
		return nil
	}
	sc, err := b.cc.NewSubConn(s.ResolverState.Addresses[:1], balancer.NewSubConnOptions{StateListener: b.onState})
	if err != nil {
		return err
	}
	b.sc = sc
	b.cc.UpdateState(balancer.State{ConnectivityState: connectivity.Connecting, Picker: c18sErrPicker{balancer.ErrNoSubConnAvailable}})
	sc.Connect()
	return nil
}

func (b *c18sLB) onState(s balancer.SubConnState) {
	b.mu.Lock()
	sc := b.sc
	b.mu.Unlock()
	switch s.ConnectivityState {
	case connectivity.Ready:
		b.cc.UpdateState(balancer.State{ConnectivityState: connectivity.Ready, Picker: &c18sPicker{w: b.w, sc: sc}})
	case connectivity.Idle:
		b.cc.UpdateState(balancer.State{ConnectivityState: connectivity.Connecting, Picker: c18sErrPicker{balancer.ErrNoSubConnAvailable}})
		sc.Connect()
	case connectivity.Connecting:
		b.cc.UpdateState(balancer.State{ConnectivityState: connectivity.Connecting, Picker: c18sErrPicker{balancer.ErrNoSubConnAvailable}})
	case connectivity.TransientFailure:
		b.cc.UpdateState(balancer.State{ConnectivityState: connectivity.TransientFailure, Picker: c18sErrPicker{s.ConnectionError}})
	}
}

func (b *c18sLB) ResolverError(error)                                        {}
func (b *c18sLB) UpdateSubConnState(balancer.SubConn, balancer.SubConnState) {}
func (b *c18sLB) ExitIdle()                                                  {}
func (b *c18sLB) Close()                                                     {}

type c18sErrPicker struct{ err error }

func (p c18sErrPicker) Pick(balancer.PickInfo) (balancer.PickResult, error) {
	return balancer.PickResult{}, p.err
}

type c18sPicker struct {
	w  *c18sWorld
	sc balancer.SubConn
}

func (p *c18sPicker) Pick(balancer.PickInfo) (balancer.PickResult, error) {
	w := p.w
	w.mu.Lock()
	pk := &c18sPick{ID: len(w.picks) + 1}
	w.picks = append(w.picks, pk)
	w.mu.Unlock()
	return balancer.PickResult{SubConn: p.sc, Done: func(di balancer.DoneInfo) {
		d := c18sDone{BytesSent: di.BytesSent, BytesReceived: di.BytesReceived}
		if di.Err != nil {
			d.Err = di.Err.Error()
		}
		w.mu.Lock()
		d.Early = !w.answered[pk.ID] && !w.released
		pk.Dones = append(pk.Dones, d)
		w.mu.Unlock()
	}}, nil
}

// ---------------------------------------------------------------- world

type c18sWorld struct {
	mu       sync.Mutex
	peers    []*wire.Peer
	picks    []*c18sPick
	answered map[int]bool // attempt number -> the server wrote its terminal frames
	released bool         // the RPC was cancelled / the channel is being closed
	bigMsg   bool
}

func (w *c18sWorld) dial(context.Context, string) (net.Conn, error) {
	c, s := wire.Pipe()
	p := wire.NewServerPeer(s)
	p.AutoAckSettings = true
	p.AutoAckPing = true
	p.WriteSettings(http2.Setting{ID: http2.SettingMaxConcurrentStreams, Val: 100})
	p.WriteWindowUpdate(0, 1<<30) // the connection window never limits anything
	w.mu.Lock()
	w.peers = append(w.peers, p)
	w.mu.Unlock()
	return c, nil
}

func (w *c18sWorld) picksSnapshot() []c18sPick {
	w.mu.Lock()
	defer w.mu.Unlock()
	out := make([]c18sPick, len(w.picks))
	for i, p := range w.picks {
		out[i] = c18sPick{ID: p.ID, Dones: append([]c18sDone(nil), p.Dones...)}
	}
	return out
}

// c18sAttempt is one request stream in arrival order.
type c18sAttempt struct {
	peer    *wire.Peer
	stream  uint32
	prev    string
	msgs    []string // complete messages (labels)
	partial string   // an incomplete trailing message, e.g. "m1:65530/204800"
	es      bool
	bad     string
}

// c18sMsgDec cuts a DATA byte stream into gRPC messages (independent 5-byte
// prefix parser) without keeping the payloads: a message is represented by its
// text if short, else by its 2-byte label (the rest must be the 'x' padding).
type c18sMsgDec struct {
	hdr   [5]byte
	nh    int
	n     int // payload length of the current message
	have  int
	label []byte
	bad   string
	msgs  []string
}

func (d *c18sMsgDec) feed(b []byte) {
	for len(b) > 0 && d.bad == "" {
		if d.nh < 5 {
			k := copy(d.hdr[d.nh:], b)
			d.nh += k
			b = b[k:]
			if d.nh == 5 {
				if d.hdr[0] != 0 {
					d.bad = "compressed flag set"
				}
				d.n, d.have, d.label = int(binary.BigEndian.Uint32(d.hdr[1:5])), 0, nil
				if d.n == 0 {
					d.msgs, d.nh = append(d.msgs, ""), 0
				}
			}
			continue
		}
		k := min(d.n-d.have, len(b))
		keep := 2
		if d.n <= 8 {
			keep = d.n
		}
		for i := 0; i < k; i++ {
			if len(d.label) < keep {
				d.label = append(d.label, b[i])
			} else if b[i] != 'x' {
				d.bad = fmt.Sprintf("message %q: payload byte %d is %q, not the padding", d.label, d.have+i, b[i])
				break
			}
		}
		d.have += k
		b = b[k:]
		if d.have == d.n {
			d.msgs, d.nh = append(d.msgs, string(d.label)), 0
		}
	}
}

func (d *c18sMsgDec) partial() string {
	switch {
	case d.nh == 0:
		return ""
	case d.nh < 5:
		return fmt.Sprintf("prefix:%d/5", d.nh)
	}
	return fmt.Sprintf("%s:%d/%d", d.label, d.have, d.n)
}

// attempts decodes the peers' frame logs.
func (w *c18sWorld) attempts() []*c18sAttempt {
	w.mu.Lock()
	peers := append([]*wire.Peer(nil), w.peers...)
	big := w.bigMsg
	w.mu.Unlock()
	var out []*c18sAttempt
	for _, p := range peers {
		log := p.Log()
		for _, f := range log {
			if f.Type != "HEADERS" || !f.EndHdrs {
				continue
			}
			a := &c18sAttempt{peer: p, stream: f.Stream, es: f.EndStream}
			a.prev, _ = wire.Field(f.Fields, "grpc-previous-rpc-attempts")
			var dec c18sMsgDec
			for _, d := range log {
				if d.Type != "DATA" || d.Stream != f.Stream {
					continue
				}
				if a.es {
					a.bad = "DATA after END_STREAM"
				}
				dec.feed(d.Data)
				a.es = a.es || d.EndStream
			}
			a.msgs, a.partial = dec.msgs, dec.partial()
			if dec.bad != "" {
				a.bad = dec.bad
			}
			if big {
				for _, m := range a.msgs {
					if len(m) != 2 {
						a.bad = fmt.Sprintf("unexpected message %q", m)
					}
				}
			}
			out = append(out, a)
		}
	}
	return out
}

func (a *c18sAttempt) body() string {
	s := strings.Join(a.msgs, ",")
	if a.partial != "" {
		if s != "" {
			s += ","
		}
		s += "(" + a.partial + ")"
	}
	if a.es {
		s += "$"
	}
	return s
}

func (a *c18sAttempt) String() string {
	s := a.body()
	if a.bad != "" {
		s += "!" + a.bad
	}
	return "[" + s + "]"
}

var c18sRespHdr = [][2]string{{":status", "200"}, {"content-type", "application/grpc"}}

func c18sScenario(r *vk.Run, v c18sVariant, bound int) vsched.Scenario {
	const P = "C18"
	if v.MinOutcomes == 0 {
		v.MinOutcomes = 3
	}
	return vsched.Scenario{Name: v.Name, Bound: bound, MinOutcomes: v.MinOutcomes, Horizon: 20000, Body: func(x *vsched.X) {
		x.BackgroundSetup()
		// Free-running -race pass (no scheduler): grpc waits for the retry backoff
		// timer with clientStream.mu held, and a goroutine blocked in a native
		// sync.Mutex.Lock is not "durably blocked" for testing/synctest, so the
		// bubble's clock could never advance.  There the failures carry pushback 0
		// (timer due at once, no clock advance needed) in every scenario.
		free := !vsched.Active()
		w := &c18sWorld{answered: map[int]bool{}, bigMsg: v.FlowCtl}
		c18sCur = w
		ctx, cancel := context.WithCancel(context.Background())
		var (
			mu       sync.Mutex // harness ledger (native: invisible to the scheduler)
			sendSeq  = []string{"m1", "m2"}
			acked    []string
			sendErrs []string
			closed   bool
			got      []string
			recvEnd  string
			setupErr string
			failedAt []string // attempt logs at the instant the server failed them
			sleeps   int
			gaveUp   bool   // the environment released a hung RPC (after recording why)
			hungWhy  string //
			granted  = map[int]bool{}
		)
		payload := func(label string) []byte {
			if !v.FlowCtl {
				return []byte(label)
			}
			return []byte(label + strings.Repeat("x", c18sBigMsg-len(label)))
		}
		release := func() {
			w.mu.Lock()
			w.released = true
			w.mu.Unlock()
			cancel()
		}
		cc, err := NewClient("passthrough:///c18s", WithContextDialer(w.dial), WithTransportCredentials(insecure.NewCredentials()), WithDefaultServiceConfig(c18sServiceConfig))
		if err != nil {
			setupErr = "NewClient: " + err.Error()
		}
		var cs ClientStream
		if cc != nil {
			cc.Connect()
			synctest.Wait()
			cs, err = cc.NewStream(ctx, &StreamDesc{StreamName: "m", ClientStreams: true, ServerStreams: v.ServerStrm}, "/s/m", ForceCodecV2(c18sCodec{}), MaxRetryRPCBufferSize(16<<20))
			if err != nil {
				setupErr = "NewStream: " + err.Error()
			}
			synctest.Wait()
			if as := w.attempts(); setupErr == "" && (len(as) != 1 || len(w.picksSnapshot()) != 1) {
				setupErr = fmt.Sprintf("%d request streams at the server and %d picks after set-up", len(as), len(w.picksSnapshot()))
			}
		}
		if setupErr != "" {
			r.EngineError("scenario %s: set-up failed: %s", v.Name, setupErr)
			x.Cleanup(func() {
				release()
				if cc != nil {
					cc.Close()
				}
				for _, p := range w.peers {
					p.Close()
				}
			})
			return
		}
		receiver := func() {
			if v.Receiver == "header" {
				cs.Header()
			}
			for i := 0; i < 4; i++ {
				var m []byte
				err := cs.RecvMsg(&m)
				mu.Lock()
				if err == nil {
					got = append(got, string(m))
				} else if err == io.EOF {
					recvEnd = "EOF"
				} else {
					recvEnd = err.Error()
				}
				mu.Unlock()
				if err != nil {
					return
				}
			}
		}
		sender := func() {
			for _, m := range sendSeq {
				err := cs.SendMsg(payload(m))
				mu.Lock()
				if err == nil {
					acked = append(acked, m)
				} else {
					sendErrs = append(sendErrs, fmt.Sprintf("SendMsg(%s): %v", m, err))
				}
				mu.Unlock()
				if err != nil {
					break // usage protocol: stop sending after an error
				}
			}
			cs.CloseSend()
			mu.Lock()
			closed = true
			mu.Unlock()
		}
		if v.RecvFirst {
			x.Go("receiver", receiver)
			x.Go("sender", sender)
		} else {
			x.Go("sender", sender)
			x.Go("receiver", receiver)
		}
		// await parks the server thread until cond holds: a scheduling point with an
		// enabledness predicate under the explorer, a cheap virtual-time poll in the
		// free-running -race pass (where vsched's own spin would burn a million
		// iterations per virtual second of retry backoff).
		await := func(site string, cond func() bool) {
			if vsched.Active() {
				vsched.Point(vsched.Op{Kind: vsched.OpUser, Site: site, Enabled: cond})
				return
			}
			for !cond() {
				time.Sleep(time.Millisecond)
			}
		}
		markAnswered := func(n int) {
			w.mu.Lock()
			w.answered[n] = true
			w.mu.Unlock()
		}
		// next server action once the scripted failures are served
		nextAct := func() (string, int) {
			mu.Lock()
			g := gaveUp
			mu.Unlock()
			if g {
				return "stop", 0
			}
			as := w.attempts()
			if v.FlowCtl {
				for i := v.Failures; i < len(as); i++ {
					mu.Lock()
					done := granted[i+1]
					mu.Unlock()
					if !done {
						return "grant", i + 1
					}
				}
			}
			if len(as) > v.Failures && as[len(as)-1].es {
				return "ok", len(as)
			}
			return "", 0
		}
		x.Go("server", func() {
			for k := 1; k <= v.Failures; k++ {
				if k > 1 {
					// wait for the retry attempt to reach the server
					await("server: await retry attempt", func() bool { return len(w.attempts()) >= k })
				}
				as := w.attempts()
				a := as[k-1]
				mu.Lock()
				failedAt = append(failedAt, a.String())
				mu.Unlock()
				vsched.Observe("server fails attempt %d having received %s", k, a)
				h := append([][2]string{}, c18sRespHdr...)
				h = append(h, [2]string{"grpc-status", "14"}, [2]string{"grpc-message", "scripted"})
				if v.Pushback || free {
					h = append(h, [2]string{"grpc-retry-pushback-ms", "0"})
				}
				markAnswered(k)
				a.peer.WriteHeaders(a.stream, h, true)
			}
			for {
				// the attempt after the scripted failures is answered OK once it was
				// half-closed; (flow-control scenario) every retry attempt first gets a
				// stream window that lets the request through
				await("server: await half-close of the last attempt", func() bool { act, _ := nextAct(); return act != "" })
				act, n := nextAct()
				switch act {
				case "grant":
					a := w.attempts()[n-1]
					mu.Lock()
					granted[n] = true
					mu.Unlock()
					vsched.Observe("server opens the stream window of attempt %d", n)
					a.peer.WriteWindowUpdate(a.stream, 1<<24)
					continue
				case "ok":
					a := w.attempts()[n-1]
					vsched.Observe("server answers attempt %d OK having received %s", n, a)
					markAnswered(n)
					a.peer.WriteHeaders(a.stream, c18sRespHdr, false)
					a.peer.WriteData(a.stream, false, wire.GrpcMsg(false, []byte("reply")))
					a.peer.WriteHeaders(a.stream, [][2]string{{"grpc-status", "0"}}, true)
				}
				return
			}
		})
		x.OnStuck(func() bool {
			// nothing can run: the retry backoff timer (or nothing at all) is pending
			mu.Lock()
			done, g := closed, gaveUp
			mu.Unlock()
			if g {
				return false
			}
			as := w.attempts()
			why := ""
			if done && len(as) == v.Failures+1 && !as[len(as)-1].es && sleeps >= v.Failures {
				// CloseSend has returned, every scripted retry has happened and was
				// replayed, nothing is running and no timer is left - yet the live
				// attempt was never half-closed
				why = fmt.Sprintf("live attempt %s not half-closed after CloseSend returned", as[len(as)-1])
			} else if sleeps >= v.Failures+2 {
				// every backoff had its turn and more: some thread is blocked for good
				var logs []string
				for _, a := range as {
					logs = append(logs, a.String())
				}
				why = fmt.Sprintf("nothing can run and no timer is left; attempts at the server %v", logs)
			}
			if why != "" {
				// The RPC would hang for ever.  Final reports it; release the RPC so
				// that the execution can end and exploration goes on.
				vsched.Observe("environment: RPC hangs (%s), cancelling", why)
				mu.Lock()
				gaveUp, hungWhy = true, why
				mu.Unlock()
				release()
				return true
			}
			sleeps++
			time.Sleep(time.Second)
			return true
		})
		x.Final(func(x *vsched.X) {
			for _, p := range x.Panics {
				x.Fail(P, "panic", "%s", p)
			}
			as := w.attempts()
			var logs []string
			for _, a := range as {
				logs = append(logs, a.String())
			}
			picks := w.picksSnapshot()
			var doneCounts []int
			var pickLog []string
			for _, pk := range picks {
				doneCounts = append(doneCounts, len(pk.Dones))
				pickLog = append(pickLog, fmt.Sprintf("pick#%d:%+v", pk.ID, pk.Dones))
			}
			mu.Lock()
			defer mu.Unlock()
			state := fmt.Sprintf("attempts %v; SendMsg returned nil for %v (errors %v); CloseSend returned %v; receiver got %v then %q; server failed attempts holding %v; Done calls %v", logs, acked, sendErrs, closed, got, recvEnd, failedAt, pickLog)

			// ---- C23: every pick's Done exactly once, not before its attempt ended
			if len(picks) != len(as) {
				x.Fail("C23", "picks-differ-from-attempts", "%d picks returned a SubConn but %d attempts reached the server\n  %s", len(picks), len(as), state)
			}
			for _, pk := range picks {
				switch n := len(pk.Dones); {
				case n == 0:
					x.Fail("C23", fmt.Sprintf("done-never-called/pick#%d", pk.ID), "the Done callback of pick #%d (of %d) was never invoked although the RPC has ended: its attempt was orphaned\n  %s", pk.ID, len(picks), state)
				case n > 1:
					x.Fail("C23", fmt.Sprintf("done-called-twice/pick#%d", pk.ID), "the Done callback of pick #%d was invoked %d times\n  %s", pk.ID, n, state)
				}
				for _, d := range pk.Dones {
					if d.Early {
						x.Fail("C23", fmt.Sprintf("done-before-attempt-ended/pick#%d", pk.ID), "Done of pick #%d ran before the server had answered attempt %d (and nothing was cancelled)\n  %s", pk.ID, pk.ID, state)
					}
				}
			}

			// ---- C18
			if x.Stuck != "" {
				x.Fail(P, "deadlock", "%s\n  %s", x.Stuck, state)
				return
			}
			// every attempt: a prefix of the application's send sequence
			for i, a := range as {
				if a.bad != "" {
					x.Fail(P, "malformed-request-stream", "attempt %d: %s\n  %s", i+1, a.bad, state)
				}
				if len(a.msgs) > len(sendSeq) || strings.Join(a.msgs, ",") != strings.Join(sendSeq[:min(len(a.msgs), len(sendSeq))], ",") {
					x.Fail(P, "attempt-not-a-prefix-of-the-send-history", "attempt %d received %s, the application sent %v in this order\n  %s", i+1, a, sendSeq, state)
				}
			}
			if len(as) != v.Failures+1 {
				x.Fail(P, "wrong-number-of-attempts", "%d attempts reached the server, the script (%d retryable failures, policy maxAttempts 3) implies %d\n  %s", len(as), v.Failures, v.Failures+1, state)
			}
			for i, a := range as {
				want := ""
				if i > 0 {
					want = fmt.Sprint(i)
				}
				if a.prev != want {
					x.Fail(P, "wrong-previous-attempts-header", "attempt %d carries grpc-previous-rpc-attempts %q, want %q\n  %s", i+1, a.prev, want, state)
				}
			}
			if len(as) > 0 {
				last := as[len(as)-1]
				want := strings.Join(acked, ",")
				if closed {
					want += "$"
				}
				if have := last.body(); have != want {
					x.Fail(P, fmt.Sprintf("last-attempt-received[%s]-acknowledged[%s]", have, want), "the last attempt (%d) received [%s] but the application was told that [%s] had been sent (SendMsg returned nil for each, CloseSend returned)\n  %s", len(as), have, want, state)
				}
			}
			if gaveUp {
				x.Fail(P, "rpc-hung", "the RPC never finished: %s\n  %s", hungWhy, state)
				x.Outcome(fmt.Sprintf("HUNG failed@%v attempts=%v dones=%v", failedAt, logs, doneCounts))
				return
			}
			if len(sendErrs) > 0 {
				x.Fail(P, "send-error-on-retryable-rpc", "%v although every failed attempt was retryable and the last attempt stayed open until its half-close\n  %s", sendErrs, state)
			}
			if strings.Join(got, ",") != "reply" || recvEnd != "EOF" {
				x.Fail(P, "wrong-rpc-result", "receiver got %v then %q, want [reply] then EOF\n  %s", got, recvEnd, state)
			}
			if c, ok := cs.(*clientStream); ok {
				c.mu.Lock()
				if !c.committed || c.replayBuffer != nil {
					x.Fail(P, "buffer-not-released", "after the RPC ended committed=%v and %d ops are still in the replay buffer", c.committed, len(c.replayBuffer))
				}
				c.mu.Unlock()
			}
			lastLog := "none"
			if len(as) > 0 {
				lastLog = as[len(as)-1].String()
			}
			x.Outcome(fmt.Sprintf("failed@%v last=%s dones=%v", failedAt, lastLog, doneCounts))
		})
		x.Cleanup(func() {
			release()
			cc.Close()
			w.mu.Lock()
			ps := append([]*wire.Peer(nil), w.peers...)
			w.mu.Unlock()
			for _, p := range ps {
				p.Close()
			}
			synctest.Wait()
		})
	}}
}

func TestVerif_C18_RetrySched(t *testing.T) {
	const P = "C18"
	r := vk.Start(t, "c18_retry_sched", "exploration", P, "C23")
	defer r.Finish()
	b := r.Pick(2, 4)
	rule := fmt.Sprintf("every schedule with at most %d preemptions (quick 2, thorough 4) of {sender: SendMsg(m1), SendMsg(m2), CloseSend; receiver: RecvMsg loop (or Header() first); server: trailers-only UNAVAILABLE on attempt 1 (and 2, optionally with pushback 0), OK on the last attempt after its half-close} on the instrumented real clientStream of a real ClientConn (retry policy maxAttempts 3, harness LB policy with numbered picks and recording Done callbacks); scenarios vary the number of retries, pushback, the receiver's first call, the stream kind, the thread order (= the default schedule) and flow control (200 KB messages with attempt 1's window closed: sender blocked in SendMsg and receiver in RecvMsg see the same failure); non-trivial = executions deviating from the default schedule; outcomes = what each failed attempt had received when it was failed + Done counts per pick", b)
	r.Rule(P, rule)
	r.Rule("C23", rule+"; C23 part: at the end of every execution (RPC finished or released by cancellation, channel still open) every pick that returned a SubConn had Done invoked exactly once, never before the server answered its attempt, and picks = attempts at the server")
	for _, p := range []string{P, "C23"} {
		r.Assume(p, "scheduling points are the synchronisation operations of the instrumented root package (vsync/vatomic, channel statements, selects); internal/transport and the raw peer are not instrumented and run to quiescence between managed steps (synctest); a managed thread blocked natively inside the transport is resumed by the transport, not by the explorer; the retry backoff is passed by advancing virtual time when nothing is enabled")
	}
	scs := []vsched.Scenario{
		c18sScenario(r, c18sVariant{Name: "1retry/recv-first/bidi", Failures: 1, Receiver: "recv", ServerStrm: true, RecvFirst: true}, b),
		c18sScenario(r, c18sVariant{Name: "1retry/send-first/client-stream", Failures: 1, Receiver: "recv", ServerStrm: false, RecvFirst: false}, b),
		c18sScenario(r, c18sVariant{Name: "2retries-pushback/recv-first/bidi", Failures: 2, Pushback: true, Receiver: "recv", ServerStrm: true, RecvFirst: true}, b),
		c18sScenario(r, c18sVariant{Name: "2retries-backoff/send-first/client-stream", Failures: 2, Receiver: "recv", ServerStrm: false, RecvFirst: false}, b),
		c18sScenario(r, c18sVariant{Name: "1retry/header-first/bidi", Failures: 1, Receiver: "header", ServerStrm: true, RecvFirst: true}, b),
		c18sScenario(r, c18sVariant{Name: "1retry/flow-control-blocked-send/bidi", Failures: 1, Receiver: "recv", ServerStrm: true, RecvFirst: true, FlowCtl: true, MinOutcomes: 1}, b),
	}
	vsched.RunScenarios(t, r, []string{P, "C23"}, scs)
	for _, p := range []string{P, "C23"} {
		r.Sample(p, map[string]any{"scenario": "1retry/recv-first/bidi", "threads": []string{"receiver: RecvMsg until error", "sender: SendMsg(m1); SendMsg(m2); CloseSend()", "server: trailers-only UNAVAILABLE on attempt 1; await half-close of attempt 2; headers+message+OK trailers"}, "lb": "harness policy: one subchannel, every pick numbered, Done recorded (count, DoneInfo.Err, BytesSent, BytesReceived)"})
	}
}
