//go:build verif

package xdsresource

// C47 (leg 2 of 2): the path matchers used by xDS routing. "path matchers with
// case_insensitive match paths equal (or prefixed) up to ASCII case".
//
// Every route-match proto {path | prefix | safe_regex} x case_sensitive{t,f}
// over the pattern grammar is converted by the production code
// (routesProtoToSlice -> RouteToMatcher) and evaluated on every path of the
// grammar; the oracle is a byte-wise comparison folding the 26 ASCII letters
// only (never strings.ToUpper/ToLower/EqualFold).

import (
	"fmt"
	"regexp"
	"runtime"
	"sort"
	"strings"
	"sync"
	"testing"
	"unicode/utf8"

	v3routepb "github.com/envoyproxy/go-control-plane/envoy/config/route/v3"
	v3matcherpb "github.com/envoyproxy/go-control-plane/envoy/type/matcher/v3"
	"google.golang.org/grpc/internal/verif/vk"
	"google.golang.org/protobuf/types/known/wrapperspb"
)

const c47pKeyUnicodeFold = "pathmatcher-caseinsensitive-unicode-fold"

// '/', ASCII letters, and the non-ASCII runes whose Unicode upper/lower case
// mapping is an ASCII letter: U+017F LONG S (upper S), U+0131 DOTLESS I (upper
// I), U+0130 I WITH DOT ABOVE (lower i), U+212A KELVIN SIGN (lower k).
var c47pSymbols = []string{"/", "a", "A", "s", "\u017f", "i", "\u0131", "\u0130", "k", "\u212a", "1"}

type c47pSpec struct {
	Kind string `json:"kind"` // path | prefix | regex
	Pat  string `json:"pat"`
	CI   bool   `json:"case_insensitive"`
}

type c47pCase struct {
	Spec c47pSpec `json:"matcher"`
	Path string   `json:"path"`
}

func (c c47pCase) String() string {
	return fmt.Sprintf("%s(%+q) case_insensitive=%v on path %+q (bytes % x)", c.Spec.Kind, c.Spec.Pat, c.Spec.CI, c.Path, c.Path)
}

func c47pStrings(syms []string, n int) []string {
	seen := map[string]bool{"": true}
	out := []string{""}
	level := []string{""}
	for l := 1; l <= n; l++ {
		var next []string
		for _, p := range level {
			for _, s := range syms {
				next = append(next, p+s)
				if !seen[p+s] {
					seen[p+s] = true
					out = append(out, p+s)
				}
			}
		}
		level = next
	}
	return out
}

func c47pFold(b byte) byte {
	if b >= 'A' && b <= 'Z' {
		return b + ('a' - 'A')
	}
	return b
}

// c47pHasPrefix: path starts with pat, comparing bytes, folding ASCII letters
// only when fold is set.
func c47pHasPrefix(path, pat string, fold bool) bool {
	if len(pat) > len(path) {
		return false
	}
	for i := 0; i < len(pat); i++ {
		x, y := path[i], pat[i]
		if fold {
			x, y = c47pFold(x), c47pFold(y)
		}
		if x != y {
			return false
		}
	}
	return true
}

type c47pRegex struct {
	Pat  string
	Lang func(string) bool
}

var c47pRegexes = []c47pRegex{
	{"/s/.*", func(v string) bool { return len(v) >= 3 && v[:3] == "/s/" }},
	{"/a|/s", func(v string) bool { return v == "/a" || v == "/s" }},
	{"/[a-s]*", func(v string) bool {
		if len(v) < 1 || v[0] != '/' {
			return false
		}
		for i := 1; i < len(v); i++ {
			if v[i] < 'a' || v[i] > 's' {
				return false
			}
		}
		return true
	}},
	{"", func(v string) bool { return v == "" }},
	{".*", func(v string) bool { return true }},
}

func c47pRef(c c47pCase) bool {
	switch c.Spec.Kind {
	case "path":
		return len(c.Path) == len(c.Spec.Pat) && c47pHasPrefix(c.Path, c.Spec.Pat, c.Spec.CI)
	case "prefix":
		return c47pHasPrefix(c.Path, c.Spec.Pat, c.Spec.CI)
	case "regex":
		for _, rx := range c47pRegexes {
			if rx.Pat == c.Spec.Pat {
				return rx.Lang(c.Path)
			}
		}
	}
	panic("c47pRef: " + c.Spec.Kind)
}

// c47pBuild converts the route-match proto with the production code.
func c47pBuild(s c47pSpec) (*CompositeMatcher, error) {
	m := &v3routepb.RouteMatch{CaseSensitive: wrapperspb.Bool(!s.CI)}
	switch s.Kind {
	case "path":
		m.PathSpecifier = &v3routepb.RouteMatch_Path{Path: s.Pat}
	case "prefix":
		m.PathSpecifier = &v3routepb.RouteMatch_Prefix{Prefix: s.Pat}
	case "regex":
		m.PathSpecifier = &v3routepb.RouteMatch_SafeRegex{SafeRegex: &v3matcherpb.RegexMatcher{Regex: s.Pat}}
	}
	rt := &v3routepb.Route{Match: m, Action: &v3routepb.Route_Route{Route: &v3routepb.RouteAction{ClusterSpecifier: &v3routepb.RouteAction_Cluster{Cluster: "c"}}}}
	routes, _, err := routesProtoToSlice([]*v3routepb.Route{rt}, nil, nil, nil)
	if err != nil {
		return nil, err
	}
	if len(routes) != 1 {
		return nil, fmt.Errorf("routesProtoToSlice returned %d routes", len(routes))
	}
	if routes[0].CaseInsensitive != s.CI {
		return nil, fmt.Errorf("case_sensitive=%v converted to CaseInsensitive=%v", !s.CI, routes[0].CaseInsensitive)
	}
	return RouteToMatcher(routes[0]), nil
}

func c47pNonASCII(s string) bool {
	for i := 0; i < len(s); i++ {
		if s[i] >= 0x80 {
			return true
		}
	}
	return false
}

func c47pClass(c c47pCase) string {
	if c.Spec.CI && c.Spec.Kind != "regex" && (c47pNonASCII(c.Spec.Pat) || c47pNonASCII(c.Path)) {
		return c47pKeyUnicodeFold
	}
	return ""
}

func c47pOrd(c c47pCase) string {
	ko := map[string]int{"path": 0, "prefix": 1, "regex": 2}[c.Spec.Kind]
	return fmt.Sprintf("%05d|%d|%q|%q|%v", utf8.RuneCountInString(c.Spec.Pat)+utf8.RuneCountInString(c.Path), ko, c.Spec.Pat, c.Path, c.Spec.CI)
}

type c47pFail struct {
	Case c47pCase
	Got  string
	Want bool
	ord  string
}

type c47pBucket struct {
	n    int64
	best []c47pFail
}

func (b *c47pBucket) add(f c47pFail) {
	b.best = append(b.best, f)
	sort.Slice(b.best, func(i, j int) bool { return b.best[i].ord < b.best[j].ord })
	if len(b.best) > 6 {
		b.best = b.best[:6]
	}
}

type c47pTally struct {
	evals, match int64
	outcomes     map[string]int64
	fails        map[string]*c47pBucket
}

func c47pNewTally() *c47pTally {
	return &c47pTally{outcomes: map[string]int64{}, fails: map[string]*c47pBucket{}}
}

func (t *c47pTally) fail(c c47pCase, got string, want bool) {
	k := c47pClass(c)
	if k == "" {
		k = fmt.Sprintf("shape:kind=%s", c.Spec.Kind)
	}
	b := t.fails[k]
	if b == nil {
		b = &c47pBucket{}
		t.fails[k] = b
	}
	b.n++
	f := c47pFail{Case: c, Got: got, Want: want, ord: c47pOrd(c)}
	if len(b.best) == 6 && f.ord >= b.best[5].ord {
		return
	}
	b.add(f)
}

func (t *c47pTally) merge(o *c47pTally) {
	t.evals += o.evals
	t.match += o.match
	for k, v := range o.outcomes {
		t.outcomes[k] += v
	}
	for k, ob := range o.fails {
		b := t.fails[k]
		if b == nil {
			b = &c47pBucket{}
			t.fails[k] = b
		}
		b.n += ob.n
		for _, f := range ob.best {
			b.add(f)
		}
	}
}

// c47pOutcomeKeys caches the outcome-class strings (kind/ci/want).
var c47pOutcomeKeys sync.Map

func c47pOutcome(s c47pSpec, want bool) string {
	type k struct {
		kind     string
		ci, want bool
	}
	kk := k{s.Kind, s.CI, want}
	if v, ok := c47pOutcomeKeys.Load(kk); ok {
		return v.(string)
	}
	v := fmt.Sprintf("%s/ci=%v/want=%v", s.Kind, s.CI, want)
	c47pOutcomeKeys.Store(kk, v)
	return v
}

func c47pEval(m *CompositeMatcher, c c47pCase, t *c47pTally) {
	var cnt [2]int64
	c47pEval1(m, c, t, &cnt)
	t.outcomes[c47pOutcome(c.Spec, false)] += cnt[0]
	t.outcomes[c47pOutcome(c.Spec, true)] += cnt[1]
}

func c47pSafeMatch(m *CompositeMatcher, path string) (got bool, pan any) {
	defer func() { pan = recover() }()
	return m.Match(path, nil), nil
}

// c47pEval1 evaluates one case; cnt tallies the reference verdicts.
func c47pEval1(m *CompositeMatcher, c c47pCase, t *c47pTally, cnt *[2]int64) {
	want := c47pRef(c)
	got, pan := c47pSafeMatch(m, c.Path)
	t.evals++
	if want {
		t.match++
		cnt[1]++
	} else {
		cnt[0]++
	}
	if pan != nil {
		t.fail(c, fmt.Sprintf("panic: %v", pan), want)
	} else if got != want {
		t.fail(c, fmt.Sprint(got), want)
	}
}

func TestVerif_C47_PathMatchers(t *testing.T) {
	const P = "C47"
	r := vk.Start(t, "c47b_path", "exploration", P)
	defer r.Finish()
	r.Rule(P, "every RouteMatch proto {path, prefix} x case_sensitive{t,f} with every pattern that is a concatenation of <=L symbols of {/,a,A,s,U+017F,i,U+0131,U+0130,k,U+212A,1} (L=3 quick, 4 thorough) plus a safe_regex menu, converted by routesProtoToSlice+RouteToMatcher and evaluated on every path of the same grammar; oracle = byte comparison folding ASCII letters only; non-trivial = (matcher, path) pairs the reference says MATCH (all pairs distinct by construction)")

	if f := r.ReplayFile(); f != "" {
		var c c47pCase
		if err := r.LoadReplay(&c); err != nil {
			r.EngineError("replay: %v", err)
			return
		}
		m, err := c47pBuild(c.Spec)
		if err != nil {
			r.EngineError("replay: %v", err)
			return
		}
		tl := c47pNewTally()
		c47pEval(m, c, tl)
		r.Eval(P, 1)
		for k, b := range tl.fails {
			f := b.best[0]
			r.Violation(P, k, fmt.Sprintf("%s: real=%s reference=%v", f.Case, f.Got, f.Want), f.Case)
			fmt.Printf("replay: VIOLATION %s: %s real=%s reference=%v\n", k, f.Case, f.Got, f.Want)
		}
		if len(tl.fails) == 0 {
			fmt.Printf("replay: agrees with reference (%v): %s\n", c47pRef(c), c)
		}
		return
	}

	L := r.Pick(3, 4)
	strs := c47pStrings(c47pSymbols, L)

	for _, rx := range c47pRegexes {
		re := regexp.MustCompile(rx.Pat)
		re.Longest()
		for _, v := range strs {
			loc := re.FindStringIndex(v)
			full := loc != nil && loc[0] == 0 && loc[1] == len(v)
			if full != rx.Lang(v) {
				r.EngineError("oracle self-check: regex %q path %q: hand-written language %v, leftmost-longest full match %v", rx.Pat, v, rx.Lang(v), full)
				return
			}
		}
	}

	var specs []c47pSpec
	for _, ci := range []bool{false, true} {
		for _, k := range []string{"path", "prefix"} {
			for _, p := range strs {
				specs = append(specs, c47pSpec{Kind: k, Pat: p, CI: ci})
			}
		}
		for _, rx := range c47pRegexes {
			specs = append(specs, c47pSpec{Kind: "regex", Pat: rx.Pat, CI: ci})
		}
	}

	total := c47pNewTally()
	var mu sync.Mutex
	var wg sync.WaitGroup
	var next int
	var nmu sync.Mutex
	w := runtime.GOMAXPROCS(0)
	for k := 0; k < w; k++ {
		wg.Add(1)
		go func() {
			defer wg.Done()
			tl := c47pNewTally()
			for {
				nmu.Lock()
				i := next
				next++
				nmu.Unlock()
				if i >= len(specs) {
					break
				}
				m, err := c47pBuild(specs[i])
				if err != nil {
					mu.Lock()
					r.Violation(P, fmt.Sprintf("route-match rejected kind=%s pat=%+q ci=%v", specs[i].Kind, specs[i].Pat, specs[i].CI), err.Error(), nil)
					mu.Unlock()
					continue
				}
				var cnt [2]int64
				for _, p := range strs {
					c47pEval1(m, c47pCase{Spec: specs[i], Path: p}, tl, &cnt)
				}
				if cnt[0] > 0 {
					tl.outcomes[c47pOutcome(specs[i], false)] += cnt[0]
				}
				if cnt[1] > 0 {
					tl.outcomes[c47pOutcome(specs[i], true)] += cnt[1]
				}
			}
			mu.Lock()
			total.merge(tl)
			mu.Unlock()
		}()
	}
	wg.Wait()

	r.Eval(P, total.evals)
	r.NontrivialN(P, total.match)
	r.Set(P, "path_matchers", len(specs))
	r.Set(P, "paths", len(strs))
	r.Set(P, "path_max_symbols", L)
	ok := make([]string, 0, len(total.outcomes))
	for k := range total.outcomes {
		ok = append(ok, k)
	}
	sort.Strings(ok)
	for _, k := range ok {
		r.Outcome(P, k)
	}
	r.Set(P, "path_outcome_counts", total.outcomes)

	fk := make([]string, 0, len(total.fails))
	for k := range total.fails {
		fk = append(fk, k)
	}
	sort.Strings(fk)
	for _, k := range fk {
		b := total.fails[k]
		f := b.best[0]
		key := k
		if strings.HasPrefix(k, "shape:") {
			key = fmt.Sprintf("%s | minimal: %s", strings.TrimPrefix(k, "shape:"), f.Case)
		}
		desc := fmt.Sprintf("%d failing (path matcher, path) pairs in this class. Minimal: %s: real code answered %s, reference (ASCII-only folding) says %v.", b.n, f.Case, f.Got, f.Want)
		for i, g := range b.best {
			if i > 0 {
				desc += fmt.Sprintf(" | also: %s: real=%s ref=%v", g.Case, g.Got, g.Want)
			}
		}
		r.Violation(P, key, desc, f.Case)
	}
	r.Sample(P, map[string]any{"matcher": "path(\"/s\") case_sensitive=false", "path": "/S", "reference": true})
	r.Sample(P, map[string]any{"matcher": "path(\"/s\") case_sensitive=false", "path": "/\u017f", "reference": false, "note": "U+017F LONG S is not an ASCII letter"})
	r.Sample(P, map[string]any{"matcher": "prefix(\"/a\") case_sensitive=true", "path": "/A1", "reference": false})
	r.Assume(P, "Path leg: case_sensitive=false has no effect on safe_regex (Envoy: it applies to prefix and path only). Invalid UTF-8 paths are outside the grammar.")
}
