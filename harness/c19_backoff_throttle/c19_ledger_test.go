//go:build verif

package grpc

// C19, in-package ledger leg: sequences of unary RPCs on ONE real ClientConn
// with retryThrottling against a scripted raw HTTP/2 server (wire peer, one
// synctest bubble per sequence).  After EVERY RPC the private token count of
// the channel's real retryThrottler is read and compared with a reference
// bucket in math/big.Rat written from gRFC A6 as quoted by the property: every
// attempt that fails with a retryable status - whether or not a further attempt
// is allowed - and every do-not-retry pushback removes one token (floor 0),
// every successful RPC adds tokenRatio (ceiling maxTokens), a retry is refused
// iff tokens <= maxTokens/2 after the removal.  The number of attempts the raw
// server saw for each RPC must be the reference's as well.  Token ratios are
// binary fractions, so the float64 count is compared exactly.

import (
	"context"
	"fmt"
	"math/big"
	"net"
	"strings"
	"sync"
	"testing"
	"testing/synctest"
	"time"

	"golang.org/x/net/http2"
	"google.golang.org/grpc/credentials/insecure"
	"google.golang.org/grpc/internal/verif/vk"
	"google.golang.org/grpc/internal/verif/wire"
	"google.golang.org/grpc/mem"
)

type c19Codec struct{}

func (c19Codec) Name() string { return "verif-raw" }
func (c19Codec) Marshal(v any) (mem.BufferSlice, error) {
	switch b := v.(type) {
	case []byte:
		return mem.BufferSlice{mem.SliceBuffer(b)}, nil
	case *[]byte:
		return mem.BufferSlice{mem.SliceBuffer(*b)}, nil
	}
	return nil, fmt.Errorf("c19Codec: unsupported %T", v)
}
func (c19Codec) Unmarshal(data mem.BufferSlice, v any) error {
	p, ok := v.(*[]byte)
	if !ok {
		return fmt.Errorf("c19Codec: unsupported %T", v)
	}
	*p = data.Materialize()
	return nil
}

// attempt outcomes: ok, okp (OK trailers carrying pushback -1), U (trailers-only
// UNAVAILABLE), P (U + pushback 0), I (trailers-only INTERNAL), N / X / V (U +
// pushback -1 / "x" / two values).
type c19Seq struct {
	MaxAttempts int        `json:"max_attempts"`
	MaxTokens   string     `json:"max_tokens"`
	Ratio       string     `json:"token_ratio"`
	RPCs        [][]string `json:"rpcs"`
}

func (s c19Seq) String() string {
	var rs []string
	for _, r := range s.RPCs {
		rs = append(rs, strings.Join(r, ","))
	}
	return fmt.Sprintf("maxAttempts=%d maxTokens=%s tokenRatio=%s [%s]", s.MaxAttempts, s.MaxTokens, s.Ratio, strings.Join(rs, " ; "))
}

type c19Obs struct {
	Attempts []int     // request streams the server saw per RPC
	Tokens   []float64 // retryThrottler.tokens after each RPC
	Results  []string
	Problem  string
}

func c19Answer(p *wire.Peer, sid uint32, b string) {
	hdr := [][2]string{{":status", "200"}, {"content-type", "application/grpc"}}
	to := func(code string, extra ...[2]string) {
		h := append(append([][2]string{}, hdr...), [2]string{"grpc-status", code}, [2]string{"grpc-message", "scripted"})
		p.WriteHeaders(sid, append(h, extra...), true)
	}
	pb := func(v string) [2]string { return [2]string{"grpc-retry-pushback-ms", v} }
	switch b {
	case "ok", "okp":
		p.WriteHeaders(sid, hdr, false)
		p.WriteData(sid, false, wire.GrpcMsg(false, []byte("reply")))
		tr := [][2]string{{"grpc-status", "0"}}
		if b == "okp" {
			tr = append(tr, pb("-1"))
		}
		p.WriteHeaders(sid, tr, true)
	case "U":
		to("14")
	case "P":
		to("14", pb("0"))
	case "I":
		to("13")
	case "N":
		to("14", pb("-1"))
	case "X":
		to("14", pb("x"))
	case "V":
		to("14", pb("5"), pb("7"))
	}
}

func c19RunSeq(t *testing.T, s c19Seq) (obs c19Obs) {
	defer func() {
		if p := recover(); p != nil {
			obs.Problem = fmt.Sprintf("bubble: %v", p)
		}
	}()
	synctest.Test(t, func(t *testing.T) {
		var mu sync.Mutex
		var peers []*wire.Peer
		dial := func(context.Context, string) (net.Conn, error) {
			c, sv := wire.Pipe()
			p := wire.NewServerPeer(sv)
			p.AutoAckSettings, p.AutoAckPing = true, true
			p.WriteSettings(http2.Setting{ID: http2.SettingMaxConcurrentStreams, Val: 100})
			mu.Lock()
			peers = append(peers, p)
			mu.Unlock()
			return c, nil
		}
		sc := fmt.Sprintf(`{"methodConfig":[{"name":[{"service":"s"}],"retryPolicy":{"maxAttempts":%d,"initialBackoff":"0.001s","maxBackoff":"0.001s","backoffMultiplier":1,"retryableStatusCodes":["UNAVAILABLE"]}}],"retryThrottling":{"maxTokens":%s,"tokenRatio":%s}}`, s.MaxAttempts, s.MaxTokens, s.Ratio)
		cc, err := NewClient("passthrough:///c19", WithContextDialer(dial), WithTransportCredentials(insecure.NewCredentials()), WithDefaultServiceConfig(sc))
		if err != nil {
			obs.Problem = "NewClient: " + err.Error()
			return
		}
		defer func() {
			cc.Close()
			mu.Lock()
			ps := append([]*wire.Peer(nil), peers...)
			mu.Unlock()
			for _, p := range ps {
				p.Close()
			}
			synctest.Wait()
		}()
		seen := map[string]bool{}
		for ri, script := range s.RPCs {
			done := make(chan error, 1)
			ctx, cancel := context.WithCancel(context.Background())
			go func() {
				var reply []byte
				done <- cc.Invoke(ctx, fmt.Sprintf("/s/m%d", ri), []byte("req"), &reply, ForceCodecV2(c19Codec{}))
			}()
			n, idle, finished := 0, 0, false
			for step := 0; step < 100 && !finished; step++ {
				synctest.Wait()
				progress := false
				mu.Lock()
				ps := append([]*wire.Peer(nil), peers...)
				mu.Unlock()
				for pi, p := range ps {
					for _, f := range p.Log() {
						k := fmt.Sprintf("%d/%d", pi, f.Stream)
						if f.Type != "HEADERS" || !f.EndHdrs || seen[k] {
							continue
						}
						seen[k] = true
						if path, _ := wire.Field(f.Fields, ":path"); path != fmt.Sprintf("/s/m%d", ri) {
							obs.Problem = fmt.Sprintf("rpc %d: stray request stream for %s", ri, path)
							continue
						}
						b := "ok"
						if n < len(script) {
							b = script[n]
						}
						n++
						c19Answer(p, f.Stream, b)
						progress = true
					}
				}
				select {
				case err := <-done:
					finished = true
					obs.Results = append(obs.Results, fmt.Sprint(err))
				default:
					if !progress {
						if idle++; idle > 4 {
							obs.Problem = fmt.Sprintf("rpc %d hangs after %d attempts", ri, n)
							cancel()
							<-done
							finished = true
						} else {
							time.Sleep(time.Second) // retry backoff
						}
					} else {
						idle = 0
					}
				}
			}
			cancel()
			time.Sleep(5 * time.Second) // nothing may follow the end of the RPC
			synctest.Wait()
			obs.Attempts = append(obs.Attempts, n)
			rt, _ := cc.retryThrottler.Load().(*retryThrottler)
			if rt == nil {
				obs.Problem = "the channel has no retry throttler"
				return
			}
			rt.mu.Lock()
			obs.Tokens = append(obs.Tokens, rt.tokens)
			rt.mu.Unlock()
			if obs.Problem != "" {
				return
			}
		}
	})
	return obs
}

// c19Reference: expected attempts per RPC and token count after each RPC.
func c19Reference(s c19Seq) (attempts []int, tokens []*big.Rat) {
	maxT, ratio := c19Rat(s.MaxTokens), c19Rat(s.Ratio)
	half := new(big.Rat).Quo(maxT, big.NewRat(2, 1))
	T := new(big.Rat).Set(maxT)
	fail := func() {
		T.Sub(T, big.NewRat(1, 1))
		if T.Sign() < 0 {
			T.SetInt64(0)
		}
	}
	for _, script := range s.RPCs {
		k := 0
		for {
			b := "ok"
			if k < len(script) {
				b = script[k]
			}
			k++
			retry := false
			switch b {
			case "ok", "okp": // successful RPC
				T.Add(T, ratio)
				if T.Cmp(maxT) > 0 {
					T.Set(maxT)
				}
			case "I": // status not in retryableStatusCodes: no token, no retry
			case "N", "X", "V": // the server forbids the retry: counts as a failure
				fail()
			case "U", "P": // retryable failure: costs a token whether or not another attempt is allowed
				fail()
				retry = T.Cmp(half) > 0 && k < s.MaxAttempts
			}
			if !retry {
				break
			}
		}
		attempts = append(attempts, k)
		tokens = append(tokens, new(big.Rat).Set(T))
	}
	return
}

func TestVerif_C19_Ledger(t *testing.T) {
	r := vk.Start(t, "c19_ledger", "exploration", c19P)
	defer r.Finish()
	scripts := map[int][][]string{
		2: {{"ok"}, {"okp"}, {"I"}, {"N"}, {"X"}, {"V"}, {"U", "ok"}, {"U", "U"}, {"U", "I"}, {"U", "N"}, {"P", "ok"}, {"P", "U"}},
		3: {{"ok"}, {"okp"}, {"I"}, {"N"}, {"U", "ok"}, {"U", "U", "ok"}, {"U", "U", "U"}, {"U", "I"}, {"U", "U", "N"}, {"P", "U", "U"}, {"U", "P", "ok"}, {"U", "U", "X"}},
	}
	menus := [][2]string{{"3", "1"}, {"4", "1"}, {"6", "1"}, {"5", "0.5"}, {"6", "0.5"}, {"4", "0.25"}}
	nrpc := r.Pick(2, 3)
	r.Rule(c19P, fmt.Sprintf("maxAttempts in {2,3} x %d (maxTokens, tokenRatio) menus near the half-way boundary x ALL sequences of %d unary RPCs on one real ClientConn, each RPC scripted per attempt from 12 scripts (success at once / after retries, OK trailers with pushback -1, non-retryable status, do-not-retry pushback -1 / malformed / two values, pushback 0, exhausting maxAttempts with retryable failures); after every RPC the real retryThrottler's private token count and the server-side attempt count are compared with the big.Rat reference; non-trivial = at least one attempt failed; every sequence is a distinct input", len(menus), nrpc))
	r.Assume(c19P, "trusted: synctest virtual time (1 ms backoff passed by sleeping), the raw peer's frame log; committed failures (response headers received) are not in the alphabet")
	run := func(s c19Seq) {
		obs := c19RunSeq(t, s)
		r.Eval(c19P, 1)
		wantA, wantT := c19Reference(s)
		if obs.Problem != "" {
			// a hang / stray attempt is an observable deviation only if the reference predicts a clean run: report as engine error otherwise
			r.EngineError("sequence %s: %s (attempts %v tokens %v)", s, obs.Problem, obs.Attempts, obs.Tokens)
			return
		}
		nontrivial := false
		for i := range s.RPCs {
			if s.RPCs[i][0] != "ok" && s.RPCs[i][0] != "okp" {
				nontrivial = true
			}
			wt, _ := wantT[i].Float64()
			if obs.Tokens[i] != wt {
				r.Violation(c19P, fmt.Sprintf("ledger|%s|tokens-after-rpc%d", s, i+1), fmt.Sprintf("after RPC %d the channel's retry bucket holds %v tokens, the reference (every retryable failure and do-not-retry pushback -1, every successful RPC +tokenRatio, clamped to [0,maxTokens]) holds %s; attempts per RPC seen by the server %v (reference %v), tokens after each RPC %v", i+1, obs.Tokens[i], wantT[i].FloatString(3), obs.Attempts, wantA, obs.Tokens), s)
				break
			}
			if obs.Attempts[i] != wantA[i] {
				r.Violation(c19P, fmt.Sprintf("ledger|%s|attempts-of-rpc%d", s, i+1), fmt.Sprintf("RPC %d made %d attempts, the reference bucket allows exactly %d (tokens after each RPC %v)", i+1, obs.Attempts[i], wantA[i], obs.Tokens), s)
				break
			}
		}
		if nontrivial {
			r.NontrivialN(c19P, 1)
		}
		r.Outcome(c19P, fmt.Sprintf("attempts %v tokens %v", obs.Attempts, obs.Tokens))
		if len(s.RPCs) > 1 && obs.Attempts[0] > 1 {
			r.Sample(c19P, map[string]any{"sequence": s.String(), "attempts_per_rpc": obs.Attempts, "tokens_after_each_rpc": obs.Tokens})
		}
	}
	if r.ReplayFile() != "" {
		var s c19Seq
		if err := r.LoadReplay(&s); err != nil {
			r.EngineError("replay: %v", err)
			return
		}
		run(s)
		return
	}
	idx := 0
	for _, ma := range []int{2, 3} {
		sl := scripts[ma]
		total := 1
		for i := 0; i < nrpc; i++ {
			total *= len(sl)
		}
		for _, mn := range menus {
			for code := 0; code < total; code++ {
				i := idx
				idx++
				if !r.Mine(i) {
					continue
				}
				if r.OverBudget() {
					r.Cap(c19P, "time budget reached")
					return
				}
				if r.NViolations(c19P) >= 6 {
					r.Cap(c19P, "exploration stopped after the first violations")
					return
				}
				var rpcs [][]string
				for k, x := 0, code; k < nrpc; k, x = k+1, x/len(sl) {
					rpcs = append(rpcs, sl[x%len(sl)])
				}
				run(c19Seq{MaxAttempts: ma, MaxTokens: mn[0], Ratio: mn[1], RPCs: rpcs})
			}
		}
	}
}
