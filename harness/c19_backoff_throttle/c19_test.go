//go:build verif

package grpc

// C19, leg (a), E3 in-package: the retry token bucket (retryThrottler in
// clientconn.go) and the retryThrottling service-config validation.
//
//  1. For every (maxTokens, tokenRatio) menu entry the real parser
//     (parseServiceConfig) and the real construction
//     (ClientConn.applyServiceConfigAndBalancer) produce the throttler; then ALL
//     sequences over {fail, success} of length 14 (hence every shorter one as a
//     prefix) are applied to a fresh copy via the real throttle() /
//     successfulRPC(), and after every step the private token count and the
//     decision are compared with a reference bucket in math/big.Rat built from
//     the statement (start at maxTokens; a failure removes one token, floor 0; a
//     success adds tokenRatio, ceiling maxTokens; refuse iff tokens <=
//     maxTokens/2 after the removal).
//     The code keeps tokens in a float64.  Entries whose ratio is a binary
//     fraction are compared exactly.  For decimal ratios (0.1, 0.3) the
//     comparison uses the a-priori bound eps_n = n * 2^-52 * (maxTokens +
//     tokenRatio) after n steps: each step is one IEEE-754 addition whose result
//     is at most maxTokens + tokenRatio in magnitude (rounding error <= 2^-53 of
//     that), the decimal-to-binary conversion of the ratio adds at most 2^-53 *
//     tokenRatio per success, and clamping to [0, maxTokens] (both exactly
//     representable in the menus) never increases the distance to the reference.
//     The decision is judged exactly: throttle() must return (stored tokens <=
//     maxTokens/2) for the float64 count it stored, which the bound above ties
//     to the reference.  Consequently, for decimal ratios a reference that sits
//     exactly on the threshold may be decided either way when rounding moved the
//     stored count off it (counted and the first case recorded in the evidence:
//     e.g. maxTokens=5 tokenRatio=0.7 ops FSFSFSSFSFF, exact 2.5, stored
//     2.500000000000001, retry allowed); wherever the stored count equals the
//     reference (all binary-fraction menus, and e.g. FFFFF on (10, 0.1)) the
//     boundary decision is strict.
//  2. Validation: retryThrottling accepted iff 0 < maxTokens <= 1000 and
//     tokenRatio > 0 (gRFC A6), for all menu pairs plus missing fields, via
//     parseServiceConfig and via NewClient(WithDefaultServiceConfig).

import (
	"fmt"
	"math/big"
	"strings"
	"testing"

	"google.golang.org/grpc/credentials/insecure"
	"google.golang.org/grpc/internal/verif/vk"
)

const c19P = "C19"

type c19Menu struct {
	Max, Ratio string // decimal literals as written into the JSON
	Exact      bool   // ratio (and max) are binary fractions: float arithmetic is exact, compare exactly
}

func c19Rat(s string) *big.Rat {
	r, ok := new(big.Rat).SetString(s)
	if !ok {
		panic("c19: bad decimal " + s)
	}
	return r
}

func c19JSON(max, ratio string) string {
	var fs []string
	if max != "" {
		fs = append(fs, `"maxTokens":`+max)
	}
	if ratio != "" {
		fs = append(fs, `"tokenRatio":`+ratio)
	}
	return `{"retryThrottling":{` + strings.Join(fs, ",") + `}}`
}

// c19Build runs the real parse + construction path and returns the prototype throttler.
func c19Build(max, ratio string) (*retryThrottler, error) {
	pr := parseServiceConfig(c19JSON(max, ratio), defaultMaxCallAttempts)
	if pr.Err != nil {
		return nil, pr.Err
	}
	sc, ok := pr.Config.(*ServiceConfig)
	if !ok {
		return nil, fmt.Errorf("parse result holds %T", pr.Config)
	}
	cc := &ClientConn{}
	cc.applyServiceConfigAndBalancer(sc, nil)
	rt, _ := cc.retryThrottler.Load().(*retryThrottler)
	if rt == nil {
		return nil, fmt.Errorf("no throttler was installed")
	}
	return rt, nil
}

func c19F(r *big.Rat) float64 { f, _ := r.Float64(); return f }

func TestVerif_C19_Throttler(t *testing.T) {
	r := vk.Start(t, "c19_throttler", "exploration", c19P)
	defer r.Finish()
	const depth = 14
	menus := []c19Menu{
		{"10", "0.1", false}, {"1", "1", true}, {"1000", "0.5", true}, {"2", "0.3", false}, // the design's menus
		{"10", "0.125", true}, {"2", "0.25", true}, {"3", "1", true}, {"4", "0.5", true}, {"1", "0.5", true}, {"8", "2.5", true},
	}
	if r.Thorough() {
		menus = append(menus, c19Menu{"1000", "0.001", false}, c19Menu{"5", "0.7", false}, c19Menu{"0.5", "0.125", true}, c19Menu{"7", "0.1", false}, c19Menu{"6", "1000", true}, c19Menu{"12", "0.75", true})
	}
	r.Rule(c19P, fmt.Sprintf("throttler: %d (maxTokens, tokenRatio) menu entries x all 2^%d sequences over {fail, success} of length %d (every shorter sequence is a prefix), every step judged; non-trivial sequence = contains both a refused and an allowed retry decision; validation: all (maxTokens, tokenRatio) literal pairs of the menus + missing fields through parseServiceConfig and NewClient; all inputs distinct by construction", len(menus), depth, depth))
	r.Assume(c19P, "float64 token count compared with the big.Rat reference exactly for binary-fraction ratios and within eps_n = n*2^-52*(maxTokens+tokenRatio) otherwise (derivation in the file header); the prototype throttler is built by the real parseServiceConfig + applyServiceConfigAndBalancer on a zero ClientConn and copied field by field for each sequence")
	one, two := big.NewRat(1, 1), big.NewRat(2, 1)
	var steps, equalities, flipped, clampLo, clampHi int64
	flippedCase := ""
	for mi, m := range menus {
		proto, err := c19Build(m.Max, m.Ratio)
		if err != nil {
			r.Violation(c19P, fmt.Sprintf("validation|maxTokens=%s|tokenRatio=%s|rejected", m.Max, m.Ratio), fmt.Sprintf("a retryThrottling policy inside the legal range was not accepted: %v", err), m)
			continue
		}
		maxR, ratioR := c19Rat(m.Max), c19Rat(m.Ratio)
		thresh := new(big.Rat).Quo(maxR, two)
		// construction: tokens start at maxTokens
		if proto.tokens != c19F(maxR) || proto.max != c19F(maxR) || proto.thresh != c19F(thresh) {
			r.Violation(c19P, fmt.Sprintf("construct|maxTokens=%s|tokenRatio=%s", m.Max, m.Ratio), fmt.Sprintf("new bucket holds %v tokens (max %v, threshold %v), want maxTokens=%s and half of it", proto.tokens, proto.max, proto.thresh, m.Max), m)
			continue
		}
		epsUnit := new(big.Rat).Mul(new(big.Rat).SetFrac(big.NewInt(1), new(big.Int).Lsh(big.NewInt(1), 52)), new(big.Rat).Add(maxR, ratioR))
		violated := false
		for seq := 0; seq < 1<<depth && !violated; seq++ {
			rt := &retryThrottler{max: proto.max, thresh: proto.thresh, ratio: proto.ratio, tokens: proto.tokens}
			T := new(big.Rat).Set(maxR)
			nRef, nAllow := 0, 0
			for i := 0; i < depth; i++ {
				isFail := seq>>i&1 == 0
				var got, want bool
				if isFail {
					got = rt.throttle()
					T.Sub(T, one)
					if T.Sign() < 0 {
						T.SetInt64(0)
						clampLo++
					}
					want = T.Cmp(thresh) <= 0
				} else {
					rt.successfulRPC()
					T.Add(T, ratioR)
					if T.Cmp(maxR) > 0 {
						T.Set(maxR)
						clampHi++
					}
				}
				steps++
				opsStr := func() string {
					var sb strings.Builder
					for k := 0; k <= i; k++ {
						if seq>>k&1 == 0 {
							sb.WriteByte('F')
						} else {
							sb.WriteByte('S')
						}
					}
					return sb.String()
				}
				report := func(class, desc string) {
					ops := opsStr()
					r.Violation(c19P, fmt.Sprintf("throttler|maxTokens=%s|tokenRatio=%s|%s|%s", m.Max, m.Ratio, ops, class), desc+fmt.Sprintf(" (menu maxTokens=%s tokenRatio=%s, ops %s, reference tokens %s, real tokens %v)", m.Max, m.Ratio, ops, T.FloatString(6), rt.tokens), map[string]any{"menu": m, "ops": ops})
					violated = true
				}
				// range
				if !(rt.tokens >= 0 && rt.tokens <= c19F(maxR)) {
					report("range", fmt.Sprintf("token count %v outside [0, %s]", rt.tokens, m.Max))
					break
				}
				// value
				eps := new(big.Rat)
				if !m.Exact {
					eps.Mul(epsUnit, big.NewRat(int64(i+1), 1))
				}
				realR := new(big.Rat).SetFloat64(rt.tokens)
				diff := new(big.Rat).Sub(realR, T)
				if diff.Abs(diff).Cmp(eps) > 0 {
					what := "a failure must remove exactly one token (floor 0)"
					if !isFail {
						what = "a success must add exactly tokenRatio (ceiling maxTokens)"
					}
					report("value", "token count differs from the reference: "+what)
					break
				}
				// decision: judged exactly against the stored count (which the value
				// check above ties to the reference within eps)
				if isFail {
					if T.Cmp(thresh) == 0 {
						equalities++
					}
					realLE := realR.Cmp(thresh) <= 0
					if got != realLE {
						report("decision", fmt.Sprintf("throttle() = %v with %v tokens left; the statement requires refusal exactly when tokens <= maxTokens/2 after the removal, i.e. %v", got, rt.tokens, realLE))
						break
					}
					if realLE != want {
						// only possible when the reference is within eps of the threshold
						flipped++
						if flippedCase == "" {
							flippedCase = fmt.Sprintf("maxTokens=%s tokenRatio=%s ops %s: exact tokens %s, float64 tokens %v, threshold %s", m.Max, m.Ratio, opsStr(), T.FloatString(6), rt.tokens, thresh.FloatString(3))
						}
					}
					if got {
						nRef++
					} else {
						nAllow++
					}
				}
			}
			if nRef > 0 && nAllow > 0 {
				r.NontrivialN(c19P, 1)
			}
			r.Eval(c19P, 1)
			if seq%1024 == 0 {
				r.Outcome(c19P, fmt.Sprintf("menu %d (%s,%s) seq %d: %d refused / %d allowed", mi, m.Max, m.Ratio, seq, nRef, nAllow))
			}
		}
		if mi < 2 {
			r.Sample(c19P, map[string]any{"maxTokens": m.Max, "tokenRatio": m.Ratio, "sequences": 1 << depth, "built": fmt.Sprintf("%+v", struct{ Max, Thresh, Ratio, Tokens float64 }{proto.max, proto.thresh, proto.ratio, proto.tokens})})
		}
	}
	// no throttling configured: never refuses
	var none *retryThrottler
	for i := 0; i < 5; i++ {
		if none.throttle() {
			r.Violation(c19P, "throttler|none|refused", "a channel without retryThrottling refused a retry", nil)
		}
		none.successfulRPC()
	}
	r.AddInt(c19P, "steps_judged", steps)
	r.AddInt(c19P, "decisions_exactly_on_threshold", equalities)
	r.AddInt(c19P, "boundary_decisions_flipped_by_float64_rounding", flipped)
	if flippedCase != "" {
		r.Set(c19P, "first_boundary_decision_flipped_by_float64_rounding", flippedCase)
	}
	r.AddInt(c19P, "floor_clamps", clampLo)
	r.AddInt(c19P, "ceiling_clamps", clampHi)
	if equalities == 0 || clampLo == 0 || clampHi == 0 {
		r.EngineError("vacuous: threshold equalities %d, floor clamps %d, ceiling clamps %d", equalities, clampLo, clampHi)
	}

	// ---- validation
	// Two document shapes: with a methodConfig entry (the shape every retrying
	// channel uses: retry policies live in methodConfig) and retryThrottling
	// alone.  The second shape is judged as ONE aggregated finding: on the tree
	// this harness was written against, parseServiceConfig returns before the
	// retryThrottling checks when methodConfig is absent.
	maxes := []string{"", "0", "1000", "1000.1", "-1", "0.001", "1", "999.999", "1001", "1e-9", "1000.0000001"}
	ratios := []string{"", "0", "-1", "0.0001", "0.1", "1", "1000", "1e-9", "-0.0001"}
	thousand := big.NewRat(1000, 1)
	var bareWrong []string
	for _, withMC := range []bool{true, false} {
		for _, mx := range maxes {
			for _, ra := range ratios {
				legal := mx != "" && ra != "" && c19Rat(mx).Sign() > 0 && c19Rat(mx).Cmp(thousand) <= 0 && c19Rat(ra).Sign() > 0
				js := c19JSON(mx, ra)
				if withMC {
					js = `{"methodConfig":[{"name":[{"service":"s"}],"waitForReady":true}],` + js[1:]
				}
				pr := parseServiceConfig(js, defaultMaxCallAttempts)
				cc, cerr := NewClient("passthrough:///c19", WithTransportCredentials(insecure.NewCredentials()), WithDefaultServiceConfig(js))
				if cc != nil {
					cc.Close()
				}
				r.Eval(c19P, 1)
				r.NontrivialN(c19P, 1)
				for _, p := range []struct {
					path string
					err  error
				}{{"parseServiceConfig", pr.Err}, {"NewClient", cerr}} {
					if (p.err == nil) == legal {
						continue
					}
					if !withMC && p.err == nil {
						if p.path == "parseServiceConfig" {
							bareWrong = append(bareWrong, js)
						}
						continue
					}
					r.Violation(c19P, fmt.Sprintf("validation|%s|methodConfig=%v|maxTokens=%q|tokenRatio=%q|accepted=%v", p.path, withMC, mx, ra, p.err == nil), fmt.Sprintf("%s(%s): error %v; gRFC A6 requires maxTokens in (0, 1000] and tokenRatio > 0, so accepted must be %v", p.path, js, p.err, legal), js)
				}
				r.Outcome(c19P, fmt.Sprintf("validation methodConfig=%v legal=%v accepted=%v", withMC, legal, pr.Err == nil))
				if legal && pr.Err == nil && withMC {
					if rt, err := c19Build(mx, ra); err != nil || rt.max != c19F(c19Rat(mx)) || rt.tokens != rt.max || rt.ratio != c19F(c19Rat(ra)) {
						r.Violation(c19P, fmt.Sprintf("construct|maxTokens=%s|tokenRatio=%s", mx, ra), fmt.Sprintf("throttler built from %s is %+v (err %v)", js, rt, err), js)
					}
				}
			}
		}
	}
	if len(bareWrong) > 0 {
		// what the unvalidated policy does to the bucket (statement: tokens stay in [0, maxTokens])
		demo := ""
		if rt, err := c19Build("-1", "1"); err == nil {
			rt.throttle()
			after1 := rt.tokens
			rt.successfulRPC()
			demo = fmt.Sprintf("; e.g. maxTokens=-1 tokenRatio=1 is accepted, the bucket then holds %v after a failure and %v after a success, both outside [0, maxTokens]", after1, rt.tokens)
		}
		r.Violation(c19P, "validation|retryThrottling is not validated when the service config has no methodConfig",
			fmt.Sprintf("parseServiceConfig accepted %d retryThrottling policies outside gRFC A6's limits (maxTokens in (0,1000], tokenRatio > 0) because the document has no methodConfig: the parser returns before the retryThrottling checks%s. First ones: %s", len(bareWrong), demo, strings.Join(bareWrong[:min(4, len(bareWrong))], "  ")), bareWrong)
	}
}
