//go:build verif

package transport

// C06, transport seam: a stream that ends inside the 5-byte gRPC length prefix
// must be reported as an error by the real Stream reader (recvBuffer ->
// recvBufferReader -> transportReader -> Stream.ReadMessageHeader/read), never
// as a clean end of stream. The root-package leg c06_framing drives the parser
// over a scripted reader that honours the documented contract; this leg pins
// the real reader against the same contract.
//
// A real Stream is wired exactly as http2_server.operateHeaders /
// http2_client.NewStream do; DATA frames are s.write(recvMsg{buffer}), and
// END_STREAM / trailers are s.write(recvMsg{err: io.EOF}) as in handleData.
// The reads are the ones parser.recvMsg issues: ReadMessageHeader(5 bytes), then
// read(declared length).

import (
	"bytes"
	"context"
	"encoding/binary"
	"encoding/hex"
	"fmt"
	"io"
	"testing"

	"google.golang.org/grpc/internal/verif/vk"
	"google.golang.org/grpc/mem"
)

const (
	c06bP   = "C06"
	c06bKey = "truncated-length-prefix-reported-as-clean-eof"
)

// c06bSeen: the canonical finding was already recorded in this run.
var c06bSeen bool

type c06bNoRead struct{}

func (c06bNoRead) requestRead(int) {}

type c06bNoWindow struct{}

func (c06bNoWindow) updateWindow(int) {}

// c06bStream builds a real Stream whose receive buffer holds the given DATA
// frames followed by the end-of-stream marker.
func c06bStream(client bool, stream []byte, cuts []int) *Stream {
	s := &Stream{}
	s.buf.init(mem.DefaultBufferPool())
	s.readRequester = c06bNoRead{}
	ctx := context.Background()
	rd := recvBufferReader{ctx: ctx, ctxDone: ctx.Done(), recv: &s.buf}
	if client {
		rd.clientStream = &ClientStream{} // only used when ctx is done, which never happens here
	}
	s.trReader = transportReader{reader: rd, windowHandler: c06bNoWindow{}}
	off := 0
	for _, c := range append(append([]int{}, cuts...), len(stream)) {
		if c > off {
			s.write(recvMsg{buffer: mem.Copy(stream[off:c], mem.DefaultBufferPool())})
			off = c
		}
	}
	s.write(recvMsg{err: io.EOF})
	return s
}

type c06bStep struct {
	msg []byte
	err error
}

// c06bReceive issues the reads parser.recvMsg issues until the first error.
func c06bReceive(s *Stream) (steps []c06bStep, where string) {
	for {
		var hdr [5]byte
		if err := s.ReadMessageHeader(hdr[:]); err != nil {
			return append(steps, c06bStep{err: err}), "prefix"
		}
		n := int(binary.BigEndian.Uint32(hdr[1:]))
		data, err := s.read(n)
		if err != nil {
			return append(steps, c06bStep{err: err}), "payload"
		}
		steps = append(steps, c06bStep{msg: data.Materialize()})
		data.Free()
	}
}

type c06bReplay struct {
	Client bool
	Stream string
	Cuts   []int
}

// c06bCheck runs one (stream, chunking, side) and reports violations.
// complete = the messages wholly contained in the stream; tail = how the stream
// ends: 0 = cleanly after the last message, 1..4 = inside a length prefix,
// -1 = inside a payload.
func c06bCheck(r *vk.Run, client bool, stream []byte, cuts []int, complete [][]byte, tail int) string {
	steps, where := c06bReceive(c06bStream(client, stream, cuts))
	rp := c06bReplay{Client: client, Stream: hex.EncodeToString(stream), Cuts: append([]int{}, cuts...)}
	side := "server"
	if client {
		side = "client"
	}
	ctxt := func() string {
		return fmt.Sprintf("%s stream, bytes %x, DATA frames cut at %v then END_STREAM", side, stream, cuts)
	}
	for i, m := range complete {
		if i >= len(steps)-1 || !bytes.Equal(steps[i].msg, m) {
			r.Violation(c06bP, fmt.Sprintf("transport-reader wrong-message %s stream=%x", side, stream), fmt.Sprintf("%s: message #%d not read back intact (got %d reads)", ctxt(), i+1, len(steps)), rp)
			return "wrong-message"
		}
	}
	if len(steps) != len(complete)+1 {
		r.Violation(c06bP, fmt.Sprintf("transport-reader extra-message %s stream=%x", side, stream), fmt.Sprintf("%s: %d messages read, only %d were sent", ctxt(), len(steps)-1, len(complete)), rp)
		return "extra-message"
	}
	err := steps[len(steps)-1].err
	switch {
	case tail == 0:
		if err != io.EOF || where != "prefix" {
			r.Violation(c06bP, fmt.Sprintf("transport-reader clean-end-not-eof %s stream=%x", side, stream), fmt.Sprintf("%s: clean end of stream reported as %v (in %s)", ctxt(), err, where), rp)
			return "clean-end-not-eof"
		}
		return "clean-eof"
	case tail > 0:
		if err == io.EOF {
			// ONE canonical key for this finding whatever the stream/chunking/side
			if c06bSeen {
				return "prefix-truncated-clean-eof" // already recorded (first case in enumeration order)
			}
			c06bSeen = true
			r.Violation(c06bP, c06bKey, fmt.Sprintf("%s: the stream ends after %d of the 5 length-prefix bytes, yet Stream.ReadMessageHeader returns io.EOF, which parser.recvMsg passes on as 'no more messages' (documented: io.ErrUnexpectedEOF after a partial read)", ctxt(), tail), rp)
			return "prefix-truncated-clean-eof"
		}
		return "prefix-truncated-error"
	default:
		// parser.recvMsg maps io.EOF from the payload read to io.ErrUnexpectedEOF itself: any error is fine here
		if where != "payload" {
			r.Violation(c06bP, fmt.Sprintf("transport-reader payload-truncation-missed %s stream=%x", side, stream), fmt.Sprintf("%s: truncated payload not reported by the payload read (err=%v in %s)", ctxt(), err, where), rp)
			return "payload-truncation-missed"
		}
		return "payload-truncated-error"
	}
}

func TestVerif_C06b_PrefixEOF(t *testing.T) {
	const P = c06bP
	r := vk.Start(t, "c06b_prefix_eof", "exploration", P)
	defer r.Finish()
	r.Rule(P, "streams = 0..2 complete messages (payload sizes 0,1,3) followed by nothing, 1..4 bytes of a next length prefix, or a full prefix declaring 3 bytes with 0..2 payload bytes; EVERY split into DATA frames (2^(n-1)) followed by END_STREAM; server-style and client-style reader; non-trivial = the stream ends inside a prefix or payload, or is cut into >= 2 frames")
	if r.ReplayFile() != "" {
		var rp c06bReplay
		if err := r.LoadReplay(&rp); err != nil {
			r.EngineError("replay: %v", err)
			return
		}
		st, _ := hex.DecodeString(rp.Stream)
		steps, where := c06bReceive(c06bStream(rp.Client, st, rp.Cuts))
		last := steps[len(steps)-1].err
		fmt.Printf("replay: %d messages, then %v in %s\n", len(steps)-1, last, where)
		r.Eval(P, 1)
		// the replayed case is a truncated prefix iff the bytes left after the complete frames are 1..4
		pos := 0
		for len(st)-pos >= 5 && len(st)-pos-5 >= int(binary.BigEndian.Uint32(st[pos+1:pos+5])) {
			pos += 5 + int(binary.BigEndian.Uint32(st[pos+1:pos+5]))
		}
		if rest := len(st) - pos; rest >= 1 && rest <= 4 && last == io.EOF {
			r.Violation(P, c06bKey, "replayed: truncated length prefix reported as clean io.EOF", rp)
		}
		return
	}
	msg := func(i, n int) []byte {
		b := make([]byte, 5+n)
		binary.BigEndian.PutUint32(b[1:], uint32(n))
		for j := 0; j < n; j++ {
			b[5+j] = byte(0x41 + 16*i + j)
		}
		return b
	}
	type tailT struct {
		b    []byte
		kind int
	}
	tails := []tailT{{nil, 0}}
	for k := 1; k <= 4; k++ {
		tails = append(tails, tailT{[]byte{0, 0, 0, 0}[:k], k})
	}
	tails = append(tails, tailT{[]byte{1, 0, 0}, 3}) // a prefix that starts with the compressed flag
	for k := 0; k <= 2; k++ {
		tails = append(tails, tailT{append([]byte{0, 0, 0, 0, 3}, []byte{0x71, 0x72}[:k]...), -1})
	}
	var evals, nontriv int64
	sizes := []int{0, 1, 3}
	var lists [][]int
	lists = append(lists, nil)
	for _, a := range sizes {
		lists = append(lists, []int{a})
		for _, b := range sizes {
			lists = append(lists, []int{a, b})
		}
	}
	maxN := r.Pick(14, 18)
	for _, l := range lists {
		var complete [][]byte
		var prefix []byte
		for i, n := range l {
			m := msg(i, n)
			complete = append(complete, m[5:])
			prefix = append(prefix, m...)
		}
		for _, tl := range tails {
			stream := append(append([]byte{}, prefix...), tl.b...)
			n := len(stream)
			if n > maxN {
				continue
			}
			chunkings := 1
			if n > 1 {
				chunkings = 1 << (n - 1)
			}
			for _, client := range []bool{false, true} {
				for mask := 0; mask < chunkings; mask++ {
					var cuts []int
					for b := 0; b < n-1; b++ {
						if mask>>b&1 == 1 {
							cuts = append(cuts, b+1)
						}
					}
					class := c06bCheck(r, client, stream, cuts, complete, tl.kind)
					evals++
					if tl.kind != 0 || len(cuts) > 0 {
						nontriv++
					}
					if mask == 0 {
						r.Outcome(P, class)
					}
				}
			}
		}
	}
	r.Eval(P, evals)
	r.NontrivialN(P, nontriv)
	r.Sample(P, map[string]any{"frames": "DATA{00 00 00} END_STREAM", "expected": "ReadMessageHeader returns a non-EOF error (documented io.ErrUnexpectedEOF)"})
	r.Sample(P, map[string]any{"frames": "DATA{00 00 00 00 01 41} DATA{00 00} END_STREAM", "expected": "one 1-byte message, then a non-EOF error"})
	r.Assume(P, "END_STREAM / trailers reach the stream as recvMsg{err: io.EOF} (http2_server.handleData, http2_client closeStream); flow-control callbacks are stubbed")
}
