//go:build verif

package grpcsync

import (
	"fmt"
	"sync/atomic"
	"testing"

	"google.golang.org/grpc/internal/verif/vk"
	"google.golang.org/grpc/internal/verif/vsched"
)

func c57EventScenario(n, bound int) vsched.Scenario {
	return vsched.Scenario{Name: fmt.Sprintf("event/fire%d", n), Bound: bound, Body: func(x *vsched.X) {
		e := NewEvent()
		var trues atomic.Int32
		var doneWhenTrue atomic.Int32
		for i := 0; i < n; i++ {
			x.Go(fmt.Sprintf("fire%d", i), func() {
				if e.Fire() {
					trues.Add(1)
					select {
					case <-e.Done():
					default:
						doneWhenTrue.Add(1) // Fire returned true but Done not closed
					}
				}
				if !e.HasFired() {
					x.Fail("C57", "hasfired-false-after-fire", "HasFired false after Fire returned")
				}
			})
		}
		x.Final(func(x *vsched.X) {
			if x.Stuck != "" {
				x.Fail("C57", "deadlock", "%s", x.Stuck)
			}
			for _, p := range x.Panics {
				x.Fail("C57", "event-panic", "%s", p)
			}
			if trues.Load() != 1 {
				x.Fail("C57", "event-fired-not-once", "%d of %d concurrent Fire calls reported newly fired", trues.Load(), n)
			}
			if doneWhenTrue.Load() != 0 {
				x.Fail("C57", "event-done-open", "Fire returned true but Done() was not closed")
			}
			select {
			case <-e.Done():
			default:
				x.Fail("C57", "event-done-open-at-end", "Done() not closed after all Fire calls")
			}
			x.Outcome(fmt.Sprintf("trues=%d", trues.Load()))
		})
	}}
}

func c57RefScenario(name string, tryers, bound int) vsched.Scenario {
	return vsched.Scenario{Name: name, Bound: bound, MinOutcomes: 2, Body: func(x *vsched.X) {
		var zeros atomic.Int32
		var resurrect atomic.Int32
		rc := NewRefCounted(new(int), func() { zeros.Add(1) })
		x.Go("owner", func() { rc.Decrement() })
		var got atomic.Int32
		for i := 0; i < tryers; i++ {
			x.Go(fmt.Sprintf("try%d", i), func() {
				if rc.TryIncrement() {
					got.Add(1)
					if zeros.Load() != 0 {
						resurrect.Add(1) // acquired although cleanup already ran
					}
					vsched.Yield() // hold the reference
					if zeros.Load() != 0 {
						resurrect.Add(1) // cleanup ran while we hold a reference
					}
					rc.Decrement()
				}
			})
		}
		x.Final(func(x *vsched.X) {
			if x.Stuck != "" {
				x.Fail("C57", "deadlock", "%s", x.Stuck)
			}
			for _, p := range x.Panics {
				x.Fail("C57", "refcount-panic", "%s", p)
			}
			if zeros.Load() != 1 {
				x.Fail("C57", "refcount-cleanup-not-once", "cleanup ran %d times after all references were released", zeros.Load())
			}
			if resurrect.Load() != 0 {
				x.Fail("C57", "refcount-resurrected", "a reference was acquired/held after the cleanup ran")
			}
			if rc.TryIncrement() {
				x.Fail("C57", "refcount-reacquired-after-zero", "TryIncrement succeeded after the count reached zero")
			}
			x.Outcome(fmt.Sprintf("acquired=%d", got.Load()))
		})
	}}
}

func TestVerif_C57_EventRefCounted(t *testing.T) {
	const P = "C57"
	r := vk.Start(t, "c57_event_refcount", "exploration", P)
	defer r.Finish()
	r.Rule(P, "every schedule with at most B preemptions (quick 3, thorough 4) of the instrumented real grpcsync.Event (3 concurrent Fire) and grpcsync.RefCounted (owner Decrement racing 2-3 TryIncrement/hold/Decrement threads); non-trivial = executions deviating from the default schedule")
	b := r.Pick(3, 4)
	scs := []vsched.Scenario{
		c57EventScenario(3, b),
		c57RefScenario("refcounted/owner+2try", 2, b),
	}
	if r.Thorough() {
		scs = append(scs, c57RefScenario("refcounted/owner+3try", 3, 3))
	}
	vsched.RunScenarios(t, r, []string{P}, scs)
	r.Sample(P, map[string]any{"scenario": "refcounted/owner+2try", "threads": []string{"owner: Decrement", "try0: if TryIncrement { hold; Decrement }", "try1: same"}})
}
