//go:build verif

package grpcsync

import (
	"context"
	"fmt"
	"sync"
	"testing"

	"google.golang.org/grpc/internal/buffer"
	"google.golang.org/grpc/internal/verif/vk"
	"google.golang.org/grpc/internal/verif/vsched"
)

// c31Ledger is the oracle's event ledger. A logical clock stamps call starts,
// call returns and callback runs; harness bookkeeping is native (invisible to
// the scheduler) and atomic with the step that performs it.
type c31Ledger struct {
	mu      sync.Mutex
	clock   int
	start   map[int]int // id -> time ScheduleOr was called
	ret     map[int]int // id -> time ScheduleOr returned
	failed  map[int]bool
	ran     map[int]int // id -> time the callback ran (first time)
	runs    map[int]int // id -> number of runs
	order   []int       // ids in run order
	inCb    int         // id of callback currently running, -1 if none
	doneAt  int         // time Done was observed closed (0 = never)
	overlap string
}

func newC31Ledger() *c31Ledger {
	return &c31Ledger{start: map[int]int{}, ret: map[int]int{}, failed: map[int]bool{}, ran: map[int]int{}, runs: map[int]int{}, inCb: -1}
}

func (l *c31Ledger) tick() int { l.clock++; return l.clock }

func c31SerializerScenario(name string, nSched, perSched int, cancel bool, bound int) vsched.Scenario {
	return vsched.Scenario{Name: name, Bound: bound, MinOutcomes: 2, Body: func(x *vsched.X) {
		l := newC31Ledger()
		ctx, cancelF := context.WithCancel(context.Background())
		cs := NewCallbackSerializer(ctx) // its run goroutine is a managed thread (vsched.Go)
		submit := func(id int) {
			l.mu.Lock()
			l.start[id] = l.tick()
			l.mu.Unlock()
			cs.ScheduleOr(func(context.Context) {
				l.mu.Lock()
				if l.inCb >= 0 {
					l.overlap = fmt.Sprintf("callback %d started while callback %d was running", id, l.inCb)
				}
				l.inCb = id
				l.runs[id]++
				if l.runs[id] == 1 {
					l.ran[id] = l.tick()
					l.order = append(l.order, id)
				}
				l.mu.Unlock()
				vsched.Yield() // the callback takes time
				l.mu.Lock()
				l.inCb = -1
				l.mu.Unlock()
			}, func() {
				l.mu.Lock()
				if l.failed[id] {
					l.overlap = fmt.Sprintf("onFailure for %d called twice", id)
				}
				l.failed[id] = true
				l.mu.Unlock()
			})
			l.mu.Lock()
			l.ret[id] = l.tick()
			l.mu.Unlock()
		}
		for s := 0; s < nSched; s++ {
			base := s * 10
			x.Go(fmt.Sprintf("sched%d", s), func() {
				for i := 0; i < perSched; i++ {
					submit(base + i)
				}
			})
		}
		if cancel {
			x.Go("cancel", func() {
				vsched.Yield()
				cancelF()
			})
			x.Go("waitDone", func() {
				vsched.Yield()
				<-cs.Done()
				l.mu.Lock()
				l.doneAt = l.tick()
				l.mu.Unlock()
				// work submitted after shutdown was reported must be refused
				submit(99)
			})
		}
		x.Final(func(x *vsched.X) {
			if x.Stuck != "" && !(cancel == false) {
				x.Fail("C31", "deadlock", "execution stuck: %s", x.Stuck)
			}
			for _, p := range x.Panics {
				x.Fail("C31", "panic", "%s", p)
			}
			l.mu.Lock()
			defer l.mu.Unlock()
			if l.overlap != "" {
				x.Fail("C31", "not-serialized", "%s", l.overlap)
			}
			nRan, nFailed := 0, 0
			for id := range l.start {
				if l.runs[id] > 1 {
					x.Fail("C31", "ran-twice", "callback %d ran %d times", id, l.runs[id])
				}
				if l.failed[id] && l.runs[id] > 0 {
					x.Fail("C31", "failed-but-ran", "callback %d: submitter was told it failed but it ran", id)
				}
				if !l.failed[id] && l.runs[id] == 0 && l.ret[id] != 0 && (cancel || x.Stuck == "") {
					x.Fail("C31", "accepted-never-ran", "callback %d was accepted (no onFailure) but never ran", id)
				}
				if l.runs[id] > 0 {
					nRan++
				}
				if l.failed[id] {
					nFailed++
				}
				if l.doneAt != 0 {
					if l.start[id] > l.doneAt && !l.failed[id] {
						x.Fail("C31", "accepted-after-shutdown", "callback %d submitted after Done was closed was accepted", id)
					}
					if l.runs[id] > 0 && l.ran[id] > l.doneAt {
						x.Fail("C31", "ran-after-done", "callback %d ran after Done was reported closed", id)
					}
				}
			}
			// FIFO: a submitted strictly before b (a's call returned before b's began) => a runs before b
			for a := range l.ran {
				for b := range l.ran {
					if l.ret[a] != 0 && l.ret[a] < l.start[b] && l.ran[a] > l.ran[b] {
						x.Fail("C31", "not-fifo", "callback %d was submitted before %d but ran after it (order %v)", a, b, l.order)
					}
				}
			}
			if !cancel && x.Stuck == "" {
				// without shutdown the run loop never exits: quiescence is the stuck state
			}
			x.Outcome(fmt.Sprintf("order=%v failed=%d done=%v", l.order, nFailed, l.doneAt != 0))
		})
		x.Cleanup(func() { cancelF() })
	}}
}

// ---- buffer.Unbounded ----

func c31UnboundedScenario(name string, producers, per int, closer bool, bound int) vsched.Scenario {
	return vsched.Scenario{Name: name, Bound: bound, MinOutcomes: 2, Body: func(x *vsched.X) {
		b := buffer.NewUnbounded[int]()
		var mu sync.Mutex
		accepted := map[int]bool{}
		rejected := map[int]bool{}
		var got []int
		closedSeen := false
		closeReturned := false
		afterClose := ""
		for p := 0; p < producers; p++ {
			base := (p + 1) * 10
			x.Go(fmt.Sprintf("prod%d", p), func() {
				for i := 0; i < per; i++ {
					v := base + i
					mu.Lock()
					wasClosed := closeReturned
					mu.Unlock()
					err := b.Put(v)
					mu.Lock()
					if err == nil {
						accepted[v] = true
						if wasClosed {
							afterClose = fmt.Sprintf("Put(%d) was accepted although Close had already returned", v)
						}
					} else {
						rejected[v] = true
					}
					mu.Unlock()
				}
			})
		}
		total := producers * per
		x.Go("consumer", func() {
			for n := 0; n < total || closer; n++ {
				vsched.Yield()
				v, ok := <-b.Get()
				if !ok {
					mu.Lock()
					closedSeen = true
					mu.Unlock()
					return
				}
				mu.Lock()
				if closedSeen {
					afterClose = fmt.Sprintf("value %d after close", v)
				}
				got = append(got, v)
				mu.Unlock()
				b.Load()
			}
		})
		if closer {
			x.Go("closer", func() {
				vsched.Yield()
				b.Close()
				mu.Lock()
				closeReturned = true
				mu.Unlock()
			})
		}
		x.Final(func(x *vsched.X) {
			if x.Stuck != "" {
				x.Fail("C31", "unbounded-deadlock", "execution stuck (a value or the close signal was never delivered): %s", x.Stuck)
			}
			for _, p := range x.Panics {
				x.Fail("C31", "panic", "%s", p)
			}
			mu.Lock()
			defer mu.Unlock()
			seen := map[int]int{}
			last := map[int]int{}
			for _, v := range got {
				seen[v]++
				if prev, ok := last[v/10]; ok && prev > v {
					x.Fail("C31", "unbounded-reordered", "values of one producer delivered out of order: %v", got)
				}
				last[v/10] = v
			}
			for v, n := range seen {
				if n > 1 {
					x.Fail("C31", "unbounded-duplicate", "value %d delivered %d times (%v)", v, n, got)
				}
				if rejected[v] {
					x.Fail("C31", "unbounded-rejected-delivered", "value %d was rejected by Put but delivered", v)
				}
			}
			if x.Stuck == "" {
				for v := range accepted {
					if seen[v] == 0 {
						x.Fail("C31", "unbounded-lost", "value %d accepted by Put but never delivered; end-of-stream seen=%v; got %v", v, closedSeen, got)
					}
				}
			}
			if afterClose != "" {
				x.Fail("C31", "unbounded-after-close", "%s", afterClose)
			}
			x.Outcome(fmt.Sprintf("got=%v rejected=%d closed=%v", got, len(rejected), closedSeen))
		})
		x.Cleanup(func() { b.Close() })
	}}
}

// ---- PubSub ----

type c31Sub struct {
	id    int
	mu    *sync.Mutex
	got   []int
	unsub bool // set when the cancel func has returned
	late  string
}

func (s *c31Sub) VerifOrder() int { return s.id }
func (s *c31Sub) OnMessage(m any) {
	s.mu.Lock()
	if s.unsub {
		s.late = fmt.Sprintf("subscriber %d received %v after its unsubscribe returned", s.id, m)
	}
	s.got = append(s.got, m.(int))
	s.mu.Unlock()
}

func c31PubSubScenario(name string, bound int) vsched.Scenario {
	return vsched.Scenario{Name: name, Bound: bound, MinOutcomes: 2, Body: func(x *vsched.X) {
		ctx, cancelF := context.WithCancel(context.Background())
		ps := NewPubSub(ctx)
		var mu sync.Mutex
		s1 := &c31Sub{id: 1, mu: &mu}
		s2 := &c31Sub{id: 2, mu: &mu}
		unsub1 := ps.Subscribe(s1)
		pubDone, pubStarted := 0, 0 // highest message whose Publish returned / was called
		var s2SubStartDone, s2SubEndStarted int
		x.Go("pub", func() {
			for m := 1; m <= 3; m++ {
				mu.Lock()
				pubStarted = m
				mu.Unlock()
				ps.Publish(m)
				mu.Lock()
				pubDone = m
				mu.Unlock()
			}
		})
		x.Go("sub2", func() {
			mu.Lock()
			s2SubStartDone = pubDone
			mu.Unlock()
			ps.Subscribe(s2)
			mu.Lock()
			s2SubEndStarted = pubStarted
			mu.Unlock()
		})
		x.Go("unsub1", func() {
			vsched.Yield()
			unsub1()
			mu.Lock()
			s1.unsub = true
			mu.Unlock()
		})
		x.OnStuck(func() bool {
			// everything published and delivered: shut down so Done can close
			select {
			case <-ctx.Done():
				return false
			default:
			}
			cancelF()
			return true
		})
		x.Final(func(x *vsched.X) {
			for _, p := range x.Panics {
				x.Fail("C31", "panic", "%s", p)
			}
			select {
			case <-ps.Done():
			default:
				x.Fail("C31", "pubsub-done-not-closed", "PubSub.Done not closed after shutdown at quiescence: %s", x.Stuck)
			}
			mu.Lock()
			defer mu.Unlock()
			for _, s := range []*c31Sub{s1, s2} {
				if s.late != "" {
					x.Fail("C31", "pubsub-after-unsubscribe", "%s", s.late)
				}
				for i := 1; i < len(s.got); i++ {
					if s.got[i] != s.got[i-1]+1 {
						x.Fail("C31", "pubsub-order", "subscriber %d got %v: not consecutive publish order", s.id, s.got)
					}
				}
			}
			if len(s1.got) > 0 && s1.got[0] != 1 {
				x.Fail("C31", "pubsub-first", "subscriber 1 (subscribed before any publish) got %v", s1.got)
			}
			// subscriber 2 never unsubscribes: it must end with the last message and
			// start with the latest value at subscription time.
			if len(s2.got) == 0 || s2.got[len(s2.got)-1] != 3 {
				x.Fail("C31", "pubsub-missed-latest", "subscriber 2 got %v, must end with the last published value 3", s2.got)
			} else {
				first := s2.got[0]
				lo, hi := s2SubStartDone, s2SubEndStarted
				if lo == 0 {
					lo = 1
				}
				if hi == 0 {
					hi = 1
				}
				if first < lo || first > hi {
					x.Fail("C31", "pubsub-start", "subscriber 2 first got %d but the latest value at its subscription was between %d and %d (%v)", first, lo, hi, s2.got)
				}
			}
			x.Outcome(fmt.Sprintf("s1=%v s2=%v", s1.got, s2.got))
		})
		x.Cleanup(func() { cancelF() })
	}}
}

func TestVerif_C31_Serializer(t *testing.T) {
	const P = "C31"
	r := vk.Start(t, "c31_serializer", "exploration", P)
	defer r.Finish()
	r.Rule(P, "every schedule with at most B preemptions (quick 2, thorough 3; the 6-thread 2x2 serializer scenario one less) of the instrumented real CallbackSerializer / buffer.Unbounded / PubSub (locks, channel operations, selects and goroutine starts are scheduling points; map ranges iterate in explorer-owned order): 2 submitters x 2 callbacks racing cancellation and a Done waiter; 2 producers + consumer (+Close) on Unbounded; publisher x3 racing a late subscriber and an unsubscribe; oracle = ledger with logical clock (FIFO w.r.t. real-time submission order, exactly-once, refused-after-shutdown, Done only after all accepted ran); non-trivial = executions deviating from the default schedule")
	r.Assume(P, "scheduling points at sync/channel operations suffice; context cancellation is fused with the step that calls it")
	b := r.Pick(2, 3)
	scs := []vsched.Scenario{
		c31SerializerScenario("serializer/2x2+cancel", 2, 2, true, b-1),
		c31SerializerScenario("serializer/2x1+cancel", 2, 1, true, b),
		c31UnboundedScenario("unbounded/2x2", 2, 2, false, b),
		c31UnboundedScenario("unbounded/2x2+close", 2, 2, true, b),
		c31PubSubScenario("pubsub/pub3+sub+unsub", b),
	}
	vsched.RunScenarios(t, r, []string{P}, scs)
	r.Sample(P, map[string]any{"scenario": "serializer/2x2+cancel", "threads": []string{"sched0: ScheduleOr(cb0); ScheduleOr(cb1)", "sched1: same with cb10, cb11", "cancel: cancel ctx", "waitDone: <-Done(); ScheduleOr(cb99) must be refused", "run loop (managed)", "context.AfterFunc goroutine (adopted)"}})
}
