//go:build verif

package transport

// C14, server half, engine E4: a real http2Server (NewServerTransport +
// HandleStreams with a recording handler, driven the way server.go drives it)
// against a scripted raw HTTP/2 client peer. Histories over {client HEADERS for
// a new stream, Drain, client PING-ACK for the drain ping, advance 5 s of
// virtual time, handler finishes stream k (WriteStatus), client RST_STREAM k}.
// Oracle: the client peer's frame log (GOAWAY ids, trailers with grpc-status,
// connection closed) against the handler log.

import (
	"context"
	"errors"
	"fmt"
	"math"
	"strconv"
	"strings"
	"sync"
	"testing"
	"testing/synctest"
	"time"

	"golang.org/x/net/http2"
	"google.golang.org/grpc/codes"
	"google.golang.org/grpc/internal/verif/vk"
	"google.golang.org/grpc/internal/verif/wire"
	"google.golang.org/grpc/mem"
	"google.golang.org/grpc/status"
)

const c14SrvMaxStreams = 4

type c14SEv struct {
	kind string // hdr drain pingAck adv finish rst
	k    int
}

func (e c14SEv) String() string {
	switch e.kind {
	case "finish", "rst":
		return fmt.Sprintf("%s(%d)", e.kind, e.k)
	}
	return e.kind
}

type c14SStream struct {
	id        uint32
	endStream bool // HEADERS carried END_STREAM
	handled   *ServerStream
	finished  bool // the handler called WriteStatus
	code      codes.Code
	rstByCli  bool
	trailers  int // trailers frames seen by the client peer
}

type c14SRes struct {
	events  []string
	fails   []c14Fail
	engine  string
	log     string
	steps   int
	nondet  string
	outcome string
	// statistics
	drained, finalSeen        bool
	finalBy                   string
	finalID                   uint32
	acceptedBeforeFinal       int
	acceptedBetween           int // accepted between the first and the final GOAWAY
	servedAfterFinal          int
	ignoredAfterFinal         int
	closed, closedAfterDrain  bool
	unfinishedAtFinal         int
}

// c14SrvRun executes one server-side history.
func c14SrvRun(t *testing.T, depth int, choose func(step int, evs []c14SEv) int) (res c14SRes) {
	synctest.Test(t, func(t *testing.T) {
		var (
			mu        sync.Mutex
			handled   []*ServerStream
			serveDone bool
		)
		defer func() {
			if p := recover(); p != nil {
				res.fails = append(res.fails, c14Fail{"panic", fmt.Sprintf("panic: %v", p)})
			}
		}()
		cconn, sconn := wire.Pipe()
		peer := wire.NewClientPeer(cconn)
		peer.AutoAckSettings = true
		peer.WriteSettings()
		st, err := NewServerTransport(sconn, &ServerConfig{MaxStreams: math.MaxUint32, BufferPool: mem.DefaultBufferPool(), StaticWindowSize: true})
		if err != nil || st == nil {
			res.engine = fmt.Sprintf("NewServerTransport: %v", err)
			peer.Close()
			return
		}
		go func() {
			// as grpc.Server.serveStreams does
			st.HandleStreams(context.Background(), func(s *ServerStream) {
				mu.Lock()
				handled = append(handled, s)
				mu.Unlock()
			})
			st.Close(errors.New("finished serving streams for the server transport"))
			mu.Lock()
			serveDone = true
			mu.Unlock()
		}()
		defer func() {
			res.log = peer.LogString()
			st.Close(errors.New("verif: history finished"))
			peer.Close()
			synctest.Wait()
			mu.Lock()
			if !serveDone && res.engine == "" {
				res.engine = "HandleStreams did not return after the transport was closed"
			}
			mu.Unlock()
		}()
		synctest.Wait()

		fail := func(class, format string, a ...any) {
			res.fails = append(res.fails, c14Fail{class, fmt.Sprintf(format, a...)})
		}
		var (
			streams     []*c14SStream
			byID        = map[uint32]*c14SStream{}
			seen        int
			goaways     []wire.Frame
			pings       [][8]byte // un-acked pings received
			nHandled    int
			drainCalled bool
		)
		// scan consumes new server->client frames and new handler invocations.
		scan := func(ev string) {
			lg := peer.Log()
			for ; seen < len(lg); seen++ {
				f := lg[seen]
				switch f.Type {
				case "GOAWAY":
					goaways = append(goaways, f)
					if f.Code != uint32(http2.ErrCodeNo) {
						fail("goaway-error-code", "after %s: GOAWAY(last=%d) carries error code %d on a conforming connection", ev, f.LastID, f.Code)
					}
					switch len(goaways) {
					case 1:
						if !drainCalled {
							fail("goaway-without-drain", "after %s: GOAWAY(last=%d) although Drain was not called", ev, f.LastID)
						} else if f.LastID != math.MaxUint32>>1 {
							fail("first-goaway-id", "after %s: the first GOAWAY of a graceful drain has last-stream-id %d, want 2^31-1 (streams already in flight must not be refused)", ev, f.LastID)
						}
					case 2:
						mu.Lock()
						var hi uint32
						for _, s := range handled {
							hi = max(hi, s.id)
						}
						n := len(handled)
						mu.Unlock()
						res.finalSeen, res.finalID, res.acceptedBeforeFinal = true, f.LastID, n
						if f.LastID != hi {
							fail("final-goaway-id", "after %s: the final GOAWAY has last-stream-id %d but the highest stream id handed to the handler is %d", ev, f.LastID, hi)
						}
						for _, s := range streams {
							if s.handled != nil && !s.finished && !s.rstByCli {
								res.unfinishedAtFinal++
							}
						}
					default:
						fail("extra-goaway", "after %s: GOAWAY #%d (last=%d)", ev, len(goaways), f.LastID)
					}
				case "PING":
					if !f.Ack {
						var d [8]byte
						copy(d[:], f.Data)
						pings = append(pings, d)
					}
				case "HEADERS":
					s := byID[f.Stream]
					if s == nil {
						fail("headers-on-unknown-stream", "after %s: server HEADERS on stream %d which the client never opened", ev, f.Stream)
						continue
					}
					if f.EndStream {
						s.trailers++
						gs, _ := wire.Field(f.Fields, "grpc-status")
						if s.trailers > 1 {
							fail("double-trailers", "after %s: stream %d got a second trailers frame", ev, s.id)
						} else if !s.finished {
							fail("trailers-without-handler", "after %s: stream %d was ended by the server (grpc-status %q) although its handler has not finished", ev, s.id, gs)
						} else if gs != strconv.Itoa(int(s.code)) {
							fail("wrong-status", "after %s: stream %d ended with grpc-status %q, the handler returned %d", ev, s.id, gs, s.code)
						}
					}
				case "RST_STREAM":
					if s := byID[f.Stream]; s != nil && !s.finished && !s.rstByCli {
						fail("server-reset-accepted-stream", "after %s: server sent RST_STREAM(code=%d) on stream %d whose handler has not finished", ev, f.Code, s.id)
					}
				}
			}
			mu.Lock()
			for ; nHandled < len(handled); nHandled++ {
				hs := handled[nHandled]
				s := byID[hs.id]
				switch {
				case s == nil:
					fail("handler-for-unknown-stream", "after %s: handler invoked for stream %d which the client never opened", ev, hs.id)
				case s.handled != nil:
					fail("handler-invoked-twice", "after %s: handler invoked twice for stream %d", ev, hs.id)
				default:
					s.handled = hs
					if len(goaways) == 1 {
						res.acceptedBetween++
					}
					if len(goaways) >= 2 {
						fail("accepted-after-final-goaway", "after %s: handler invoked for stream %d after the final GOAWAY(last=%d)", ev, hs.id, goaways[1].LastID)
					}
				}
			}
			mu.Unlock()
		}
		scan("start")

		for step := 0; step < depth; step++ {
			closed := peer.Closed()
			var evs []c14SEv
			var unfinished, wireOpen []*c14SStream
			for _, s := range streams {
				if s.handled != nil && !s.finished && !s.rstByCli {
					unfinished = append(unfinished, s)
				}
				if !s.rstByCli && s.trailers == 0 {
					wireOpen = append(wireOpen, s)
				}
			}
			if !closed {
				if len(streams) < c14SrvMaxStreams {
					evs = append(evs, c14SEv{kind: "hdr"})
				}
				if !drainCalled {
					evs = append(evs, c14SEv{kind: "drain"})
				}
				if len(pings) > 0 {
					evs = append(evs, c14SEv{kind: "pingAck"})
				}
				if drainCalled {
					evs = append(evs, c14SEv{kind: "adv"})
				}
				for k := range unfinished {
					evs = append(evs, c14SEv{kind: "finish", k: k})
				}
				for k := range wireOpen {
					evs = append(evs, c14SEv{kind: "rst", k: k})
				}
			}
			if len(evs) == 0 {
				break
			}
			ci := choose(step, evs)
			if ci < 0 {
				break
			}
			if ci >= len(evs) {
				res.nondet = fmt.Sprintf("step %d: choice %d but only %d applicable events", step, ci, len(evs))
				break
			}
			ev := evs[ci]
			res.events = append(res.events, ev.String())
			res.steps++
			nfail := len(res.fails)
			finalBefore := len(goaways) >= 2
			var target *c14SStream
			var werr error

			switch ev.kind {
			case "hdr":
				s := &c14SStream{id: uint32(2*len(streams) + 1), endStream: len(streams)%2 == 1}
				streams = append(streams, s)
				byID[s.id] = s
				peer.WriteHeaders(s.id, [][2]string{{":method", "POST"}, {":scheme", "http"}, {":path", "/s/m"}, {":authority", "x"}, {"content-type", "application/grpc"}, {"te", "trailers"}}, s.endStream)
				target = s
			case "drain":
				drainCalled = true
				res.drained = true
				st.Drain("")
			case "pingAck":
				d := pings[len(pings)-1]
				pings = nil
				peer.WritePing(true, d)
			case "adv":
				time.Sleep(5 * time.Second)
			case "finish":
				target = unfinished[ev.k]
				target.finished = true
				target.code = codes.Code(3 + (target.id-1)/2) // a different status per stream
				werr = target.handled.WriteStatus(status.New(target.code, "m"+strconv.Itoa(int(target.id))))
			case "rst":
				target = wireOpen[ev.k]
				target.rstByCli = true
				peer.WriteRST(target.id, http2.ErrCodeCancel)
			}
			synctest.Wait()
			scan(ev.String())

			// ---- oracle ----
			switch ev.kind {
			case "drain":
				if len(goaways) == 0 {
					fail("drain-no-goaway", "after drain: no GOAWAY was sent")
				}
				if len(pings) == 0 && len(goaways) < 2 {
					fail("drain-no-ping", "after drain: no PING follows the first GOAWAY, so the final GOAWAY cannot be triggered by the client's answer")
				}
			case "pingAck":
				if drainCalled && len(goaways) < 2 {
					fail("final-goaway-missing", "after pingAck: the client answered the drain PING but no final GOAWAY was sent")
				} else if !finalBefore && len(goaways) >= 2 {
					res.finalBy = "ping-ack"
				}
			case "adv":
				if !finalBefore && len(goaways) >= 2 {
					res.finalBy = "timer"
				}
			case "hdr":
				if len(goaways) < 2 && target.handled == nil && !peer.Closed() {
					fail("stream-not-handled", "after hdr: stream %d was opened before any final GOAWAY but the handler was not invoked (work lost)", target.id)
				}
				if finalBefore && target.handled == nil {
					res.ignoredAfterFinal++
				}
			case "finish":
				if !target.rstByCli && !closed {
					if werr != nil {
						fail("accepted-stream-not-served", "after %s: WriteStatus on accepted stream %d failed: %v", ev, target.id, werr)
					} else if target.trailers == 0 {
						fail("accepted-stream-not-served", "after %s: the handler of accepted stream %d returned status %d but no trailers reached the client", ev, target.id, target.code)
					} else if finalBefore {
						res.servedAfterFinal++
					}
				}
			}
			// accepted streams at or below the final id: never above it
			if len(goaways) >= 2 {
				for _, s := range streams {
					if s.handled != nil && s.id > goaways[1].LastID {
						fail("accepted-above-final-id", "after %s: stream %d was handed to the handler but the final GOAWAY says last-stream-id %d", ev, s.id, goaways[1].LastID)
					}
				}
			}
			// the connection closes only after every accepted stream finished
			if peer.Closed() {
				res.closed = true
				for _, s := range streams {
					if s.handled != nil && !s.finished && !s.rstByCli {
						fail("closed-with-unfinished-stream", "after %s: the server closed the connection while accepted stream %d is still being handled", ev, s.id)
					}
				}
				if len(goaways) >= 2 {
					res.closedAfterDrain = true
				}
			}
			if len(res.fails) > nfail {
				break
			}
		}
		res.outcome = fmt.Sprintf("drain=%v final=%v(by %s) accepted-before-final=%d accepted-between-goaways=%d unfinished-at-final=%d served-after-final=%d ignored-after-final=%d closed=%v",
			res.drained, res.finalSeen, res.finalBy, min(res.acceptedBeforeFinal, 2), min(res.acceptedBetween, 2), min(res.unfinishedAtFinal, 2), min(res.servedAfterFinal, 2), min(res.ignoredAfterFinal, 1), res.closed)
	})
	return res
}


func TestVerif_C14_Server(t *testing.T) {
	const P = "C14"
	r := vk.Start(t, "c14_server", "exploration", P)
	defer r.Finish()
	depth := r.Pick(7, 10)
	r.Rule(P, fmt.Sprintf("server side: every event history of length %d (oracle after every event) over {client HEADERS opening the next stream (<=%d, every second one with END_STREAM), Drain(\"\"), client PING-ACK answering the server's latest PING, advance 5 s of virtual time, handler finishes the k-th accepted stream with WriteStatus(code 3+k), client RST_STREAM on the k-th open stream}, inapplicable events pruned; real http2Server (NewServerTransport + HandleStreams + Close as server.go does) against a scripted raw client, one synctest bubble per history; non-trivial = Drain was called and the final GOAWAY was observed with at least one stream accepted", depth, c14SrvMaxStreams))
	r.Assume(P, "graceful drain is gRPC's two-phase protocol: first GOAWAY(2^31-1) + PING, final GOAWAY after the PING ack or 5 s")
	r.Assume(P, "all client HEADERS are well-formed gRPC requests and MaxStreams is unlimited, so 'accepted' = handed to the stream handler")

	report := func(o *c14Odo, res c14SRes) {
		if res.engine != "" {
			r.EngineError("server history=%v: %s", res.events, res.engine)
		}
		for _, f := range res.fails {
			key := fmt.Sprintf("server/%s|%s", f.class, strings.Join(res.events, ","))
			r.Violation(P, key, fmt.Sprintf("%s\n  history: %s\n  server frames: %s", f.desc, strings.Join(res.events, ","), res.log),
				c14Replay{Side: "server", Choices: append([]int(nil), o.path[:min(len(o.path), res.steps)]...), Events: res.events})
		}
	}
	if r.ReplayFile() != "" {
		var rp c14Replay
		if err := r.LoadReplay(&rp); err != nil {
			r.EngineError("replay: %v", err)
			return
		}
		if rp.Side != "server" {
			return
		}
		o := &c14Odo{path: rp.Choices, fixed: len(rp.Choices)}
		res := c14SrvRun(t, len(rp.Choices), func(step int, evs []c14SEv) int {
			if step >= len(rp.Choices) {
				return -1
			}
			return rp.Choices[step]
		})
		r.Eval(P, 1)
		fmt.Printf("replay events=%v fails=%v outcome=%s\n  log=%s\n", res.events, res.fails, res.outcome, res.log)
		report(o, res)
		return
	}

	const prefixDepth = 3
	var hist, steps int64
	nsamp := 0
	capped := false
	var prefixes [][]int
	po := &c14Odo{}
	for {
		res := c14SrvRun(t, prefixDepth, func(step int, evs []c14SEv) int { return po.choose(step, len(evs)) })
		if res.engine != "" || po.bad != "" {
			r.EngineError("server prefix enumeration path=%v: %s %s", po.path, res.engine, po.bad)
			return
		}
		prefixes = append(prefixes, append([]int(nil), po.path...))
		if !po.next() {
			break
		}
	}
outer:
	for item, pre := range prefixes {
		if !r.Mine(item) {
			continue
		}
		o := &c14Odo{path: append([]int(nil), pre...), fixed: len(pre)}
		for {
			if r.OverBudget() {
				capped = true
				break outer
			}
			res := c14SrvRun(t, depth, func(step int, evs []c14SEv) int { return o.choose(step, len(evs)) })
			if o.bad != "" || res.nondet != "" {
				r.EngineError("server: non-deterministic applicability: %s %s", o.bad, res.nondet)
				break outer
			}
			hist++
			steps += int64(res.steps)
			r.Outcome(P, "server: "+res.outcome)
			if res.finalSeen && res.acceptedBeforeFinal > 0 {
				r.Nontrivial(P, "server|"+strings.Join(res.events, ","))
				if nsamp < 1 && res.servedAfterFinal > 0 && res.acceptedBetween > 0 {
					nsamp++
					r.Sample(P, map[string]any{"side": "server", "history": res.events, "server_frames": res.log, "outcome": res.outcome})
				}
			}
			report(o, res)
			if !o.next() {
				break
			}
		}
	}
	r.Eval(P, hist)
	r.AddInt(P, "server_steps", steps)
	r.Set(P, "server_depth_bound", depth)
	if capped {
		r.Cap(P, "server leg: time budget reached before all histories were run")
	}
}
