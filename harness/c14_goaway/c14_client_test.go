//go:build verif

package transport

// C14, client half, engine E4: a real http2Client against a scripted raw
// HTTP/2 server peer; every bounded history of {newStream, GOAWAY(id), second
// GOAWAY(id), server completes stream k, application closes stream k} runs in
// its own synctest bubble with run-to-quiescence after every event. The oracle
// uses only the peer's frame log (HEADERS positions, connection closed) and the
// application-visible stream results (Done, Status, Unprocessed, NewStream error).

import (
	"context"
	"errors"
	"fmt"
	"net"
	"sort"
	"strings"
	"sync"
	"testing"
	"testing/synctest"

	"golang.org/x/net/http2"
	"google.golang.org/grpc/codes"
	"google.golang.org/grpc/internal/verif/vk"
	"google.golang.org/grpc/internal/verif/wire"
	"google.golang.org/grpc/mem"
	"google.golang.org/grpc/resolver"
	"google.golang.org/grpc/status"
)

const (
	c14MaxCalls = 4
	c14MaxID    = uint32(1<<31 - 1)
)

type c14Ev struct {
	kind string // new goaway srvEnd appClose
	k    int
	id   uint32
}

func (e c14Ev) String() string {
	switch e.kind {
	case "goaway":
		return fmt.Sprintf("goaway(%d)", e.id)
	case "srvEnd", "appClose":
		return fmt.Sprintf("%s(%d)", e.kind, e.k)
	}
	return e.kind
}

type c14Call struct {
	idx       int
	returned  bool
	s         *ClientStream
	err       error
	afterGA   bool   // issued after a GOAWAY had been sent
	endedBy   string // "srv" / "app": the harness ended it
	doneSeen  bool
	finalNote string
}

type c14Fail struct{ class, desc string }

type c14Res struct {
	events  []string
	fails   []c14Fail
	engine  string
	log     string
	steps   int
	nondet  string
	outcome string
	// statistics
	activeAtGoAway          int
	failedUnprocessed       int
	survivedThenCompleted   int
	refusedNew              int
	refusedNewRetryable     int
	connErrors              int
	g1, g2                  string
	closedByPeer            bool
	parkedAfterGoAway       bool
}

func c14Done(s *ClientStream) bool {
	select {
	case <-s.Done():
		return true
	default:
		return false
	}
}

// c14Run executes one client-side history.
func c14Run(t *testing.T, depth int, choose func(step int, evs []c14Ev) int) (res c14Res) {
	res.g1, res.g2 = "none", "none"
	synctest.Test(t, func(t *testing.T) {
		var (
			mu    sync.Mutex
			calls []*c14Call
		)
		defer func() {
			if p := recover(); p != nil {
				res.fails = append(res.fails, c14Fail{"panic", fmt.Sprintf("panic: %v", p)})
			}
		}()
		cconn, sconn := wire.Pipe()
		peer := wire.NewServerPeer(sconn)
		peer.AutoAckSettings = true
		peer.AutoAckPing = true
		peer.WriteSettings()
		ctx, cancelAll := context.WithCancel(context.Background())
		defer cancelAll()
		dial := func(context.Context, string) (net.Conn, error) { return cconn, nil }
		ct, err := NewHTTP2Client(ctx, ctx, resolver.Address{Addr: "x"}, ConnectOptions{Dialer: dial, BufferPool: mem.DefaultBufferPool(), StaticWindowSize: true}, func(GoAwayInfo) {})
		if err != nil {
			res.engine = "NewHTTP2Client: " + err.Error()
			peer.Close()
			return
		}
		tr := ct.(*http2Client)
		defer func() {
			res.log = peer.LogString()
			res.closedByPeer = peer.Closed()
			cancelAll()
			tr.Close(errors.New("verif: history finished"))
			peer.Close()
			synctest.Wait()
			mu.Lock()
			for _, c := range calls {
				if !c.returned && res.engine == "" {
					res.engine = fmt.Sprintf("NewStream call #%d did not return after the transport was closed", c.idx)
				}
			}
			mu.Unlock()
		}()
		synctest.Wait()

		fail := func(class, format string, a ...any) {
			res.fails = append(res.fails, c14Fail{class, fmt.Sprintf(format, a...)})
		}
		// wire ledger
		seen := 0
		wireIDs := []uint32{}           // HEADERS seen, in order
		srvEnded := map[uint32]bool{}   // server sent trailers
		cliRST := map[uint32]bool{}     // client sent RST_STREAM
		goAwayPos := -1                 // log length when the first GOAWAY was written
		var goaways []uint32            // GOAWAY ids sent
		threshold := uint64(1) << 40    // streams with id <= threshold were (possibly) processed: never "unprocessed"
		connErrExpected := false
		evenSeen, evenProbed := false, false
		scan := func() {
			lg := peer.Log()
			for ; seen < len(lg); seen++ {
				f := lg[seen]
				switch f.Type {
				case "HEADERS":
					if goAwayPos >= 0 && seen >= goAwayPos {
						fail("headers-after-goaway", "frame #%d: the client opened stream %d after it had received GOAWAY%v", f.Seq, f.Stream, goaways)
					}
					wireIDs = append(wireIDs, f.Stream)
				case "RST_STREAM":
					cliRST[f.Stream] = true
				}
			}
		}
		snapshot := func() (waiting, active []*c14Call) {
			mu.Lock()
			defer mu.Unlock()
			for _, c := range calls {
				switch {
				case !c.returned:
					waiting = append(waiting, c)
				case c.err == nil && !c14Done(c.s):
					active = append(active, c)
				}
			}
			sort.Slice(active, func(i, j int) bool { return active[i].s.id < active[j].s.id })
			return
		}
		scan()

		for step := 0; step < depth; step++ {
			_, active := snapshot()
			connGone := peer.Closed()
			var srvOpen []uint32
			for _, id := range wireIDs {
				if !srvEnded[id] && !cliRST[id] && uint64(id) <= threshold {
					srvOpen = append(srvOpen, id)
				}
			}
			var evs []c14Ev
			if len(calls) < c14MaxCalls && !evenProbed {
				evs = append(evs, c14Ev{kind: "new"})
			}
			// After a malformed (even-id) GOAWAY nothing but "no new stream" is
			// specified: probe it with one newStream and end the history.
			if evenSeen {
				connGone = true
				active = nil
			}
			if !connGone {
				switch len(goaways) {
				case 0:
					for _, id := range []uint32{0, 1, 3, 5, c14MaxID, 4} {
						evs = append(evs, c14Ev{kind: "goaway", id: id})
					}
				case 1:
					for _, id := range []uint32{0, 1, 3, 5, c14MaxID} {
						evs = append(evs, c14Ev{kind: "goaway", id: id})
					}
				}
				for k := range srvOpen {
					evs = append(evs, c14Ev{kind: "srvEnd", k: k})
				}
			}
			for k := range active {
				evs = append(evs, c14Ev{kind: "appClose", k: k})
			}
			if len(evs) == 0 {
				break
			}
			ci := choose(step, evs)
			if ci < 0 {
				break
			}
			if ci >= len(evs) {
				res.nondet = fmt.Sprintf("step %d: choice %d but only %d applicable events", step, ci, len(evs))
				break
			}
			ev := evs[ci]
			res.events = append(res.events, ev.String())
			res.steps++
			nfail := len(res.fails)
			var newCall, target *c14Call
			var gaKind string
			var gaN uint32

			switch ev.kind {
			case "new":
				c := &c14Call{idx: len(calls), afterGA: len(goaways) > 0}
				evenProbed = evenSeen
				mu.Lock()
				calls = append(calls, c)
				mu.Unlock()
				newCall = c
				go func() {
					s, err := tr.NewStream(ctx, &CallHdr{Host: "x", Method: "/s/m"}, nil)
					mu.Lock()
					c.returned, c.s, c.err = true, s, err
					mu.Unlock()
				}()
			case "goaway":
				gaN = ev.id
				switch {
				case gaN != 0 && gaN%2 == 0:
					gaKind = "even"
					evenSeen = true
				case len(goaways) == 0:
					gaKind = "first"
				case goaways[0] != 0 && goaways[0]%2 == 0:
					gaKind = "after-even" // the first one was malformed; nothing is specified for this one
				case gaN > goaways[0]:
					gaKind = "larger"
				case gaN == goaways[0]:
					gaKind = "equal"
				default:
					gaKind = "smaller"
				}
				if len(goaways) == 0 {
					goAwayPos = len(peer.Log())
					res.g1 = gaKind
					res.activeAtGoAway = len(active)
				} else {
					res.g2 = gaKind
				}
				goaways = append(goaways, gaN)
				switch gaKind {
				case "first", "equal", "smaller":
					threshold = uint64(gaN)
				case "larger":
					connErrExpected = true
				}
				peer.WriteGoAway(gaN, http2.ErrCodeNo, nil)
			case "srvEnd":
				id := srvOpen[ev.k]
				srvEnded[id] = true
				mu.Lock()
				for _, c := range calls {
					if c.returned && c.err == nil && c.s.id == id && c.endedBy == "" && !c14Done(c.s) {
						c.endedBy = "srv"
						target = c
					}
				}
				mu.Unlock()
				peer.WriteHeaders(id, [][2]string{{":status", "200"}, {"content-type", "application/grpc"}, {"grpc-status", "0"}}, true)
			case "appClose":
				target = active[ev.k]
				target.endedBy = "app"
				target.s.Close(status.Error(codes.Canceled, "verif: application cancelled the RPC"))
			}
			synctest.Wait()
			scan()

			// ---- oracle ----
			waiting2, _ := snapshot()
			switch ev.kind {
			case "new":
				if newCall.afterGA || connGone {
					mu.Lock()
					ret, nerr := newCall.returned, newCall.err
					mu.Unlock()
					switch {
					case !ret:
						res.parkedAfterGoAway = true
					case nerr == nil:
						fail("newstream-after-goaway", "after %s: NewStream returned stream %d although GOAWAY%v had been received", ev, newCall.s.id, goaways)
					default:
						res.refusedNew++
						var nse *NewStreamError
						if errors.As(nerr, &nse) && nse.AllowTransparentRetry {
							res.refusedNewRetryable++
						}
					}
				}
			case "goaway":
				switch gaKind {
				case "first", "equal", "smaller":
					for _, c := range active {
						id := c.s.id
						done := c14Done(c.s)
						if id > gaN {
							switch {
							case !done:
								fail("stream-above-N-not-failed", "after %s: stream %d (> %d) is still active", ev, id, gaN)
							case !c.s.Unprocessed():
								fail("stream-above-N-not-unprocessed", "after %s: stream %d (> %d) failed with status %v but Unprocessed()=false, so it is not eligible for transparent retry", ev, id, gaN, c.s.Status().Code())
							default:
								res.failedUnprocessed++
							}
						} else if done {
							fail("stream-at-or-below-N-failed", "after %s: stream %d (<= %d) was terminated by the GOAWAY (status %v, unprocessed=%v)", ev, id, gaN, c.s.Status().Code(), c.s.Unprocessed())
						}
					}
				case "larger":
					if !peer.Closed() {
						fail("larger-goaway-not-connection-error", "after %s (previous GOAWAY id %d): the client did not close the connection", ev, goaways[0])
					} else {
						res.connErrors++
					}
				case "even":
					if peer.Closed() {
						res.connErrors++
					}
				}
			case "srvEnd":
				if target != nil {
					switch {
					case !c14Done(target.s):
						fail("accepted-stream-not-completed", "after %s: the server finished stream %d but the RPC is still pending", ev, target.s.id)
					case target.s.Status().Code() != codes.OK || target.s.Unprocessed():
						fail("accepted-stream-not-completed", "after %s: the server finished stream %d with grpc-status 0 but the RPC ended with %v unprocessed=%v", ev, target.s.id, target.s.Status().Code(), target.s.Unprocessed())
					default:
						if len(goaways) > 0 {
							res.survivedThenCompleted++
						}
					}
				}
			}
			_ = waiting2
			// streams the server (possibly) processed never report "unprocessed"
			mu.Lock()
			for _, c := range calls {
				if c.returned && c.err == nil && uint64(c.s.id) <= threshold && c.s.Unprocessed() {
					fail("processed-stream-marked-unprocessed", "after %s: stream %d reports Unprocessed()=true although the last valid GOAWAY id is %s (a transparent retry would run it twice)", ev, c.s.id, c14Thr(threshold))
				}
			}
			mu.Unlock()
			_ = connErrExpected
			if len(res.fails) > nfail {
				break
			}
		}
		res.outcome = fmt.Sprintf("g1=%s g2=%s active-at-g1=%d failed-unprocessed=%d survived-then-completed=%d new-refused=%d(retryable=%d) conn-error=%d closed-by-client=%v parked-after-goaway=%v",
			res.g1, res.g2, min(res.activeAtGoAway, 2), min(res.failedUnprocessed, 2), min(res.survivedThenCompleted, 2), min(res.refusedNew, 1), min(res.refusedNewRetryable, 1), res.connErrors, peer.Closed(), res.parkedAfterGoAway)
	})
	return res
}

func c14Thr(v uint64) string {
	if v >= 1<<40 {
		return "none yet"
	}
	return fmt.Sprint(v)
}

// c14Odo: stateless depth-first enumerator (widths are learnt by running).
type c14Odo struct {
	path, width []int
	fixed       int
	bad         string
}

func (o *c14Odo) choose(step, n int) int {
	if step < len(o.path) {
		if step < len(o.width) {
			if o.width[step] != n && o.bad == "" {
				o.bad = fmt.Sprintf("step %d had %d applicable events, now %d (path %v)", step, o.width[step], n, o.path)
			}
		} else {
			o.width = append(o.width, n)
		}
		return o.path[step]
	}
	o.path = append(o.path, 0)
	o.width = append(o.width, n)
	return 0
}

func (o *c14Odo) next() bool {
	for len(o.path) > o.fixed {
		last := len(o.path) - 1
		if last < len(o.width) && o.path[last]+1 < o.width[last] {
			o.path[last]++
			o.width = o.width[:last+1]
			return true
		}
		o.path = o.path[:last]
		if len(o.width) > last {
			o.width = o.width[:last]
		}
	}
	return false
}

type c14Replay struct {
	Side    string   `json:"side"`
	Choices []int    `json:"choices"`
	Events  []string `json:"events"`
}

func TestVerif_C14_Client(t *testing.T) {
	const P = "C14"
	r := vk.Start(t, "c14_client", "exploration", P)
	defer r.Finish()
	depth := r.Pick(7, 10)
	r.Rule(P, fmt.Sprintf("client side: every event history of length %d (10 = the longest possible: 4 streams opened and ended, 2 GOAWAYs; oracle after every event: shorter histories are covered as prefixes) over {newStream (<=%d), first GOAWAY(last-stream-id in {0,1,3,5,2^31-1,4}), second GOAWAY(id in {0,1,3,5,2^31-1}: smaller/equal/larger), server completes the k-th stream it may still process (trailers, grpc-status 0), application closes the k-th active stream}, inapplicable events pruned; real http2Client against a scripted raw server, one synctest bubble per history; non-trivial = a GOAWAY arrived while at least one stream was active, or two GOAWAYs were sent", depth, c14MaxCalls))
	r.Assume(P, "history level only (GOMAXPROCS=1 scheduler order inside a step); the NewStream / handleGoAway race window belongs to an E1 leg")
	r.Assume(P, "a GOAWAY with an even non-zero last-stream-id is malformed: for it only 'no new stream afterwards' is required (grpc-go treats it as a connection error)")
	r.Assume(P, "channel-level transparent retry is not driven here: eligibility is read from ClientStream.Unprocessed() / NewStreamError.AllowTransparentRetry")

	report := func(o *c14Odo, res c14Res) {
		if res.engine != "" {
			r.EngineError("client history=%v: %s", res.events, res.engine)
		}
		for _, f := range res.fails {
			key := fmt.Sprintf("client/%s|%s", f.class, strings.Join(res.events, ","))
			switch {
			case f.class == "larger-goaway-not-connection-error":
				// one canonical key: every history ending in a larger second GOAWAY shows the same thing
				key = "client/larger-second-goaway-id-not-a-connection-error"
			case res.g1 == "even" && (f.class == "headers-after-goaway" || f.class == "newstream-after-goaway"):
				key = "client/even-goaway-id-ignored-new-stream-opened"
			}
			r.Violation(P, key, fmt.Sprintf("%s\n  history: %s\n  client frames: %s", f.desc, strings.Join(res.events, ","), res.log),
				c14Replay{Side: "client", Choices: append([]int(nil), o.path[:min(len(o.path), res.steps)]...), Events: res.events})
		}
	}
	if r.ReplayFile() != "" {
		var rp c14Replay
		if err := r.LoadReplay(&rp); err != nil {
			r.EngineError("replay: %v", err)
			return
		}
		if rp.Side != "client" {
			return
		}
		o := &c14Odo{path: rp.Choices, fixed: len(rp.Choices)}
		res := c14Run(t, len(rp.Choices), func(step int, evs []c14Ev) int {
			if step >= len(rp.Choices) {
				return -1
			}
			return rp.Choices[step]
		})
		r.Eval(P, 1)
		fmt.Printf("replay events=%v fails=%v outcome=%s\n  log=%s\n", res.events, res.fails, res.outcome, res.log)
		report(o, res)
		return
	}

	const prefixDepth = 3
	var hist, steps int64
	nsamp := 0
	capped := false
	var prefixes [][]int
	po := &c14Odo{}
	for {
		res := c14Run(t, prefixDepth, func(step int, evs []c14Ev) int { return po.choose(step, len(evs)) })
		if res.engine != "" || po.bad != "" {
			r.EngineError("client prefix enumeration path=%v: %s %s", po.path, res.engine, po.bad)
			return
		}
		prefixes = append(prefixes, append([]int(nil), po.path...))
		if !po.next() {
			break
		}
	}
outer:
	for item, pre := range prefixes {
		if !r.Mine(item) {
			continue
		}
		o := &c14Odo{path: append([]int(nil), pre...), fixed: len(pre)}
		for {
			if r.OverBudget() {
				capped = true
				break outer
			}
			res := c14Run(t, depth, func(step int, evs []c14Ev) int { return o.choose(step, len(evs)) })
			if o.bad != "" || res.nondet != "" {
				r.EngineError("client: non-deterministic applicability: %s %s", o.bad, res.nondet)
				break outer
			}
			hist++
			steps += int64(res.steps)
			r.Outcome(P, "client: "+res.outcome)
			if (res.g1 != "none" && res.activeAtGoAway > 0) || res.g2 != "none" {
				r.Nontrivial(P, "client|"+strings.Join(res.events, ","))
				if sh, _ := r.Shard(); sh < 4 && nsamp < 1 && res.failedUnprocessed > 0 && res.survivedThenCompleted > 0 {
					nsamp++
					r.Sample(P, map[string]any{"side": "client", "history": res.events, "client_frames": res.log, "outcome": res.outcome})
				}
			}
			report(o, res)
			if !o.next() {
				break
			}
		}
	}
	r.Eval(P, hist)
	r.AddInt(P, "client_steps", steps)
	r.Set(P, "client_depth_bound", depth)
	if capped {
		r.Cap(P, "client leg: time budget reached before all histories were run")
	}
}
