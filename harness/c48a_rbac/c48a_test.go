//go:build verif

package rbac

// C48 leg 1: RBAC policy chains are enforced exactly as written.
//
// The policy language is held as plain data (c48Node / c48Policy / c48Engine /
// c48Chain).  Two independent consumers read that data:
//   - c48*Proto   turns it into the envoy RBAC protos handed to NewChainEngine;
//   - c48Allowed  is the reference evaluator written from the property sentence.
// Every (chain, request) pair is pushed through ChainEngine.IsAuthorized with a
// context assembled from the same four pieces the server puts there
// (transport.SetConnection, peer.NewContext, metadata.NewIncomingContext,
// grpc.NewContextWithServerTransportStream) and the decision is compared.

import (
	"context"
	"crypto/tls"
	"crypto/x509"
	"crypto/x509/pkix"
	"encoding/json"
	"fmt"
	"math/big"
	"net"
	"net/url"
	"regexp"
	"runtime"
	"runtime/debug"
	"sort"
	"strings"
	"sync"
	"sync/atomic"
	"testing"

	v3corepb "github.com/envoyproxy/go-control-plane/envoy/config/core/v3"
	v3rbacpb "github.com/envoyproxy/go-control-plane/envoy/config/rbac/v3"
	v3routepb "github.com/envoyproxy/go-control-plane/envoy/config/route/v3"
	v3matcherpb "github.com/envoyproxy/go-control-plane/envoy/type/matcher/v3"
	v3typepb "github.com/envoyproxy/go-control-plane/envoy/type/v3"
	"google.golang.org/grpc"
	"google.golang.org/grpc/codes"
	"google.golang.org/grpc/credentials"
	icredentials "google.golang.org/grpc/internal/credentials"
	"google.golang.org/grpc/internal/transport"
	"google.golang.org/grpc/internal/verif/vk"
	"google.golang.org/grpc/metadata"
	"google.golang.org/grpc/peer"
	"google.golang.org/grpc/status"
	"google.golang.org/protobuf/types/known/wrapperspb"
)

// ---------------------------------------------------------------------------
// the policy language as data
// ---------------------------------------------------------------------------

// c48Node is one permission or principal expression.
//
//	K: any | and | or | not                     (C = children)
//	   header (N name, M exact|prefix|suffix|contains|regex|range|present|
//	           sm-exact|sm-prefix|sm-suffix|sm-contains|sm-regex (string_match),
//	           V value ("lo:hi" for range, "true"/"false" = present_match flag),
//	           I invert_match, F ignore_case of a string_match)
//	   path   (M exact|prefix, V)
//	   dip    (V cidr)  dport (P)               permissions only
//	   rip | drip | sip (V cidr)                principals only
//	   authn  (M absent|exact|prefix, V)        principals only
type c48Node struct {
	K string     `json:"k"`
	C []*c48Node `json:"c,omitempty"`
	N string     `json:"n,omitempty"`
	M string     `json:"m,omitempty"`
	V string     `json:"v,omitempty"`
	I bool       `json:"i,omitempty"`
	F bool       `json:"f,omitempty"`
	P uint32     `json:"p,omitempty"`
}

type c48Policy struct {
	Perms  []*c48Node `json:"perms"`
	Princs []*c48Node `json:"princs"`
}

type c48Engine struct {
	Deny     bool        `json:"deny"`
	Policies []c48Policy `json:"policies"`
}

type c48Chain []c48Engine

func (n *c48Node) String() string {
	switch n.K {
	case "any":
		return "any"
	case "and", "or":
		s := make([]string, len(n.C))
		for i, c := range n.C {
			s[i] = c.String()
		}
		return n.K + "(" + strings.Join(s, ",") + ")"
	case "not":
		return "not(" + n.C[0].String() + ")"
	case "header":
		inv := ""
		if n.I {
			inv = "!"
		}
		ic := ""
		if n.F {
			ic = " ignore_case"
		}
		return fmt.Sprintf("hdr[%s %s%s %q%s]", n.N, inv, n.M, n.V, ic)
	case "path":
		return fmt.Sprintf("path[%s %q]", n.M, n.V)
	case "dport":
		return fmt.Sprintf("dport[%d]", n.P)
	case "authn":
		if n.M == "absent" {
			return "authn[*]"
		}
		return fmt.Sprintf("authn[%s %q]", n.M, n.V)
	default:
		return n.K + "[" + n.V + "]"
	}
}

func c48ListString(l []*c48Node) string {
	s := make([]string, len(l))
	for i, c := range l {
		s[i] = c.String()
	}
	return "[" + strings.Join(s, " ") + "]"
}

func (c c48Chain) String() string {
	var sb strings.Builder
	for i, e := range c {
		if i > 0 {
			sb.WriteString(" ; ")
		}
		if e.Deny {
			sb.WriteString("DENY{")
		} else {
			sb.WriteString("ALLOW{")
		}
		for j, p := range e.Policies {
			if j > 0 {
				sb.WriteString(" | ")
			}
			fmt.Fprintf(&sb, "p%d: perms%s princs%s", j, c48ListString(p.Perms), c48ListString(p.Princs))
		}
		sb.WriteString("}")
	}
	if len(c) == 0 {
		return "<empty chain>"
	}
	return sb.String()
}

// ---------------------------------------------------------------------------
// requests
// ---------------------------------------------------------------------------

type c48Addr struct {
	IP   string `json:"ip"`
	Port uint32 `json:"port"`
}

// c48Req is what the reference evaluator sees.  The identity facts (URIs, DNS,
// Subject) are stated here by hand; the certificate handed to the code under
// test is built from the same literals in c48BuildCtx.
type c48Req struct {
	Name    string              `json:"name"`
	Method  string              `json:"method"`
	MD      map[string][]string `json:"md"`
	Peer    c48Addr             `json:"peer"`
	Local   c48Addr             `json:"local"`
	TLS     string              `json:"tls"` // none | uri | dns | subj | uri+dns | nocert
	URIs    []string            `json:"uris,omitempty"`
	DNS     []string            `json:"dns,omitempty"`
	Subject string              `json:"subject,omitempty"`

	ctx context.Context
}

var c48Addrs = []c48Addr{{"10.1.2.3", 80}, {"11.0.0.1", 81}, {"::1", 80}}

var c48Methods = []string{"/s/m", "/s/x"}

var c48HeaderMaps = []map[string][]string{
	{"k": {"v1"}, "n": {"5"}},
	{"k": {"v2", "w"}, "j": {"a"}, "n": {"12"}},
}

type c48TLSState struct {
	name    string
	uris    []string
	dns     []string
	subject string // RFC 2253 text of the subject the certificate is built with
}

var c48TLSStates = []c48TLSState{
	{name: "none"},
	{name: "uri", uris: []string{"spiffe://x/y", "spiffe://a/b"}, subject: "CN=subj"},
	{name: "dns", dns: []string{"e.example", "d.example"}, subject: "CN=subj"},
	{name: "subj", subject: "CN=subj"},
	{name: "uri+dns", uris: []string{"spiffe://a/b"}, dns: []string{"d.example"}, subject: "CN=subj"},
	{name: "nocert"},
}

// c48Conn is the net.Conn stored in the context; only the addresses are used.
type c48Conn struct {
	net.Conn
	local, remote net.Addr
}

func (c *c48Conn) LocalAddr() net.Addr  { return c.local }
func (c *c48Conn) RemoteAddr() net.Addr { return c.remote }

type c48Stream struct{ method string }

func (s *c48Stream) Method() string               { return s.method }
func (s *c48Stream) SetHeader(metadata.MD) error  { return nil }
func (s *c48Stream) SendHeader(metadata.MD) error { return nil }
func (s *c48Stream) SetTrailer(metadata.MD) error { return nil }
func c48TCP(a c48Addr) *net.TCPAddr               { return &net.TCPAddr{IP: net.ParseIP(a.IP), Port: int(a.Port)} }
func c48AddrString(a c48Addr) string              { return net.JoinHostPort(a.IP, fmt.Sprint(a.Port)) }
func c48MDString(md map[string][]string) string   { b, _ := json.Marshal(md); return string(b) }
func c48Copy(md map[string][]string) metadata.MD {
	out := metadata.MD{}
	for k, v := range md {
		out[k] = append([]string(nil), v...)
	}
	return out
}

// c48BuildCtx assembles the RPC context the way grpc.Server does:
// server.go: ctx = transport.SetConnection(ctx, rawConn); ctx = peer.NewContext(ctx, st.Peer());
// http2_server.go: s.ctx = metadata.NewIncomingContext(s.ctx, mdata);
// server.go: ctx = NewContextWithServerTransportStream(ctx, stream).
func c48BuildCtx(q *c48Req) context.Context {
	local, remote := c48TCP(q.Local), c48TCP(q.Peer)
	ctx := context.Background()
	ctx = transport.SetConnection(ctx, &c48Conn{local: local, remote: remote})
	p := &peer.Peer{Addr: remote, LocalAddr: local}
	if q.TLS != "none" {
		st := tls.ConnectionState{HandshakeComplete: true, Version: tls.VersionTLS13}
		if q.TLS != "nocert" {
			cert := &x509.Certificate{Subject: pkix.Name{CommonName: "subj"}, DNSNames: append([]string(nil), q.DNS...)}
			for _, u := range q.URIs {
				pu, err := url.Parse(u)
				if err != nil {
					panic(err)
				}
				cert.URIs = append(cert.URIs, pu)
			}
			st.PeerCertificates = []*x509.Certificate{cert}
		}
		p.AuthInfo = credentials.TLSInfo{
			State:          st,
			CommonAuthInfo: credentials.CommonAuthInfo{SecurityLevel: credentials.PrivacyAndIntegrity},
			SPIFFEID:       icredentials.SPIFFEIDFromState(st),
		}
	}
	ctx = peer.NewContext(ctx, p)
	ctx = metadata.NewIncomingContext(ctx, c48Copy(q.MD))
	ctx = grpc.NewContextWithServerTransportStream(ctx, &c48Stream{method: q.Method})
	return ctx
}

func c48Requests() []*c48Req {
	var out []*c48Req
	for _, m := range c48Methods {
		for hi, h := range c48HeaderMaps {
			for _, pa := range c48Addrs {
				for _, la := range c48Addrs {
					for _, ts := range c48TLSStates {
						q := &c48Req{
							Name:   fmt.Sprintf("%s h%d peer=%s local=%s tls=%s", m, hi, c48AddrString(pa), c48AddrString(la), ts.name),
							Method: m, MD: h, Peer: pa, Local: la, TLS: ts.name,
							URIs: ts.uris, DNS: ts.dns, Subject: ts.subject,
						}
						q.ctx = c48BuildCtx(q)
						out = append(out, q)
					}
				}
			}
		}
	}
	return out
}

// ---------------------------------------------------------------------------
// reference evaluator (from the property sentence)
// ---------------------------------------------------------------------------

// c48InCIDR: ip lies in the CIDR block, i.e. same address family and the first
// prefix-length bits agree.
func c48InCIDR(ip, cidr string) bool {
	a, b := c48ParseIP(ip), c48ParseCIDR(cidr)
	if a.v4 != b.v4 {
		return false
	}
	return new(big.Int).Rsh(a.val, b.total-b.bits).Cmp(new(big.Int).Rsh(b.val, b.total-b.bits)) == 0
}

type c48IPVal struct {
	v4          bool
	val         *big.Int
	bits, total uint
}

var c48IPCache sync.Map // text -> c48IPVal (pure function of the text; cached for speed only)

func c48ParseIP(s string) c48IPVal {
	if v, ok := c48IPCache.Load(s); ok {
		return v.(c48IPVal)
	}
	var out c48IPVal
	p := net.ParseIP(s)
	if !strings.Contains(s, ":") {
		out = c48IPVal{v4: true, val: new(big.Int).SetBytes(p.To4()), total: 32}
	} else {
		out = c48IPVal{v4: false, val: new(big.Int).SetBytes(p.To16()), total: 128}
	}
	c48IPCache.Store(s, out)
	return out
}

func c48ParseCIDR(s string) c48IPVal {
	if v, ok := c48IPCache.Load(s); ok {
		return v.(c48IPVal)
	}
	sl := strings.LastIndexByte(s, '/')
	out := c48ParseIP(s[:sl])
	fmt.Sscanf(s[sl+1:], "%d", &out.bits)
	c48IPCache.Store(s, out)
	return out
}

func c48Str(kind, pat, s string) bool {
	switch kind {
	case "exact":
		return s == pat
	case "prefix":
		return strings.HasPrefix(s, pat)
	case "suffix":
		return strings.HasSuffix(s, pat)
	case "contains":
		return strings.Contains(s, pat)
	case "regex": // the whole string must match
		return c48Regex(pat).MatchString(s)
	}
	panic("c48: bad string match kind " + kind)
}

var c48RegexCache sync.Map

func c48Regex(pat string) *regexp.Regexp {
	if v, ok := c48RegexCache.Load(pat); ok {
		return v.(*regexp.Regexp)
	}
	re := regexp.MustCompile(`\A(?:` + pat + `)\z`)
	c48RegexCache.Store(pat, re)
	return re
}

// c48ASCIILower folds ASCII letters only.
func c48ASCIILower(s string) string {
	b := []byte(s)
	for i, c := range b {
		if c >= 'A' && c <= 'Z' {
			b[i] = c + 'a' - 'A'
		}
	}
	return string(b)
}

// c48HeaderValue: the un-inverted verdict of header rule n on a PRESENT header
// whose comma-joined value is v.
func c48HeaderValue(n *c48Node, v string) bool {
	switch {
	case n.M == "range": // base-10 integer in [lo, hi)
		var lo, hi int64
		fmt.Sscanf(n.V, "%d:%d", &lo, &hi)
		x, ok := new(big.Int).SetString(v, 10)
		return ok && x.Cmp(big.NewInt(lo)) >= 0 && x.Cmp(big.NewInt(hi)) < 0
	case strings.HasPrefix(n.M, "sm-"):
		kind := strings.TrimPrefix(n.M, "sm-")
		if n.F && kind != "regex" {
			return c48Str(kind, c48ASCIILower(n.V), c48ASCIILower(v))
		}
		return c48Str(kind, n.V, v)
	}
	return c48Str(n.M, n.V, v)
}

// c48Match: does expression n hold for request q.
func c48Match(n *c48Node, q *c48Req) bool {
	switch n.K {
	case "any":
		return true
	case "and":
		for _, c := range n.C {
			if !c48Match(c, q) {
				return false
			}
		}
		return true
	case "or":
		for _, c := range n.C {
			if c48Match(c, q) {
				return true
			}
		}
		return false
	case "not":
		return !c48Match(n.C[0], q)
	case "header":
		// header rules look at the comma-joined values; invert flips only when
		// the header is present; present_match compares presence.
		vs, present := q.MD[n.N]
		if n.M == "present" { // compares presence with the flag; invert_match negates that comparison
			return (present == (n.V == "true")) != n.I
		}
		if !present {
			return false
		}
		return c48HeaderValue(n, strings.Join(vs, ",")) != n.I
	case "path":
		return c48Str(n.M, n.V, q.Method)
	case "dip":
		return c48InCIDR(q.Local.IP, n.V)
	case "dport":
		return q.Local.Port == n.P
	case "rip", "drip", "sip":
		return c48InCIDR(q.Peer.IP, n.V)
	case "authn":
		if q.TLS == "none" {
			return false // not authenticated
		}
		if n.M == "absent" {
			return true // any authenticated peer
		}
		// URI SANs, then DNS SANs, then subject ("" when there is no certificate).
		names := q.URIs
		if len(names) == 0 {
			names = q.DNS
		}
		if len(names) == 0 {
			names = []string{q.Subject}
		}
		for _, s := range names {
			if c48Str(n.M, n.V, s) {
				return true
			}
		}
		return false
	}
	panic("c48: unknown node kind " + n.K)
}

func c48Some(l []*c48Node, q *c48Req) bool {
	for _, n := range l {
		if c48Match(n, q) {
			return true
		}
	}
	return false
}

// c48Allowed: a DENY engine rejects if some policy matches, an ALLOW engine
// rejects if none matches; a policy matches when one of its permissions and one
// of its principals match.  The RPC is allowed when no engine rejects.
func c48Allowed(ch c48Chain, q *c48Req) (bool, string) {
	for _, e := range ch {
		some := false
		for _, p := range e.Policies {
			if c48Some(p.Perms, q) && c48Some(p.Princs, q) {
				some = true
			}
		}
		if e.Deny && some {
			return false, "rejected-by-DENY-engine"
		}
		if !e.Deny && !some {
			return false, "rejected-by-ALLOW-engine"
		}
	}
	return true, "allowed"
}

// ---------------------------------------------------------------------------
// data -> envoy protos
// ---------------------------------------------------------------------------

func c48CIDR(s string) *v3corepb.CidrRange {
	sl := strings.LastIndexByte(s, '/')
	var bits uint32
	fmt.Sscanf(s[sl+1:], "%d", &bits)
	return &v3corepb.CidrRange{AddressPrefix: s[:sl], PrefixLen: wrapperspb.UInt32(bits)}
}

func c48SM(kind, v string) *v3matcherpb.StringMatcher {
	if kind == "exact" {
		return &v3matcherpb.StringMatcher{MatchPattern: &v3matcherpb.StringMatcher_Exact{Exact: v}}
	}
	return &v3matcherpb.StringMatcher{MatchPattern: &v3matcherpb.StringMatcher_Prefix{Prefix: v}}
}

func c48HM(n *c48Node) *v3routepb.HeaderMatcher {
	hm := &v3routepb.HeaderMatcher{Name: n.N, InvertMatch: n.I}
	switch n.M {
	case "exact":
		hm.HeaderMatchSpecifier = &v3routepb.HeaderMatcher_ExactMatch{ExactMatch: n.V}
	case "prefix":
		hm.HeaderMatchSpecifier = &v3routepb.HeaderMatcher_PrefixMatch{PrefixMatch: n.V}
	case "suffix":
		hm.HeaderMatchSpecifier = &v3routepb.HeaderMatcher_SuffixMatch{SuffixMatch: n.V}
	case "contains":
		hm.HeaderMatchSpecifier = &v3routepb.HeaderMatcher_ContainsMatch{ContainsMatch: n.V}
	case "regex":
		hm.HeaderMatchSpecifier = &v3routepb.HeaderMatcher_SafeRegexMatch{SafeRegexMatch: &v3matcherpb.RegexMatcher{Regex: n.V}}
	case "range":
		var lo, hi int64
		fmt.Sscanf(n.V, "%d:%d", &lo, &hi)
		hm.HeaderMatchSpecifier = &v3routepb.HeaderMatcher_RangeMatch{RangeMatch: &v3typepb.Int64Range{Start: lo, End: hi}}
	case "present":
		hm.HeaderMatchSpecifier = &v3routepb.HeaderMatcher_PresentMatch{PresentMatch: n.V == "true"}
	case "sm-exact", "sm-prefix", "sm-suffix", "sm-contains", "sm-regex":
		sm := &v3matcherpb.StringMatcher{IgnoreCase: n.F}
		switch n.M {
		case "sm-exact":
			sm.MatchPattern = &v3matcherpb.StringMatcher_Exact{Exact: n.V}
		case "sm-prefix":
			sm.MatchPattern = &v3matcherpb.StringMatcher_Prefix{Prefix: n.V}
		case "sm-suffix":
			sm.MatchPattern = &v3matcherpb.StringMatcher_Suffix{Suffix: n.V}
		case "sm-contains":
			sm.MatchPattern = &v3matcherpb.StringMatcher_Contains{Contains: n.V}
		case "sm-regex":
			sm.MatchPattern = &v3matcherpb.StringMatcher_SafeRegex{SafeRegex: &v3matcherpb.RegexMatcher{Regex: n.V}}
		}
		hm.HeaderMatchSpecifier = &v3routepb.HeaderMatcher_StringMatch{StringMatch: sm}
	default:
		panic("c48: header kind " + n.M)
	}
	return hm
}

func c48PermProto(n *c48Node) *v3rbacpb.Permission {
	kids := func() []*v3rbacpb.Permission {
		out := make([]*v3rbacpb.Permission, len(n.C))
		for i, c := range n.C {
			out[i] = c48PermProto(c)
		}
		return out
	}
	switch n.K {
	case "any":
		return &v3rbacpb.Permission{Rule: &v3rbacpb.Permission_Any{Any: true}}
	case "and":
		return &v3rbacpb.Permission{Rule: &v3rbacpb.Permission_AndRules{AndRules: &v3rbacpb.Permission_Set{Rules: kids()}}}
	case "or":
		return &v3rbacpb.Permission{Rule: &v3rbacpb.Permission_OrRules{OrRules: &v3rbacpb.Permission_Set{Rules: kids()}}}
	case "not":
		return &v3rbacpb.Permission{Rule: &v3rbacpb.Permission_NotRule{NotRule: c48PermProto(n.C[0])}}
	case "header":
		return &v3rbacpb.Permission{Rule: &v3rbacpb.Permission_Header{Header: c48HM(n)}}
	case "path":
		return &v3rbacpb.Permission{Rule: &v3rbacpb.Permission_UrlPath{UrlPath: &v3matcherpb.PathMatcher{Rule: &v3matcherpb.PathMatcher_Path{Path: c48SM(n.M, n.V)}}}}
	case "dip":
		return &v3rbacpb.Permission{Rule: &v3rbacpb.Permission_DestinationIp{DestinationIp: c48CIDR(n.V)}}
	case "dport":
		return &v3rbacpb.Permission{Rule: &v3rbacpb.Permission_DestinationPort{DestinationPort: n.P}}
	}
	panic("c48: not a permission kind: " + n.K)
}

func c48PrincProto(n *c48Node) *v3rbacpb.Principal {
	kids := func() []*v3rbacpb.Principal {
		out := make([]*v3rbacpb.Principal, len(n.C))
		for i, c := range n.C {
			out[i] = c48PrincProto(c)
		}
		return out
	}
	switch n.K {
	case "any":
		return &v3rbacpb.Principal{Identifier: &v3rbacpb.Principal_Any{Any: true}}
	case "and":
		return &v3rbacpb.Principal{Identifier: &v3rbacpb.Principal_AndIds{AndIds: &v3rbacpb.Principal_Set{Ids: kids()}}}
	case "or":
		return &v3rbacpb.Principal{Identifier: &v3rbacpb.Principal_OrIds{OrIds: &v3rbacpb.Principal_Set{Ids: kids()}}}
	case "not":
		return &v3rbacpb.Principal{Identifier: &v3rbacpb.Principal_NotId{NotId: c48PrincProto(n.C[0])}}
	case "header":
		return &v3rbacpb.Principal{Identifier: &v3rbacpb.Principal_Header{Header: c48HM(n)}}
	case "path":
		return &v3rbacpb.Principal{Identifier: &v3rbacpb.Principal_UrlPath{UrlPath: &v3matcherpb.PathMatcher{Rule: &v3matcherpb.PathMatcher_Path{Path: c48SM(n.M, n.V)}}}}
	case "rip":
		return &v3rbacpb.Principal{Identifier: &v3rbacpb.Principal_RemoteIp{RemoteIp: c48CIDR(n.V)}}
	case "drip":
		return &v3rbacpb.Principal{Identifier: &v3rbacpb.Principal_DirectRemoteIp{DirectRemoteIp: c48CIDR(n.V)}}
	case "sip":
		return &v3rbacpb.Principal{Identifier: &v3rbacpb.Principal_SourceIp{SourceIp: c48CIDR(n.V)}}
	case "authn":
		if n.M == "absent" {
			return &v3rbacpb.Principal{Identifier: &v3rbacpb.Principal_Authenticated_{Authenticated: &v3rbacpb.Principal_Authenticated{}}}
		}
		return &v3rbacpb.Principal{Identifier: &v3rbacpb.Principal_Authenticated_{Authenticated: &v3rbacpb.Principal_Authenticated{PrincipalName: c48SM(n.M, n.V)}}}
	}
	panic("c48: not a principal kind: " + n.K)
}

func c48ChainProto(ch c48Chain) []*v3rbacpb.RBAC {
	out := make([]*v3rbacpb.RBAC, 0, len(ch))
	for _, e := range ch {
		rb := &v3rbacpb.RBAC{Action: v3rbacpb.RBAC_ALLOW, Policies: map[string]*v3rbacpb.Policy{}}
		if e.Deny {
			rb.Action = v3rbacpb.RBAC_DENY
		}
		for j, p := range e.Policies {
			pp := &v3rbacpb.Policy{}
			for _, n := range p.Perms {
				pp.Permissions = append(pp.Permissions, c48PermProto(n))
			}
			for _, n := range p.Princs {
				pp.Principals = append(pp.Principals, c48PrincProto(n))
			}
			rb.Policies[fmt.Sprintf("p%d", j)] = pp
		}
		out = append(out, rb)
	}
	return out
}

// ---------------------------------------------------------------------------
// grammar
// ---------------------------------------------------------------------------

func c48SharedLeaves() []*c48Node {
	return []*c48Node{
		{K: "any"},
		{K: "header", N: "k", M: "exact", V: "v1"},
		{K: "header", N: "k", M: "prefix", V: "v2,"},
		{K: "header", N: "j", M: "present", V: "true"},
		{K: "header", N: "j", M: "present", V: "false"},
		{K: "header", N: "j", M: "exact", V: "b", I: true},
		{K: "path", M: "exact", V: "/s/m"},
		{K: "path", M: "prefix", V: "/s/"},
	}
}

// c48HeaderLeaves: one rule per HeaderMatcher specifier the engine supports
// (and per string_match pattern kind, with and without ignore_case), on a
// header that is present in every request with a matching value in one header
// map and a non-matching value in the other (k, n) and on a header that is
// absent from one header map (j); each with invert_match false and true.
func c48HeaderLeaves() []*c48Node {
	base := []c48Node{
		{M: "exact", N: "k", V: "v1"}, {M: "exact", N: "j", V: "a"},
		{M: "prefix", N: "k", V: "v2,"}, {M: "prefix", N: "j", V: "a"},
		{M: "suffix", N: "k", V: ",w"}, {M: "suffix", N: "j", V: "b"},
		{M: "contains", N: "k", V: "2,"}, {M: "contains", N: "j", V: "a"},
		{M: "regex", N: "k", V: "v[0-9]"}, {M: "regex", N: "j", V: "a|b"},
		{M: "range", N: "n", V: "0:10"}, {M: "range", N: "n", V: "5:12"}, {M: "range", N: "j", V: "0:10"},
		{M: "present", N: "k", V: "true"}, {M: "present", N: "k", V: "false"},
		{M: "present", N: "j", V: "true"}, {M: "present", N: "j", V: "false"},
		{M: "sm-exact", N: "k", V: "v1"}, {M: "sm-exact", N: "j", V: "a"}, {M: "sm-exact", N: "k", V: "V1", F: true}, {M: "sm-exact", N: "k", V: "V1"},
		{M: "sm-prefix", N: "k", V: "v2"}, {M: "sm-prefix", N: "j", V: "A", F: true},
		{M: "sm-suffix", N: "k", V: "W", F: true}, {M: "sm-suffix", N: "j", V: "a"},
		{M: "sm-contains", N: "k", V: "2,w"}, {M: "sm-contains", N: "j", V: "A", F: true},
		{M: "sm-regex", N: "k", V: "v[0-9]"}, {M: "sm-regex", N: "j", V: "[a-c]"},
	}
	var out []*c48Node
	for _, b := range base {
		for _, inv := range []bool{false, true} {
			n := b
			n.K, n.I = "header", inv
			out = append(out, &n)
		}
	}
	return out
}

var c48CIDRs = []string{"10.0.0.0/8", "::/0", "10.1.2.3/32"}

func c48PermLeaves() []*c48Node {
	l := c48SharedLeaves()
	for _, c := range c48CIDRs {
		l = append(l, &c48Node{K: "dip", V: c})
	}
	l = append(l, &c48Node{K: "dport", P: 80}, &c48Node{K: "dport", P: 81})
	return l
}

func c48PrincLeaves() []*c48Node {
	l := c48SharedLeaves()
	for _, c := range c48CIDRs {
		l = append(l, &c48Node{K: "rip", V: c})
	}
	l = append(l, &c48Node{K: "drip", V: "10.1.2.3/32"}, &c48Node{K: "sip", V: "10.0.0.0/8"})
	l = append(l,
		&c48Node{K: "authn", M: "absent"},
		&c48Node{K: "authn", M: "exact", V: "spiffe://a/b"},
		&c48Node{K: "authn", M: "prefix", V: "spiffe://"},
		&c48Node{K: "authn", M: "exact", V: "d.example"},
		&c48Node{K: "authn", M: "prefix", V: "d."},
		&c48Node{K: "authn", M: "exact", V: "CN=subj"},
		&c48Node{K: "authn", M: "prefix", V: "CN="},
		&c48Node{K: "authn", M: "exact", V: ""},
	)
	return l
}

// c48ListCount / c48ListAt: all lists of length 0..2 over set; pairs are
// ordered (x,y) when ord, else unordered with repetition (x<=y by index).
func c48ListCount(n int, ord bool) int {
	if ord {
		return 1 + n + n*n
	}
	return 1 + n + n*(n+1)/2
}

func c48ListAt(set []*c48Node, i int, ord bool) []*c48Node {
	n := len(set)
	switch {
	case i == 0:
		return nil
	case i <= n:
		return []*c48Node{set[i-1]}
	}
	i -= 1 + n
	if ord {
		return []*c48Node{set[i/n], set[i%n]}
	}
	// row a holds pairs (a,a)..(a,n-1); rows before a hold a*n - a(a-1)/2 pairs
	off := func(a int) int { return a*n - a*(a-1)/2 }
	a := sort.Search(n, func(a int) bool { return off(a+1) > i })
	return []*c48Node{set[a], set[a+i-off(a)]}
}

// c48NextCount / c48NextAt: all trees one level deeper than `lower`:
// a leaf, not(x), and(list), or(list) with x / list elements from lower.
func c48NextCount(nl, nlow int, ord bool) int { return nl + nlow + 2*c48ListCount(nlow, ord) }
func c48NextAt(leaves, lower []*c48Node, i int, ord bool) *c48Node {
	if i < len(leaves) {
		return leaves[i]
	}
	i -= len(leaves)
	if i < len(lower) {
		return &c48Node{K: "not", C: []*c48Node{lower[i]}}
	}
	i -= len(lower)
	lc := c48ListCount(len(lower), ord)
	if i < lc {
		return &c48Node{K: "and", C: c48ListAt(lower, i, ord)}
	}
	return &c48Node{K: "or", C: c48ListAt(lower, i-lc, ord)}
}

// c48Level2: every depth<=2 tree (ordered child lists).
func c48Level2(leaves []*c48Node) []*c48Node {
	n := c48NextCount(len(leaves), len(leaves), true)
	out := make([]*c48Node, n)
	for i := range out {
		out[i] = c48NextAt(leaves, leaves, i, true)
	}
	return out
}

// ---------------------------------------------------------------------------
// running one chain against all requests
// ---------------------------------------------------------------------------

type c48Viol struct {
	idx, seq  int
	key, desc string
	rp        c48Replay
}

type c48Stats struct {
	evals, chains, nontrivial int64
	outcomes                  map[string]int64
	viols                     []c48Viol // per worker: its first 20 (lowest enumeration index)
}

func (s *c48Stats) add(o *c48Stats) {
	s.evals += o.evals
	s.chains += o.chains
	s.nontrivial += o.nontrivial
	for k, v := range o.outcomes {
		s.outcomes[k] += v
	}
	s.viols = append(s.viols, o.viols...)
}

type c48Replay struct {
	Chain c48Chain `json:"chain"`
	Req   string   `json:"req"`
}

type c48Runner struct {
	r    *vk.Run
	reqs []*c48Req
	mu   sync.Mutex
}

const c48P = "C48"

func (x *c48Runner) violation(st *c48Stats, idx int, layer string, ch c48Chain, q *c48Req, desc string) {
	if len(st.viols) >= 20 {
		return
	}
	st.viols = append(st.viols, c48Viol{idx: idx, seq: len(st.viols),
		key: fmt.Sprintf("rbac %s :: %s", ch.String(), q.Name),
		desc: fmt.Sprintf("[%s] chain %s ; request {method=%s md=%s peer=%s local=%s tls=%s uris=%v dns=%v subject=%q}: %s",
			layer, ch.String(), q.Method, c48MDString(q.MD), c48AddrString(q.Peer), c48AddrString(q.Local), q.TLS, q.URIs, q.DNS, q.Subject, desc),
		rp: c48Replay{Chain: ch, Req: q.Name}})
}

// report hands the 20 lowest-index violations of a layer to the kit (a
// deterministic choice: the globally lowest 20 are among every worker's first 20).
func (x *c48Runner) report(st *c48Stats) {
	sort.Slice(st.viols, func(a, b int) bool {
		if st.viols[a].idx != st.viols[b].idx {
			return st.viols[a].idx < st.viols[b].idx
		}
		return st.viols[a].seq < st.viols[b].seq
	})
	for i, v := range st.viols {
		if i >= 20 {
			break
		}
		x.r.Violation(c48P, v.key, v.desc, v.rp)
	}
}

func c48Decide(ce *ChainEngine, ctx context.Context) (err error, pan any) {
	defer func() {
		if p := recover(); p != nil {
			pan = p
		}
	}()
	return ce.IsAuthorized(ctx), nil
}

// check runs chain ch against every request (or only `only`).
func (x *c48Runner) check(layer string, idx int, ch c48Chain, st *c48Stats, only string) {
	ce, err := NewChainEngine(c48ChainProto(ch), "c48")
	if err != nil {
		x.mu.Lock()
		x.r.EngineError("NewChainEngine rejected generated chain %s: %v", ch.String(), err)
		x.mu.Unlock()
		return
	}
	st.chains++
	sawAllow, sawReject := false, false
	for _, q := range x.reqs {
		if only != "" && q.Name != only {
			continue
		}
		want, class := c48Allowed(ch, q)
		err, pan := c48Decide(ce, q.ctx)
		st.evals++
		st.outcomes[class]++
		if want {
			sawAllow = true
		} else {
			sawReject = true
		}
		switch {
		case pan != nil:
			x.violation(st, idx, layer, ch, q, fmt.Sprintf("IsAuthorized panicked: %v (policy semantics: %s)", pan, class))
		case want && err != nil:
			x.violation(st, idx, layer, ch, q, fmt.Sprintf("policy semantics say ALLOWED, IsAuthorized returned %v", err))
		case !want && err == nil:
			x.violation(st, idx, layer, ch, q, fmt.Sprintf("policy semantics say %s, IsAuthorized allowed the RPC", class))
		case !want && status.Code(err) != codes.PermissionDenied:
			x.violation(st, idx, layer, ch, q, fmt.Sprintf("policy semantics say %s, IsAuthorized returned a non-PermissionDenied error %v", class, err))
		}
	}
	if sawAllow && sawReject {
		st.nontrivial++
	}
}

// par runs f(i, st) for i in [0,n) on all CPUs with dynamic chunking.
func (x *c48Runner) par(n int, f func(i int, st *c48Stats)) *c48Stats {
	total := &c48Stats{outcomes: map[string]int64{}}
	var next atomic.Int64
	var wg sync.WaitGroup
	var tm sync.Mutex
	w := runtime.GOMAXPROCS(0)
	const chunk = 64
	for k := 0; k < w; k++ {
		wg.Add(1)
		go func() {
			defer wg.Done()
			st := &c48Stats{outcomes: map[string]int64{}}
			for {
				lo := int(next.Add(chunk)) - chunk
				if lo >= n {
					break
				}
				if !x.r.Mine(lo / chunk) {
					continue
				}
				hi := lo + chunk
				if hi > n {
					hi = n
				}
				for i := lo; i < hi; i++ {
					f(i, st)
				}
			}
			tm.Lock()
			total.add(st)
			tm.Unlock()
		}()
	}
	wg.Wait()
	return total
}

func c48One(deny bool, perms, princs []*c48Node) c48Chain {
	return c48Chain{{Deny: deny, Policies: []c48Policy{{Perms: perms, Princs: princs}}}}
}

// c48ChainMenu: the policies the chain layer composes.
func c48ChainMenu() []c48Policy {
	any := &c48Node{K: "any"}
	return []c48Policy{
		{Perms: []*c48Node{any}, Princs: []*c48Node{any}},
		{Perms: nil, Princs: []*c48Node{any}},
		{Perms: []*c48Node{{K: "path", M: "exact", V: "/s/m"}}, Princs: []*c48Node{any}},
		{Perms: []*c48Node{any}, Princs: []*c48Node{{K: "authn", M: "absent"}}},
		{Perms: []*c48Node{{K: "dport", P: 80}}, Princs: []*c48Node{{K: "rip", V: "10.0.0.0/8"}}},
		{Perms: []*c48Node{{K: "header", N: "k", M: "exact", V: "v1"}, {K: "not", C: []*c48Node{{K: "dip", V: "10.1.2.3/32"}}}},
			Princs: []*c48Node{{K: "authn", M: "prefix", V: "spiffe://"}, {K: "drip", V: "10.1.2.3/32"}}},
		{Perms: []*c48Node{{K: "and", C: []*c48Node{{K: "path", M: "prefix", V: "/s/"}, {K: "dport", P: 81}}}},
			Princs: []*c48Node{{K: "or", C: []*c48Node{{K: "authn", M: "exact", V: "d.example"}, {K: "header", N: "j", M: "present", V: "true"}}}}},
		{Perms: []*c48Node{{K: "dip", V: "::/0"}}, Princs: []*c48Node{{K: "not", C: []*c48Node{{K: "authn", M: "exact", V: "CN=subj"}}}}},
	}
}

func TestVerif_C48_RBAC(t *testing.T) {
	const P = c48P
	r := vk.Start(t, "c48a_rbac", "exploration", P)
	defer r.Finish()
	defer debug.SetGCPercent(debug.SetGCPercent(400)) // allocation-heavy code under test, tiny live heap
	x := &c48Runner{r: r, reqs: c48Requests()}

	if r.ReplayFile() != "" {
		var rp c48Replay
		if err := r.LoadReplay(&rp); err != nil {
			r.EngineError("replay: %v", err)
			return
		}
		st := &c48Stats{outcomes: map[string]int64{}}
		x.check("replay", 0, rp.Chain, st, rp.Req)
		x.report(st)
		r.Eval(P, st.evals)
		fmt.Printf("replay: chain %s req %s: evaluated %d, violations %d\n", rp.Chain.String(), rp.Req, st.evals, r.NViolations(P))
		return
	}

	permLeaves, princLeaves := c48PermLeaves(), c48PrincLeaves()
	permL2, princL2 := c48Level2(permLeaves), c48Level2(princLeaves)
	anyL := []*c48Node{{K: "any"}}
	th := r.Thorough()
	menu := c48ChainMenu()[:r.Pick(6, 8)]

	r.Rule(P, fmt.Sprintf("exhaustive layers, every chain evaluated on all %d requests (2 methods x 2 header maps x 3 peer x 3 local addresses x 6 TLS states). "+
		"(T2) every permission tree and every principal tree of depth <= 2 over the leaf menu (%d permission / %d principal leaves; not(x), and/or over every ORDERED child list of length 0..2) as the sole expression of a one-policy ALLOW engine and of a one-policy DENY engine. "+
		"(T3, thorough only) the same for every tree of depth <= 3 whose children are depth<=2 trees, top-level and/or child pairs taken unordered, ALLOW engine. "+
		"(H) %d header rules = every HeaderMatcher specifier (exact, prefix, suffix, contains, safe_regex, range, present, string_match{exact,prefix,suffix,contains,regex; ignore_case}) x invert_match in {false,true} on headers that are absent / matching / non-matching across the header maps: each as sole permission and sole principal of an ALLOW and a DENY engine, and every depth<=2 permission tree over {any}+these rules. "+
		"(P) every one-policy ALLOW engine whose policy has a list of 0..2 permissions and a list of 0..2 principals over the leaves (pairs unordered in quick, ordered in thorough); thorough adds lists of 0..2 (unordered pairs) over ALL depth<=2 trees on one side against a 2-list menu on the other. "+
		"(C) every chain of 0..2 engines x {ALLOW,DENY} x every ordered list of 0..2 policies from a %d-policy menu. "+
		"non-trivial = a chain whose reference decision is not constant over the request set (every enumerated chain is structurally distinct)",
		len(x.reqs), len(permLeaves), len(princLeaves), len(c48HeaderLeaves()), len(menu)))

	layer := func(name string, n int, f func(i int, st *c48Stats)) {
		st := x.par(n, f)
		x.report(st)
		r.Eval(P, st.evals)
		r.NontrivialN(P, st.nontrivial)
		r.Set(P, name+"_chains", st.chains)
		r.Set(P, name+"_evals", st.evals)
		r.Set(P, name+"_nontrivial_chains", st.nontrivial)
		keys := make([]string, 0, len(st.outcomes))
		for k := range st.outcomes {
			keys = append(keys, k)
		}
		sort.Strings(keys)
		for _, k := range keys {
			r.Outcome(P, name+":"+k)
			r.Set(P, name+"_"+k, st.outcomes[k])
		}
		if len(st.outcomes) < 2 {
			r.EngineError("layer %s is vacuous: outcome classes %v", name, keys)
		}
	}

	// ---- (T) tree layers -------------------------------------------------
	layer("T2_perm", 2*len(permL2), func(i int, st *c48Stats) {
		x.check("T2_perm", i, c48One(i%2 == 1, []*c48Node{permL2[i/2]}, anyL), st, "")
	})
	layer("T2_princ", 2*len(princL2), func(i int, st *c48Stats) {
		x.check("T2_princ", i, c48One(i%2 == 1, anyL, []*c48Node{princL2[i/2]}), st, "")
	})
	if th {
		nPerm := c48NextCount(len(permLeaves), len(permL2), false)
		nPrinc := c48NextCount(len(princLeaves), len(princL2), false)
		layer("T3_perm", nPerm, func(i int, st *c48Stats) {
			x.check("T3_perm", i, c48One(false, []*c48Node{c48NextAt(permLeaves, permL2, i, false)}, anyL), st, "")
		})
		layer("T3_princ", nPrinc, func(i int, st *c48Stats) {
			x.check("T3_princ", i, c48One(false, anyL, []*c48Node{c48NextAt(princLeaves, princL2, i, false)}), st, "")
		})
	}

	// ---- (H) header-rule layers -------------------------------------------
	// every HeaderMatcher specifier x invert_match: as sole permission and as
	// sole principal (ALLOW and DENY engine), and inside every depth<=2
	// permission tree over {any} + the header rules (ALLOW engine).
	hdrLeaves := c48HeaderLeaves()
	nh := len(hdrLeaves)
	layer("H_leaf", 4*nh, func(i int, st *c48Stats) {
		l := []*c48Node{hdrLeaves[i/4]}
		if i%2 == 0 {
			x.check("H_leaf", i, c48One(i%4 >= 2, l, anyL), st, "")
		} else {
			x.check("H_leaf", i, c48One(i%4 >= 2, anyL, l), st, "")
		}
	})
	hdrSet := append([]*c48Node{{K: "any"}}, hdrLeaves...)
	hdrL2 := c48Level2(hdrSet)
	layer("H_tree", len(hdrL2), func(i int, st *c48Stats) {
		x.check("H_tree", i, c48One(false, []*c48Node{hdrL2[i]}, anyL), st, "")
	})

	// ---- (P) policy layers -----------------------------------------------
	npl, nql := c48ListCount(len(permLeaves), th), c48ListCount(len(princLeaves), th)
	layer("P_leaves", npl*nql, func(i int, st *c48Stats) {
		x.check("P_leaves", i, c48One(false, c48ListAt(permLeaves, i/nql, th), c48ListAt(princLeaves, i%nql, th)), st, "")
	})
	if th {
		princMenu := [][]*c48Node{anyL, {{K: "rip", V: "10.0.0.0/8"}, {K: "authn", M: "exact", V: "spiffe://a/b"}}}
		permMenu := [][]*c48Node{anyL, {{K: "path", M: "exact", V: "/s/m"}, {K: "dip", V: "::/0"}}}
		np2, nq2 := c48ListCount(len(permL2), false), c48ListCount(len(princL2), false)
		layer("P_perm2", np2*len(princMenu), func(i int, st *c48Stats) {
			x.check("P_perm2", i, c48One(false, c48ListAt(permL2, i/len(princMenu), false), princMenu[i%len(princMenu)]), st, "")
		})
		layer("P_princ2", nq2*len(permMenu), func(i int, st *c48Stats) {
			x.check("P_princ2", i, c48One(false, permMenu[i%len(permMenu)], c48ListAt(princL2, i/len(permMenu), false)), st, "")
		})
	}

	// ---- (C) chain layer -------------------------------------------------
	nm := len(menu)
	nPolLists := 1 + nm + nm*nm
	polList := func(i int) []c48Policy {
		switch {
		case i == 0:
			return nil
		case i <= nm:
			return []c48Policy{menu[i-1]}
		}
		i -= 1 + nm
		return []c48Policy{menu[i/nm], menu[i%nm]}
	}
	nEng := 2 * nPolLists
	engAt := func(i int) c48Engine { return c48Engine{Deny: i%2 == 1, Policies: polList(i / 2)} }
	nChains := 1 + nEng + nEng*nEng
	layer("C_chain", nChains, func(i int, st *c48Stats) {
		var ch c48Chain
		switch {
		case i == 0:
		case i <= nEng:
			ch = c48Chain{engAt(i - 1)}
		default:
			j := i - 1 - nEng
			ch = c48Chain{engAt(j / nEng), engAt(j % nEng)}
		}
		x.check("C_chain", i, ch, st, "")
	})

	// ---- written-out cases ----------------------------------------------
	if sh, _ := r.Shard(); sh == 0 {
		for _, s := range []struct {
			ch c48Chain
			q  int
		}{
			{c48One(false, []*c48Node{permL2[len(permL2)-1]}, anyL), 0},
			{c48One(true, anyL, []*c48Node{{K: "authn", M: "exact", V: "d.example"}}), 4},
			{c48Chain{engAt(5), engAt(2 * (1 + nm + 3*nm + 5))}, 40},
		} {
			q := x.reqs[s.q%len(x.reqs)]
			want, class := c48Allowed(s.ch, q)
			r.Sample(P, map[string]any{"chain": s.ch.String(), "request": q.Name, "reference_allows": want, "class": class})
		}
		r.Set(P, "requests", len(x.reqs))
		r.Set(P, "perm_trees_depth2", len(permL2))
		r.Set(P, "princ_trees_depth2", len(princL2))
	}
	r.Assume(P, "header rules use the semantics of the sibling property C47 (comma-joined values, invert flips only when the header is present, regex is full-string, range = base-10 integer in [start,end), ignore_case folds ASCII letters; present_match compares presence with its flag and invert_match negates that comparison, as in Envoy); CIDR membership is per address family; a TLS peer without certificate has the empty principal name (gRFC A41)")
	r.Assume(P, "the context is assembled by the harness from the same four calls grpc.Server makes (SetConnection, peer.NewContext, NewIncomingContext, NewContextWithServerTransportStream), not by a running server; certificates are hand-built x509.Certificate values")
	r.Assume(P, "layers compose: trees deeper than the bound, lists longer than 2, and products of deep trees on both sides of a policy or inside multi-engine chains are outside the enumerated space")
}
