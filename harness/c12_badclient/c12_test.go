//go:build verif

package h_c12

// C12 (engine E4, level fault_enumeration): every bounded history of client
// frames / raw bytes from a finite grammar is played by a scripted raw HTTP/2
// client against a REAL grpc.Server (MaxConcurrentStreams 1 or 2) inside its
// own testing/synctest bubble, running to quiescence after every event.
//
// The oracle is written from the property statement and the HTTP/2 stream
// state machine, not from the server code:
//   - c12Reasons classifies each request the client sent (its literal header
//     field list and stream id) as forbidden (illegal id, non-POST, bad
//     content-type, malformed grpc-timeout, duplicate authority, undecodable
//     -bin metadata, over the stream limit) or admissible;
//   - the handler log (every handler tags itself with the x-req header of the
//     request it was invoked for) must not contain a forbidden request;
//   - the set of streams that are open in the client's HTTP/2 state machine
//     (opened by the client, not yet ended/reset by the server, not reset by
//     the client), the number of running handlers and the number of RPCs that
//     the stats handler saw begin-but-not-end never exceed the limit, and a
//     valid request over the limit is answered by RST_STREAM(REFUSED_STREAM);
//   - a panic kills the worker: the history about to run is written to the
//     shard's result file beforehand, so the crash is attributed to it;
//   - after Stop() no goroutine of the bubble survives.

import (
	"context"
	"encoding/base64"
	"bytes"
	"encoding/json"
	"fmt"
	"io"
	"os"
	"os/exec"
	"regexp"
	"runtime"
	"runtime/debug"
	"sort"
	"strings"
	"sync"
	"testing"
	"testing/synctest"
	"time"

	"golang.org/x/net/http2"
	"google.golang.org/grpc"
	"google.golang.org/grpc/grpclog"
	"google.golang.org/grpc/internal/verif/vk"
	"google.golang.org/grpc/internal/verif/wire"
	"google.golang.org/grpc/mem"
	"google.golang.org/grpc/metadata"
	"google.golang.org/grpc/stats"
)

const c12P = "C12"

// ---------------------------------------------------------------- grammar

// dimensions of a HEADERS variant (value 0 is the well-formed default)
const (
	c12dMethod = iota // POST, GET, missing
	c12dPath          // /s/st (streaming), /s/u (unary), /x/y (unknown service handler)
	c12dCT            // application/grpc, application/grpc+proto, text/html, missing, application/grpcx
	c12dTO            // absent, "1S", "x", "", "123456789S"
	c12dAuth          // one :authority, two :authority, :authority+host, two host and no :authority
	c12dConn          // absent, connection: keep-alive
	c12dBin           // absent, valid base64, invalid base64
	c12dES            // END_STREAM off, on
	c12dTE            // te: trailers present, absent
	c12dOrd           // canonical order, regular fields reversed
	c12nDims
)

var c12DimSize = [c12nDims]int{3, 3, 5, 5, 4, 2, 3, 2, 2, 2}
var c12DimName = [c12nDims]string{"m", "p", "ct", "to", "au", "conn", "bin", "es", "te", "ord"}
var c12DimVals = [c12nDims][]string{
	{"POST", "GET", "none"},
	{"/s/st", "/s/u", "/x/y", "/s/echo"}, // /s/echo only in part C
	{"application/grpc", "application/grpc+proto", "text/html", "none", "application/grpcx"},
	{"none", "1S", "x", "empty", "123456789S"},
	{"one", "dup:authority", ":authority+host", "2xhost"},
	{"none", "keep-alive"},
	{"none", "AQI=", "!!!"},
	{"0", "1"},
	{"trailers", "none"},
	{"canon", "rev"},
}

type c12Hdr [c12nDims]int

// c12Ev is one client event.
type c12Ev struct {
	K  string `json:"k"` // hdr data rst settings settings0 setack wu ping unk garbage trunc close rel tick
	// N: data: 0 = one gRPC message "x" (6 bytes), -1 = empty payload, n>0 = n zero bytes;
	// wu: window increment; ping: count
	ID uint32 `json:"id,omitempty"`
	H  c12Hdr `json:"h"`
	ES bool   `json:"es,omitempty"`
	N  int    `json:"n,omitempty"`
}

func (e c12Ev) String() string {
	switch e.K {
	case "hdr":
		var ds []string
		for d := 0; d < c12nDims; d++ {
			if e.H[d] != 0 {
				ds = append(ds, c12DimName[d]+"="+c12DimVals[d][e.H[d]])
			}
		}
		return fmt.Sprintf("H%d[%s]", e.ID, strings.Join(ds, ","))
	case "data":
		n := ""
		if e.N == -1 {
			n = "(0)"
		} else if e.N > 0 {
			n = fmt.Sprintf("(%d)", e.N)
		}
		if e.ES {
			return fmt.Sprintf("D%d%s+es", e.ID, n)
		}
		return fmt.Sprintf("D%d%s", e.ID, n)
	case "rst":
		return fmt.Sprintf("R%d", e.ID)
	case "wu":
		return fmt.Sprintf("WU%d+%d", e.ID, e.N)
	case "ping":
		return fmt.Sprintf("PINGx%d", e.N)
	}
	return strings.ToUpper(e.K)
}

func c12HistString(mcs int, h []c12Ev) string {
	ss := make([]string, len(h))
	for i, e := range h {
		ss[i] = e.String()
	}
	return fmt.Sprintf("mcs=%d: %s", mcs, strings.Join(ss, " "))
}

// c12Fields renders the literal header field list of a HEADERS variant.
func c12Fields(h c12Hdr, req string) [][2]string {
	var ps, rs [][2]string
	switch h[c12dMethod] {
	case 0:
		ps = append(ps, [2]string{":method", "POST"})
	case 1:
		ps = append(ps, [2]string{":method", "GET"})
	}
	ps = append(ps, [2]string{":scheme", "http"})
	ps = append(ps, [2]string{":path", c12DimVals[c12dPath][h[c12dPath]]})
	if h[c12dAuth] != 3 {
		ps = append(ps, [2]string{":authority", "a.test"})
	}
	if h[c12dAuth] == 1 {
		ps = append(ps, [2]string{":authority", "b.test"})
	}
	if h[c12dCT] != 3 {
		rs = append(rs, [2]string{"content-type", c12DimVals[c12dCT][h[c12dCT]]})
	}
	if h[c12dTE] == 0 {
		rs = append(rs, [2]string{"te", "trailers"})
	}
	switch h[c12dTO] {
	case 1, 2, 4:
		rs = append(rs, [2]string{"grpc-timeout", c12DimVals[c12dTO][h[c12dTO]]})
	case 3:
		rs = append(rs, [2]string{"grpc-timeout", ""})
	}
	switch h[c12dAuth] {
	case 2:
		rs = append(rs, [2]string{"host", "h.test"})
	case 3:
		rs = append(rs, [2]string{"host", "h.test"}, [2]string{"host", "g.test"})
	}
	if h[c12dConn] == 1 {
		rs = append(rs, [2]string{"connection", "keep-alive"})
	}
	if h[c12dBin] != 0 {
		rs = append(rs, [2]string{"x-bin", c12DimVals[c12dBin][h[c12dBin]]})
	}
	rs = append(rs, [2]string{"x-req", req})
	if h[c12dOrd] == 1 {
		for i, j := 0, len(rs)-1; i < j; i, j = i+1, j-1 {
			rs[i], rs[j] = rs[j], rs[i]
		}
	}
	return append(ps, rs...)
}

// ---------------------------------------------------------------- reference admission (from the statement)

var (
	c12reCT = regexp.MustCompile(`^application/grpc([+;].*)?$`)
	c12reTO = regexp.MustCompile(`^[0-9]{1,8}[HMSmun]$`)
)

// c12Reasons returns why a request with this literal field list must never
// reach a handler (forbid), and which of its features the statement is silent
// about (dontcare).
func c12Reasons(fields [][2]string) (forbid, dontcare []string) {
	vals := map[string][]string{}
	for _, f := range fields {
		vals[f[0]] = append(vals[f[0]], f[1])
	}
	if m := vals[":method"]; len(m) != 1 || m[0] != "POST" {
		forbid = append(forbid, "non-POST")
	}
	ct := vals["content-type"]
	okCT := len(ct) > 0
	for _, v := range ct {
		if !c12reCT.MatchString(v) {
			okCT = false
		}
	}
	if !okCT {
		forbid = append(forbid, "bad-content-type")
	}
	for _, v := range vals["grpc-timeout"] {
		if !c12reTO.MatchString(v) {
			forbid = append(forbid, "bad-grpc-timeout")
			break
		}
	}
	if len(vals[":authority"]) > 1 || (len(vals[":authority"]) == 0 && len(vals["host"]) > 1) {
		forbid = append(forbid, "dup-authority")
	}
	var names []string
	for n := range vals {
		names = append(names, n)
	}
	sort.Strings(names)
	for _, n := range names {
		if !strings.HasSuffix(n, "-bin") {
			continue
		}
		for _, v := range vals[n] {
			_, e1 := base64.StdEncoding.DecodeString(v)
			_, e2 := base64.RawStdEncoding.DecodeString(v)
			if e1 != nil && e2 != nil {
				forbid = append(forbid, "bad-bin-metadata")
			}
		}
	}
	if len(vals["connection"]) > 0 {
		dontcare = append(dontcare, "connection-header")
	}
	return forbid, dontcare
}

// c12H2Malformed reports whether the header block is malformed at the HTTP/2
// level (RFC 9113 8.3: a pseudo-header repeated, or after a regular field), so
// that a server answers it with a stream error before looking at gRPC.
func c12H2Malformed(fields [][2]string) bool {
	seen := map[string]bool{}
	regular := false
	for _, f := range fields {
		if strings.HasPrefix(f[0], ":") {
			if regular || seen[f[0]] {
				return true
			}
			seen[f[0]] = true
		} else {
			regular = true
		}
	}
	return false
}

// ---------------------------------------------------------------- recording server side

type c12Call struct {
	Req    string
	Method string
}

type c12Rec struct {
	mu      sync.Mutex
	calls   []c12Call
	running int
	active  int // stats: Begin seen, End not yet
	gate    chan struct{}
}

func (rc *c12Rec) enter(ctx context.Context, method string) chan struct{} {
	req := "?"
	if md, ok := metadata.FromIncomingContext(ctx); ok {
		if v := md.Get("x-req"); len(v) > 0 {
			req = strings.Join(v, "|")
		}
	}
	rc.mu.Lock()
	defer rc.mu.Unlock()
	rc.calls = append(rc.calls, c12Call{Req: req, Method: method})
	rc.running++
	return rc.gate
}

func (rc *c12Rec) exit() {
	rc.mu.Lock()
	rc.running--
	rc.mu.Unlock()
}

// release lets every currently blocked handler return; later handlers block again.
func (rc *c12Rec) release() {
	rc.mu.Lock()
	close(rc.gate)
	rc.gate = make(chan struct{})
	rc.mu.Unlock()
}

func (rc *c12Rec) snapshot() (calls []c12Call, running, active int) {
	rc.mu.Lock()
	defer rc.mu.Unlock()
	return append([]c12Call(nil), rc.calls...), rc.running, rc.active
}

func (rc *c12Rec) stream(name string) grpc.StreamHandler {
	return func(_ any, ss grpc.ServerStream) error {
		g := rc.enter(ss.Context(), name)
		defer rc.exit()
		select {
		case <-g:
		case <-ss.Context().Done():
		}
		return nil
	}
}

// echo answers at once with one message and an OK status (part C: with a zero
// client window the DATA and the trailers stay queued in the transport).
func (rc *c12Rec) echo(_ any, ss grpc.ServerStream) error {
	rc.enter(ss.Context(), "echo")
	defer rc.exit()
	ss.SendMsg([]byte("resp"))
	return nil
}

func (rc *c12Rec) unary(_ any, ctx context.Context, dec func(any) error, _ grpc.UnaryServerInterceptor) (any, error) {
	g := rc.enter(ctx, "unary")
	defer rc.exit()
	var in []byte
	if err := dec(&in); err != nil {
		return nil, err
	}
	select {
	case <-g:
	case <-ctx.Done():
	}
	return []byte("ok"), nil
}

// stats.Handler
func (rc *c12Rec) TagRPC(ctx context.Context, _ *stats.RPCTagInfo) context.Context   { return ctx }
func (rc *c12Rec) TagConn(ctx context.Context, _ *stats.ConnTagInfo) context.Context { return ctx }
func (rc *c12Rec) HandleConn(context.Context, stats.ConnStats)                       {}
func (rc *c12Rec) HandleRPC(_ context.Context, s stats.RPCStats) {
	switch s.(type) {
	case *stats.Begin:
		rc.mu.Lock()
		rc.active++
		rc.mu.Unlock()
	case *stats.End:
		rc.mu.Lock()
		rc.active--
		rc.mu.Unlock()
	}
}

type c12Codec struct{}

func (c12Codec) Name() string { return "verif-raw" }
func (c12Codec) Marshal(v any) (mem.BufferSlice, error) {
	switch b := v.(type) {
	case []byte:
		return mem.BufferSlice{mem.SliceBuffer(b)}, nil
	case *[]byte:
		return mem.BufferSlice{mem.SliceBuffer(*b)}, nil
	}
	return nil, fmt.Errorf("c12Codec: unsupported %T", v)
}
func (c12Codec) Unmarshal(data mem.BufferSlice, v any) error {
	p, ok := v.(*[]byte)
	if !ok {
		return fmt.Errorf("c12Codec: unsupported %T", v)
	}
	*p = data.Materialize()
	return nil
}

// ---------------------------------------------------------------- one history

type c12Fail struct {
	Key  string `json:"key"`
	Desc string `json:"desc"`
}

type c12Req struct {
	ev       int
	id       uint32
	forbid   []string
	dontcare []string
	invoked  bool
}

type c12Res struct {
	termAt   int // index of the event after which the connection was dead (-1: alive to the end)
	fails    []c12Fail
	outcomes []string
	rejects  int // requests the reference forbids
	invoked  int
	faults   int
	log      string
	engine   string
	crashed  bool
}

// c12Progress, when set, is told the index of every event before it is applied
// (child processes report it so that a crash is attributed to an event).
var c12Progress func(i int)

type c12Replay struct {
	MCS    int     `json:"mcs"`
	Events []c12Ev `json:"events"`
	Hist   string  `json:"hist"`
}

func c12Run(t *testing.T, mcs int, hist []c12Ev, verbose bool) (res c12Res) {
	res.termAt = -1
	synctest.Test(t, func(t *testing.T) {
		gBase := runtime.NumGoroutine()
		fail := func(key, format string, a ...any) {
			res.fails = append(res.fails, c12Fail{key, fmt.Sprintf(format, a...)})
		}
		rc := &c12Rec{gate: make(chan struct{})}
		srv := grpc.NewServer(
			grpc.MaxConcurrentStreams(uint32(mcs)),
			grpc.ForceServerCodecV2(c12Codec{}),
			grpc.UnknownServiceHandler(rc.stream("unknown")),
			grpc.StatsHandler(rc),
		)
		srv.RegisterService(&grpc.ServiceDesc{
			ServiceName: "s",
			HandlerType: (*any)(nil),
			Methods:     []grpc.MethodDesc{{MethodName: "u", Handler: rc.unary}},
			Streams: []grpc.StreamDesc{{StreamName: "st", Handler: rc.stream("stream"), ServerStreams: true, ClientStreams: true},
				{StreamName: "echo", Handler: rc.echo, ServerStreams: true, ClientStreams: true}},
		}, rc)
		lis := wire.NewListener()
		served := make(chan error, 1)
		go func() { served <- srv.Serve(lis) }()
		conn, err := lis.Dial()
		if err != nil {
			res.engine = "dial: " + err.Error()
			srv.Stop()
			return
		}
		peer := wire.NewClientPeer(conn)
		peer.AutoAckSettings, peer.AutoAckPing = true, true
		peer.WriteSettings()
		synctest.Wait()

		// reference model state
		var (
			maxHdrID uint32 // highest stream id the client opened with any HEADERS
			maxOKID  uint32 // ... with a HEADERS block that is well-formed HTTP/2
			open     = map[uint32]bool{}
			reqs     = map[string]*c12Req{}
			desync   bool
			logPos   int
			seenCall int
			dead     bool
			goAway   bool   // the server sent GOAWAY ...
			goAwayID uint32 // ... promising to ignore streams above this id (RFC 7540 6.8)
		)
		// settle consumes the frames the server sent since the last call.
		settle := func() (newFrames []wire.Frame) {
			lg := peer.Log()
			newFrames = lg[logPos:]
			logPos = len(lg)
			for _, f := range newFrames {
				switch f.Type {
				case "HEADERS", "DATA":
					if f.EndStream {
						delete(open, f.Stream)
					}
				case "RST_STREAM":
					delete(open, f.Stream)
				case "GOAWAY":
					if !goAway || f.LastID < goAwayID {
						goAway, goAwayID = true, f.LastID
					}
					for id := range open {
						if id > goAwayID {
							delete(open, id) // implicitly refused
						}
					}
				}
			}
			if peer.Closed() {
				dead = true
				open = map[uint32]bool{}
			}
			return newFrames
		}
		check := func(after string) {
			calls, running, active := rc.snapshot()
			for _, c := range calls[seenCall:] {
				res.invoked++
				rq := reqs[c.Req]
				if rq == nil {
					if !desync {
						fail("handler-invoked/unattributable", "after %s: %s handler invoked with x-req=%q which matches no request sent", after, c.Method, c.Req)
					}
					continue
				}
				rq.invoked = true
				if !desync && len(rq.forbid) > 0 {
					fail("handler-invoked/"+strings.Join(rq.forbid, "+"), "after %s: %s handler invoked for request %s (stream %d, event %d) which must be rejected: %v", after, c.Method, c.Req, rq.id, rq.ev, rq.forbid)
				}
			}
			seenCall = len(calls)
			if running > mcs {
				fail(fmt.Sprintf("handlers-over-limit/mcs=%d", mcs), "after %s: %d handlers running on one connection, MaxConcurrentStreams=%d", after, running, mcs)
			}
			if active > mcs {
				fail(fmt.Sprintf("rpcs-over-limit/mcs=%d", mcs), "after %s: %d RPCs begun and not ended (stats handler), MaxConcurrentStreams=%d", after, active, mcs)
			}
			if !desync && len(open) > mcs {
				fail(fmt.Sprintf("open-streams-over-limit/mcs=%d", mcs), "after %s: %d streams open in the client's HTTP/2 state machine (%v), MaxConcurrentStreams=%d", after, len(open), c12Keys(open), mcs)
			}
		}
		settle()
		if dead {
			res.engine = "connection dead after handshake: " + fmt.Sprint(peer.Err())
		}

		for i, ev := range hist {
			if dead || res.engine != "" {
				break
			}
			if c12Progress != nil {
				c12Progress(i)
			}
			var rq *c12Req
			atCap := false
			switch ev.K {
			case "hdr":
				req := fmt.Sprintf("r%d", i)
				fields := c12Fields(ev.H, req)
				rq = &c12Req{ev: i, id: ev.ID}
				rq.forbid, rq.dontcare = c12Reasons(fields)
				if !desync {
					if ev.ID == 0 || ev.ID%2 == 0 || ev.ID <= maxOKID {
						rq.forbid = append([]string{"illegal-stream-id"}, rq.forbid...)
					} else if ev.ID <= maxHdrID {
						// RFC 7540 5.1.1: the id was already used, but only by HEADERS
						// blocks the server had to reject as malformed HTTP/2 (own class:
						// grpc-go is known to forget those ids)
						rq.forbid = append([]string{"illegal-stream-id:reused-after-malformed-HEADERS"}, rq.forbid...)
					} else if goAway && ev.ID > goAwayID {
						// the server announced that it ignores such streams: it is not
						// open in the client's state machine and must not be served
						maxHdrID = ev.ID
						rq.forbid = append([]string{"after-GOAWAY"}, rq.forbid...)
					} else {
						maxHdrID = ev.ID
						if !c12H2Malformed(fields) {
							maxOKID = ev.ID
						}
						if len(open) >= mcs {
							atCap = true
							rq.forbid = append(rq.forbid, "over-MaxConcurrentStreams")
						}
						open[ev.ID] = true
					}
				}
				reqs[req] = rq
				if len(rq.forbid) > 0 {
					res.rejects++
				}
				peer.WriteHeaders(ev.ID, fields, ev.H[c12dES] == 1)
			case "data":
				switch {
				case ev.N == -1:
					peer.WriteData(ev.ID, ev.ES, nil)
				case ev.N > 0:
					peer.WriteData(ev.ID, ev.ES, make([]byte, ev.N)) // 5 zero bytes = an empty gRPC message
				default:
					peer.WriteData(ev.ID, ev.ES, wire.GrpcMsg(false, []byte("x")))
				}
			case "rst":
				res.faults++
				peer.WriteRST(ev.ID, http2.ErrCodeCancel)
				delete(open, ev.ID)
			case "settings":
				peer.WriteSettings(http2.Setting{ID: http2.SettingInitialWindowSize, Val: 1 << 20})
			case "settings0": // the client shrinks its stream windows to 0: responses stay queued
				peer.WriteSettings(http2.Setting{ID: http2.SettingInitialWindowSize, Val: 0})
			case "setack":
				res.faults++
				peer.WriteSettingsAck()
			case "wu":
				if ev.N == 0 {
					res.faults++
				}
				peer.WriteWindowUpdate(ev.ID, uint32(ev.N))
			case "ping":
				res.faults++
				for k := 0; k < ev.N; k++ {
					peer.WritePing(false, [8]byte{byte(k), 1, 2, 3})
				}
			case "unk": // well-formed frame of an unknown type: must be ignored
				res.faults++
				peer.WriteRaw([]byte{0, 0, 4, 0xee, 0, 0, 0, 0, 1, 0xde, 0xad, 0xbe, 0xef})
			case "garbage":
				res.faults++
				desync = true
				peer.WriteRaw([]byte("\xff\xff\xff\xff\xff\xff\xff\xff\xff\xff\xff\xff\xff\xff\xff\xff"))
			case "trunc": // DATA frame header announcing 9 payload bytes that never come: swallows the next frame header
				res.faults++
				desync = true
				peer.WriteRaw([]byte{0, 0, 9, 0, 0, 0, 0, 0, 1})
			case "close":
				res.faults++
				peer.Close()
			case "rel":
				rc.release()
			case "tick": // 2 s of virtual time: grpc-timeout "1S" expires, GOAWAY grace period ends
				time.Sleep(2 * time.Second)
			default:
				res.engine = "unknown event kind " + ev.K
			}
			synctest.Wait()
			fr := settle()
			if ev.K == "close" {
				dead = true
				open = map[uint32]bool{}
			}
			check(ev.String())
			if rq != nil && !desync {
				resp := c12Resp(fr, ev.ID, rq.invoked, dead)
				cls := "admissible"
				if len(rq.forbid) > 0 {
					cls = strings.Join(rq.forbid, "+")
				} else if len(rq.dontcare) > 0 {
					cls = "unspecified:" + strings.Join(rq.dontcare, "+")
				}
				res.outcomes = append(res.outcomes, cls+" -> "+resp)
				if atCap && len(rq.forbid) == 1 && len(rq.dontcare) == 0 && !dead {
					if !c12HasRST(fr, ev.ID, uint32(http2.ErrCodeRefusedStream)) {
						fail(fmt.Sprintf("excess-not-refused/mcs=%d", mcs), "after %s: valid request on stream %d over MaxConcurrentStreams=%d was not answered with RST_STREAM(REFUSED_STREAM); server sent: %s", ev.String(), ev.ID, mcs, c12Frames(fr))
					}
				}
			} else if rq == nil {
				res.outcomes = append(res.outcomes, ev.K+" -> "+c12ConnResp(fr, dead))
			}
			if dead && res.termAt < 0 {
				res.termAt = i
			}
		}

		// tear-down: nothing may survive Stop
		rc.release()
		synctest.Wait()
		stopped := make(chan struct{})
		go func() { srv.Stop(); close(stopped) }()
		synctest.Wait()
		select {
		case <-stopped:
		default:
			fail("stop-hangs", "Server.Stop did not return at quiescence")
		}
		peer.Close()
		synctest.Wait()
		check("Stop")
		if _, running, active := rc.snapshot(); running != 0 || active != 0 {
			fail("handler-survives-stop", "after Stop: %d handlers still running, %d RPCs not ended", running, active)
		}
		select {
		case <-served:
		default:
			fail("serve-survives-stop", "Serve has not returned after Stop")
		}
		if verbose {
			res.log = peer.LogString()
		}
		if n := runtime.NumGoroutine(); n > gBase {
			buf := make([]byte, 1<<16)
			buf = buf[:runtime.Stack(buf, true)]
			fail("goroutine-leak", "%d goroutines more than before the server was created survive Stop:\n%s", n-gBase, c12TrimStacks(string(buf)))
		}
	})
	return res
}

func c12Keys(m map[uint32]bool) []int {
	var ks []int
	for k := range m {
		ks = append(ks, int(k))
	}
	sort.Ints(ks)
	return ks
}

func c12HasRST(fr []wire.Frame, id uint32, code uint32) bool {
	for _, f := range fr {
		if f.Type == "RST_STREAM" && f.Stream == id && f.Code == code {
			return true
		}
	}
	return false
}

func c12Frames(fr []wire.Frame) string {
	var ss []string
	for _, f := range fr {
		ss = append(ss, f.String())
	}
	return "[" + strings.Join(ss, " ") + "]"
}

// c12Resp classifies how the server answered a request (vacuity statistics).
func c12Resp(fr []wire.Frame, id uint32, invoked, dead bool) string {
	var parts []string
	if invoked {
		parts = append(parts, "handler")
	}
	for _, f := range fr {
		switch {
		case f.Type == "HEADERS" && f.Stream == id && id != 0:
			st, _ := wire.Field(f.Fields, ":status")
			gs, ok := wire.Field(f.Fields, "grpc-status")
			if !ok {
				gs = "-"
			}
			parts = append(parts, fmt.Sprintf("headers(http=%s,grpc=%s,es=%v)", st, gs, f.EndStream))
		case f.Type == "RST_STREAM" && f.Stream == id:
			parts = append(parts, fmt.Sprintf("rst(%d)", f.Code))
		case f.Type == "GOAWAY":
			parts = append(parts, fmt.Sprintf("goaway(%d)", f.Code))
		}
	}
	if dead {
		parts = append(parts, "conn-closed")
	}
	if len(parts) == 0 {
		return "nothing"
	}
	return strings.Join(parts, ",")
}

func c12ConnResp(fr []wire.Frame, dead bool) string {
	var parts []string
	for _, f := range fr {
		switch f.Type {
		case "RST_STREAM":
			parts = append(parts, fmt.Sprintf("rst(%d)", f.Code))
		case "GOAWAY":
			parts = append(parts, fmt.Sprintf("goaway(%d)", f.Code))
		case "HEADERS":
			gs, _ := wire.Field(f.Fields, "grpc-status")
			parts = append(parts, "headers(grpc="+gs+")")
		}
	}
	if dead {
		parts = append(parts, "conn-closed")
	}
	if len(parts) == 0 {
		return "nothing"
	}
	return strings.Join(parts, ",")
}

func c12TrimStacks(s string) string {
	if len(s) > 3000 {
		s = s[:3000] + "…"
	}
	return s
}

// ---------------------------------------------------------------- crash attribution

// c12Pending writes the shard's result file BEFORE a history runs, naming that
// history as the culprit should the worker die (panic in a server goroutine,
// fatal error, bubble deadlock). vk overwrites the file at the next flush.
type c12Crash struct {
	r     *vk.Run
	path  string
	prev  []vk.Violation
	shard int
	n     int
}

func c12NewCrash(r *vk.Run) *c12Crash {
	dir := os.Getenv("VERIF_OUT")
	s, n := r.Shard()
	c := &c12Crash{r: r, shard: s, n: n}
	if dir != "" {
		c.path = fmt.Sprintf("%s/%s.%d.result.json", dir, r.Leg, s)
	}
	return c
}

func (c *c12Crash) pending(mcs int, hist []c12Ev) {
	if c.path == "" {
		return
	}
	hs := c12HistString(mcs, hist)
	key, _ := c12PanicKey(hist, len(hist)-1)
	v := vk.Violation{Property: c12P, Key: key,
		Desc:   "the worker process died (panic in a server goroutine, fatal error or bubble deadlock) or was killed while running this history: " + hs,
		Replay: c12Replay{MCS: mcs, Events: hist, Hist: hs}}
	out := map[string]any{"leg": c.r.Leg, "shard": c.shard, "nshards": c.n, "tier": c.r.Tier(), "seed": c.r.Seed(),
		"props": map[string]any{}, "violations": append(append([]vk.Violation(nil), c.prev...), v), "engine_errors": []string{}, "wall_s": 0, "complete": false}
	b, _ := json.Marshal(out)
	os.WriteFile(c.path, b, 0o644)
}

// c12PanicKey names a server crash: the canonical event sequence up to the
// event during which the process died, or the name of the defect class when
// the sequence matches a known shape.
func c12PanicKey(hist []c12Ev, last int) (key, canon string) {
	if last >= len(hist) {
		last = len(hist) - 1
	}
	var ss []string
	blocked := false // settings0 seen, no stream-level window opened since
	esCount := map[uint32]int{}
	double := false
	for _, e := range hist[:last+1] {
		ss = append(ss, e.String())
		switch e.K {
		case "settings0":
			blocked = true
		case "settings":
			blocked = false
		case "wu":
			if e.N > 0 && e.ID != 0 {
				blocked = false
			}
		case "rst":
			delete(esCount, e.ID)
		case "data":
			if e.ES && blocked {
				esCount[e.ID]++
				if esCount[e.ID] >= 2 {
					double = true
				}
			}
		}
	}
	canon = strings.Join(ss, " ")
	if double {
		return "server-panic/double-END_STREAM-while-response-flow-control-blocked", canon
	}
	return "server-panic/" + canon, canon
}

// ---------------------------------------------------------------- child processes (part C)

type c12ChildOut struct {
	Fails    []c12Fail `json:"fails"`
	Outcomes []string  `json:"outcomes"`
	Rejects  int       `json:"rejects"`
	Invoked  int       `json:"invoked"`
	Faults   int       `json:"faults"`
	TermAt   int       `json:"term_at"`
	Engine   string    `json:"engine"`
}

// TestVerif_C12_Child runs ONE history given in VERIF_C12_CHILD and reports on
// stdout; it is a no-op otherwise. The parent explores part C through it so
// that a server panic kills only the child and is attributed to an event.
func TestVerif_C12_Child(t *testing.T) {
	spec := os.Getenv("VERIF_C12_CHILD")
	if spec == "" {
		return
	}
	grpclog.SetLoggerV2(grpclog.NewLoggerV2(io.Discard, io.Discard, io.Discard))
	var rp c12Replay
	if err := json.Unmarshal([]byte(spec), &rp); err != nil {
		fmt.Printf("@res {\"engine\":%q}\n", "child spec: "+err.Error())
		return
	}
	c12Progress = func(i int) { fmt.Printf("@ev %d\n", i) }
	res := c12Run(t, rp.MCS, rp.Events, false)
	b, _ := json.Marshal(c12ChildOut{Fails: res.fails, Outcomes: res.outcomes, Rejects: res.rejects, Invoked: res.invoked, Faults: res.faults, TermAt: res.termAt, Engine: res.engine})
	fmt.Printf("@res %s\n", b)
}

// c12RunChild runs one history in a child process of this test binary.
func c12RunChild(mcs int, hist []c12Ev) (res c12Res) {
	res.termAt = -1
	spec, _ := json.Marshal(c12Replay{MCS: mcs, Events: hist})
	ctx, cancel := context.WithTimeout(context.Background(), 120*time.Second)
	defer cancel()
	cmd := exec.CommandContext(ctx, os.Args[0], "-test.run", "^TestVerif_C12_Child$", "-test.count=1", "-test.timeout=100s")
	cmd.Env = append(os.Environ(), "VERIF_C12_CHILD="+string(spec), "VERIF_OUT=", "VERIF_REPLAY=")
	var stdout, stderr bytes.Buffer
	cmd.Stdout, cmd.Stderr = &stdout, &stderr
	err := cmd.Run()
	last := -1
	for _, ln := range strings.Split(stdout.String(), "\n") {
		switch {
		case strings.HasPrefix(ln, "@ev "):
			fmt.Sscanf(ln, "@ev %d", &last)
		case strings.HasPrefix(ln, "@res "):
			var out c12ChildOut
			if e := json.Unmarshal([]byte(ln[5:]), &out); e != nil {
				res.engine = "child result: " + e.Error()
				return res
			}
			res.fails, res.outcomes, res.rejects, res.invoked, res.faults, res.termAt, res.engine = out.Fails, out.Outcomes, out.Rejects, out.Invoked, out.Faults, out.TermAt, out.Engine
			return res
		}
	}
	// no result line: the child died
	msg := stderr.String() + stdout.String()
	if i := strings.Index(msg, "panic:"); i >= 0 {
		msg = msg[i:]
	} else if i := strings.Index(msg, "fatal error:"); i >= 0 {
		msg = msg[i:]
	}
	if len(msg) > 1800 {
		msg = msg[:1800] + "…"
	}
	if last < 0 {
		res.engine = fmt.Sprintf("child died before the first event (%v): %s", err, msg)
		return res
	}
	key, canon := c12PanicKey(hist, last)
	what := "died"
	if ctx.Err() != nil {
		what = "hung (killed after 120 s)"
	}
	res.fails = append(res.fails, c12Fail{key, fmt.Sprintf("the server process %s during event %d (%s) of [%s] (%v): %s", what, last, hist[last].String(), canon, err, msg)})
	res.crashed = true
	return res
}

// ---------------------------------------------------------------- enumeration

func c12Alphabet(maxDev int, ids []uint32) []c12Ev {
	var evs []c12Ev
	for _, h := range c12Variants(maxDev, nil) {
		for _, id := range ids {
			evs = append(evs, c12Ev{K: "hdr", ID: id, H: h})
		}
	}
	for _, id := range []uint32{1, 3} {
		evs = append(evs, c12Ev{K: "data", ID: id}, c12Ev{K: "data", ID: id, ES: true})
	}
	evs = append(evs, c12Ev{K: "data", ID: 7}) // never opened
	evs = append(evs, c12Ev{K: "rst", ID: 1}, c12Ev{K: "rst", ID: 3})
	evs = append(evs, c12Ev{K: "rel"}, c12Ev{K: "tick"})
	evs = append(evs, c12Ev{K: "settings"}, c12Ev{K: "setack"})
	evs = append(evs, c12Ev{K: "wu", ID: 0}, c12Ev{K: "wu", ID: 1})
	evs = append(evs, c12Ev{K: "ping", N: 1}, c12Ev{K: "ping", N: 3})
	evs = append(evs, c12Ev{K: "unk"}, c12Ev{K: "garbage"}, c12Ev{K: "trunc"}, c12Ev{K: "close"})
	return evs
}

// c12Variants lists every HEADERS variant deviating from the well-formed
// default in at most maxDev dimensions (maxDev<0: the full cross product) over
// the dimensions in dims (nil: all).
func c12Variants(maxDev int, dims []int) []c12Hdr {
	if dims == nil {
		for d := 0; d < c12nDims; d++ {
			dims = append(dims, d)
		}
	}
	var out []c12Hdr
	var rec func(k int, h c12Hdr, dev int)
	rec = func(k int, h c12Hdr, dev int) {
		if k == len(dims) {
			out = append(out, h)
			return
		}
		d := dims[k]
		for v := 0; v < c12DimSize[d]; v++ {
			nd := dev
			if v != 0 {
				nd++
			}
			if maxDev >= 0 && nd > maxDev {
				break
			}
			h[d] = v
			rec(k+1, h, nd)
		}
	}
	rec(0, c12Hdr{}, 0)
	return out
}

func TestVerif_C12_BadClient(t *testing.T) {
	grpclog.SetLoggerV2(grpclog.NewLoggerV2(io.Discard, io.Discard, io.Discard))
	defer debug.SetGCPercent(debug.SetGCPercent(800)) // one server per bubble: mostly short-lived garbage
	r := vk.Start(t, "c12_badclient", "fault_enumeration", c12P)
	defer r.Finish()
	r.Rule(c12P, "Part A: every sequence of client events of length <= L over the alphabet {HEADERS on stream id in {0,1,2,3,5} with every header variant deviating from a well-formed request in <= 1 dimension (:method, :path, content-type, grpc-timeout, authority/host multiplicity, connection, -bin metadata, END_STREAM, te, field order); DATA on streams 1,3 (with/without END_STREAM) and 7; RST_STREAM 1,3; release handlers; 2 s of virtual time; SETTINGS; unsolicited SETTINGS ack; WINDOW_UPDATE +0 on stream 0 and 1; 1 or 3 PINGs; unknown frame type; 16 bytes 0xff; truncated frame; close} after preface+SETTINGS, for MaxConcurrentStreams 1 and 2; a history ends early when the server closed the connection. Part A2 (thorough): the same with <= 2 deviations per HEADERS and length 2. Part B: k in {0, MaxConcurrentStreams} open valid streams, then one HEADERS from the cross product of the header dimensions. Part C: the client sets INITIAL_WINDOW_SIZE=0, opens stream 1 to a handler that answers at once with one message and OK (DATA and trailers stay queued behind flow control, the stream stays active), then every sequence of <= 3 (quick) / 4 (thorough) frames from {DATA(0)+END_STREAM, DATA(0), DATA(5)+END_STREAM, RST_STREAM, WINDOW_UPDATE +64} on that stream; each part C history runs in a child process so that a server panic is attributed to the event that caused it. One bubble per history on a real grpc.Server, run to quiescence after every event. Non-trivial: the history contains a request the reference admission forbids, or a non-HEADERS fault event; counted once per distinct history.")
	r.Assume(c12P, "testing/synctest quiescence detection; the raw peer's x/net/http2 framer+hpack encoder; handlers return when released or when their context is cancelled; the client acknowledges SETTINGS and PING; header values are attributed to requests through the x-req metadata field")
	r.Assume(c12P, "the statement is silent about a `connection` header: such requests are enumerated but neither outcome is checked (class 'unspecified')")

	crash := c12NewCrash(r)
	mcsList := []int{1, 2}
	var nEval, nNontriv int64
	sampled := 0

	child := false // part C runs every history in a child process
	runOne := func(mcs int, hist []c12Ev, count bool) c12Res {
		var res c12Res
		if child {
			res = c12RunChild(mcs, hist)
			if res.crashed {
				r.AddInt(c12P, "C_server_crashes", 1)
			}
		} else {
			crash.pending(mcs, hist)
			res = c12Run(t, mcs, hist, false)
		}
		if res.engine != "" {
			r.EngineError("%s: %s", c12HistString(mcs, hist), res.engine)
		}
		for _, f := range res.fails {
			hs := c12HistString(mcs, hist)
			v := vk.Violation{Property: c12P, Key: f.Key, Desc: f.Desc + " | history: " + hs, Replay: c12Replay{MCS: mcs, Events: hist, Hist: hs}}
			dup := false
			for _, p := range crash.prev {
				if p.Key == v.Key {
					dup = true
				}
			}
			if !dup && len(crash.prev) < 20 {
				crash.prev = append(crash.prev, v)
			}
			r.Violation(c12P, v.Key, v.Desc, v.Replay)
		}
		if count {
			nEval++
			if res.rejects > 0 || res.faults > 0 {
				nNontriv++
			}
			for _, o := range res.outcomes {
				r.Outcome(c12P, o)
			}
			r.AddInt(c12P, "handler_invocations", int64(res.invoked))
			r.AddInt(c12P, "forbidden_requests_sent", int64(res.rejects))
			if sampled < 2 && res.rejects > 0 && res.invoked > 0 {
				sampled++
				r.Sample(c12P, map[string]any{"history": c12HistString(mcs, hist), "outcomes": res.outcomes, "handler_invocations": res.invoked})
			}
		}
		return res
	}

	if r.ReplayFile() != "" {
		var rp c12Replay
		if err := r.LoadReplay(&rp); err != nil {
			r.EngineError("replay: %v", err)
			return
		}
		// first in a child process (a server panic must not kill the replay), then, if it survived, in-process for the frame log
		res := c12RunChild(rp.MCS, rp.Events)
		if !res.crashed && res.engine == "" {
			res = c12Run(t, rp.MCS, rp.Events, true)
		}
		fmt.Printf("[c12 replay] %s\n  crashed=%v outcomes=%v\n  server frames: %s\n", c12HistString(rp.MCS, rp.Events), res.crashed, res.outcomes, res.log)
		for _, f := range res.fails {
			r.Violation(c12P, f.Key, f.Desc, rp)
		}
		r.Eval(c12P, 1)
		r.NontrivialN(c12P, 2)
		r.Sample(c12P, rp.Hist)
		return
	}

	item := 0 // work item counter for sharding
	capped := false
	over := func() bool {
		if !capped && r.OverBudget() {
			capped = true
			r.Cap(c12P, "soft time budget reached before the enumeration finished")
		}
		return capped
	}

	// Part A / A2: all sequences up to length L; work item = (mcs, first two events)
	partA := func(name string, maxDev, L int) {
		alpha := c12Alphabet(maxDev, []uint32{0, 1, 2, 3, 5})
		r.Set(c12P, name+"_max_alphabet", len(alpha))
		r.Set(c12P, name+"_depth_bound", L)
		for _, mcs := range mcsList {
			for a := range alpha {
				for b := range alpha {
					item++
					if !r.Mine(item) || over() {
						continue
					}
					if L <= 2 {
						res := runOne(mcs, []c12Ev{alpha[a], alpha[b]}, true)
						_ = res
						continue
					}
					for c := range alpha {
						res := runOne(mcs, []c12Ev{alpha[a], alpha[b], alpha[c]}, true)
						if res.termAt >= 0 && res.termAt < 2 {
							break // connection dead before the third event: the rest of this subtree is the same history
						}
						if over() {
							break
						}
					}
				}
			}
		}
	}
	partA("A", 1, r.Pick(2, 3))
	if r.Thorough() {
		partA("A2", 2, 2)
	}

	// Part B: k open valid streams, then one HEADERS of the cross product
	var dims []int
	if r.Thorough() {
		dims = nil
	} else {
		dims = []int{c12dMethod, c12dCT, c12dTO, c12dAuth, c12dConn, c12dBin, c12dES}
	}
	vars := c12Variants(-1, dims)
	r.Set(c12P, "B_max_header_variants", len(vars))
	for _, mcs := range mcsList {
		for _, k := range []int{0, mcs} {
			for _, h := range vars {
				item++
				if !r.Mine(item) || over() {
					continue
				}
				var hist []c12Ev
				for j := 0; j < k; j++ {
					hist = append(hist, c12Ev{K: "hdr", ID: uint32(2*j + 1)})
				}
				hist = append(hist, c12Ev{K: "hdr", ID: uint32(2*k + 1), H: h})
				runOne(mcs, hist, true)
			}
		}
	}

	// Part C: the client's stream window is 0, so the answer of the echo handler
	// (one message, OK) stays queued; then every sequence of <= LC frames on that stream
	child = true
	tail := []c12Ev{{K: "data", ID: 1, N: -1, ES: true}, {K: "data", ID: 1, N: -1}, {K: "data", ID: 1, N: 5, ES: true}, {K: "rst", ID: 1}, {K: "wu", ID: 1, N: 64}}
	LC := r.Pick(3, 4)
	r.Set(c12P, "C_depth_bound", LC)
	var echo c12Hdr
	echo[c12dPath] = 3
	for _, mcs := range mcsList {
		for L := 1; L <= LC; L++ {
			idx := make([]int, L)
			for {
				item++
				if r.Mine(item) && !over() {
					hist := []c12Ev{{K: "settings0"}, {K: "hdr", ID: 1, H: echo}}
					for _, x := range idx {
						hist = append(hist, tail[x])
					}
					runOne(mcs, hist, true)
				}
				p := L - 1
				for p >= 0 {
					idx[p]++
					if idx[p] < len(tail) {
						break
					}
					idx[p] = 0
					p--
				}
				if p < 0 {
					break
				}
			}
		}
	}

	r.Eval(c12P, nEval)
	r.NontrivialN(c12P, nNontriv)
	r.Set(c12P, "bubbles", nEval)
	if s, _ := r.Shard(); s == 0 {
		r.Sample(c12P, map[string]any{"note": "event notation", "H1[m=GET]": "HEADERS on stream 1, well-formed except :method GET", "D1+es": "DATA(grpc message) on stream 1 with END_STREAM", "WU0+0": "WINDOW_UPDATE increment 0 on the connection"})
	}
}
