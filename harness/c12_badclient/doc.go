//go:build verif

// Package h_c12 hosts the E4 harness of property C12: a real grpc.Server on an
// in-memory listener against a scripted, misbehaving raw HTTP/2 client, one
// synctest bubble per bounded frame history.
package h_c12
