//go:build verif

package balancer

import (
	"fmt"
	"testing"

	"google.golang.org/grpc/connectivity"
	"google.golang.org/grpc/internal/verif/seqx"
	"google.golang.org/grpc/internal/verif/vk"
)

// ---- C35 (leg a): ConnectivityStateEvaluator follows the precedence rule ----
//
// E2 (seqx BFS over usage-protocol histories on a fresh real evaluator).
// Oracle: the precedence rule of the statement evaluated by scanning the
// reference multiset of child states.

var c35aStates = []connectivity.State{connectivity.Connecting, connectivity.Ready, connectivity.TransientFailure, connectivity.Idle}

func c35aSt(s connectivity.State) string {
	switch s {
	case connectivity.Connecting:
		return "C"
	case connectivity.Ready:
		return "R"
	case connectivity.TransientFailure:
		return "TF"
	case connectivity.Idle:
		return "I"
	case connectivity.Shutdown:
		return "-"
	}
	return s.String()
}

// c35aWant is the rule of the statement: READY if any child is READY, else
// CONNECTING if any is CONNECTING, else IDLE if any is IDLE, else
// TRANSIENT_FAILURE (also when there are no children).
func c35aWant(children []connectivity.State) connectivity.State {
	for _, want := range []connectivity.State{connectivity.Ready, connectivity.Connecting, connectivity.Idle} {
		for _, s := range children {
			if s == want {
				return want
			}
		}
	}
	return connectivity.TransientFailure
}

type c35aWorld struct {
	cse   *ConnectivityStateEvaluator
	ref   []connectivity.State // reference multiset: one entry per existing child (Shutdown = slot without a child)
	fails []seqx.Fail
	seen  map[string]bool
	obs   string
}

func (w *c35aWorld) fail(class, format string, a ...any) {
	if w.seen == nil {
		w.seen = map[string]bool{}
	}
	if w.seen[class] {
		return
	}
	w.seen[class] = true
	w.fails = append(w.fails, seqx.Fail{Prop: "C35", Key: class, Desc: fmt.Sprintf(format, a...)})
}

func (w *c35aWorld) multiset() []connectivity.State {
	var ms []connectivity.State
	for _, s := range w.ref {
		if s != connectivity.Shutdown {
			ms = append(ms, s)
		}
	}
	return ms
}

func (w *c35aWorld) counts() (n [4]int) {
	for _, s := range w.multiset() {
		for i, t := range c35aStates {
			if s == t {
				n[i]++
			}
		}
	}
	return
}

func (w *c35aWorld) describe() string {
	n := w.counts()
	return fmt.Sprintf("{C:%d R:%d TF:%d I:%d}", n[0], n[1], n[2], n[3])
}

// transition performs one protocol step on the real evaluator and compares.
func (w *c35aWorld) transition(ev string, from, to connectivity.State) {
	got := w.cse.RecordTransition(from, to)
	want := c35aWant(w.multiset())
	if got != want {
		w.fail("record-transition-result", "%s: RecordTransition(%v→%v) returned %v, the precedence rule on children %s gives %v", ev, from, to, got, w.describe(), want)
	}
	w.observe(ev)
}

func (w *c35aWorld) observe(ev string) {
	want := c35aWant(w.multiset())
	if got := w.cse.CurrentState(); got != want {
		w.fail("current-state", "after %s: CurrentState()=%v, the precedence rule on children %s gives %v", ev, got, w.describe(), want)
	}
	w.obs = fmt.Sprintf("agg=%s n=%d", c35aSt(want), len(w.multiset()))
}

func (w *c35aWorld) key(vector bool) string {
	c := w.cse
	k := fmt.Sprintf("real{R:%d C:%d TF:%d I:%d}", c.numReady, c.numConnecting, c.numTransientFailure, c.numIdle)
	if vector {
		k += " ref["
		for _, s := range w.ref {
			k += c35aSt(s) + " "
		}
		return k + "]"
	}
	return k + " ref" + w.describe()
}

type c35aOp struct {
	name string
	do   func(w *c35aWorld) bool
}

// c35aSlotOps: nChildren named child slots; op = "child i goes to state Y"
// (Y = Shutdown removes it; from an empty slot it adds the child).
func c35aSlotOps(nChildren int) []c35aOp {
	var ops []c35aOp
	targets := append(append([]connectivity.State{}, c35aStates...), connectivity.Shutdown)
	for i := 0; i < nChildren; i++ {
		for _, to := range targets {
			i, to := i, to
			name := fmt.Sprintf("child%d→%s", i, c35aSt(to))
			if to == connectivity.Shutdown {
				name = fmt.Sprintf("remove child%d", i)
			}
			ops = append(ops, c35aOp{name, func(w *c35aWorld) bool {
				from := w.ref[i]
				if from == connectivity.Shutdown && to == connectivity.Shutdown {
					return false // no such child
				}
				w.ref[i] = to
				w.transition(name, from, to)
				return true
			}})
		}
	}
	return ops
}

// c35aBagOps: anonymous children (a multiset of up to max): add X, remove X,
// change X→Y on any one child currently in X.
func c35aBagOps(max int) []c35aOp {
	var ops []c35aOp
	find := func(w *c35aWorld, s connectivity.State) int {
		for i, t := range w.ref {
			if t == s {
				return i
			}
		}
		return -1
	}
	for _, x := range c35aStates {
		x := x
		ops = append(ops, c35aOp{"add " + c35aSt(x), func(w *c35aWorld) bool {
			if len(w.multiset()) >= max {
				return false
			}
			i := find(w, connectivity.Shutdown)
			w.ref[i] = x
			w.transition("add "+c35aSt(x), connectivity.Shutdown, x)
			return true
		}})
	}
	for _, x := range c35aStates {
		x := x
		ops = append(ops, c35aOp{"remove " + c35aSt(x), func(w *c35aWorld) bool {
			i := find(w, x)
			if i < 0 {
				return false
			}
			w.ref[i] = connectivity.Shutdown
			w.transition("remove "+c35aSt(x), x, connectivity.Shutdown)
			return true
		}})
	}
	for _, x := range c35aStates {
		for _, y := range c35aStates {
			x, y := x, y
			name := c35aSt(x) + "→" + c35aSt(y)
			ops = append(ops, c35aOp{name, func(w *c35aWorld) bool {
				i := find(w, x)
				if i < 0 {
					return false
				}
				w.ref[i] = y
				w.transition(name, x, y)
				return true
			}})
		}
	}
	return ops
}

func c35aRunner(ops []c35aOp, slots int, vector bool) func(hist []int) seqx.Outcome {
	return func(hist []int) (out seqx.Outcome) {
		w := &c35aWorld{cse: &ConnectivityStateEvaluator{}, ref: make([]connectivity.State, slots)}
		for i := range w.ref {
			w.ref[i] = connectivity.Shutdown
		}
		defer func() {
			if p := recover(); p != nil {
				w.fail("panic", "panic: %v", p)
				out = seqx.Outcome{Key: "panic " + fmt.Sprint(hist), Terminal: true, Fails: w.fails, Obs: "panic"}
			}
		}()
		w.observe("start")
		for i, h := range hist {
			if !ops[h].do(w) {
				if i == len(hist)-1 {
					return seqx.Outcome{Skip: true}
				}
				w.fail("harness-nondeterminism", "op %s inapplicable in the middle of a history", ops[h].name)
			}
		}
		return seqx.Outcome{Key: w.key(vector), Fails: w.fails, Obs: w.obs}
	}
}

func c35aNames(ops []c35aOp) []string {
	out := make([]string, len(ops))
	for i, o := range ops {
		out[i] = o.name
	}
	return out
}

func TestVerif_C35_Evaluator(t *testing.T) {
	const P = "C35"
	r := vk.Start(t, "c35a_evaluator", "model_checking", P)
	defer r.Finish()
	r.Rule(P, "leg a (balancer.ConnectivityStateEvaluator): breadth-first over ALL histories of the usage protocol up to the depth bound on a fresh real evaluator: add child = RecordTransition(Shutdown→X), remove = X→Shutdown, change = X→Y (X=Y included), X,Y ∈ {CONNECTING, READY, TRANSIENT_FAILURE, IDLE}. Scenario slots: 4 named children (every vector of child states is reached). Scenario bag: an anonymous multiset of up to 6 (quick) / 9 (thorough) children. After every step the value returned by RecordTransition and CurrentState() are compared with the precedence rule evaluated by scanning the reference multiset. A state = the four private counters + the reference children; distinct states are the non-trivial cases")
	r.Assume(P, "leg a: the evaluator is driven according to its protocol (the old state passed to RecordTransition is the child's real previous state; a child is removed only if it exists); it is documented as not thread safe, so no concurrency")

	slotOps := c35aSlotOps(4)
	seqx.BFS(r, []string{P}, seqx.Config{
		Name: "evaluator-slots", Ops: c35aNames(slotOps), MaxDepth: 8, Parallel: 16,
		Congruence: true, CongruenceMax: 100, MinStates: 600,
		Run: c35aRunner(slotOps, 4, true),
	})
	max := r.Pick(6, 9)
	bagOps := c35aBagOps(max)
	r.Set(P, "evaluator_bag_max_children", max)
	seqx.BFS(r, []string{P}, seqx.Config{
		Name: "evaluator-bag", Ops: c35aNames(bagOps), MaxDepth: max + 2, Parallel: 16,
		Congruence: true, CongruenceMax: 100, MinStates: 200,
		Run: c35aRunner(bagOps, max, false),
	})
}
