//go:build verif

package binarylog

import (
	"context"
	"fmt"
	"runtime"
	"sort"
	"strings"
	"sync/atomic"
	"testing"

	binlogpb "google.golang.org/grpc/binarylog/grpc_binarylog_v1"
	"google.golang.org/grpc/internal/verif/vk"
	"google.golang.org/grpc/metadata"
)

// ---- C55, second leg: header limits AROUND EVERY CUMULATIVE-SIZE BOUNDARY ----
//
// The first leg (c55_test.go) uses small absolute limits (0..12), so a
// grpc-trace-bin entry (>= 14 bytes) never fits a finite limit there. This leg
// derives the limits from each list: every subset sum of the entry sizes
// (which contains every prefix sum with and without the trace entries, every
// single size and every skip-and-continue sum) -1 / exact / +1, plus 0, 2^40
// and MaxUint64. Entry sizes are chosen so that "small / medium / exactly fits
// / one over" all occur at those limits, for regular entries and for
// grpc-trace-bin entries alike, at every position of the list.
//
// The oracle is the one of the first leg (c55Expect: brute force over prefix
// lengths, grpc-trace-bin always kept and never counted, flag <=> dropped).

// Alphabet (canonical order; defines which failing input is "first").
// Regular sizes 2, 11, 12, 26; trace sizes 14, 15, 26, 34; omitted 7, 18.
var c55bAlphabet = []c55Ent{
	{"a", strings.Repeat("v", 1)},
	{"b", strings.Repeat("v", 10)},
	{"c", strings.Repeat("v", 11)},
	{"d", strings.Repeat("v", 25)},
	{"grpc-trace-bin", ""},
	{"grpc-trace-bin", strings.Repeat("v", 1)},
	{"grpc-trace-bin", strings.Repeat("v", 12)},
	{"grpc-trace-bin", strings.Repeat("v", 20)},
	{"grpc-x", strings.Repeat("v", 1)},
	{"grpc-x", strings.Repeat("v", 12)},
}

// c55bLimits returns the sorted header limits for one list: all subset sums of
// the entry sizes -1/0/+1, plus 0, 2^40, MaxUint64.
func c55bLimits(es []c55Ent) []uint64 {
	set := map[uint64]bool{0: true, c55Huge: true, c55MaxU: true}
	n := len(es)
	for mask := 1; mask < 1<<n; mask++ {
		var s uint64
		for i := 0; i < n; i++ {
			if mask>>i&1 == 1 {
				s += uint64(len(es[i].K) + len(es[i].V))
			}
		}
		set[s-1], set[s], set[s+1] = true, true, true
	}
	out := make([]uint64, 0, len(set))
	for l := range set {
		out = append(out, l)
	}
	sort.Slice(out, func(i, j int) bool { return out[i] < out[j] })
	return out
}

// c55bAlt computes what plausible WRONG rules would log. It is NEVER an
// oracle: it only measures that the enumerated domain tells such rules apart
// from the statement (vacuity guard).
//
//	mode 0: a grpc-trace-bin entry that fits is counted against the limit
//	mode 1: grpc-trace-bin is an ordinary entry (counted, dropped when it does not fit)
//	mode 2: a non-fitting entry is skipped and later fitting ones are kept
//	mode 3: grpc-trace-bin entries after the cut are dropped
//	mode 4: an entry exactly as large as the remaining budget does not fit
func c55bAlt(loggable []c55Ent, limit uint64, mode int) []c55Ent {
	var kept []c55Ent
	cut := false
	for _, e := range loggable {
		sz := uint64(len(e.K) + len(e.V))
		tb := e.K == "grpc-trace-bin"
		if tb && mode != 1 {
			if cut && mode == 3 {
				continue
			}
			kept = append(kept, e)
			if mode == 0 && !cut && sz <= limit {
				limit -= sz
			}
			continue
		}
		if cut {
			continue
		}
		if sz > limit || (mode == 4 && sz == limit) {
			if mode != 2 {
				cut = true
			}
			continue
		}
		limit -= sz
		kept = append(kept, e)
	}
	return kept
}

var c55bAltNames = []string{"fitting-trace-bin-counted", "trace-bin-ordinary", "skip-and-continue", "trace-bin-dropped-after-cut", "exact-fit-rejected"}

// ------------------------------------------------- the Build()/Log() path ----

type c55bSink struct{ got *binlogpb.GrpcLogEntry }

func (s *c55bSink) Write(e *binlogpb.GrpcLogEntry) error { s.got = e; return nil }
func (s *c55bSink) Close() error                         { return nil }

// c55bCfg is a LogEntryConfig whose header entries are in the ENUMERATED
// order: each header still goes through the real mdToMetadataProto (single-key
// MD), only the cross-key order is ours instead of Go's map order.
type c55bCfg struct {
	raw    []c55Ent
	server bool
}

func (c *c55bCfg) toProto() *binlogpb.GrpcLogEntry {
	md := &binlogpb.Metadata{}
	for _, e := range c.raw {
		md.Entry = append(md.Entry, mdToMetadataProto(metadata.MD{e.K: []string{e.V}}).GetEntry()...)
	}
	if c.server {
		return &binlogpb.GrpcLogEntry{Type: binlogpb.GrpcLogEntry_EVENT_TYPE_SERVER_HEADER, Logger: binlogpb.GrpcLogEntry_LOGGER_CLIENT,
			Payload: &binlogpb.GrpcLogEntry_ServerHeader{ServerHeader: &binlogpb.ServerHeader{Metadata: md}}}
	}
	return &binlogpb.GrpcLogEntry{Type: binlogpb.GrpcLogEntry_EVENT_TYPE_CLIENT_HEADER, Logger: binlogpb.GrpcLogEntry_LOGGER_CLIENT,
		Payload: &binlogpb.GrpcLogEntry_ClientHeader{ClientHeader: &binlogpb.ClientHeader{Metadata: md, MethodName: "/s/m"}}}
}

func c55bEntries(e *binlogpb.GrpcLogEntry, server bool) []c55Ent {
	var md *binlogpb.Metadata
	if server {
		md = e.GetServerHeader().GetMetadata()
	} else {
		md = e.GetClientHeader().GetMetadata()
	}
	out := make([]c55Ent, 0, len(md.GetEntry()))
	for _, x := range md.GetEntry() {
		out = append(out, c55Ent{x.GetKey(), string(x.GetValue())})
	}
	return out
}

// c55bRunLog drives the real Log() -> Build() -> truncateMetadata -> sink.
func c55bRunLog(raw []c55Ent, limit uint64, server bool) (got []c55Ent, flag bool, pan any) {
	defer func() {
		if p := recover(); p != nil {
			pan = p
		}
	}()
	sink := &c55bSink{}
	ml := &TruncatingMethodLogger{headerMaxLen: limit, messageMaxLen: c55MaxU, idWithinCallGen: &callIDGenerator{}, sink: sink}
	ml.Log(context.Background(), &c55bCfg{raw: raw, server: server})
	if sink.got == nil {
		panic("Log() wrote nothing to the sink")
	}
	return c55bEntries(sink.got, server), sink.got.GetPayloadTruncated(), nil
}

// ---- real ClientHeader/ServerHeader with a multi-key metadata.MD ----

type c55bGroup struct {
	K  string
	Vs []string
}

func c55bFlatten(gs []c55bGroup) []c55Ent {
	var out []c55Ent
	for _, g := range gs {
		for _, v := range g.Vs {
			out = append(out, c55Ent{g.K, v})
		}
	}
	return out
}

func c55bPerms(n int) [][]int {
	var out [][]int
	var rec func(cur []int, used int)
	rec = func(cur []int, used int) {
		if len(cur) == n {
			out = append(out, append([]int(nil), cur...))
			return
		}
		for i := 0; i < n; i++ {
			if used>>i&1 == 0 {
				rec(append(cur, i), used|1<<i)
			}
		}
	}
	rec(nil, 0)
	return out
}

func c55bOutKey(es []c55Ent, flag bool) string { return fmt.Sprintf("%s %v", c55Fmt(es), flag) }

// c55bCheckMap logs a real multi-key MD through Build(&ClientHeader/&ServerHeader).
// The cross-key order is Go's map order, so the MD is rebuilt with every
// insertion order, `repeats` times each, and EVERY produced log entry must
// equal what the statement gives for SOME cross-key order (values of one key
// stay together, in order). Returns "" or a description; builds = Build calls.
func c55bCheckMap(gs []c55bGroup, limit uint64, repeats int) (bad string, builds int64) {
	perms := c55bPerms(len(gs))
	ok := map[string]bool{}
	var acceptable []string
	for _, p := range perms {
		pg := make([]c55bGroup, len(gs))
		for i, j := range p {
			pg[i] = gs[j]
		}
		_, _, want, wf := c55Expect(c55bFlatten(pg), limit)
		k := c55bOutKey(want, wf)
		if !ok[k] {
			ok[k] = true
			acceptable = append(acceptable, k)
		}
	}
	for _, p := range perms {
		for rep := 0; rep < repeats; rep++ {
			for side := 0; side < 2; side++ {
				var got []c55Ent
				var flag bool
				var pan any
				func() {
					defer func() {
						if x := recover(); x != nil {
							pan = x
						}
					}()
					md := metadata.MD{}
					for _, j := range p {
						md[gs[j].K] = append([]string(nil), gs[j].Vs...)
					}
					ml := &TruncatingMethodLogger{headerMaxLen: limit, messageMaxLen: c55MaxU, idWithinCallGen: &callIDGenerator{}}
					var e *binlogpb.GrpcLogEntry
					if side == 0 {
						e = ml.Build(&ClientHeader{OnClientSide: true, Header: md, MethodName: "/s/m"})
					} else {
						e = ml.Build(&ServerHeader{OnClientSide: true, Header: md})
					}
					got, flag = c55bEntries(e, side == 1), e.GetPayloadTruncated()
				}()
				builds++
				if bad != "" {
					continue
				}
				if pan != nil {
					bad = fmt.Sprintf("panic: %v", pan)
				} else if !ok[c55bOutKey(got, flag)] {
					sort.Strings(acceptable)
					bad = fmt.Sprintf("Build() logged %s truncated=%v; the statement allows, over all cross-key orders, only: %s", c55Fmt(got), flag, strings.Join(acceptable, " | "))
				}
			}
		}
	}
	return bad, builds
}

// Key groups for the map sub-leg (distinct keys are combined; canonical order).
func c55bGroups() []c55bGroup {
	r := strings.Repeat
	return []c55bGroup{
		{"a", []string{r("A", 1)}},                    // 2
		{"a", []string{r("B", 1), r("C", 10)}},        // 2, 11
		{"b", []string{r("D", 10)}},                   // 11
		{"c", []string{r("E", 11)}},                   // 12
		{"d", []string{r("F", 25)}},                   // 26
		{"grpc-trace-bin", []string{""}},              // 14
		{"grpc-trace-bin", []string{r("G", 20)}},      // 34
		{"grpc-trace-bin", []string{"H", r("I", 12)}}, // 15, 26
		{"grpc-x", []string{"J"}},                     // omitted
	}
}

func c55bRegroup(es []c55Ent) []c55bGroup {
	var gs []c55bGroup
	for _, e := range es {
		if n := len(gs); n > 0 && gs[n-1].K == e.K {
			gs[n-1].Vs = append(gs[n-1].Vs, e.V)
		} else {
			gs = append(gs, c55bGroup{e.K, []string{e.V}})
		}
	}
	return gs
}

type c55bStat struct {
	evals, nontriv, dropped, keptAll, tbFitsBeforeRegular int64
	alt                                                   [5]int64
	_pad                                                  [8]int64
}

func TestVerif_C55_Boundary(t *testing.T) {
	const P = "C55"
	r := vk.Start(t, "c55_boundary", "exploration", P)
	defer r.Finish()

	maxLen := r.Pick(4, 5)
	mapKeys := r.Pick(3, 4)
	repeats := r.Pick(8, 16)
	r.Rule(P, fmt.Sprintf("every ORDERED header list of length<=%d over 10 entries {regular a=2B, b=11B, c=12B, d=26B; grpc-trace-bin of 14B, 15B, 26B, 34B; omitted grpc-x of 7B, 18B} (so the trace entry occurs first, in the middle and last, fitting and not fitting), times every header limit in {s-1, s, s+1 : s a subset sum of the list's entry sizes} + {0, 2^40, MaxUint64} (this contains every prefix sum with and without the trace entries, every exact fit and one-over). Each case is run (i) through the real mdToMetadataProto + truncateMetadata, (ii) through the real Log() -> Build() -> sink as a client header and as a server header with the entries in the enumerated order; compared with the statement's rule by brute force over prefix lengths. (iii) real ClientHeader/ServerHeader with multi-key metadata.MD of <=%d keys (9 key groups incl. multi-valued keys), limits derived the same way, rebuilt in every insertion order x %d repeats: every log entry must equal the statement's result for some cross-key order. Non-trivial = cases where the statement drops something or a grpc-trace-bin entry that fits the limit precedes a regular entry; all enumerated cases are distinct", maxLen, mapKeys, repeats))
	r.Assume(P, "sub-leg (iii): which cross-key orders Go's map iteration produces is not controlled; a correct tree passes for every order (deterministic verdict), detection of an order-dependent defect there relies on the insertion-order x repeat sweep; the deterministic detection of order-dependent defects is sub-leg (ii), where the order is enumerated")

	if r.ReplayFile() != "" {
		var rp c55Replay
		if err := r.LoadReplay(&rp); err != nil {
			r.EngineError("replay: %v", err)
			return
		}
		r.Eval(P, 1)
		var class, desc string
		switch rp.Kind {
		case "md":
			got, flag, pan := c55RunMD(rp.Headers, rp.Limit)
			class, desc = c55Classify(rp.Headers, rp.Limit, got, flag, pan)
		case "log-client", "log-server":
			got, flag, pan := c55bRunLog(rp.Headers, rp.Limit, rp.Kind == "log-server")
			class, desc = c55Classify(rp.Headers, rp.Limit, got, flag, pan)
			if class != "" {
				class, desc = "log/"+class, "via Log()/Build(): "+desc
			}
		case "build-map":
			if bad, _ := c55bCheckMap(c55bRegroup(rp.Headers), rp.Limit, 64); bad != "" {
				class, desc = "build-map/no-order-explains-output", bad
			}
		default:
			r.EngineError("unknown replay kind %q", rp.Kind)
			return
		}
		fmt.Printf("replay: class=%q\n%s\n", class, desc)
		if class != "" {
			r.Violation(P, class, desc, rp)
		}
		return
	}

	finds := &c55Finds{}
	total := c55NumLists(len(c55bAlphabet), maxLen)
	stats := make([]c55bStat, runtime.GOMAXPROCS(0)+1)
	var over atomic.Bool
	var nLimits atomic.Int64

	c55Par(total, func(w int, i int64) {
		if over.Load() {
			return
		}
		if i%2048 == 0 && r.OverBudget() {
			over.Store(true)
			return
		}
		raw := c55ListAt(i, c55bAlphabet, maxLen)
		limits := c55bLimits(raw)
		nLimits.Add(int64(len(limits)))
		st := &stats[w]
		for li, lim := range limits {
			loggable, cut, want, wantFlag := c55Expect(raw, lim)
			st.evals++
			// coverage statistics
			nt := wantFlag
			if wantFlag {
				st.dropped++
			} else {
				st.keptAll++
			}
			seenFitTB := false
			for _, e := range loggable {
				if e.K == "grpc-trace-bin" {
					if uint64(len(e.K)+len(e.V)) <= lim {
						seenFitTB = true
					}
				} else if seenFitTB {
					st.tbFitsBeforeRegular++
					nt = true
					break
				}
			}
			if nt {
				st.nontriv++
			}
			for m := range st.alt {
				if !c55Eq(c55bAlt(loggable, lim, m), want) {
					st.alt[m]++
				}
			}
			// (i) truncateMetadata
			got, flag, pan := c55RunMD(raw, lim)
			if class, desc := c55ClassifyExp(raw, lim, got, flag, pan, loggable, cut, want, wantFlag); class != "" {
				finds.add(class, [2]int64{i, int64(li)}, desc, c55Replay{Kind: "md", Headers: raw, Limit: lim})
			}
			// (ii) Log() -> Build() -> sink, client and server header
			for side := 0; side < 2; side++ {
				kind := []string{"log-client", "log-server"}[side]
				got, flag, pan := c55bRunLog(raw, lim, side == 1)
				if class, desc := c55ClassifyExp(raw, lim, got, flag, pan, loggable, cut, want, wantFlag); class != "" {
					finds.add("log/"+class, [2]int64{i, int64(li)*2 + int64(side)}, "via Log()/Build() ("+kind+"): "+desc, c55Replay{Kind: kind, Headers: raw, Limit: lim})
				}
			}
		}
	})
	var sum c55bStat
	for _, s := range stats {
		sum.evals += s.evals
		sum.nontriv += s.nontriv
		sum.dropped += s.dropped
		sum.keptAll += s.keptAll
		sum.tbFitsBeforeRegular += s.tbFitsBeforeRegular
		for m := range sum.alt {
			sum.alt[m] += s.alt[m]
		}
	}
	if over.Load() {
		r.Cap(P, "time budget hit during boundary-limit enumeration: not every list of the stated bound was evaluated")
	}
	r.Eval(P, sum.evals)
	r.NontrivialN(P, sum.nontriv)
	r.Set(P, "boundary_lists", total)
	r.Set(P, "boundary_cases", sum.evals)
	r.Set(P, "boundary_limits_total", nLimits.Load())
	r.Set(P, "boundary_log_path_runs", 2*sum.evals)
	oc := map[string]int64{"bnd:nothing-dropped": sum.keptAll, "bnd:something-dropped": sum.dropped, "bnd:fitting-trace-bin-before-regular-entry": sum.tbFitsBeforeRegular}
	for m, name := range c55bAltNames {
		oc["bnd:tells-apart/"+name] = sum.alt[m]
		if sum.alt[m] == 0 && !over.Load() {
			r.EngineError("vacuous domain: no enumerated case distinguishes the statement from the wrong rule %q", name)
		}
	}
	for k, v := range oc {
		if v > 0 {
			r.Outcome(P, k)
		}
	}
	r.Set(P, "boundary_outcome_counts", oc)

	// (iii) real multi-key maps through Build()
	groups := c55bGroups()
	var sets [][]c55bGroup
	var rec func(start int, cur []c55bGroup)
	rec = func(start int, cur []c55bGroup) {
		if len(cur) > 0 {
			sets = append(sets, append([]c55bGroup(nil), cur...))
		}
		if len(cur) == mapKeys {
			return
		}
		for gi := start; gi < len(groups); gi++ {
			dup := false
			for _, g := range cur {
				if g.K == groups[gi].K {
					dup = true
				}
			}
			if !dup {
				rec(gi+1, append(cur, groups[gi]))
			}
		}
	}
	rec(0, nil)
	var mEv, mNt, mBuilds atomic.Int64
	c55Par(int64(len(sets)), func(w int, si int64) {
		if over.Load() {
			return
		}
		if r.OverBudget() {
			over.Store(true)
			return
		}
		gs := sets[si]
		flat := c55bFlatten(gs)
		for li, lim := range c55bLimits(flat) {
			bad, b := c55bCheckMap(gs, lim, repeats)
			mEv.Add(1)
			mBuilds.Add(b)
			if _, _, _, wf := c55Expect(flat, lim); wf {
				mNt.Add(1)
			}
			if bad != "" {
				finds.add("build-map/no-order-explains-output", [2]int64{si, int64(li)}, fmt.Sprintf("metadata.MD %s headerLimit=%d: %s", c55Fmt(flat), lim, bad), c55Replay{Kind: "build-map", Headers: flat, Limit: lim})
			}
		}
	})
	if over.Load() {
		r.Cap(P, "time budget hit during the multi-key map sub-leg")
	}
	r.Eval(P, mEv.Load())
	r.NontrivialN(P, mNt.Load())
	r.Set(P, "map_cases", mEv.Load())
	r.Set(P, "map_metadata_sets", len(sets))
	r.Set(P, "map_build_calls", mBuilds.Load())

	classes := make([]string, 0, len(finds.m))
	for c := range finds.m {
		classes = append(classes, c)
	}
	sort.Strings(classes)
	for _, c := range classes {
		f := finds.m[c]
		r.Set(P, "failing_cases/"+c, f.count)
		r.Violation(P, c, fmt.Sprintf("%s\n  (%d enumerated cases fall in defect class %q; this is the first in enumeration order)", f.desc, f.count, c), f.rep)
	}

	r.Sample(P, map[string]any{"headers": "[grpc-trace-bin(34B) b(11B) c(12B)]", "limit": 23, "statement": "trace entry kept and not counted; 11+12=23 fits exactly: logged all three, truncated=false"})
	r.Sample(P, map[string]any{"headers": "[grpc-trace-bin(34B) b(11B) c(12B)]", "limit": 22, "statement": "b fits, c is one over: logged=[grpc-trace-bin b], truncated=true"})
	r.Sample(P, map[string]any{"headers": "[b(11B) grpc-x(7B) grpc-trace-bin(14B) c(12B)]", "limit": 23, "statement": "grpc-x omitted, trace not counted, 11+12=23 fits exactly: logged=[b grpc-trace-bin c], truncated=false"})
	r.Sample(P, map[string]any{"headers": "[d(26B) grpc-trace-bin(26B)]", "limit": 25, "statement": "d is one over, trace after the cut still kept: logged=[grpc-trace-bin], truncated=true"})
}
