//go:build verif

package binarylog

import (
	"fmt"
	"runtime"
	"sort"
	"strings"
	"sync"
	"sync/atomic"
	"testing"

	binlogpb "google.golang.org/grpc/binarylog/grpc_binarylog_v1"
	"google.golang.org/grpc/internal/verif/vk"
	"google.golang.org/grpc/metadata"
)

// ---- C55: binary logs are correctly truncated and never include omitted headers ----
//
// E3 (exhaustive input enumeration). Everything below the "oracle" banner is
// written from the property statement only:
//
//   - loggable entries = the header list minus the headers gRPC omits
//     (grpc-* other than grpc-trace-bin, :path, :authority, content-type,
//     user-agent, te, lb-token);
//   - logged = the longest prefix of the loggable entries whose key+value
//     sizes fit in the header limit, grpc-trace-bin ALWAYS kept and not
//     counted (so a grpc-trace-bin entry after the cut is still expected);
//   - truncated flag <=> something was dropped;
//   - message: at most `limit` bytes, a prefix of the payload, flag <=> dropped.

type c55Ent struct {
	K string `json:"k"`
	V string `json:"v"`
}

// Canonical enumeration order of the alphabet: this order defines which
// failing input is "minimal" for a defect class, so do not reorder.
var c55Keys = []string{"a", "grpc-trace-bin", "grpc-x", ":path", "lb-token", "te", "content-type", "user-agent", ":authority", "b-bin"}
var c55ValLens = []int{0, 1, 5}

const c55Huge = uint64(1) << 40
const c55MaxU = ^uint64(0)

// ---------------------------------------------------------------- oracle ----

func c55SpecOmitted(k string) bool {
	switch k {
	case ":path", ":authority", "content-type", "user-agent", "te", "lb-token":
		return true
	}
	if k == "grpc-trace-bin" {
		return false
	}
	return len(k) >= 5 && k[:5] == "grpc-"
}

func c55Counted(es []c55Ent) uint64 {
	var n uint64
	for _, e := range es {
		if e.K != "grpc-trace-bin" {
			n += uint64(len(e.K) + len(e.V))
		}
	}
	return n
}

// c55Expect returns the loggable list, the length of the longest fitting
// prefix of it (brute force over every prefix length), what must be logged and
// the truncated flag.
func c55Expect(raw []c55Ent, limit uint64) (loggable []c55Ent, cut int, want []c55Ent, truncated bool) {
	for _, e := range raw {
		if !c55SpecOmitted(e.K) {
			loggable = append(loggable, e)
		}
	}
	for n := 0; n <= len(loggable); n++ {
		if c55Counted(loggable[:n]) <= limit {
			cut = n // keep the longest; sizes are non-negative so fitting prefixes are nested
		}
	}
	want = append(want, loggable[:cut]...)
	for _, e := range loggable[cut:] {
		if e.K == "grpc-trace-bin" { // always kept
			want = append(want, e)
		}
	}
	return loggable, cut, want, len(want) < len(loggable)
}

func c55Eq(a, b []c55Ent) bool {
	if len(a) != len(b) {
		return false
	}
	for i := range a {
		if a[i] != b[i] {
			return false
		}
	}
	return true
}

func c55IsSubseq(sub, of []c55Ent) bool {
	j := 0
	for _, e := range of {
		if j < len(sub) && sub[j] == e {
			j++
		}
	}
	return j == len(sub)
}

func c55OnlyCounted(es []c55Ent) []c55Ent {
	var o []c55Ent
	for _, e := range es {
		if e.K != "grpc-trace-bin" {
			o = append(o, e)
		}
	}
	return o
}

// c55Classify compares what the real code logged with the statement. It
// returns "" or ONE defect class (the violation key) plus a description.
// Classes are deliberately narrow: each names one way of breaking the
// statement, so that a known defect of one class cannot mask another.
func c55Classify(raw []c55Ent, limit uint64, got []c55Ent, flag bool, pan any) (class, desc string) {
	loggable, cut, want, wantFlag := c55Expect(raw, limit)
	return c55ClassifyExp(raw, limit, got, flag, pan, loggable, cut, want, wantFlag)
}

func c55ClassifyExp(raw []c55Ent, limit uint64, got []c55Ent, flag bool, pan any, loggable []c55Ent, cut int, want []c55Ent, wantFlag bool) (class, desc string) {
	d := func(what string) string {
		return fmt.Sprintf("%s\n  headers=%s headerLimit=%d\n  loggable=%s longest fitting prefix=%d entries\n  statement: logged=%s truncated=%v\n  real code: logged=%s truncated=%v",
			what, c55Fmt(raw), limit, c55Fmt(loggable), cut, c55Fmt(want), wantFlag, c55Fmt(got), flag)
	}
	if pan != nil {
		return "panic", d(fmt.Sprintf("panic: %v", pan))
	}
	for _, e := range got {
		if c55SpecOmitted(e.K) {
			return "omitted-header-logged", d(fmt.Sprintf("header %q must never appear in a log entry", e.K))
		}
	}
	if c55Eq(got, want) {
		if flag != wantFlag {
			if flag {
				return "flag-set-nothing-dropped", d("truncated flag set although nothing was dropped")
			}
			return "flag-clear-but-dropped", d("entries were dropped but the truncated flag is clear")
		}
		return "", ""
	}
	if !c55IsSubseq(got, loggable) {
		return "entries-altered", d("logged entries are not a sub-sequence of the loggable entries (reordered, duplicated, altered or invented)")
	}
	if c55Counted(got) > limit {
		return "limit-exceeded", d(fmt.Sprintf("logged entries count %d bytes > header limit", c55Counted(got)))
	}
	if c55Eq(got, loggable[:cut]) {
		// exactly the fitting prefix, i.e. the only thing missing is the
		// grpc-trace-bin entries positioned after the cut.
		if !flag {
			return "flag-clear-but-dropped", d("entries were dropped but the truncated flag is clear")
		}
		return "trace-bin-after-cut", d("a grpc-trace-bin entry positioned after the first non-fitting entry was dropped; the statement says grpc-trace-bin is always kept")
	}
	gc, wc := c55OnlyCounted(got), c55OnlyCounted(want)
	if len(gc) < len(wc) && c55Eq(gc, wc[:len(gc)]) {
		return "cut-too-early", d("fewer size-counted entries were logged than fit in the header limit")
	}
	if c55Eq(gc, wc) {
		return "trace-bin-handling", d("the size-counted entries are right but the grpc-trace-bin entries kept differ from the statement in a way other than 'dropped after the cut'")
	}
	return "not-a-prefix", d("the size-counted entries logged are not a prefix of the loggable entries (an entry was skipped and a later one kept)")
}

func c55Fmt(es []c55Ent) string {
	var sb strings.Builder
	sb.WriteByte('[')
	for i, e := range es {
		if i > 0 {
			sb.WriteByte(' ')
		}
		fmt.Fprintf(&sb, "%s=%q", e.K, e.V)
	}
	sb.WriteByte(']')
	return sb.String()
}

// ------------------------------------------------------ driving the code ----

// c55RunMD pushes an ORDERED header list through the real code: every header
// goes through the real mdToMetadataProto (one single-key MD per header so
// that the order is ours, not Go's map order), the results are concatenated
// and handed to the real truncateMetadata.
func c55RunMD(raw []c55Ent, limit uint64) (got []c55Ent, flag bool, pan any) {
	defer func() {
		if p := recover(); p != nil {
			pan = p
		}
	}()
	pb := &binlogpb.Metadata{}
	for _, e := range raw {
		part := mdToMetadataProto(metadata.MD{e.K: []string{e.V}})
		pb.Entry = append(pb.Entry, part.GetEntry()...)
	}
	ml := &TruncatingMethodLogger{headerMaxLen: limit, messageMaxLen: c55MaxU}
	flag = ml.truncateMetadata(pb)
	got = make([]c55Ent, 0, len(pb.Entry))
	for _, e := range pb.Entry {
		got = append(got, c55Ent{e.GetKey(), string(e.GetValue())})
	}
	return got, flag, nil
}

func c55Payload(n int) []byte {
	b := make([]byte, n)
	for i := range b {
		b[i] = byte(i + 1)
	}
	return b
}

func c55RunMsg(n int, limit uint64) (got []byte, flag bool, pan any) {
	defer func() {
		if p := recover(); p != nil {
			pan = p
		}
	}()
	msg := &binlogpb.Message{Length: uint32(n), Data: c55Payload(n)}
	ml := &TruncatingMethodLogger{headerMaxLen: c55MaxU, messageMaxLen: limit}
	flag = ml.truncateMessage(msg)
	return msg.Data, flag, nil
}

func c55ClassifyMsg(n int, limit uint64, got []byte, flag bool, pan any) (class, desc string) {
	pay := c55Payload(n)
	d := func(what string) string {
		return fmt.Sprintf("%s\n  payload length=%d messageLimit=%d\n  real code: data=%v truncated=%v", what, n, limit, got, flag)
	}
	if pan != nil {
		return "msg-panic", d(fmt.Sprintf("panic: %v", pan))
	}
	if uint64(len(got)) > limit {
		return "msg-limit-exceeded", d("logged message data is longer than the message limit")
	}
	if len(got) > len(pay) || string(got) != string(pay[:len(got)]) {
		return "msg-not-a-prefix", d("logged message data is not a prefix of the payload")
	}
	if flag != (len(got) < len(pay)) {
		if flag {
			return "msg-flag-set-nothing-dropped", d("truncated flag set although the whole payload was logged")
		}
		return "msg-flag-clear-but-dropped", d("payload bytes were dropped but the truncated flag is clear")
	}
	wantLen := uint64(len(pay))
	if limit < wantLen {
		wantLen = limit
	}
	if uint64(len(got)) < wantLen {
		return "msg-over-truncated", d("fewer payload bytes were logged than the message limit allows")
	}
	return "", ""
}

// ------------------------------------------------------------ enumeration ----

func c55Symbols() []c55Ent { // key-major, value length minor; value content filled per position
	var s []c55Ent
	for _, k := range c55Keys {
		for _, l := range c55ValLens {
			s = append(s, c55Ent{k, strings.Repeat("v", l)})
		}
	}
	return s
}

// c55ListAt decodes list number i (shorter lists first, then lexicographic in
// symbol order). Values get a per-position letter so that reordering shows.
func c55ListAt(i int64, syms []c55Ent, maxLen int) []c55Ent {
	n := int64(len(syms))
	l := 0
	cnt := int64(1)
	for l <= maxLen && i >= cnt {
		i -= cnt
		cnt *= n
		l++
	}
	out := make([]c55Ent, l)
	for p := l - 1; p >= 0; p-- {
		s := syms[i%n]
		i /= n
		out[p] = c55Ent{s.K, strings.Repeat(string(rune('p'+p)), len(s.V))}
	}
	return out
}

func c55NumLists(nsym, maxLen int) int64 {
	t, c := int64(0), int64(1)
	for l := 0; l <= maxLen; l++ {
		t += c
		c *= int64(nsym)
	}
	return t
}

type c55Min struct {
	ord   [2]int64 // canonical order: (list number, limit number)
	desc  string
	rep   any
	count int64
}

type c55Finds struct {
	mu sync.Mutex
	m  map[string]*c55Min
}

func (f *c55Finds) add(class string, ord [2]int64, desc string, rep any) {
	f.mu.Lock()
	defer f.mu.Unlock()
	if f.m == nil {
		f.m = map[string]*c55Min{}
	}
	cur := f.m[class]
	if cur == nil {
		f.m[class] = &c55Min{ord: ord, desc: desc, rep: rep, count: 1}
		return
	}
	cur.count++
	if ord[0] < cur.ord[0] || (ord[0] == cur.ord[0] && ord[1] < cur.ord[1]) {
		cur.ord, cur.desc, cur.rep = ord, desc, rep
	}
}

type c55Replay struct {
	Kind    string   `json:"kind"` // "md" | "msg" | "build-md" | "build-msg" | "md-proto"
	Headers []c55Ent `json:"headers,omitempty"`
	Limit   uint64   `json:"limit"`
	Len     int      `json:"len,omitempty"`
}

func c55Par(total int64, f func(w int, i int64)) {
	nw := runtime.GOMAXPROCS(0)
	if nw < 1 {
		nw = 1
	}
	var wg sync.WaitGroup
	chunk := (total + int64(nw) - 1) / int64(nw)
	for w := 0; w < nw; w++ {
		a, b := int64(w)*chunk, int64(w+1)*chunk
		if b > total {
			b = total
		}
		if a >= b {
			continue
		}
		wg.Add(1)
		go func(w int) {
			defer wg.Done()
			for i := a; i < b; i++ {
				f(w, i)
			}
		}(w)
	}
	wg.Wait()
}

type c55Stat struct {
	evals, nontriv                                       int64
	keptAll, cutSome, cutAll, tbBeyond, omittedIn, tbAft int64
	_pad                                                 [8]int64
}

func TestVerif_C55_BinaryLog(t *testing.T) {
	const P = "C55"
	r := vk.Start(t, "c55_binarylog", "exploration", P)
	defer r.Finish()

	maxLen := r.Pick(4, 5)
	var limits []uint64
	for l := 0; l <= 12; l++ {
		limits = append(limits, uint64(l))
	}
	limits = append(limits, c55Huge, c55MaxU)
	msgMax := r.Pick(6, 12)

	r.Rule(P, fmt.Sprintf("header part: every ordered header list of length<=%d over 10 keys {a, grpc-trace-bin, grpc-x, :path, lb-token, te, content-type, user-agent, :authority, b-bin} x value lengths {0,1,5}, times every header limit in {0..%d, 2^40, MaxUint64}; each header goes through the real mdToMetadataProto (single-key MD, so the order is the enumerated one), the concatenation through the real truncateMetadata; result compared with the statement's prefix rule computed by brute force over prefix lengths. Message part: payload lengths 0..%d x limits {0..%d, 2^40, MaxUint64} through truncateMessage. Plus Build()-level wiring cases and multi-key mdToMetadataProto maps (order-insensitive oracle). Non-trivial = header cases in which the statement requires something to be dropped or filtered (an omitted header present, or the limit cuts the list) and message cases with payload longer than the limit; all enumerated cases are distinct inputs", maxLen, len(limits)-3, msgMax, msgMax))
	r.Assume(P, "headers are fed as single-key metadata.MD values concatenated in the enumerated order: mdToMetadataProto iterates a Go map, so cross-key order of a real multi-key MD is unspecified; the prefix rule is checked relative to the order the entries have when they reach truncateMetadata")
	r.Assume(P, "values are byte strings of length 0/1/5; keys are the 10 listed; other keys and longer lists are outside the bound")

	if r.ReplayFile() != "" {
		var rp c55Replay
		if err := r.LoadReplay(&rp); err != nil {
			r.EngineError("replay: %v", err)
			return
		}
		r.Eval(P, 1)
		var class, desc string
		switch rp.Kind {
		case "md":
			got, flag, pan := c55RunMD(rp.Headers, rp.Limit)
			class, desc = c55Classify(rp.Headers, rp.Limit, got, flag, pan)
		case "msg":
			got, flag, pan := c55RunMsg(rp.Len, rp.Limit)
			class, desc = c55ClassifyMsg(rp.Len, rp.Limit, got, flag, pan)
		default:
			r.EngineError("replay kind %q is only reproduced by a full run", rp.Kind)
			return
		}
		fmt.Printf("replay: class=%q\n%s\n", class, desc)
		if class != "" {
			r.Violation(P, class, desc, rp)
		}
		return
	}

	finds := &c55Finds{}
	syms := c55Symbols()
	total := c55NumLists(len(syms), maxLen)
	stats := make([]c55Stat, runtime.GOMAXPROCS(0)+1)

	// ---- 1. header lists x limits ----
	var over atomic.Bool
	c55Par(total, func(w int, i int64) {
		if over.Load() {
			return
		}
		if i%8192 == 0 && r.OverBudget() {
			over.Store(true)
			return
		}
		raw := c55ListAt(i, syms, maxLen)
		st := &stats[w]
		for li, lim := range limits {
			got, flag, pan := c55RunMD(raw, lim)
			loggable, cut, want, wantFlag := c55Expect(raw, lim)
			class, desc := c55ClassifyExp(raw, lim, got, flag, pan, loggable, cut, want, wantFlag)
			st.evals++
			nt := false
			if len(loggable) < len(raw) {
				st.omittedIn++
				nt = true
			}
			switch {
			case !wantFlag:
				st.keptAll++
			case len(want) == 0:
				st.cutAll++
				nt = true
			default:
				st.cutSome++
				nt = true
			}
			if wantFlag && len(want) > cut {
				st.tbAft++ // statement keeps a grpc-trace-bin positioned after the cut
			}
			for _, e := range want {
				if e.K == "grpc-trace-bin" && uint64(len(e.K)+len(e.V)) > lim {
					st.tbBeyond++ // a grpc-trace-bin larger than the whole limit is kept
					break
				}
			}
			if nt {
				st.nontriv++
			}
			if class != "" {
				finds.add(class, [2]int64{i, int64(li)}, desc, c55Replay{Kind: "md", Headers: raw, Limit: lim})
			}
		}
	})
	var sum c55Stat
	for _, s := range stats {
		sum.evals += s.evals
		sum.nontriv += s.nontriv
		sum.keptAll += s.keptAll
		sum.cutSome += s.cutSome
		sum.cutAll += s.cutAll
		sum.tbBeyond += s.tbBeyond
		sum.omittedIn += s.omittedIn
		sum.tbAft += s.tbAft
	}
	if over.Load() {
		r.Cap(P, "time budget hit during header-list enumeration: not every list of the stated bound was evaluated")
	}
	r.Eval(P, sum.evals)
	r.NontrivialN(P, sum.nontriv)
	r.Set(P, "header_cases", sum.evals)
	r.Set(P, "header_lists", total)
	r.Set(P, "header_limits", len(limits))
	oc := map[string]int64{"hdr:nothing-dropped": sum.keptAll, "hdr:some-dropped": sum.cutSome, "hdr:everything-dropped": sum.cutAll, "hdr:omitted-header-in-input": sum.omittedIn, "hdr:trace-bin-expected-after-cut": sum.tbAft, "hdr:trace-bin-bigger-than-limit-kept": sum.tbBeyond}
	for k, v := range oc {
		if v > 0 {
			r.Outcome(P, k)
		}
	}

	// ---- 2. messages ----
	var mEv, mNt int64
	mlimits := []uint64{}
	for l := 0; l <= msgMax; l++ {
		mlimits = append(mlimits, uint64(l))
	}
	mlimits = append(mlimits, c55Huge, c55MaxU)
	for n := 0; n <= msgMax; n++ {
		for li, lim := range mlimits {
			got, flag, pan := c55RunMsg(n, lim)
			class, desc := c55ClassifyMsg(n, lim, got, flag, pan)
			mEv++
			if uint64(n) > lim {
				mNt++
				oc["msg:truncated"]++
			} else if uint64(n) == lim {
				oc["msg:exactly-at-limit"]++
			} else {
				oc["msg:below-limit"]++
			}
			if class != "" {
				finds.add(class, [2]int64{int64(n), int64(li)}, desc, c55Replay{Kind: "msg", Len: n, Limit: lim})
			}
		}
	}
	for _, k := range []string{"msg:truncated", "msg:exactly-at-limit", "msg:below-limit"} {
		if oc[k] > 0 {
			r.Outcome(P, k)
		}
	}
	r.Eval(P, mEv)
	r.NontrivialN(P, mNt)
	r.Set(P, "outcome_counts", oc)
	r.Set(P, "message_cases", mEv)

	// ---- 3. Build()-level wiring: the truncation result and flag must reach
	// the log entry for client/server headers and client/server messages ----
	var bEv int64
	for _, s := range syms {
		for _, second := range []string{"", "qq"} {
			raw := []c55Ent{{s.K, strings.Repeat("p", len(s.V))}}
			vals := []string{raw[0].V}
			if second != "" {
				raw = append(raw, c55Ent{s.K, second})
				vals = append(vals, second)
			}
			for li, lim := range limits {
				for side := 0; side < 2; side++ {
					var got []c55Ent
					var flag bool
					var pan any
					func() {
						defer func() {
							if p := recover(); p != nil {
								pan = p
							}
						}()
						ml := &TruncatingMethodLogger{headerMaxLen: lim, messageMaxLen: c55MaxU, idWithinCallGen: &callIDGenerator{}}
						var e *binlogpb.GrpcLogEntry
						var md *binlogpb.Metadata
						if side == 0 {
							e = ml.Build(&ClientHeader{OnClientSide: true, Header: metadata.MD{s.K: vals}, MethodName: "/s/m"})
							md = e.GetClientHeader().GetMetadata()
						} else {
							e = ml.Build(&ServerHeader{OnClientSide: true, Header: metadata.MD{s.K: vals}})
							md = e.GetServerHeader().GetMetadata()
						}
						flag = e.GetPayloadTruncated()
						for _, x := range md.GetEntry() {
							got = append(got, c55Ent{x.GetKey(), string(x.GetValue())})
						}
					}()
					bEv++
					if class, desc := c55Classify(raw, lim, got, flag, pan); class != "" {
						finds.add("build/"+class, [2]int64{bEv, int64(li)}, "via Build(): "+desc, c55Replay{Kind: "build-md", Headers: raw, Limit: lim})
					}
				}
			}
		}
	}
	for n := 0; n <= msgMax; n++ {
		for li, lim := range mlimits {
			for side := 0; side < 2; side++ {
				var got []byte
				var flag bool
				var pan any
				func() {
					defer func() {
						if p := recover(); p != nil {
							pan = p
						}
					}()
					ml := &TruncatingMethodLogger{headerMaxLen: c55MaxU, messageMaxLen: lim, idWithinCallGen: &callIDGenerator{}}
					var e *binlogpb.GrpcLogEntry
					if side == 0 {
						e = ml.Build(&ClientMessage{OnClientSide: true, Message: c55Payload(n)})
					} else {
						e = ml.Build(&ServerMessage{OnClientSide: true, Message: c55Payload(n)})
					}
					got, flag = e.GetMessage().GetData(), e.GetPayloadTruncated()
				}()
				bEv++
				if class, desc := c55ClassifyMsg(n, lim, got, flag, pan); class != "" {
					finds.add("build/"+class, [2]int64{bEv, int64(li)}, "via Build(): "+desc, c55Replay{Kind: "build-msg", Len: n, Limit: lim})
				}
			}
		}
	}
	r.Eval(P, bEv)
	r.Set(P, "build_wiring_cases", bEv)

	// ---- 4. multi-key maps through mdToMetadataProto (cross-key order is the
	// map's, so the oracle is per key): omitted keys absent, every other key's
	// values present exactly once, in order ----
	valOpts := [][]string{{""}, {"x"}, {"xxxxx"}, {"x", "yyyyy"}, {"yyyyy", "", "x"}}
	maxKeys := r.Pick(3, 4)
	var pEv, pNt int64
	var rec func(start int, md metadata.MD)
	rec = func(start int, md metadata.MD) {
		pEv++
		cp := metadata.MD{}
		anyOmit := false
		for k, v := range md {
			cp[k] = append([]string(nil), v...)
			if c55SpecOmitted(k) {
				anyOmit = true
			}
		}
		if anyOmit {
			pNt++
		}
		var pb *binlogpb.Metadata
		var pan any
		func() {
			defer func() {
				if p := recover(); p != nil {
					pan = p
				}
			}()
			pb = mdToMetadataProto(cp)
		}()
		per := map[string][]string{}
		for _, e := range pb.GetEntry() {
			per[e.GetKey()] = append(per[e.GetKey()], string(e.GetValue()))
		}
		bad := ""
		if pan != nil {
			bad = fmt.Sprintf("panic: %v", pan)
		}
		keys := make([]string, 0, len(md))
		for k := range md {
			keys = append(keys, k)
		}
		sort.Strings(keys)
		for _, k := range keys {
			if c55SpecOmitted(k) {
				if _, ok := per[k]; ok && bad == "" {
					bad = fmt.Sprintf("omitted header %q appears", k)
				}
				continue
			}
			if strings.Join(per[k], "\x00") != strings.Join(md[k], "\x00") || len(per[k]) != len(md[k]) {
				if bad == "" {
					bad = fmt.Sprintf("key %q: logged values %q, metadata has %q", k, per[k], md[k])
				}
			}
		}
		for k := range per {
			if _, ok := md[k]; !ok && bad == "" {
				bad = fmt.Sprintf("invented key %q", k)
			}
		}
		if bad != "" {
			class := "md-proto-mismatch"
			if strings.HasPrefix(bad, "omitted") {
				class = "omitted-header-logged"
			}
			finds.add(class, [2]int64{pEv, 0}, fmt.Sprintf("mdToMetadataProto(%v): %s", map[string][]string(md), bad), c55Replay{Kind: "md-proto"})
		}
		if len(md) == maxKeys {
			return
		}
		for ki := start; ki < len(c55Keys); ki++ {
			for _, vo := range valOpts {
				md[c55Keys[ki]] = vo
				rec(ki+1, md)
			}
			delete(md, c55Keys[ki])
		}
	}
	rec(0, metadata.MD{})
	r.Eval(P, pEv)
	r.NontrivialN(P, pNt)
	r.Set(P, "md_proto_map_cases", pEv)

	// ---- 5. observations that are recorded, not judged (see claims note) ----
	func() {
		defer func() { recover() }()
		ml := &TruncatingMethodLogger{headerMaxLen: 0, messageMaxLen: 0, idWithinCallGen: &callIDGenerator{}}
		e := ml.Build(&ServerTrailer{OnClientSide: true, Trailer: metadata.MD{"a": {"ppppp"}}})
		r.Set(P, "observed_trailer_metadata_entries_logged_with_header_limit_0", len(e.GetTrailer().GetMetadata().GetEntry()))
		r.Set(P, "observed_trailer_payload_truncated_flag", e.GetPayloadTruncated())
		r.Set(P, "observed_content-encoding_omitted_by_code", metadataKeyOmit("content-encoding"))
	}()

	// ---- report: ONE violation per defect class, carrying the minimal
	// failing input in canonical enumeration order ----
	classes := make([]string, 0, len(finds.m))
	for c := range finds.m {
		classes = append(classes, c)
	}
	sort.Strings(classes)
	for _, c := range classes {
		f := finds.m[c]
		r.Set(P, "failing_cases/"+c, f.count)
		r.Violation(P, c, fmt.Sprintf("%s\n  (%d enumerated cases fall in defect class %q; this is the first in enumeration order)", f.desc, f.count, c), f.rep)
	}

	r.Sample(P, map[string]any{"headers": "[a=\"p\" :path=\"q\" b-bin=\"rrrrr\" grpc-trace-bin=\"\"]", "limit": 2, "statement": "loggable=[a b-bin grpc-trace-bin]; prefix [a] fits (2 bytes), b-bin (10) does not; logged=[a grpc-trace-bin] truncated=true"})
	r.Sample(P, map[string]any{"headers": "[grpc-trace-bin=\"ppppp\" a=\"\"]", "limit": 1, "statement": "grpc-trace-bin (19 bytes) not counted; logged=[grpc-trace-bin a] truncated=false"})
	r.Sample(P, map[string]any{"headers": "[te=\"p\" grpc-x=\"q\"]", "limit": 0, "statement": "nothing loggable; logged=[] truncated=false"})
	r.Sample(P, map[string]any{"payload_len": 6, "message_limit": 6, "statement": "whole payload logged, truncated=false"})
	r.Sample(P, map[string]any{"payload_len": 6, "message_limit": 5, "statement": "first 5 bytes logged, truncated=true"})
}
