//go:build verif

// Package h_c42 hosts the E4 event-history harness for the generic xDS client
// (properties C42, C43, C44): the real xdsclient.XDSClient is driven through
// its exported API against a scripted clients.TransportBuilder inside a
// testing/synctest bubble and compared, after every event, with a reference
// model written from the property statements.
//
// The package is virtual (it exists only in the go -overlay) and lives below
// internal/xds/clients/xdsclient so that it may import that package's
// internal test hooks (deterministic stream backoff, error classification).
package h_c42
