//go:build verif

package h_c42

// Reference model, written from the statements of C42/C43/C44 (plus the xDS
// protocol's definition of the 15 s "does not exist" timer and gRFC A57/A71 for
// what counts as a connectivity failure). It never looks at the client: given
// the event history it produces, per step, the exact expectations that
// c42_explore_test.go compares with what the scripted transport and the
// watchers observed. Where the statements leave something open the
// expectation says so (optional callbacks, sets of admissible name lists).

import (
	"fmt"
	"sort"
	"strings"
	"time"
)

// ---- events ----

type c42RV struct {
	N string // resource name
	V string // "1","2" (valid values) or "X" (fails validation)
}

// c42Ev is one event of a history.
//
//	W<i>            toggle watcher i (register its watch / cancel it)
//	R<s>:<T>:<spec> server s sends a response of type T; spec lists name+value
//	                pairs ("a1b1", "aX", "-" = no resources)
//	U<s>            server s sends a response of a type the client does not know
//	E<s>            the stream to server s fails
//	C<s>            flip whether new streams to server s can be established
//	F<s>            the next request the client writes on server s's current
//	                stream is lost and the stream breaks (Send fails, then Recv)
//	A               advance virtual time by the scenario's step
//	L               the slow watcher calls every onDone it is holding
type c42Ev struct {
	K   byte
	W   int
	S   int
	T   int
	Res []c42RV
	Sym string
}

func c42ParseEv(sym string) c42Ev {
	ev := c42Ev{K: sym[0], Sym: sym}
	switch sym[0] {
	case 'W':
		ev.W = int(sym[1]-'0') - 1
	case 'U', 'E', 'C', 'F':
		ev.S = int(sym[1] - '0')
	case 'R':
		p := strings.Split(sym, ":")
		ev.S = int(p[0][1] - '0')
		ev.T = int(p[1][0]-'0') - 1
		if p[2] != "-" {
			for i := 0; i+1 < len(p[2]); i += 2 {
				ev.Res = append(ev.Res, c42RV{N: p[2][i : i+1], V: p[2][i+1 : i+2]})
			}
		}
	case 'A', 'L':
	default:
		panic("c42: bad event symbol " + sym)
	}
	return ev
}

type c42Key struct {
	T int
	N string
}

func (k c42Key) String() string { return fmt.Sprintf("T%d/%s", k.T+1, k.N) }

// c42Scenario fixes the finite universe one exploration works in.
type c42Scenario struct {
	Name      string
	NServers  int
	IgnoreDel bool          // servers carry the ignore_resource_deletion feature
	Slow      int           // watcher index that holds onDone until 'L'; -1 none
	Watchers  []c42Key      // resource watched by watcher i
	Dt        time.Duration // what 'A' advances
	Prefix    []string      // events applied (and checked) before the enumerated suffix
	Alpha     []string      // alphabet of the enumerated suffix
	DepthQ    int
	DepthT    int
	Props     []string // properties whose oracles are judged in this scenario
	// AvoidKnown prunes (in the enumeration only, never in the oracle) the
	// events at which the unchanged client is known to leave the statement
	// (see claims.json: D2, D3), so that the histories around them are still
	// explored in depth. The strict scenarios keep reporting those.
	AvoidKnown bool
	// ActiveOnly: the name lists of requests are judged only on the server that
	// is active at the end of the step ("on whichever server is currently
	// active, the next request names exactly the watched resources"); what the
	// servers that are merely being retried are told is C44's business (D2).
	// In the enumeration a revert to a higher-priority server is not taken
	// while a resource first watched on a fallback server is still watched
	// (after D2 the primary was never told about it).
	ActiveOnly bool
}

// ---- expectations ----

type c42SK struct{ Srv, Seq, T int }

type c42AckExp struct {
	Ver, Nonce string
	Nack       bool
	Names      []string
}

// c42ReqExp: what must be seen on one (server, stream, type) during one step:
// either an exact sequence of ACK/NACKs or one subscription group.
type c42ReqExp struct {
	Acks []c42AckExp

	Group      bool
	Ver, Nonce string
	NewStream  bool       // the stream was established in this step
	Closing    bool       // the channel is released in this step: trailing requests optional
	Snaps      [][]string // subscription sets of this type at the instants of this step, in order
}

type c42CbExp struct {
	c42Cb
	Opt  bool // the statement permits but does not require this callback
	Gate bool // produced by a response: its onDone gates the next read
}

type c42Exp struct {
	Reqs     map[c42SK]*c42ReqExp
	Cbs      [c42NW][]c42CbExp
	Tlog     [c42NS][]string
	Consumed map[[2]int]int
	Feat     map[string]bool // what happened (coverage classes)
	Active   int             // active server at the end of the step (-1 none)
}

// ---- state ----

const (
	c42StRequested = iota // nothing valid held, not known to be non-existent, not rejected
	c42StAcked
	c42StNacked   // the latest update for the resource was rejected
	c42StNotExist // timed out or removed
)

const (
	c42WsStarted = iota
	c42WsRequested
	c42WsReceived
	c42WsTimeout
)

type c42MRes struct {
	watchers []int
	val      string // held valid value, "" none
	status   int
}

type c42Ws struct {
	st int
	at time.Duration
}

type c42Item struct {
	K          byte // R U E
	T          int
	Ver, Nonce string
	Res        []c42RV
}

type c42MChan struct {
	exists  bool
	up      bool
	seq     int
	gotResp bool
	retryAt time.Duration // -1: none
	ver     [2]string
	nonce   [2]string
	hasType [2]bool
	subs    [2]map[string]bool
	ws      map[c42Key]*c42Ws
	queue   []c42Item
	gate    int
	failNext bool // armed: the next send on the current stream fails
	sendDead bool // a send failed: nothing more can be written on this stream
	snaps   [2][][]string
}

type c42Model struct {
	sc        *c42Scenario
	now       time.Duration
	connOK    [c42NS]bool
	watching  [c42NW]bool
	res       map[c42Key]*c42MRes
	active    int
	ch        [c42NS]*c42MChan
	streamCtr [c42NS]int
	lastC     int
	tainted   map[c42Key]bool // resources first watched while on a fallback server and still watched
	exp       *c42Exp
	bad       string // the model reached a situation it does not define
}

func c42NewModel(sc *c42Scenario) *c42Model {
	m := &c42Model{sc: sc, res: map[c42Key]*c42MRes{}, active: -1, lastC: -1, tainted: map[c42Key]bool{}}
	for i := range m.connOK {
		m.connOK[i] = true
	}
	for i := range m.ch {
		m.ch[i] = &c42MChan{retryAt: -1}
	}
	return m
}

func (m *c42Model) clone() *c42Model {
	n := *m
	n.exp = nil
	n.tainted = make(map[c42Key]bool, len(m.tainted))
	for k := range m.tainted {
		n.tainted[k] = true
	}
	n.res = make(map[c42Key]*c42MRes, len(m.res))
	for k, r := range m.res {
		rr := *r
		rr.watchers = append([]int(nil), r.watchers...)
		n.res[k] = &rr
	}
	for i, c := range m.ch {
		cc := *c
		for t := 0; t < 2; t++ {
			if c.subs[t] != nil {
				cc.subs[t] = make(map[string]bool, len(c.subs[t]))
				for k := range c.subs[t] {
					cc.subs[t][k] = true
				}
			}
			cc.snaps[t] = nil
		}
		if c.ws != nil {
			cc.ws = make(map[c42Key]*c42Ws, len(c.ws))
			for k, w := range c.ws {
				ww := *w
				cc.ws[k] = &ww
			}
		}
		cc.queue = append([]c42Item(nil), c.queue...)
		n.ch[i] = &cc
	}
	return &n
}

func c42SortedNames(s map[string]bool) []string {
	out := make([]string, 0, len(s))
	for k := range s {
		out = append(out, k)
	}
	sort.Strings(out)
	return out
}

func (m *c42Model) sortedKeys() []c42Key {
	ks := make([]c42Key, 0, len(m.res))
	for k := range m.res {
		ks = append(ks, k)
	}
	sort.Slice(ks, func(i, j int) bool {
		if ks[i].T != ks[j].T {
			return ks[i].T < ks[j].T
		}
		return ks[i].N < ks[j].N
	})
	return ks
}

// ---- applicability (pruning; model-only) ----

func (c *c42MChan) doomed() bool {
	for _, it := range c.queue {
		if it.K == 'E' {
			return true
		}
	}
	return false
}

func (m *c42Model) timerPending() bool {
	for _, c := range m.ch {
		if !c.exists {
			continue
		}
		if !c.up && c.retryAt >= 0 {
			return true
		}
		for _, w := range c.ws {
			if w.st == c42WsRequested {
				return true
			}
		}
	}
	return false
}

func (m *c42Model) applicable(ev c42Ev) bool {
	switch ev.K {
	case 'W':
		return ev.W < len(m.sc.Watchers)
	case 'C':
		return ev.S < m.sc.NServers && m.lastC != ev.S
	case 'F':
		if ev.S >= m.sc.NServers {
			return false
		}
		c := m.ch[ev.S]
		return c.exists && c.up && !c.failNext && !c.sendDead && !c.doomed()
	case 'R', 'U', 'E':
		if ev.S >= m.sc.NServers {
			return false
		}
		c := m.ch[ev.S]
		if !c.exists || !c.up || c.doomed() || len(c.queue) >= 8 {
			return false
		}
		if ev.K == 'R' && m.sc.ActiveOnly && ev.S < m.active && len(m.tainted) > 0 {
			return false
		}
		if ev.K == 'R' {
			// only types with a currently watched resource: what the client
			// owes for a response of a type it has no subscription for is not
			// stated.
			for k := range m.res {
				if k.T == ev.T {
					return true
				}
			}
			return false
		}
		return true
	case 'A':
		return m.timerPending()
	case 'L':
		for _, c := range m.ch {
			if c.exists && c.gate > 0 {
				return true
			}
		}
		return false
	}
	return false
}

// ---- step ----

func (m *c42Model) feat(f string) { m.exp.Feat[f] = true }

func (m *c42Model) apply(ev c42Ev, step int) *c42Exp {
	m.exp = &c42Exp{Reqs: map[c42SK]*c42ReqExp{}, Consumed: map[[2]int]int{}, Feat: map[string]bool{}}
	for _, c := range m.ch {
		for t := 0; t < 2; t++ {
			c.snaps[t] = nil
			if c.exists {
				c.snaps[t] = [][]string{c42SortedNames(c.subs[t])}
			}
		}
	}
	m.lastC = -1
	switch ev.K {
	case 'W':
		if m.watching[ev.W] {
			m.unwatch(ev.W)
		} else {
			m.watch(ev.W)
		}
	case 'R':
		c := m.ch[ev.S]
		c.queue = append(c.queue, c42Item{K: 'R', T: ev.T, Ver: c42Version(step), Nonce: c42Nonce(step), Res: ev.Res})
		m.pump(c)
	case 'U':
		c := m.ch[ev.S]
		c.queue = append(c.queue, c42Item{K: 'U', T: -1, Ver: c42Version(step), Nonce: c42Nonce(step)})
		m.pump(c)
	case 'E':
		c := m.ch[ev.S]
		c.queue = append(c.queue, c42Item{K: 'E'})
		m.pump(c)
	case 'C':
		m.connOK[ev.S] = !m.connOK[ev.S]
		m.lastC = ev.S
	case 'F':
		m.ch[ev.S].failNext = true
	case 'A':
		m.advance(m.sc.Dt)
	case 'L':
		for _, c := range m.ch {
			c.gate = 0
		}
		for _, c := range m.ch {
			m.pump(c)
		}
	}
	// a failed send leaves the stream's error for the reader: it is read once
	// the operation that tried to send is over
	for _, c := range m.ch {
		m.pump(c)
	}
	for sk, g := range m.exp.Reqs {
		if g.Group {
			g.Snaps = append([][]string(nil), m.ch[sk.Srv].snaps[sk.T]...)
		}
	}
	m.exp.Active = m.active
	return m.exp
}

func (m *c42Model) cb(w int, kind byte, val string, opt bool) {
	m.exp.Cbs[w] = append(m.exp.Cbs[w], c42CbExp{c42Cb: c42Cb{Kind: kind, Val: val}, Opt: opt})
	switch {
	case kind == 'C':
		m.feat("cb:Changed")
	case kind == 'R':
		m.feat("cb:ResourceError/" + val)
	default:
		m.feat("cb:AmbientError/" + val)
	}
}

// errTo: an error for resource r goes out as AmbientError if a valid value is
// held (it stays usable), as ResourceError otherwise.
func (m *c42Model) errTo(r *c42MRes, class string, opt bool) {
	kind := byte('R')
	if r.val != "" {
		kind = 'A'
	}
	for _, w := range r.watchers {
		m.cb(w, kind, class, opt)
	}
}

// ---- requests ----

func (m *c42Model) group(c *c42MChan, srv, t int) *c42ReqExp {
	sk := c42SK{srv, c.seq, t}
	g := m.exp.Reqs[sk]
	if g == nil {
		g = &c42ReqExp{Group: true, Ver: c.ver[t], Nonce: c.nonce[t]}
		m.exp.Reqs[sk] = g
	} else if !g.Group {
		m.bad = "subscription change and ACK for the same stream/type in one step"
	}
	return g
}

func (m *c42Model) ack(c *c42MChan, srv, t int, a c42AckExp) {
	sk := c42SK{srv, c.seq, t}
	g := m.exp.Reqs[sk]
	if g == nil {
		g = &c42ReqExp{}
		m.exp.Reqs[sk] = g
	} else if g.Group {
		m.bad = "ACK and subscription change for the same stream/type in one step"
	}
	g.Acks = append(g.Acks, a)
}

func (m *c42Model) subscribe(srv int, k c42Key) {
	c := m.ch[srv]
	if c.subs[k.T] == nil {
		c.subs[k.T] = map[string]bool{}
	}
	c.subs[k.T][k.N] = true
	c.hasType[k.T] = true
	c.ws[k] = &c42Ws{st: c42WsStarted}
	c.snaps[k.T] = append(c.snaps[k.T], c42SortedNames(c.subs[k.T]))
	if m.sendOK(srv) {
		m.group(c, srv, k.T)
		// the request naming k goes out now: the 15 s does-not-exist timer starts
		c.ws[k] = &c42Ws{st: c42WsRequested, at: m.now + c42Expiry}
	}
}

// sendOK: can the client write a request on srv's current stream now? An
// armed send fault consumes this request: it is lost, nothing more can be
// written on the stream, and the reader will get the stream's error next.
func (m *c42Model) sendOK(srv int) bool {
	c := m.ch[srv]
	if !c.up || c.sendDead {
		return false
	}
	if c.failNext {
		c.failNext, c.sendDead = false, true
		c.queue = append(c.queue, c42Item{K: 'E'})
		m.feat("send-failed")
		return false
	}
	return true
}

func (m *c42Model) unsubscribe(srv int, k c42Key) {
	c := m.ch[srv]
	if !c.subs[k.T][k.N] {
		return
	}
	delete(c.subs[k.T], k.N)
	delete(c.ws, k)
	c.snaps[k.T] = append(c.snaps[k.T], c42SortedNames(c.subs[k.T]))
	if m.sendOK(srv) {
		m.group(c, srv, k.T)
	}
}

// ---- channels ----

func (m *c42Model) openChan(srv int) {
	m.ch[srv] = &c42MChan{exists: true, retryAt: -1, ws: map[c42Key]*c42Ws{}}
	m.ch[srv].snaps = [2][][]string{{{}}, {{}}}
	m.exp.Tlog[srv] = append(m.exp.Tlog[srv], "B")
}

func (m *c42Model) closeChan(srv int) {
	c := m.ch[srv]
	for sk, g := range m.exp.Reqs {
		if sk.Srv == srv && g.Group {
			g.Closing = true
		}
	}
	c.exists, c.up = false, false
	c.retryAt = -1
	c.queue = nil
	c.gate = 0
	c.ws = nil
	m.exp.Tlog[srv] = append(m.exp.Tlog[srv], "X")
}

// connect: the client tries to establish a stream to srv.
func (m *c42Model) connect(srv int) {
	c := m.ch[srv]
	if !m.connOK[srv] {
		m.exp.Tlog[srv] = append(m.exp.Tlog[srv], "N-")
		c.retryAt = m.now + c42Backoff
		m.connFailure(srv)
		return
	}
	m.exp.Tlog[srv] = append(m.exp.Tlog[srv], "N+")
	m.streamCtr[srv]++
	c.up, c.seq, c.gotResp, c.retryAt = true, m.streamCtr[srv], false, -1
	c.failNext, c.sendDead = false, false
	c.queue = nil
	c.nonce = [2]string{}
	for t := 0; t < 2; t++ {
		if c.hasType[t] {
			g := m.group(c, srv, t)
			g.NewStream = true
			if len(c.subs[t]) > 0 && c.ver[t] != "" {
				m.feat("req:resend-with-version-on-new-stream")
			}
		}
	}
	for _, w := range c.ws {
		if w.st == c42WsStarted {
			w.st, w.at = c42WsRequested, m.now+c42Expiry
		}
	}
}

func (m *c42Model) uncachedExists() bool {
	for _, r := range m.res {
		if r.status == c42StRequested {
			return true
		}
	}
	return false
}

// connFailure: a stream to srv failed without having delivered a response
// (or could not be established): a connectivity failure in the sense of A57.
func (m *c42Model) connFailure(srv int) {
	if srv != m.active {
		// Failure of a server that is not the active one: C44 allows a switch
		// "only when the active server's stream failed", so no channel may
		// appear; whether the watchers hear about it is not stated.
		m.feat("conn-failure-on-non-active-server")
		if m.uncachedExists() {
			for j := srv + 1; j < m.sc.NServers; j++ {
				if !m.ch[j].exists {
					m.feat("dev:non-active-failure-with-spare-server")
				}
			}
		}
		m.propagateConnErr(true)
		return
	}
	if m.uncachedExists() {
		for j := srv + 1; j < m.sc.NServers; j++ {
			if m.ch[j].exists {
				continue
			}
			// fall back to the next server: it becomes active and is asked for
			// everything that is watched.
			m.feat("fallback")
			m.openChan(j)
			m.active = j
			for _, k := range m.sortedKeys() {
				m.subscribe(j, k)
			}
			m.connect(j)
			return
		}
		m.feat("conn-failure:servers-exhausted")
	} else {
		m.feat("conn-failure:no-fallback-everything-cached")
	}
	m.propagateConnErr(false)
}

func (m *c42Model) propagateConnErr(opt bool) {
	for _, k := range m.sortedKeys() {
		m.errTo(m.res[k], "conn", opt)
	}
}

func (m *c42Model) streamBroke(srv int) {
	c := m.ch[srv]
	c.up = false
	c.queue = nil
	for _, w := range c.ws {
		if w.st == c42WsRequested {
			w.st = c42WsStarted
		}
	}
	if c.gotResp {
		// A57: a stream that delivered at least one response and then closes is
		// not a connectivity failure; the client reconnects at once. C43 does
		// not say whether watchers are told: optional.
		m.feat("stream-closed-after-response")
		m.propagateConnErr(true)
		m.connect(srv)
		return
	}
	m.feat("stream-failed-before-response")
	c.retryAt = m.now + c42Backoff
	m.connFailure(srv)
}

// ---- reading from a stream ----

func (m *c42Model) pump(c *c42MChan) {
	srv := -1
	for i := range m.ch {
		if m.ch[i] == c {
			srv = i
		}
	}
	for c.exists && c.up && c.gate == 0 && len(c.queue) > 0 {
		it := c.queue[0]
		c.queue = c.queue[1:]
		m.exp.Consumed[[2]int{srv, c.seq}]++
		if it.K == 'E' {
			m.streamBroke(srv)
			return
		}
		m.readResp(srv, it)
	}
	if c.exists && c.up && c.gate > 0 && len(c.queue) > 0 {
		m.feat("flow-control:read-deferred-until-onDone")
	}
}

func (m *c42Model) readResp(srv int, it c42Item) {
	c := m.ch[srv]
	c.gotResp = true
	if it.K == 'U' {
		// unknown type: neither ACKed nor NACKed, nobody is told
		m.feat("resp:unknown-type")
		return
	}
	t := it.T
	if srv > m.active {
		m.bad = "response from a server below the active one at quiescence"
		return
	}
	if srv < m.active {
		// a higher-priority server delivered an update: revert to it and
		// unsubscribe on / release everything below it
		m.feat("revert-to-higher-priority")
		m.active = srv
		for j := srv + 1; j < m.sc.NServers; j++ {
			if !m.ch[j].exists {
				continue
			}
			for _, k := range m.sortedKeys() {
				m.unsubscribe(j, k)
			}
			m.closeChan(j)
		}
	}
	slowBefore := 0
	if m.sc.Slow >= 0 {
		slowBefore = len(m.exp.Cbs[m.sc.Slow])
	}
	invalid := false
	inResp := map[string]bool{}
	for _, rv := range it.Res {
		inResp[rv.N] = true
		if rv.V == "X" {
			invalid = true
		}
		r := m.res[c42Key{t, rv.N}]
		if r == nil {
			continue // not watched: ignored
		}
		if rv.V == "X" {
			r.status = c42StNacked
			m.errTo(r, "nack", false)
			if r.val != "" {
				m.feat("resp:rejected-while-cached")
			} else {
				m.feat("resp:rejected-uncached")
			}
			continue
		}
		switch {
		case r.val != rv.V:
			r.val = rv.V
			for _, w := range r.watchers {
				m.cb(w, 'C', rv.V, false)
			}
		case r.status == c42StNacked:
			// identical to what is held, but a NACK intervened: permitted
			m.feat("resp:identical-after-nack")
			for _, w := range r.watchers {
				m.cb(w, 'C', rv.V, true)
			}
		default:
			m.feat("resp:identical-suppressed")
		}
		r.status = c42StAcked
	}
	if t == 0 { // T1: every resource must be present in a state-of-the-world response
		for _, k := range m.sortedKeys() {
			r := m.res[k]
			if k.T != t || inResp[k.N] || r.val == "" {
				continue
			}
			if m.sc.IgnoreDel {
				m.feat("resp:deletion-ignored")
				continue
			}
			m.feat("resp:removed-from-sotw")
			r.val, r.status = "", c42StNotExist
			m.errTo(r, "notfound", false)
		}
	}
	// protocol state of the stream
	for n := range inResp {
		if w := c.ws[c42Key{t, n}]; w != nil && (w.st == c42WsStarted || w.st == c42WsRequested) {
			w.st = c42WsReceived
		}
	}
	c.nonce[t] = it.Nonce
	if !invalid {
		c.ver[t] = it.Ver
		m.feat("req:ack")
	} else {
		m.feat("req:nack")
	}
	if c.hasType[t] {
		if m.sendOK(srv) {
			m.ack(c, srv, t, c42AckExp{Ver: c.ver[t], Nonce: it.Nonce, Nack: invalid, Names: c42SortedNames(c.subs[t])})
		} else if invalid {
			m.feat("req:nack-send-failed")
		} else {
			m.feat("req:ack-send-failed")
		}
	}
	if m.sc.Slow >= 0 {
		if n := len(m.exp.Cbs[m.sc.Slow]) - slowBefore; n > 0 {
			for i := slowBefore; i < len(m.exp.Cbs[m.sc.Slow]); i++ {
				m.exp.Cbs[m.sc.Slow][i].Gate = true
			}
			c.gate += n
			m.feat("flow-control:onDone-held")
		}
	}
}

// ---- watches ----

func (m *c42Model) watch(w int) {
	k := m.sc.Watchers[w]
	m.watching[w] = true
	fresh := false
	if m.active < 0 {
		m.openChan(0)
		m.active = 0
		fresh = true
	}
	r := m.res[k]
	if r == nil {
		r = &c42MRes{status: c42StRequested}
		m.res[k] = r
		// every server the client currently talks to is asked for the resource
		for j := 0; j < m.sc.NServers; j++ {
			if m.ch[j].exists {
				m.subscribe(j, k)
			}
		}
		if m.active > 0 {
			m.feat("watch-new-resource-while-on-fallback")
			m.feat("dev:watch-new-resource-while-on-fallback")
			m.tainted[k] = true
		}
	} else {
		m.feat("watch:additional-watcher")
	}
	r.watchers = append(r.watchers, w)
	sort.Ints(r.watchers)
	// a new watcher immediately gets the cached resource and the current error state
	if r.val != "" {
		m.feat("watch:cached-value-to-new-watcher")
		m.cb(w, 'C', r.val, false)
	}
	switch r.status {
	case c42StNacked:
		m.feat("watch:error-state-to-new-watcher")
		kind := byte('R')
		if r.val != "" {
			kind = 'A'
		}
		m.cb(w, kind, "nack", false)
	case c42StNotExist:
		m.feat("watch:error-state-to-new-watcher")
		m.cb(w, 'R', "notfound", false)
	}
	if fresh {
		m.connect(0)
	}
}

func (m *c42Model) unwatch(w int) {
	k := m.sc.Watchers[w]
	m.watching[w] = false
	r := m.res[k]
	for i, x := range r.watchers {
		if x == w {
			r.watchers = append(r.watchers[:i:i], r.watchers[i+1:]...)
			break
		}
	}
	if len(r.watchers) > 0 {
		return
	}
	// last watcher gone: the resource is unsubscribed everywhere and forgotten
	m.feat("unwatch:last-watcher")
	for j := 0; j < m.sc.NServers; j++ {
		if m.ch[j].exists {
			m.unsubscribe(j, k)
		}
	}
	delete(m.res, k)
	delete(m.tainted, k)
	if len(m.res) == 0 {
		m.feat("unwatch:all-channels-released")
		for j := 0; j < m.sc.NServers; j++ {
			if m.ch[j].exists {
				m.closeChan(j)
			}
		}
		m.active = -1
	}
}

// ---- time ----

func (m *c42Model) advance(d time.Duration) {
	end := m.now + d
	for {
		// earliest pending timer <= end; retries before expiries, lower server first
		best := time.Duration(-1)
		kind, bsrv := 0, -1
		var bkey c42Key
		for srv, c := range m.ch {
			if !c.exists {
				continue
			}
			if !c.up && c.retryAt >= 0 && c.retryAt <= end && (best < 0 || c.retryAt < best) {
				best, kind, bsrv = c.retryAt, 1, srv
			}
		}
		for srv, c := range m.ch {
			if !c.exists {
				continue
			}
			keys := make([]c42Key, 0, len(c.ws))
			for k := range c.ws {
				keys = append(keys, k)
			}
			sort.Slice(keys, func(i, j int) bool { return keys[i].String() < keys[j].String() })
			for _, k := range keys {
				w := c.ws[k]
				if w.st == c42WsRequested && w.at <= end && (best < 0 || w.at < best) {
					best, kind, bsrv, bkey = w.at, 2, srv, k
				}
			}
		}
		if kind == 0 {
			break
		}
		m.now = best
		switch kind {
		case 1:
			m.ch[bsrv].retryAt = -1
			m.connect(bsrv)
		case 2:
			// the resource was requested 15 s ago on a live stream and never
			// arrived: it does not exist
			m.ch[bsrv].ws[bkey].st = c42WsTimeout
			if m.sc.NServers > 1 {
				m.bad = "watch expiry in a multi-server scenario (not defined by the statements)"
			}
			if r := m.res[bkey]; r != nil {
				m.feat("watch-expired")
				r.val, r.status = "", c42StNotExist
				m.errTo(r, "notfound", false)
			}
		}
	}
	m.now = end
}
