//go:build verif

package h_c42

// Explorer: enumerates every applicable event history of the scenario's
// alphabet up to the depth bound (stateless DFS, prefix pruning by the
// reference model's applicability), runs each in its own synctest bubble on a
// fresh real XDSClient, and after every event compares what the scripted
// transport and the watchers saw with the reference model's expectations.

import (
	"fmt"
	"os"
	"sort"
	"strings"
	"testing"
	"testing/synctest"
	"time"

	"google.golang.org/grpc/internal/verif/vk"
)

// ---- scenarios ----

var (
	c42WSame  = []c42Key{{0, "a"}, {0, "a"}, {0, "b"}}            // w1,w2 share T1/a; w3 T1/b
	c42WTypes = []c42Key{{0, "a"}, {1, "a"}, {0, "b"}, {1, "b"}} // w1 T1/a, w2 T2/a, w3 T1/b, w4 T2/b
)

var c42Scenarios = []*c42Scenario{
	{ // versions / nonces / subscriptions across stream restarts, two types
		Name: "ads-proto", NServers: 1, Slow: -1, Watchers: c42WTypes, Dt: c42Expiry,
		Alpha:  []string{"W1", "W2", "W3", "R0:1:a1", "R0:1:aX", "R0:2:a1", "R0:2:aX", "E0", "C0", "A"},
		DepthQ: 5, DepthT: 7, Props: []string{"C42", "C43"},
	},
	{ // per-type protocol state across stream restarts while a type has no subscriptions:
		// starts with T2/a and T1/a watched and T1 accepted, so that within the
		// bound a type can be emptied, the stream restarted and the type re-subscribed
		Name: "ads-restart", NServers: 1, Slow: -1, Watchers: c42WTypes, Dt: c42Expiry,
		Prefix: []string{"W2", "W1", "R0:1:a1"},
		Alpha:  []string{"W1", "W2", "R0:1:a1", "R0:2:a1", "E0", "C0", "A"},
		DepthQ: 4, DepthT: 6, Props: []string{"C42", "C43"},
	},
	{ // a request is lost while being written (the stream breaks under the
		// Send of an ACK, a NACK or a subscription change) and the stream is
		// re-created: what the first requests of the new stream carry
		Name: "send-faults", NServers: 1, Slow: -1, Watchers: c42WSame, Dt: c42Expiry,
		Alpha:  []string{"W1", "W3", "R0:1:a1", "R0:1:aX", "R0:1:a2", "F0", "E0", "C0", "A"},
		DepthQ: 5, DepthT: 7, Props: []string{"C42", "C43"},
	},
	{ // unknown type and empty responses
		Name: "ads-odd", NServers: 1, Slow: -1, Watchers: c42WTypes, Dt: c42Expiry,
		Alpha:  []string{"W1", "W2", "U0", "R0:1:-", "R0:2:-", "R0:1:a1", "R0:2:a1", "E0"},
		DepthQ: 5, DepthT: 6, Props: []string{"C42", "C43"},
	},
	{ // cache semantics: several watchers, valid/invalid/absent, expiry
		Name: "cache", NServers: 1, Slow: -1, Watchers: c42WSame, Dt: c42Expiry,
		Alpha:  []string{"W1", "W2", "W3", "R0:1:a1", "R0:1:a2", "R0:1:aX", "R0:1:a1b1", "R0:1:aXb1", "R0:1:b1", "R0:1:-", "A"},
		DepthQ: 5, DepthT: 6, Props: []string{"C43", "C42"},
	},
	{ // cache semantics with stream failures and reconnects, from a cached start
		Name: "cache-faults", NServers: 1, Slow: -1, Watchers: c42WSame, Dt: c42Expiry,
		Prefix: []string{"W1", "R0:1:a1"},
		Alpha:  []string{"W1", "W2", "W3", "R0:1:a1", "R0:1:a2", "R0:1:aX", "R0:1:b1", "E0", "C0", "A"},
		DepthQ: 4, DepthT: 6, Props: []string{"C43", "C42"},
	},
	{ // ignore_resource_deletion
		Name: "ignore-deletion", NServers: 1, IgnoreDel: true, Slow: -1, Watchers: c42WSame, Dt: c42Expiry,
		Alpha:  []string{"W1", "W2", "W3", "R0:1:a1", "R0:1:a2", "R0:1:aX", "R0:1:b1", "R0:1:-", "A"},
		DepthQ: 5, DepthT: 6, Props: []string{"C43", "C42"},
	},
	{ // slow watcher w1 holds onDone: ADS flow control
		Name: "flow-control", NServers: 1, Slow: 0, Watchers: c42WSame, Dt: c42Expiry,
		Alpha:  []string{"W1", "W2", "W3", "R0:1:a1", "R0:1:a2", "R0:1:aX", "R0:1:b1", "E0", "L"},
		DepthQ: 5, DepthT: 7, Props: []string{"C42", "C43"},
	},
	// C43 on a fallback server and after the revert: watch / cancel (incl. the
	// last watcher of a resource while another one of the type stays watched) /
	// watch again, judged on the request ledger of the ACTIVE server and on the
	// watcher callbacks.
	{ // both resources watched, primary failed before any response, S1 active
		Name: "fb-watch", NServers: 2, Slow: -1, Watchers: c42WSame, Dt: time.Second, ActiveOnly: true,
		Prefix: []string{"W1", "W3", "E0"},
		Alpha:  []string{"W1", "W2", "W3", "R1:1:a1b1", "R1:1:a1", "E1", "A", "R0:1:a1b1"},
		DepthQ: 4, DepthT: 6, Props: []string{"C43"},
	},
	{ // ... then the primary came back and delivered: reverted, S1 released
		Name: "fb-revert-watch", NServers: 2, Slow: -1, Watchers: c42WSame, Dt: time.Second, ActiveOnly: true,
		Prefix: []string{"W1", "W3", "E0", "A", "R0:1:a1b1"},
		Alpha:  []string{"W1", "W2", "W3", "R0:1:a1b1", "R0:1:a2", "E0", "C0", "A"},
		DepthQ: 4, DepthT: 5, Props: []string{"C43"},
	},
	// Multi-server scenarios. The "-strict" ones enumerate everything and keep
	// reporting the two places where the unchanged client leaves the statement
	// (D2, D3 in claims.json); their depth is the same in both tiers so that the
	// violation keys are tier-independent. The others prune exactly the trigger
	// events of D2/D3 and go deeper.
	{
		Name: "fallback2-strict", NServers: 2, Slow: -1, Watchers: c42WSame, Dt: time.Second,
		Alpha:  []string{"W1", "W3", "C0", "C1", "E0", "E1", "R0:1:a1b1", "R1:1:a1b1", "R0:1:a2", "A"},
		DepthQ: 4, DepthT: 4, Props: []string{"C44"},
	},
	{
		Name: "fallback3-strict", NServers: 3, Slow: -1, Watchers: c42WSame, Dt: time.Second,
		Alpha:  []string{"W1", "C0", "C1", "C2", "E0", "E1", "E2", "R0:1:a1", "R1:1:a1", "R2:1:a1", "A"},
		DepthQ: 4, DepthT: 4, Props: []string{"C44"},
	},
	{ // fallback, two servers
		Name: "fallback2", NServers: 2, Slow: -1, Watchers: c42WSame, Dt: time.Second, AvoidKnown: true,
		Alpha:  []string{"W1", "W3", "C0", "C1", "E0", "E1", "R0:1:a1b1", "R1:1:a1b1", "R0:1:a2", "A"},
		DepthQ: 6, DepthT: 8, Props: []string{"C44"},
	},
	{ // fallback, three servers, one resource
		Name: "fallback3", NServers: 3, Slow: -1, Watchers: c42WSame, Dt: time.Second, AvoidKnown: true,
		Alpha:  []string{"W1", "C0", "C1", "C2", "E0", "E1", "E2", "R0:1:a1", "R1:1:a1", "R2:1:a1", "A"},
		DepthQ: 6, DepthT: 8, Props: []string{"C44"},
	},
	{ // fallback, three servers, starting with the primary unreachable
		Name: "fallback3-down", NServers: 3, Slow: -1, Watchers: c42WSame, Dt: time.Second, AvoidKnown: true,
		Prefix: []string{"C0", "W1"},
		Alpha:  []string{"W1", "W3", "C0", "C1", "E1", "E2", "R0:1:a1b1", "R1:1:a1b1", "R2:1:a1b1", "A"},
		DepthQ: 5, DepthT: 7, Props: []string{"C44"},
	},
}

// ---- comparing one step ----

type c42Fail struct {
	Prop  string
	Class string
	Desc  string
}

func c42EqStrs(a, b []string) bool {
	if len(a) != len(b) {
		return false
	}
	for i := range a {
		if a[i] != b[i] {
			return false
		}
	}
	return true
}

// c42MatchCbs: does the observed per-watcher callback sequence realise the
// expected one (optional entries may be absent)? matched[i] tells which
// expected entries were used.
func c42MatchCbs(exp []c42CbExp, obs []c42Cb) (bool, []bool) {
	matched := make([]bool, len(exp))
	var f func(i, j int) bool
	f = func(i, j int) bool {
		if i == len(exp) {
			return j == len(obs)
		}
		if j < len(obs) && exp[i].c42Cb == obs[j] {
			matched[i] = true
			if f(i+1, j+1) {
				return true
			}
			matched[i] = false
		}
		if exp[i].Opt {
			return f(i+1, j)
		}
		return false
	}
	return f(0, 0), matched
}

func c42CbExpStr(e []c42CbExp) string {
	var s []string
	for _, x := range e {
		o := ""
		if x.Opt {
			o = "?"
		}
		s = append(s, x.c42Cb.String()+o)
	}
	return "[" + strings.Join(s, " ") + "]"
}

func c42CbStr(e []c42Cb) string {
	var s []string
	for _, x := range e {
		s = append(s, x.String())
	}
	return "[" + strings.Join(s, " ") + "]"
}

// c42Compare returns the discrepancies of one step and whether the history
// must stop although nothing is wrong (an optional callback to the slow watcher
// was not delivered: the model's flow-control state is then undetermined).
func c42Compare(sc *c42Scenario, ev c42Ev, exp *c42Exp, obs *c42Obs) (fails []c42Fail, undetermined bool) {
	add := func(prop, class, f string, a ...any) {
		fails = append(fails, c42Fail{Prop: prop, Class: class, Desc: fmt.Sprintf(f, a...)})
	}
	evk := string(ev.K)
	// name lists are judged on every server, or (ActiveOnly scenarios) only on
	// the server that is active at the end of the step
	addName := func(srv int, prop, class, f string, a ...any) {
		if sc.ActiveOnly && srv != exp.Active {
			return
		}
		add(prop, class, f, a...)
	}

	// -- C44: channels created / released per server --
	for s := 0; s < c42NS; s++ {
		var eb, ob, en, on []string
		for _, x := range exp.Tlog[s] {
			if x == "B" || x == "X" {
				eb = append(eb, x)
			} else {
				en = append(en, x)
			}
		}
		for _, x := range obs.Tlog[s] {
			if x == "B" || x == "X" {
				ob = append(ob, x)
			} else {
				on = append(on, x)
			}
		}
		if !c42EqStrs(eb, ob) {
			class := "channel-lifecycle/" + evk
			switch {
			case len(ob) > len(eb) && ob[len(ob)-1] == "B":
				class = "unexpected-channel-created/" + evk
			case len(ob) < len(eb) && eb[len(eb)-1] == "B":
				class = "channel-not-created/" + evk
			case len(ob) < len(eb) && eb[len(eb)-1] == "X":
				class = "channel-not-released/" + evk
			case len(ob) > len(eb) && ob[len(ob)-1] == "X":
				class = "unexpected-channel-released/" + evk
			}
			add("C44", class, "server S%d: expected transport Build/Close %v, saw %v (full log expected %v saw %v)", s, eb, ob, exp.Tlog[s], obs.Tlog[s])
		} else if !c42EqStrs(en, on) {
			// stream (re)establishment pacing is not part of C42-C44; a
			// difference means the model's idea of when the client dials is off
			add("ENGINE", "stream-attempts/"+evk, "server S%d: expected stream attempts %v, saw %v", s, en, on)
		}
	}
	// flow control
	ck := map[[2]int]bool{}
	for k := range exp.Consumed {
		ck[k] = true
	}
	for k := range obs.Consumed {
		ck[k] = true
	}
	for k := range ck {
		e, o := exp.Consumed[k], obs.Consumed[k]
		released := false
		for _, x := range exp.Tlog[k[0]] {
			if x == "X" {
				released = true
			}
		}
		if released {
			// the channel is released in this step: whether its reader still
			// picks up what is left on the stream is a race with the teardown
			continue
		}
		if o > e {
			add("C42", "read-before-onDone/"+evk, "stream S%d#%d: %d message(s) were read, only %d may be (watchers still hold onDone of the previous response)", k[0], k[1], o, e)
		} else if o < e {
			add("C42", "read-stalled/"+evk, "stream S%d#%d: %d message(s) were read, %d are due (every onDone was called)", k[0], k[1], o, e)
		}
	}
	// -- C42: requests per (server, stream, type) --
	byKey := map[c42SK][]c42Req{}
	var order []c42SK
	perStream := map[[2]int][]c42Req{}
	for _, q := range obs.Reqs {
		if q.T < 0 {
			add("C42", "request-for-unknown-type/"+evk, "request with type_url %q", q.URL)
			continue
		}
		sk := c42SK{q.Srv, q.Seq, q.T}
		if _, ok := byKey[sk]; !ok {
			order = append(order, sk)
		}
		byKey[sk] = append(byKey[sk], q)
		perStream[[2]int{q.Srv, q.Seq}] = append(perStream[[2]int{q.Srv, q.Seq}], q)
	}
	for k, qs := range perStream {
		for i, q := range qs {
			first := obs.SentPrev[k] == 0 && i == 0
			if first && q.Node != c42NodeID {
				add("C42", "node-missing-in-first-request/"+evk, "first request on stream S%d#%d carries node %q: %v", k[0], k[1], q.Node, q)
			}
			if !first && q.Node != "" {
				add("C42", "node-in-later-request/"+evk, "request #%d on stream S%d#%d carries the node: %v", obs.SentPrev[k]+i+1, k[0], k[1], q)
			}
		}
	}
	expKeys := make([]c42SK, 0, len(exp.Reqs))
	for sk := range exp.Reqs {
		expKeys = append(expKeys, sk)
	}
	sort.Slice(expKeys, func(i, j int) bool {
		a, b := expKeys[i], expKeys[j]
		if a.Srv != b.Srv {
			return a.Srv < b.Srv
		}
		if a.Seq != b.Seq {
			return a.Seq < b.Seq
		}
		return a.T < b.T
	})
	for _, sk := range order {
		if exp.Reqs[sk] == nil {
			add("C42", "unexpected-request/"+evk, "no request is due for S%d#%d T%d but saw %v", sk.Srv, sk.Seq, sk.T+1, byKey[sk])
		}
	}
	for _, sk := range expKeys {
		g, qs := exp.Reqs[sk], byKey[sk]
		where := fmt.Sprintf("S%d#%d T%d", sk.Srv, sk.Seq, sk.T+1)
		if !g.Group {
			if len(qs) != len(g.Acks) {
				add("C42", "ack-count/"+evk, "%s: expected %d ACK/NACK request(s) %+v, saw %v", where, len(g.Acks), g.Acks, qs)
				continue
			}
			for i, a := range g.Acks {
				q := qs[i]
				kind := "ack"
				if a.Nack {
					kind = "nack"
				}
				if q.Ver != a.Ver {
					add("C42", kind+"-version/"+evk, "%s: %s must carry version %q (last accepted), saw %v", where, kind, a.Ver, q)
				}
				if q.Nonce != a.Nonce {
					add("C42", kind+"-nonce/"+evk, "%s: %s must carry nonce %q, saw %v", where, kind, a.Nonce, q)
				}
				if q.Err != a.Nack {
					add("C42", kind+"-error-detail/"+evk, "%s: error_detail present=%v, expected %v: %v", where, q.Err, a.Nack, q)
				}
				if !c42EqStrs(q.Names, a.Names) {
					addName(sk.Srv, "C42", kind+"-names/"+evk, "%s: %s must list the subscribed names %v, saw %v", where, kind, a.Names, q)
					if c42HasStale(q.Names, [][]string{a.Names}) {
						addName(sk.Srv, "C43", "unwatched-name-still-requested/"+evk, "%s: request lists a name nobody watches any more: want %v, saw %v", where, a.Names, q)
					}
				}
			}
			continue
		}
		final := g.Snaps[len(g.Snaps)-1]
		// Admissible name lists: the statement asks for "the subscription set at
		// some instant since the previous request". Several names can change in
		// one step (re-subscription on a fallback server, unsubscription on
		// revert) and the order in which the client walks them is not specified,
		// so an instant is: everything that stays, plus any part of what is being
		// added, minus any part of what is being removed - progressing
		// monotonically from one request to the next.
		first := g.Snaps[0]
		inFirst, inFinal := map[string]bool{}, map[string]bool{}
		for _, n := range first {
			inFirst[n] = true
		}
		for _, n := range final {
			inFinal[n] = true
		}
		added, gone := map[string]bool{}, map[string]bool{}
		for _, q := range qs {
			if q.Ver != g.Ver {
				add("C42", "request-version/"+evk, "%s: request must carry version %q (last accepted), saw %v", where, g.Ver, q)
			}
			if q.Nonce != g.Nonce {
				add("C42", "request-nonce/"+evk, "%s: request must carry nonce %q (latest on this stream), saw %v", where, g.Nonce, q)
			}
			if q.Err {
				add("C42", "request-error-detail/"+evk, "%s: unexpected error_detail: %v", where, q)
			}
			have := map[string]bool{}
			ok := true
			for _, n := range q.Names {
				if have[n] || (!inFirst[n] && !inFinal[n]) {
					ok = false // duplicate or never part of the subscription in this step
				}
				have[n] = true
			}
			for n := range inFirst {
				if inFinal[n] && !have[n] {
					ok = false // a name that stays subscribed is missing
				}
			}
			for n := range added {
				if !have[n] {
					ok = false // an added name vanished again
				}
			}
			for n := range gone {
				if have[n] {
					ok = false // a removed name came back
				}
			}
			if !ok {
				addName(sk.Srv, "C42", "request-names/"+evk, "%s: names %v are no subscription set of any instant of this step (sets in model order: %v)", where, q.Names, g.Snaps)
				if c42HasStale(q.Names, g.Snaps) {
					addName(sk.Srv, "C43", "unwatched-name-still-requested/"+evk, "%s: request lists a name nobody watches any more: sets of this step %v, saw %v", where, g.Snaps, q)
				}
				continue
			}
			for n := range inFinal {
				if !inFirst[n] && have[n] {
					added[n] = true
				}
			}
			for n := range inFirst {
				if !inFinal[n] && !have[n] {
					gone[n] = true
				}
			}
		}
		must := !g.Closing && ((g.NewStream && len(final) > 0) || (!g.NewStream && len(g.Snaps) > 1))
		if must && (len(qs) == 0 || !c42EqStrs(qs[len(qs)-1].Names, final)) {
			addName(sk.Srv, "C42", "request-names-final/"+evk, "%s: at quiescence the last request must list %v (sets of this step: %v), saw %v", where, final, g.Snaps, qs)
			if len(g.Snaps) > 1 && len(final) < len(g.Snaps[0]) {
				addName(sk.Srv, "C43", "name-not-unsubscribed-after-last-unwatch/"+evk, "%s: the last watcher of a name was removed; the next request must list %v (sets of this step: %v), saw %v", where, final, g.Snaps, qs)
			}
		}
	}
	for _, s := range obs.Misc {
		add("C42", "transport-misuse/"+evk, "%s", s)
	}

	// -- C43: per-watcher callback sequences --
	for w := 0; w < c42NW; w++ {
		ok, matched := c42MatchCbs(exp.Cbs[w], obs.Cbs[w])
		if !ok {
			add("C43", "callbacks/"+evk+"/"+c42CbClass(exp.Cbs[w], obs.Cbs[w]), "watcher w%d: expected %s, saw %s", w+1, c42CbExpStr(exp.Cbs[w]), c42CbStr(obs.Cbs[w]))
			continue
		}
		if w == sc.Slow {
			for i, e := range exp.Cbs[w] {
				if e.Opt && e.Gate && !matched[i] {
					undetermined = true
				}
			}
		}
	}

	// one root cause usually shows as several symptoms in the same step: keep
	// the first discrepancy per property (flow control, then requests, then
	// callbacks, then channels), and a model-pacing complaint only if no
	// property oracle fired.
	// a message that was not read when due (or read early) makes every other
	// expectation of this step moot: what the watchers and the requests show is
	// a consequence, not a separate discrepancy
	for _, f := range fails {
		if f.Prop == "C42" && (strings.HasPrefix(f.Class, "read-stalled/") || strings.HasPrefix(f.Class, "read-before-onDone/")) {
			fails = []c42Fail{f}
			break
		}
	}
	for k := range fails {
		// the multi-server scenarios serve C44 only: there the requests per
		// server and the callbacks are judged as part of C44 ("subscriptions
		// per server equal the watched set", "ignored updates produce no
		// watcher callback")
		if f := &fails[k]; f.Prop != "ENGINE" && !c42Has(sc.Props, f.Prop) {
			f.Class = f.Prop + ":" + f.Class
			f.Prop = sc.Props[0]
		}
	}
	var out []c42Fail
	seen := map[string]bool{}
	for _, f := range fails {
		if f.Prop == "ENGINE" || seen[f.Prop] {
			continue
		}
		seen[f.Prop] = true
		out = append(out, f)
	}
	if len(out) == 0 {
		for _, f := range fails {
			out = append(out, f)
			break
		}
	}
	return out, undetermined
}

// c42HasStale: does names contain a name that is in none of the admissible sets?
func c42HasStale(names []string, sets [][]string) bool {
	ok := map[string]bool{}
	for _, s := range sets {
		for _, n := range s {
			ok[n] = true
		}
	}
	for _, n := range names {
		if !ok[n] {
			return true
		}
	}
	return false
}

// c42CbClass gives a short, value-free class of a callback mismatch.
func c42CbClass(exp []c42CbExp, obs []c42Cb) string {
	kinds := func(n int, at func(int) (c42Cb, bool)) string {
		var s []string
		for i := 0; i < n; i++ {
			c, opt := at(i)
			if opt {
				continue
			}
			x := string(c.Kind)
			if c.Kind != 'C' {
				x += ":" + c.Val
			}
			s = append(s, x)
		}
		return strings.Join(s, ",")
	}
	e := kinds(len(exp), func(i int) (c42Cb, bool) { return exp[i].c42Cb, exp[i].Opt })
	o := kinds(len(obs), func(i int) (c42Cb, bool) { return obs[i], false })
	return "want[" + e + "]got[" + o + "]"
}

// ---- running one history ----

type c42Result struct {
	Fails   []c42Fail
	FailAt  int // index into the full history (prefix included), -1 none
	Stopped string
	Feat    map[string]bool
	Trace   []string
}

func c42Syms(evs []c42Ev) []string {
	s := make([]string, len(evs))
	for i, e := range evs {
		s[i] = e.Sym
	}
	return s
}

// c42RunHistory executes hist on a fresh real client inside a bubble.
func c42RunHistory(t *testing.T, sc *c42Scenario, hist []c42Ev, trace bool) (res c42Result) {
	res.FailAt = -1
	res.Feat = map[string]bool{}
	defer func() {
		if p := recover(); p != nil {
			res.Fails = append(res.Fails, c42Fail{Prop: sc.Props[0], Class: "panic", Desc: fmt.Sprint(p)})
			if res.FailAt < 0 {
				res.FailAt = len(hist) - 1
			}
		}
	}()
	synctest.Test(t, func(t *testing.T) {
		sut, err := c42NewSut(sc)
		if err != nil {
			res.Stopped = "engine: " + err.Error()
			return
		}
		defer func() {
			if n := sut.close(); n != 0 && len(res.Fails) == 0 {
				res.Fails = append(res.Fails, c42Fail{Prop: "C44", Class: "transport-leaked-after-close", Desc: fmt.Sprintf("%d transport(s) still open after XDSClient.Close", n)})
				res.FailAt = len(hist) - 1
			}
		}()
		m := c42NewModel(sc)
		for i, ev := range hist {
			if !m.applicable(ev) {
				res.Stopped = fmt.Sprintf("engine: event %d (%s) not applicable", i, ev.Sym)
				return
			}
			exp := m.apply(ev, i)
			sut.apply(ev, i)
			obs := sut.env.take()
			for f := range exp.Feat {
				res.Feat[f] = true
			}
			if trace {
				res.Trace = append(res.Trace, fmt.Sprintf("%d %s: reqs=%v cbs=%v tlog=%v consumed=%v", i, ev.Sym, obs.Reqs, obs.Cbs, obs.Tlog, obs.Consumed))
			}
			if m.bad != "" {
				res.Stopped = "model: " + m.bad
				return
			}
			fails, undet := c42Compare(sc, ev, exp, obs)
			if len(fails) > 0 {
				res.Fails, res.FailAt = fails, i
				return
			}
			if undet {
				res.Stopped = "undetermined: optional callback to the slow watcher not delivered"
				return
			}
		}
	})
	return res
}

// ---- enumeration ----

type c42Explorer struct {
	t     *testing.T
	r     *vk.Run
	sc    *c42Scenario
	alpha []c42Evptr
	pre   []c42Ev
	depth int

	unit      int
	runs      int64
	nontriv   map[string]int64
	featCount map[string]int64
	stopped   map[string]int64
	found     map[string]bool // prop|class already reported
	failing   int64
	sampled   map[string]int
}

type c42Evptr = c42Ev

func (x *c42Explorer) judged(prop string) bool {
	for _, p := range x.sc.Props {
		if p == prop {
			return true
		}
	}
	return false
}

const c42ShardDepth = 3

// C42_COUNT=1: development aid, only count the applicable histories (model only).
var c42CountOnly = os.Getenv("C42_COUNT") != ""

func (x *c42Explorer) dfs(m *c42Model, hist []c42Ev, d int) {
	if x.r.OverBudget() {
		return
	}
	if d == x.depth {
		x.leaf(hist)
		return
	}
	for _, ev := range x.alpha {
		if !m.applicable(ev) {
			continue
		}
		if d+1 == min(c42ShardDepth, x.depth) {
			x.unit++
			if !x.r.Mine(x.unit) {
				continue
			}
		}
		m2 := m.clone()
		m2.apply(ev, len(hist))
		if m2.bad != "" {
			// the model does not define what follows: the history ends here
			x.stopped["model: "+m2.bad]++
			continue
		}
		if x.sc.AvoidKnown && c42KnownDeviation(m2.exp.Feat) {
			x.stopped["pruned: known deviation trigger"]++
			continue
		}
		x.dfs(m2, append(hist[:len(hist):len(hist)], ev), d+1)
	}
}

func (x *c42Explorer) leaf(hist []c42Ev) {
	if c42CountOnly {
		x.runs++
		return
	}
	res := c42RunHistory(x.t, x.sc, hist, false)
	x.runs++
	if res.Stopped != "" {
		if strings.HasPrefix(res.Stopped, "engine:") {
			x.r.EngineError("%s %v: %s", x.sc.Name, c42Syms(hist), res.Stopped)
		}
		x.stopped[strings.SplitN(res.Stopped, ":", 2)[0]]++
	}
	for f := range res.Feat {
		x.featCount[f]++
	}
	for _, p := range x.sc.Props {
		if c42Nontrivial(p, res.Feat) {
			x.nontriv[p]++
		}
	}
	if len(res.Fails) > 0 {
		x.failing++
		x.report(hist, res)
	} else if len(hist) > 0 {
		for _, p := range x.sc.Props {
			if x.sampled[p] < 1 && c42Nontrivial(p, res.Feat) {
				x.sampled[p]++
				tr := c42RunHistory(x.t, x.sc, hist, true)
				x.r.Sample(p, map[string]any{"scenario": x.sc.Name, "history": c42Syms(hist), "observed": tr.Trace, "verdict": "conforms"})
			}
		}
	}
}

func c42KnownDeviation(feat map[string]bool) bool {
	for f := range feat {
		if strings.HasPrefix(f, "dev:") {
			return true
		}
	}
	return false
}

func c42Nontrivial(prop string, feat map[string]bool) bool {
	switch prop {
	case "C42":
		return feat["req:ack"] || feat["req:nack"] || feat["req:resend-with-version-on-new-stream"] || feat["flow-control:onDone-held"]
	case "C43":
		for f := range feat {
			if strings.HasPrefix(f, "cb:") || f == "resp:identical-suppressed" {
				return true
			}
		}
	case "C44":
		return feat["fallback"] || feat["revert-to-higher-priority"] || feat["conn-failure:no-fallback-everything-cached"] ||
			feat["stream-closed-after-response"] || feat["conn-failure:servers-exhausted"]
	}
	return false
}

// report: one violation per (property, class), keyed by the scenario, the
// class and the shortest (then first in alphabet order) history of the
// scenario that shows it, so the key is the same whichever history found it.
func (x *c42Explorer) report(hist []c42Ev, res c42Result) {
	for _, f := range res.Fails {
		id := f.Prop + "|" + f.Class
		if x.found[id] {
			continue
		}
		x.found[id] = true
		if f.Prop == "ENGINE" {
			x.r.EngineError("%s %v step %d: %s: %s", x.sc.Name, c42Syms(hist[:res.FailAt+1]), res.FailAt, f.Class, f.Desc)
			continue
		}
		minHist, minFail := x.minimize(hist[:res.FailAt+1], f)
		key := fmt.Sprintf("%s/%s/%s", x.sc.Name, f.Class, strings.Join(c42Syms(minHist), ","))
		tr := c42RunHistory(x.t, x.sc, minHist, true)
		desc := fmt.Sprintf("scenario %s, history %v, step %d (%s): %s | observed trace: %s", x.sc.Name, c42Syms(minHist), len(minHist)-1, minHist[len(minHist)-1].Sym, minFail.Desc, strings.Join(tr.Trace, " ; "))
		x.r.Violation(f.Prop, key, desc, map[string]any{"scenario": x.sc.Name, "history": c42Syms(minHist), "class": f.Class, "first_found_in": c42Syms(hist)})
	}
}

// minimize searches, by iterative deepening over the scenario's own history
// space (fixed prefix + alphabet), the shortest and then alphabetically first
// history that fails with the same property and class; histories longer than
// the search cap are shrunk greedily instead.
func (x *c42Explorer) minimize(fh []c42Ev, f c42Fail) ([]c42Ev, c42Fail) {
	same := func(h []c42Ev) (c42Fail, bool) {
		res := c42RunHistory(x.t, x.sc, h, false)
		if res.FailAt != len(h)-1 {
			return c42Fail{}, false
		}
		for _, g := range res.Fails {
			if g.Prop == f.Prop && g.Class == f.Class {
				return g, true
			}
		}
		return c42Fail{}, false
	}
	maxD := len(fh) - len(x.pre)
	if maxD > 4 {
		maxD = 4
	}
	var best []c42Ev
	var bestF c42Fail
	for d := 0; d <= maxD && best == nil; d++ {
		var rec func(m *c42Model, h []c42Ev, left int)
		rec = func(m *c42Model, h []c42Ev, left int) {
			if best != nil {
				return
			}
			if left == 0 {
				if len(h) == 0 {
					return
				}
				if h[len(h)-1].K != fh[len(fh)-1].K {
					return
				}
				if g, ok := same(h); ok {
					best, bestF = append([]c42Ev(nil), h...), g
				}
				return
			}
			for _, ev := range x.alpha {
				if best != nil || !m.applicable(ev) {
					continue
				}
				m2 := m.clone()
				m2.apply(ev, len(h))
				if m2.bad != "" || (x.sc.AvoidKnown && c42KnownDeviation(m2.exp.Feat)) {
					continue
				}
				rec(m2, append(h[:len(h):len(h)], ev), left-1)
			}
		}
		m := c42NewModel(x.sc)
		ok := true
		for i, ev := range x.pre {
			if !m.applicable(ev) {
				ok = false
				break
			}
			m.apply(ev, i)
		}
		if ok {
			rec(m, append([]c42Ev(nil), x.pre...), d)
		}
	}
	if best != nil {
		return best, bestF
	}
	// greedy shrink of the suffix
	cur := append([]c42Ev(nil), fh...)
	curF := f
	for i := len(cur) - 2; i >= len(x.pre); i-- {
		cand := append(append([]c42Ev(nil), cur[:i]...), cur[i+1:]...)
		m := c42NewModel(x.sc)
		ok := true
		for j, ev := range cand {
			if !m.applicable(ev) {
				ok = false
				break
			}
			m.apply(ev, j)
			if m.bad != "" {
				ok = false
				break
			}
		}
		if !ok {
			continue
		}
		if g, ok := same(cand); ok {
			cur, curF = cand, g
		}
	}
	return cur, curF
}

func c42ParseAll(syms []string) []c42Ev {
	out := make([]c42Ev, len(syms))
	for i, s := range syms {
		out[i] = c42ParseEv(s)
	}
	return out
}

func c42FindScenario(name string) *c42Scenario {
	for _, sc := range c42Scenarios {
		if sc.Name == name {
			return sc
		}
	}
	return nil
}

// ---- entry points ----

func c42Leg(t *testing.T, leg string, props []string, pick func(*c42Scenario) bool) {
	r := vk.Start(t, leg, "fault_enumeration", props...)
	defer r.Finish()
	rules := map[string]string{
		"C42": "every applicable event history (watch/unwatch, responses valid/invalid/empty/unknown type, stream failure, reconnect allowed/refused, time advance, slow watcher release) of each scenario alphabet up to the depth bound, one synctest bubble and one fresh real XDSClient per history; every captured DiscoveryRequest and every Recv is compared with the reference model after each event. Non-trivial: a history in which at least one response was ACKed/NACKed, a versioned re-request was due on a new stream, or onDone was withheld.",
		"C43": "same histories; after each event the exact per-watcher callback sequence (kind, value / error class) is compared with the reference cache model (cross-watcher order not compared). Non-trivial: a history in which at least one watcher callback was due or an identical update had to be suppressed.",
		"C44": "every applicable history over 2 and 3 configured servers (per-server stream failure, connect refusal, response, watch while on fallback, 1 s time steps); per event the transports built/closed per server, the requests per server and the watcher callbacks are compared with the A71 reference machine. Non-trivial: a history with a connectivity failure decision (fallback / no fallback / servers exhausted), a stream closed after a response, or a revert.",
	}
	for _, p := range props {
		r.Rule(p, rules[p])
		r.Assume(p, "testing/synctest quiescence (synctest.Wait) after each event: races inside one event are not enumerated, only their quiescent result is judged")
		r.Assume(p, "stream backoff replaced by a constant 1 s through the package's own test hook (internal.StreamBackoff); a Send on a stream whose Recv has returned an error fails")
		r.Assume(p, "responses of a type with no currently watched resource, duplicate NACK errors, undecodable resources and more than one authority are outside the alphabet")
	}

	if r.ReplayFile() != "" {
		var rp struct {
			Replay struct {
				Scenario string
				History  []string
			}
		}
		if err := r.LoadReplay(&rp.Replay); err != nil {
			r.EngineError("replay: %v", err)
			return
		}
		sc := c42FindScenario(rp.Replay.Scenario)
		if sc == nil || !pick(sc) {
			// the artefact belongs to the other leg of this package
			if sc == nil {
				r.EngineError("replay: unknown scenario %q", rp.Replay.Scenario)
			}
			return
		}
		hist := c42ParseAll(rp.Replay.History)
		res := c42RunHistory(t, sc, hist, true)
		for _, p := range props {
			r.Eval(p, 1)
			r.NontrivialN(p, 2)
			r.Sample(p, map[string]any{"scenario": sc.Name, "history": rp.Replay.History, "observed": res.Trace, "fails": res.Fails})
		}
		for _, f := range res.Fails {
			if f.Prop == "ENGINE" {
				r.EngineError("%s", f.Desc)
				continue
			}
			r.Violation(f.Prop, fmt.Sprintf("%s/%s/%s", sc.Name, f.Class, strings.Join(rp.Replay.History[:res.FailAt+1], ",")), f.Desc, map[string]any{"scenario": sc.Name, "history": rp.Replay.History})
		}
		fmt.Printf("[c42] replay %s %v: fails=%v stopped=%q\n%s\n", sc.Name, rp.Replay.History, res.Fails, res.Stopped, strings.Join(res.Trace, "\n"))
		return
	}

	depths := map[string]any{}
	for _, sc := range c42Scenarios {
		if !pick(sc) {
			continue
		}
		x := &c42Explorer{t: t, r: r, sc: sc, alpha: c42ParseAll(sc.Alpha), pre: c42ParseAll(sc.Prefix), depth: r.Pick(sc.DepthQ, sc.DepthT),
			nontriv: map[string]int64{}, featCount: map[string]int64{}, stopped: map[string]int64{}, found: map[string]bool{}, sampled: map[string]int{}}
		m := c42NewModel(sc)
		ok := true
		for i, ev := range x.pre {
			if !m.applicable(ev) {
				r.EngineError("scenario %s: prefix event %s not applicable", sc.Name, ev.Sym)
				ok = false
				break
			}
			m.apply(ev, i)
		}
		if !ok {
			continue
		}
		start := time.Now()
		x.dfs(m, append([]c42Ev(nil), x.pre...), 0)
		if r.OverBudget() {
			for _, p := range sc.Props {
				r.Cap(p, fmt.Sprintf("scenario %s: soft budget exhausted after %d histories", sc.Name, x.runs))
			}
		}
		if c42CountOnly {
			fmt.Printf("[c42] count %s depth=%d histories=%d\n", sc.Name, x.depth, x.runs)
		}
		depths[sc.Name] = fmt.Sprintf("depth=%d after a fixed prefix of %d, alphabet=%d %v", x.depth, len(x.pre), len(x.alpha), sc.Alpha)
		for _, p := range sc.Props {
			if !c42Has(props, p) {
				continue
			}
			r.Eval(p, x.runs)
			r.NontrivialN(p, x.nontriv[p])
			r.AddInt(p, "histories/"+sc.Name, x.runs)
			r.AddInt(p, "failing_histories_any_property", x.failing)
			for k, n := range x.stopped {
				r.AddInt(p, "histories_cut_short/"+k, n)
			}
			for f, n := range x.featCount {
				if c42FeatFor(p, f) {
					r.Outcome(p, f)
					r.AddInt(p, "feature/"+f, n)
				}
			}
		}
		_ = start
	}
	for _, p := range props {
		r.Set(p, "scenario_bounds", depths)
	}
}

func c42Has(s []string, x string) bool {
	for _, y := range s {
		if x == y {
			return true
		}
	}
	return false
}

func c42FeatFor(prop, f string) bool {
	switch prop {
	case "C42":
		return strings.HasPrefix(f, "req:") || strings.HasPrefix(f, "flow-control:") || strings.HasPrefix(f, "resp:unknown") || strings.HasPrefix(f, "unwatch:") || strings.HasPrefix(f, "stream-")
	case "C43":
		return strings.HasPrefix(f, "cb:") || strings.HasPrefix(f, "resp:") || strings.HasPrefix(f, "watch") || strings.HasPrefix(f, "unwatch:")
	case "C44":
		return f == "fallback" || strings.HasPrefix(f, "conn-failure") || strings.HasPrefix(f, "revert") || strings.HasPrefix(f, "stream-") || f == "watch-new-resource-while-on-fallback" || f == "unwatch:all-channels-released"
	}
	return false
}

func TestVerif_C42_ADS(t *testing.T) {
	c42Leg(t, "c42_ads", []string{"C42", "C43"}, func(sc *c42Scenario) bool { return c42Has(sc.Props, "C42") || c42Has(sc.Props, "C43") })
}

func TestVerif_C44_Fallback(t *testing.T) {
	c42Leg(t, "c44_fallback", []string{"C44"}, func(sc *c42Scenario) bool { return c42Has(sc.Props, "C44") })
}
