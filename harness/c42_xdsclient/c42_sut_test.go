//go:build verif

package h_c42

// System-under-test side: the REAL generic xDS client driven through its
// exported API, with a scripted clients.TransportBuilder, trivial resource types
// whose validity bit and value are in the payload, and recording watchers.
// Nothing in this file knows what the client is supposed to do.

import (
	"context"
	"errors"
	"fmt"
	"sort"
	"strings"
	"sync"
	"testing/synctest"
	"time"

	"google.golang.org/grpc/internal/xds/clients"
	"google.golang.org/grpc/internal/xds/clients/xdsclient"
	xdsclientinternal "google.golang.org/grpc/internal/xds/clients/xdsclient/internal"
	"google.golang.org/grpc/internal/xds/clients/xdsclient/internal/xdsresource"
	"google.golang.org/protobuf/proto"
	"google.golang.org/protobuf/types/known/anypb"

	v3discoverypb "github.com/envoyproxy/go-control-plane/envoy/service/discovery/v3"
)

const (
	c42NW         = 4 // watcher slots
	c42NS         = 3 // max servers
	c42NodeID     = "c42-node"
	c42UnknownURL = "type.googleapis.com/verif.c42.Unknown"
	c42ADSMethod  = "/envoy.service.discovery.v3.AggregatedDiscoveryService/StreamAggregatedResources"
	c42Backoff    = time.Second      // constant stream backoff (test hook), no jitter
	c42Expiry     = 15 * time.Second // WatchExpiryTimeout
)

var c42TypeURL = [2]string{"type.googleapis.com/verif.c42.T1", "type.googleapis.com/verif.c42.T2"}

func init() {
	// The production backoff is exponential with random jitter; the repo's own
	// test hook makes it a constant so that virtual-time histories are
	// deterministic. Backoff pacing is not part of C42-C44.
	xdsclientinternal.StreamBackoff = func(int) time.Duration { return c42Backoff }
}

// ---- resource type: payload "name|V|value" (valid) or "name|X|uniq" (invalid) ----

type c42Data struct {
	val string
	raw []byte
}

func (d *c42Data) Equal(o xdsclient.ResourceData) bool {
	od, ok := o.(*c42Data)
	return ok && od != nil && od.val == d.val
}
func (d *c42Data) Bytes() []byte { return d.raw }

type c42Decoder struct{}

func (c42Decoder) Decode(res *xdsclient.AnyProto, _ xdsclient.DecodeOptions) (*xdsclient.DecodeResult, error) {
	a := res.ToAny()
	p := strings.Split(string(a.Value), "|")
	if len(p) != 3 {
		return nil, fmt.Errorf("c42: undecodable resource %q", a.Value)
	}
	if p[1] == "X" {
		return &xdsclient.DecodeResult{Name: p[0]}, fmt.Errorf("c42: resource %s failed validation (%s)", p[0], p[2])
	}
	return &xdsclient.DecodeResult{Name: p[0], Resource: &c42Data{val: p[2], raw: a.Value}}, nil
}

func c42ResourceTypes() map[string]xdsclient.ResourceType {
	return map[string]xdsclient.ResourceType{
		c42TypeURL[0]: {TypeURL: c42TypeURL[0], TypeName: "T1", AllResourcesRequiredInSotW: true, Decoder: c42Decoder{}},
		c42TypeURL[1]: {TypeURL: c42TypeURL[1], TypeName: "T2", AllResourcesRequiredInSotW: false, Decoder: c42Decoder{}},
	}
}

// ---- observations ----

// c42Req is one decoded DiscoveryRequest captured by the scripted transport.
type c42Req struct {
	Srv, Seq int // server index, ordinal of the stream on that server (1-based)
	T        int // 0=T1 1=T2 -1=other
	URL      string
	Ver      string
	Nonce    string
	Names    []string // sorted
	Node     string
	Err      bool // error_detail present
	ErrCode  int32
}

func (q c42Req) String() string {
	e := ""
	if q.Err {
		e = fmt.Sprintf(" NACK(code=%d)", q.ErrCode)
	}
	n := ""
	if q.Node != "" {
		n = " node=" + q.Node
	}
	return fmt.Sprintf("S%d#%d T%d ver=%q nonce=%q names=%v%s%s", q.Srv, q.Seq, q.T+1, q.Ver, q.Nonce, q.Names, e, n)
}

// c42Cb is one watcher callback. Kind: 'C' ResourceChanged, 'R' ResourceError,
// 'A' AmbientError. Val is the resource value for 'C', the error class
// (nack|notfound|conn|other) otherwise.
type c42Cb struct {
	Kind byte
	Val  string
}

func (c c42Cb) String() string {
	switch c.Kind {
	case 'C':
		return "Changed(" + c.Val + ")"
	case 'R':
		return "ResourceError(" + c.Val + ")"
	}
	return "AmbientError(" + c.Val + ")"
}

type c42Obs struct {
	Reqs     []c42Req
	Cbs      [c42NW][]c42Cb
	Tlog     [c42NS][]string  // per server: B(uild) X(close) N+ N- (NewStream ok/failed)
	Consumed map[[2]int]int   // (srv, seq) -> Recv calls that returned an item in this step
	SentPrev map[[2]int]int   // (srv, seq) -> requests sent on that stream before this step
	Misc     []string         // anything unexpected seen by the scripted transport
}

// ---- scripted transport ----

type c42Env struct {
	mu       sync.Mutex
	connOK   [c42NS]bool
	slow     int
	cur      [c42NS]*c42Stream
	failNext [c42NS]*c42Stream // the next Send on this stream fails and breaks it
	nstream  [c42NS]int
	held     []func()
	sentTot  map[[2]int]int
	obs      *c42Obs
	openTr   int
	watchers [c42NW]*c42Watcher
}

func (e *c42Env) take() *c42Obs {
	e.mu.Lock()
	defer e.mu.Unlock()
	o := e.obs
	prev := map[[2]int]int{}
	for k, v := range e.sentTot {
		prev[k] = v
	}
	e.obs = &c42Obs{Consumed: map[[2]int]int{}, SentPrev: prev}
	return o
}

type c42Builder struct{ env *c42Env }

func (b *c42Builder) Build(si clients.ServerIdentifier) (clients.Transport, error) {
	var srv int
	if _, err := fmt.Sscanf(si.ServerURI, "S%d", &srv); err != nil || srv < 0 || srv >= c42NS {
		return nil, fmt.Errorf("c42: unknown server %q", si.ServerURI)
	}
	e := b.env
	e.mu.Lock()
	e.obs.Tlog[srv] = append(e.obs.Tlog[srv], "B")
	e.openTr++
	e.mu.Unlock()
	return &c42Transport{env: e, srv: srv}, nil
}

type c42Transport struct {
	env    *c42Env
	srv    int
	closed bool
}

func (t *c42Transport) NewStream(ctx context.Context, method string) (clients.Stream, error) {
	e := t.env
	e.mu.Lock()
	defer e.mu.Unlock()
	if method != c42ADSMethod {
		e.obs.Misc = append(e.obs.Misc, "NewStream method "+method)
	}
	if t.closed {
		e.obs.Misc = append(e.obs.Misc, fmt.Sprintf("NewStream on closed transport S%d", t.srv))
		return nil, errors.New("c42: transport closed")
	}
	if ctx.Err() != nil {
		return nil, ctx.Err()
	}
	if !e.connOK[t.srv] {
		e.obs.Tlog[t.srv] = append(e.obs.Tlog[t.srv], "N-")
		return nil, errors.New("c42: scripted connection failure")
	}
	e.nstream[t.srv]++
	st := &c42Stream{env: e, srv: t.srv, seq: e.nstream[t.srv], ctx: ctx, in: make(chan c42Wire, 32)}
	e.cur[t.srv] = st
	e.obs.Tlog[t.srv] = append(e.obs.Tlog[t.srv], "N+")
	return st, nil
}

func (t *c42Transport) Close() {
	e := t.env
	e.mu.Lock()
	defer e.mu.Unlock()
	if t.closed {
		e.obs.Misc = append(e.obs.Misc, fmt.Sprintf("double Close of transport S%d", t.srv))
		return
	}
	t.closed = true
	e.openTr--
	e.obs.Tlog[t.srv] = append(e.obs.Tlog[t.srv], "X")
}

type c42Wire struct {
	msg []byte
	err error
}

type c42Stream struct {
	env    *c42Env
	srv    int
	seq    int
	ctx    context.Context
	in     chan c42Wire
	broken bool // guarded by env.mu; set when Recv has returned an error
}

func (s *c42Stream) Send(b []byte) error {
	e := s.env
	e.mu.Lock()
	defer e.mu.Unlock()
	if s.broken || s.ctx.Err() != nil {
		return errors.New("c42: send on a finished stream")
	}
	if e.failNext[s.srv] == s {
		// scripted fault: the stream breaks while this request is being
		// written; the request is lost and the reader gets the error next
		e.failNext[s.srv] = nil
		s.broken = true
		s.in <- c42Wire{err: errors.New("c42: scripted stream failure during send")}
		return errors.New("c42: scripted send failure")
	}
	var req v3discoverypb.DiscoveryRequest
	if err := proto.Unmarshal(b, &req); err != nil {
		e.obs.Misc = append(e.obs.Misc, "undecodable DiscoveryRequest: "+err.Error())
		return nil
	}
	q := c42Req{Srv: s.srv, Seq: s.seq, T: -1, URL: req.GetTypeUrl(), Ver: req.GetVersionInfo(), Nonce: req.GetResponseNonce(),
		Names: append([]string{}, req.GetResourceNames()...)}
	sort.Strings(q.Names)
	for i, u := range c42TypeURL {
		if u == q.URL {
			q.T = i
		}
	}
	if req.GetNode() != nil {
		q.Node = req.GetNode().GetId()
		if q.Node == "" {
			q.Node = "<empty id>"
		}
	}
	if req.GetErrorDetail() != nil {
		q.Err = true
		q.ErrCode = req.GetErrorDetail().GetCode()
		if req.GetErrorDetail().GetMessage() == "" {
			e.obs.Misc = append(e.obs.Misc, "NACK with empty error_detail message")
		}
	}
	e.obs.Reqs = append(e.obs.Reqs, q)
	e.sentTot[[2]int{s.srv, s.seq}]++
	return nil
}

func (s *c42Stream) Recv() ([]byte, error) {
	select {
	case w := <-s.in:
		e := s.env
		e.mu.Lock()
		e.obs.Consumed[[2]int{s.srv, s.seq}]++
		if w.err != nil {
			s.broken = true
		}
		e.mu.Unlock()
		return w.msg, w.err
	case <-s.ctx.Done():
		s.env.mu.Lock()
		s.broken = true
		s.env.mu.Unlock()
		return nil, s.ctx.Err()
	}
}

// ---- watchers ----

type c42Watcher struct {
	env *c42Env
	id  int
}

func (w *c42Watcher) rec(cb c42Cb, done func()) {
	e := w.env
	e.mu.Lock()
	e.obs.Cbs[w.id] = append(e.obs.Cbs[w.id], cb)
	if e.slow == w.id {
		e.held = append(e.held, done)
		e.mu.Unlock()
		return
	}
	e.mu.Unlock()
	done()
}

func c42ErrClass(err error) string {
	switch xdsresource.ErrType(err) {
	case xdsresource.ErrorTypeConnection:
		return "conn"
	case xdsresource.ErrorTypeResourceNotFound:
		return "notfound"
	case xdsresource.ErrorTypeNACKed:
		return "nack"
	}
	return "other:" + err.Error()
}

func (w *c42Watcher) ResourceChanged(d xdsclient.ResourceData, done func()) {
	v := "<foreign>"
	if cd, ok := d.(*c42Data); ok && cd != nil {
		v = cd.val
	}
	w.rec(c42Cb{Kind: 'C', Val: v}, done)
}
func (w *c42Watcher) ResourceError(err error, done func()) {
	w.rec(c42Cb{Kind: 'R', Val: c42ErrClass(err)}, done)
}
func (w *c42Watcher) AmbientError(err error, done func()) {
	w.rec(c42Cb{Kind: 'A', Val: c42ErrClass(err)}, done)
}

// ---- driver ----

type c42Sut struct {
	sc      *c42Scenario
	env     *c42Env
	client  *xdsclient.XDSClient
	cancels [c42NW]func()
}

// c42NewSut must be called inside a synctest bubble.
func c42NewSut(sc *c42Scenario) (*c42Sut, error) {
	env := &c42Env{slow: sc.Slow, sentTot: map[[2]int]int{}}
	env.obs = &c42Obs{Consumed: map[[2]int]int{}, SentPrev: map[[2]int]int{}}
	for i := range env.connOK {
		env.connOK[i] = true
	}
	for i := range env.watchers {
		env.watchers[i] = &c42Watcher{env: env, id: i}
	}
	var servers []xdsclient.ServerConfig
	for i := 0; i < sc.NServers; i++ {
		s := xdsclient.ServerConfig{ServerIdentifier: clients.ServerIdentifier{ServerURI: fmt.Sprintf("S%d", i)}}
		if sc.IgnoreDel {
			s.ServerFeature = xdsclient.ServerFeatureIgnoreResourceDeletion
		}
		servers = append(servers, s)
	}
	cl, err := xdsclient.New(xdsclient.Config{
		Servers:            servers,
		Node:               clients.Node{ID: c42NodeID, UserAgentName: "c42", UserAgentVersion: "0"},
		TransportBuilder:   &c42Builder{env: env},
		ResourceTypes:      c42ResourceTypes(),
		WatchExpiryTimeout: c42Expiry,
	})
	if err != nil {
		return nil, err
	}
	return &c42Sut{sc: sc, env: env, client: cl}, nil
}

func c42Payload(rv c42RV, uniq int) []byte {
	if rv.V == "X" {
		return []byte(fmt.Sprintf("%s|X|u%d", rv.N, uniq))
	}
	return []byte(fmt.Sprintf("%s|V|%s", rv.N, rv.V))
}

// apply performs one event and runs the bubble to quiescence.
func (s *c42Sut) apply(ev c42Ev, step int) {
	e := s.env
	switch ev.K {
	case 'W':
		if c := s.cancels[ev.W]; c != nil {
			s.cancels[ev.W] = nil
			c()
		} else {
			k := s.sc.Watchers[ev.W]
			s.cancels[ev.W] = s.client.WatchResource(c42TypeURL[k.T], k.N, e.watchers[ev.W])
		}
	case 'R', 'U', 'E':
		e.mu.Lock()
		st := e.cur[ev.S]
		e.mu.Unlock()
		if st == nil {
			break
		}
		var w c42Wire
		if ev.K == 'E' {
			w.err = errors.New("c42: scripted stream failure")
		} else {
			url := c42UnknownURL
			if ev.K == 'R' {
				url = c42TypeURL[ev.T]
			}
			resp := &v3discoverypb.DiscoveryResponse{TypeUrl: url, VersionInfo: c42Version(step), Nonce: c42Nonce(step)}
			for _, rv := range ev.Res {
				resp.Resources = append(resp.Resources, &anypb.Any{TypeUrl: url, Value: c42Payload(rv, step)})
			}
			b, err := proto.Marshal(resp)
			if err != nil {
				panic(err)
			}
			w.msg = b
		}
		st.in <- w
	case 'C':
		e.mu.Lock()
		e.connOK[ev.S] = !e.connOK[ev.S]
		e.mu.Unlock()
	case 'F':
		e.mu.Lock()
		e.failNext[ev.S] = e.cur[ev.S]
		e.mu.Unlock()
	case 'A':
		time.Sleep(s.sc.Dt)
	case 'L':
		e.mu.Lock()
		h := e.held
		e.held = nil
		e.mu.Unlock()
		for _, f := range h {
			f()
		}
	}
	synctest.Wait()
}

func (s *c42Sut) close() (openTransports int) {
	s.client.Close()
	synctest.Wait()
	s.env.mu.Lock()
	defer s.env.mu.Unlock()
	return s.env.openTr
}

func c42Version(step int) string { return fmt.Sprintf("v%d", step) }
func c42Nonce(step int) string   { return fmt.Sprintf("n%d", step) }
