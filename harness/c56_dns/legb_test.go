//go:build verif

package dns

import (
	"context"
	"errors"
	"fmt"
	"math/big"
	"net"
	"strings"
	"sync"
	"testing"
	"testing/synctest"
	"time"

	grpcbackoff "google.golang.org/grpc/backoff"
	ibackoff "google.golang.org/grpc/internal/backoff"
	"google.golang.org/grpc/internal/resolver/dns/internal"
	"google.golang.org/grpc/internal/verif/vk"
	"google.golang.org/grpc/resolver"
)

// ---- C56 leg B: lookup pacing of the real dns resolver under virtual time ----
//
// One history = one synctest bubble: the real Build() with the package's
// NewNetResolver seam answering from a script, a recording ClientConn, real
// time.After/time.Now (virtual inside the bubble). After every event the bubble
// runs to quiescence. The oracle reads only the scripted resolver's own log of
// LookupHost calls (start/end virtual time, result) and the harness's events.

var c56Events = []string{"ResolveNow", "adv1s", "adv29s", "adv30s", "adv31s", "ansOK", "ansErr", "Close"}

const (
	c56EvRN = iota
	c56EvAdv1
	c56EvAdv29
	c56EvAdv30
	c56EvAdv31
	c56EvAnsOK
	c56EvAnsErr
	c56EvClose
)

type c56Pass struct {
	Name    string
	Jitter  float64       // jitter of the resolver's retry backoff for this pass
	Latency time.Duration // virtual duration of every scripted lookup
}

var c56Passes = []c56Pass{
	{"J0/L0", 0, 0},
	{"J0/L1s", 0, time.Second},
	{"Jdefault/L0", grpcbackoff.DefaultConfig.Jitter, 0},
}

type c56Lookup struct {
	Start, End time.Duration
	Done       bool
	OK         bool
	Cancelled  bool
}

type c56Script struct {
	mu      sync.Mutex
	start   time.Time
	ansOK   bool
	latency time.Duration
	log     []c56Lookup
	host    string
	badHost string
	// script, when non-empty, fixes the outcome of the i-th lookup: 'S' ok,
	// 'F' temporary lookup error, 'R' lookup ok but the ClientConn rejects the
	// update; lookups beyond the script succeed. It overrides ansOK.
	script  string
	lastAns byte
}

func (s *c56Script) LookupHost(ctx context.Context, host string) ([]string, error) {
	s.mu.Lock()
	i := len(s.log)
	ok := s.ansOK
	if s.script != "" {
		ans := byte('S')
		if i < len(s.script) {
			ans = s.script[i]
		}
		s.lastAns = ans
		ok = ans != 'F'
	}
	s.log = append(s.log, c56Lookup{Start: time.Since(s.start), OK: ok && s.lastAns != 'R'})
	if host != s.host {
		s.badHost = host
	}
	s.mu.Unlock()
	cancelled := false
	if s.latency > 0 {
		tm := time.NewTimer(s.latency)
		select {
		case <-tm.C:
		case <-ctx.Done():
			tm.Stop()
			cancelled = true
		}
	} else if ctx.Err() != nil {
		cancelled = true
	}
	s.mu.Lock()
	s.log[i].End, s.log[i].Done, s.log[i].Cancelled = time.Since(s.start), true, cancelled
	if cancelled {
		s.log[i].OK = false
	}
	s.mu.Unlock()
	if cancelled {
		return nil, ctx.Err()
	}
	if !ok {
		return nil, &net.DNSError{Err: "c56 scripted failure", Name: host, IsTemporary: true}
	}
	return []string{"1.2.3.4", "2001:db8::1"}, nil
}
func (s *c56Script) LookupSRV(context.Context, string, string, string) (string, []*net.SRV, error) {
	return "", nil, &net.DNSError{Err: "c56: no SRV", IsNotFound: true}
}
func (s *c56Script) LookupTXT(context.Context, string) ([]string, error) {
	return nil, &net.DNSError{Err: "c56: no TXT", IsNotFound: true}
}

// c56RetryWindow: allowed delay between the k-th consecutive failed lookup
// (k>=1) and the retry, for "retries with exponential backoff" with the
// documented default parameters. The statement does not fix whether the first
// retry uses exponent 0 or 1, so the window spans both:
// [(1-J) x min(B x M^(k-1), max), (1+J) x min(B x M^k, max)], +-2^-40 relative.
func c56RetryWindow(j float64, k int) (lo, hi time.Duration) {
	c := grpcbackoff.DefaultConfig
	const prec = 2048
	nominal := func(n int) *big.Float {
		x := new(big.Float).SetPrec(prec).SetInt64(int64(c.BaseDelay))
		m := new(big.Float).SetPrec(prec).SetFloat64(c.Multiplier)
		for i := 0; i < n; i++ {
			x.Mul(x, m)
		}
		if mx := new(big.Float).SetPrec(prec).SetInt64(int64(c.MaxDelay)); x.Cmp(mx) > 0 {
			x = mx
		}
		return x
	}
	one := new(big.Float).SetPrec(prec).SetInt64(1)
	eps := new(big.Float).SetPrec(prec).SetMantExp(one, -40)
	jf := new(big.Float).SetPrec(prec).SetFloat64(j)
	l := new(big.Float).SetPrec(prec).Sub(one, jf)
	l.Sub(l, eps)
	l.Mul(l, nominal(k-1))
	h := new(big.Float).SetPrec(prec).Add(one, jf)
	h.Add(h, eps)
	h.Mul(h, nominal(k))
	li, _ := l.Int64()
	hi64, _ := h.Int64()
	if li < 0 {
		li = 0
	}
	return time.Duration(li), time.Duration(hi64 + 1)
}

type c56Fail struct{ Class, Desc string }

type c56TLResult struct {
	Fails       []c56Fail
	FailAt      int
	Log         []c56Lookup
	Lookups     int
	AfterOK     int // lookups that followed a successful one (pacing rule checked)
	AfterErr    int // lookups that followed a failed one (backoff window checked)
	MaxK        int
	KCount      [12]int // retries judged after k consecutive failures (k capped at 11)
	RetriesAfterRecovery int // retries judged after the FIRST failure following a success that itself followed failures
	StaleToken  int // lookups after a success for which no ResolveNow arrived AFTER that success
	Closed      bool
	Updates     int
	ErrsReported int
}

func c56RunTimeline(t *testing.T, pass c56Pass, hist []int, script string) (res c56TLResult) {
	defer func() {
		if p := recover(); p != nil {
			res.Fails = append(res.Fails, c56Fail{"panic", fmt.Sprint(p)})
		}
	}()
	synctest.Test(t, func(t *testing.T) {
		scr := &c56Script{start: time.Now(), ansOK: true, latency: pass.Latency, host: "svc.example.com", script: script}
		internal.NewNetResolver = func(string) (internal.NetResolver, error) { return scr, nil }
		cc := &c56RecCC{}
		cc.onUpd = func(resolver.State) error {
			scr.mu.Lock()
			defer scr.mu.Unlock()
			if scr.lastAns == 'R' {
				return errors.New("c56: scripted rejection by the ClientConn")
			}
			return nil
		}
		fail := func(step int, class, f string, a ...any) {
			if len(res.Fails) == 0 {
				res.FailAt = step
			}
			res.Fails = append(res.Fails, c56Fail{class, fmt.Sprintf(f, a...)})
		}
		rs, err := NewBuilder().Build(c56Target("c56-authority", "svc.example.com:8080"), cc, resolver.BuildOptions{DisableServiceConfig: true})
		if err != nil {
			fail(0, "engine", "Build: %v", err)
			return
		}
		closed := false
		defer func() {
			if !closed {
				rs.Close()
			}
			synctest.Wait()
		}()
		minIvl := MinResolutionInterval

		// reference bookkeeping (from the statement)
		credits := 0           // ResolveNow calls not yet matched with a post-success lookup
		rnSinceOK := 0         // ResolveNow calls that arrived after the last successful completion
		k := 0                 // consecutive failed lookups
		seen := 0              // lookups whose START has been judged
		endSeen := 0           // lookups whose completion has been processed
		lookupsAtClose := -1
		recovered := false     // some success has followed a run of failures
		now := func() time.Duration { return time.Since(scr.start) }
		observe := func(step int) {
			scr.mu.Lock()
			lg := append([]c56Lookup(nil), scr.log...)
			bad := scr.badHost
			scr.mu.Unlock()
			if bad != "" {
				fail(step, "wrong-host", "LookupHost was asked for %q, target host is %q", bad, scr.host)
			}
			for {
				if seen < len(lg) && endSeen == seen {
					// judge the START of lookup #seen+1 (its predecessor has completed)
					l := lg[seen]
					if closed && lookupsAtClose >= 0 && seen >= lookupsAtClose {
						fail(step, "lookup-after-close", "lookup #%d started at %v after Close had returned", seen+1, l.Start)
					}
					if seen > 0 {
						p := lg[seen-1]
						gap := l.Start - p.End
						if p.OK {
							res.AfterOK++
							if gap < minIvl {
								fail(step, "relookup-too-soon", "lookup #%d started at %v, only %v after the successful resolution completed at %v (minimum interval %v)", seen+1, l.Start, gap, p.End, minIvl)
							}
							if credits <= 0 {
								fail(step, "relookup-without-request", "lookup #%d started at %v after the successful resolution at %v although every ResolveNow so far had already been served", seen+1, l.Start, p.End)
							} else {
								credits--
							}
							if rnSinceOK == 0 {
								res.StaleToken++
							}
						} else if !p.Cancelled {
							res.AfterErr++
							if k > res.MaxK {
								res.MaxK = k
							}
							res.KCount[min(k, 11)]++
							if k == 1 && recovered {
								res.RetriesAfterRecovery++
							}
							lo, hi := c56RetryWindow(pass.Jitter, k)
							if gap < lo || gap > hi {
								fail(step, "retry-outside-backoff", "lookup #%d started %v after failure #%d in a row (completed at %v); exponential backoff allows [%v, %v]", seen+1, gap, k, p.End, lo, hi)
							}
						}
					}
					seen++
					continue
				}
				if endSeen < seen && lg[endSeen].Done {
					// COMPLETION of lookup #endSeen+1
					if lg[endSeen].OK {
						if k > 0 {
							recovered = true
						}
						k = 0
						rnSinceOK = 0
					} else {
						k++
					}
					endSeen++
					continue
				}
				if seen < len(lg) {
					fail(step, "overlapping-lookups", "lookup #%d started at %v while lookup #%d (started %v) was still in flight", seen+1, lg[seen].Start, seen, lg[seen-1].Start)
				}
				break
			}
			// "after failures it retries": the retry must have happened once the
			// upper end of the window has passed.
			if !closed && len(lg) > 0 && endSeen == len(lg) {
				p := lg[len(lg)-1]
				if !p.OK && !p.Cancelled {
					_, hi := c56RetryWindow(pass.Jitter, k)
					if now()-p.End > hi {
						fail(step, "no-retry", "at %v: no retry since failure #%d in a row completed at %v (window upper end %v)", now(), k, p.End, hi)
					}
				}
			}
		}
		synctest.Wait()
		observe(0)
		for i, ev := range hist {
			switch ev {
			case c56EvRN:
				credits++
				rnSinceOK++
				rs.ResolveNow(resolver.ResolveNowOptions{})
			case c56EvAdv1:
				time.Sleep(time.Second)
			case c56EvAdv29:
				time.Sleep(29 * time.Second)
			case c56EvAdv30:
				time.Sleep(30 * time.Second)
			case c56EvAdv31:
				time.Sleep(31 * time.Second)
			case c56EvAnsOK, c56EvAnsErr:
				scr.mu.Lock()
				scr.ansOK = ev == c56EvAnsOK
				scr.mu.Unlock()
			case c56EvClose:
				rs.Close()
				if !closed {
					closed = true
					synctest.Wait()
					scr.mu.Lock()
					lookupsAtClose = len(scr.log)
					scr.mu.Unlock()
				}
			}
			synctest.Wait()
			observe(i + 1)
			if len(res.Fails) > 0 {
				break
			}
		}
		scr.mu.Lock()
		res.Log = append([]c56Lookup(nil), scr.log...)
		scr.mu.Unlock()
		res.Lookups = len(res.Log)
		res.Closed = closed
		res.Updates = len(cc.states)
		res.ErrsReported = len(cc.errs)
		// resolved addresses: host:port with IPv6 bracketed
		for _, st := range cc.states {
			var got []string
			for _, a := range st.Addresses {
				got = append(got, a.Addr)
			}
			if strings.Join(got, " ") != "1.2.3.4:8080 [2001:db8::1]:8080" {
				fail(len(hist), "emitted-address-format", "resolved addresses emitted as %q, want [1.2.3.4:8080 [2001:db8::1]:8080]", got)
				break
			}
		}
	})
	return
}

func c56HistString(h []int) string {
	s := make([]string, len(h))
	for i, e := range h {
		s[i] = c56Events[e]
	}
	return strings.Join(s, ",")
}

func c56LogString(l []c56Lookup) string {
	var sb strings.Builder
	for i, x := range l {
		if i > 0 {
			sb.WriteByte(' ')
		}
		r := "err"
		if x.OK {
			r = "ok"
		}
		if x.Cancelled {
			r = "cancelled"
		}
		if !x.Done {
			r = "in-flight"
		}
		fmt.Fprintf(&sb, "%v..%v:%s", x.Start, x.End, r)
	}
	return sb.String()
}

type c56Replay struct {
	Pass   string   `json:"pass"`
	Events []string `json:"events"`
	Script string   `json:"script,omitempty"`
}

func TestVerif_C56_LookupPacing(t *testing.T) {
	const P = "C56"
	r := vk.Start(t, "c56_lookup_pacing", "exploration", P)
	defer r.Finish()
	depth := r.Pick(6, 8)
	r.Rule(P, fmt.Sprintf("every event history of length exactly %d (oracle checked after every prefix; histories containing an exact no-op event - answer mode set to what it already is, second Close - are skipped because the shorter history without it is a prefix of another one) over {ResolveNow, advance 1s/29s/30s/31s, next lookups answer ok, next lookups answer a temporary error, Close}, in 3 passes (retry jitter 0 with instant lookups; jitter 0 with 1 s lookups; default jitter 0.2 with instant lookups and length %d), each in a fresh synctest bubble around the real Build()/watcher with a scripted NetResolver and recording ClientConn; PLUS, in the same passes, every history of length %d over {ResolveNow, advance 1s, advance 31s} for every fixed outcome string of the first 7 lookups (ok / temporary error; thorough also ok-but-ClientConn-rejects; later lookups succeed), which reaches mixed runs F^n S F, F S F F, S F S F ... with n up to 7: the retry window is that of the k-th consecutive failure SINCE THE LAST SUCCESS; non-trivial = distinct histories with at least two lookups (a pacing gap was judged)", depth, depth-1, r.Pick(5, 6)))
	oldNR, oldJ := internal.NewNetResolver, ibackoff.DefaultExponential.Config.Jitter
	defer func() { internal.NewNetResolver, ibackoff.DefaultExponential.Config.Jitter = oldNR, oldJ }()
	byName := map[string]int{}
	for i, e := range c56Events {
		byName[e] = i
	}
	if r.ReplayFile() != "" {
		var rp c56Replay
		if err := r.LoadReplay(&rp); err != nil {
			r.EngineError("replay: %v", err)
			return
		}
		for _, p := range c56Passes {
			if p.Name != rp.Pass {
				continue
			}
			var h []int
			for _, e := range rp.Events {
				h = append(h, byName[e])
			}
			ibackoff.DefaultExponential.Config.Jitter = p.Jitter
			res := c56RunTimeline(t, p, h, rp.Script)
			r.Eval(P, 1)
			fmt.Printf("replay pass=%s script=%q events=%v lookups=%s\n", p.Name, rp.Script, rp.Events, c56LogString(res.Log))
			for _, f := range res.Fails {
				fmt.Printf("FAIL %s: %s\n", f.Class, f.Desc)
				r.Violation(P, "pacing/"+f.Class+"/"+p.Name, f.Desc, rp)
			}
		}
		return
	}
	total := 1
	for i := 0; i < depth; i++ {
		total *= len(c56Events)
	}
	var evals, nontriv, afterOK, afterErr, stale, closedWith, skipped int64
	var kCount [12]int64
	sampled := 0
	idx := 0
	h := make([]int, depth)
	var mixedEvals, postSuccessRetries int64
	msampled := 0
	scriptName := func(s string) string {
		if s == "" {
			return "(none: answer mode events)"
		}
		return s + " then S..."
	}
	account := func(p c56Pass, h []int, script string) {
		res := c56RunTimeline(t, p, h, script)
		evals++
		for _, f := range res.Fails {
			if f.Class == "engine" {
				r.EngineError("%s", f.Desc)
				continue
			}
			fh := h
			if res.FailAt <= len(h) {
				fh = h[:res.FailAt]
			}
			evs := make([]string, len(fh))
			for i, e := range fh {
				evs[i] = c56Events[e]
			}
			r.Violation(P, "pacing/"+f.Class+"/"+p.Name, f.Desc+"\n  pass: "+p.Name+"\n  lookup outcomes script: "+scriptName(script)+"\n  history: "+c56HistString(fh)+"\n  lookups: "+c56LogString(res.Log), c56Replay{Pass: p.Name, Events: evs, Script: script})
		}
		if res.Lookups >= 2 {
			nontriv++
		}
		afterOK += int64(res.AfterOK)
		afterErr += int64(res.AfterErr)
		stale += int64(res.StaleToken)
		for i, n := range res.KCount {
			kCount[i] += int64(n)
		}
		if res.Closed {
			closedWith++
		}
		if script != "" {
			if p.Jitter == 0 {
				r.Outcome(P, fmt.Sprintf("mixed:%s:lookups=%d,afterOK=%d,afterErr=%d", p.Name, res.Lookups, res.AfterOK, res.AfterErr))
			} else {
				r.Outcome(P, "mixed:"+p.Name+":run")
			}
			mixedEvals++
			postSuccessRetries += int64(res.RetriesAfterRecovery)
			if msampled < 2 && p.Jitter == 0 && res.RetriesAfterRecovery > 0 && res.MaxK >= 3 {
				msampled++
				r.Sample(P, map[string]any{"pass": p.Name, "script": script, "history": c56HistString(h), "lookups": c56LogString(res.Log)})
			}
		} else if p.Jitter == 0 {
			r.Outcome(P, fmt.Sprintf("pacing:%s:lookups=%d,afterOK=%d,afterErr=%d,closed=%v,stale=%d", p.Name, res.Lookups, res.AfterOK, res.AfterErr, res.Closed, res.StaleToken))
			if sampled < 2 && res.AfterOK > 0 && res.AfterErr > 1 {
				sampled++
				r.Sample(P, map[string]any{"pass": p.Name, "history": c56HistString(h), "lookups": c56LogString(res.Log)})
			}
		} else {
			r.Outcome(P, "pacing:"+p.Name+":run")
		}
	}
	for _, p := range c56Passes {
		ibackoff.DefaultExponential.Config.Jitter = p.Jitter
		depth, total := depth, total
		if p.Jitter != 0 {
			// the un-scripted jitter pass only has to show that the jittered
			// window is respected: one event less keeps the quick tier short
			depth, total = depth-1, total/len(c56Events)
		}
		h := h[:depth]
		for code := 0; code < total; code++ {
			mine := r.Mine(idx)
			idx++
			if !mine {
				continue
			}
			x := code
			for k := depth - 1; k >= 0; k-- {
				h[k] = x % len(c56Events)
				x /= len(c56Events)
			}
			// an "answer" event that does not change the answer mode, or a second
			// Close, is an exact no-op: that history behaves like the shorter one
			// without it, which is a prefix of another enumerated history.
			noop := false
			for i, ok, cl := 0, true, false; i < len(h) && !noop; i++ {
				switch h[i] {
				case c56EvAnsOK:
					noop, ok = ok, true
				case c56EvAnsErr:
					noop, ok = !ok, false
				case c56EvClose:
					noop, cl = cl, true
				}
			}
			if noop {
				skipped++
				continue
			}
			account(p, h, "")
			if evals%4096 == 0 && r.OverBudget() {
				r.Cap(P, "pacing: time budget hit")
				goto done
			}
		}
	}
	// ---- second family: lookup outcomes fixed per lookup (mixed failure/success runs) ----
	{
		outs := "SF"
		if r.Thorough() {
			outs = "SFR"
		}
		mEvents := []int{c56EvRN, c56EvAdv1, c56EvAdv31}
		M, D := 7, r.Pick(5, 6)
		nScripts, nHist := 1, 1
		for i := 0; i < M; i++ {
			nScripts *= len(outs)
		}
		for i := 0; i < D; i++ {
			nHist *= len(mEvents)
		}
		sb := make([]byte, M)
		for _, p := range c56Passes {
			ibackoff.DefaultExponential.Config.Jitter = p.Jitter
			D, nHist := D, nHist
			if p.Jitter != 0 {
				D, nHist = D-1, nHist/len(mEvents)
			}
			mh := make([]int, D)
			for sc := 0; sc < nScripts; sc++ {
				x := sc
				for k := M - 1; k >= 0; k-- {
					sb[k] = outs[x%len(outs)]
					x /= len(outs)
				}
				script := string(sb)
				for code := 0; code < nHist; code++ {
					mine := r.Mine(idx)
					idx++
					if !mine {
						continue
					}
					x := code
					for k := D - 1; k >= 0; k-- {
						mh[k] = mEvents[x%len(mEvents)]
						x /= len(mEvents)
					}
					account(p, mh, script)
					if evals%4096 == 0 && r.OverBudget() {
						r.Cap(P, "pacing (mixed outcomes): time budget hit")
						goto done
					}
				}
			}
		}
		r.Set(P, "mixed_family", fmt.Sprintf("outcome alphabet %q, script length %d (later lookups succeed), event histories of length %d over {ResolveNow, adv1s, adv31s}", outs, M, D))
	}
done:
	r.AddInt(P, "mixed_histories_run", mixedEvals)
	r.AddInt(P, "mixed_retries_judged_for_first_failure_after_a_recovery", postSuccessRetries)
	r.Eval(P, evals)
	r.NontrivialN(P, nontriv)
	r.AddInt(P, "pacing_lookups_after_success_judged", afterOK)
	r.AddInt(P, "pacing_retries_after_failure_judged", afterErr)
	r.AddInt(P, "pacing_histories_with_close", closedWith)
	r.AddInt(P, "pacing_histories_skipped_as_containing_a_noop_event", skipped)
	r.AddInt(P, "pacing_lookups_caused_by_a_ResolveNow_older_than_the_last_success", stale)
	for i, n := range kCount {
		if n > 0 {
			r.AddInt(P, fmt.Sprintf("pacing_retries_judged_after_%02d_consecutive_failures", i), n)
		}
	}
	lo, hi := c56RetryWindow(0.2, 2)
	r.Sample(P, map[string]any{"retry_window_after_2_failures_default_jitter": fmt.Sprintf("[%v, %v]", lo, hi)})
	r.Assume(P, "pacing leg: a ResolveNow counts as 'arrived' from the moment it is called and may be served by at most one post-success lookup (request ledger); the resolver's 1-slot request buffer means a ResolveNow issued BEFORE a successful lookup can trigger one more lookup 30 s after it. These are counted (pacing_lookups_caused_by_a_ResolveNow_older_than_the_last_success) but not flagged: the statement does not say the request must post-date the success")
	r.Assume(P, "pacing leg: retry window after the k-th consecutive failure spans exponents k-1..k of the documented default backoff (1s x 1.6^n, max 120s, jitter as per pass); the failure count is taken to restart after a success; SRV lookups off (package default), service-config TXT lookups disabled via BuildOptions; lookup latency is 0 or a constant 1 s")
}
