//go:build verif

package dns

import (
	"errors"
	"fmt"
	"net"
	"net/url"
	"strconv"
	"strings"
	"testing"

	"google.golang.org/grpc/internal/resolver/dns/internal"
	"google.golang.org/grpc/internal/verif/vk"
	"google.golang.org/grpc/resolver"
	"google.golang.org/grpc/serviceconfig"
)

// ---- C56 leg A: parseTarget / formatIP / Build's immediate emission over all short strings ----
//
// The oracle is a hand-written recogniser of the forms the statement names
// (host, host:port, IPv4, bare IPv6, [IPv6], [IPv6]:port, trailing colon). It
// does not use net.SplitHostPort / netip to decide anything about the INPUT.
// Strings outside those forms ("weird") only get the weak checks: no panic,
// deterministic, default-port independence, non-empty host and port, re-join.

func c56IsHostChar(c byte) bool {
	return c >= 'a' && c <= 'z' || c >= 'A' && c <= 'Z' || c >= '0' && c <= '9' || c == '.' || c == '-' || c == '_'
}

func c56All(s string, f func(byte) bool) bool {
	if s == "" {
		return false
	}
	for i := 0; i < len(s); i++ {
		if !f(s[i]) {
			return false
		}
	}
	return true
}

func c56IsHost(s string) bool { return c56All(s, c56IsHostChar) }
func c56IsPort(s string) bool {
	return c56All(s, func(c byte) bool { return c56IsHostChar(c) && c != '.' })
}
func c56IsHex(c byte) bool {
	return c >= '0' && c <= '9' || c >= 'a' && c <= 'f' || c >= 'A' && c <= 'F'
}

// c56IsIPv4: dotted quad, fields 0..255, no leading zeros.
func c56IsIPv4(s string) bool {
	fs := strings.Split(s, ".")
	if len(fs) != 4 {
		return false
	}
	for _, f := range fs {
		if len(f) < 1 || len(f) > 3 || !c56All(f, func(c byte) bool { return c >= '0' && c <= '9' }) {
			return false
		}
		if len(f) > 1 && f[0] == '0' {
			return false
		}
		if n, _ := strconv.Atoi(f); n > 255 {
			return false
		}
	}
	return true
}

// c56IsIPv6 recognises RFC 4291 text forms with an optional %zone.
// sane is false when the zone contains characters the harness does not want
// to reason about (then only the weak checks apply).
func c56IsIPv6(s string) (ok, sane bool) {
	addr, sane := s, true
	if i := strings.IndexByte(s, '%'); i >= 0 {
		zone := s[i+1:]
		addr = s[:i]
		if zone == "" {
			return false, true
		}
		sane = c56IsHost(zone)
	}
	if !strings.Contains(addr, ":") {
		return false, sane
	}
	groups := func(x string, v4tail bool) (int, bool) {
		if x == "" {
			return 0, true
		}
		gs := strings.Split(x, ":")
		n := 0
		for i, g := range gs {
			if i == len(gs)-1 && v4tail && strings.Contains(g, ".") {
				if !c56IsIPv4(g) {
					return 0, false
				}
				n += 2
				continue
			}
			if len(g) < 1 || len(g) > 4 || !c56All(g, c56IsHex) {
				return 0, false
			}
			n++
		}
		return n, true
	}
	parts := strings.Split(addr, "::")
	switch len(parts) {
	case 1:
		n, ok := groups(addr, true)
		return ok && n == 8, sane
	case 2:
		a, ok1 := groups(parts[0], false)
		b, ok2 := groups(parts[1], true)
		if parts[1] == "" && strings.Contains(parts[0], ".") {
			return false, sane
		}
		return ok1 && ok2 && a+b <= 7, sane
	}
	return false, sane
}

type c56Expect struct {
	Class  string // "" = weird
	Accept bool
	Host   string
	Port   string // "" = the default port
	IP     string // "4", "6" or "" : what Build must treat the host as
}

// c56Classify is the statement-level oracle for parseTarget.
func c56Classify(s string) c56Expect {
	if ok, sane := c56IsIPv6(s); ok {
		if !sane {
			return c56Expect{}
		}
		return c56Expect{Class: "bare-ipv6", Accept: true, Host: s, IP: "6"}
	}
	if strings.HasPrefix(s, "[") {
		if j := strings.IndexByte(s, ']'); j > 0 {
			in, rest := s[1:j], s[j+1:]
			if ok, sane := c56IsIPv6(in); ok && sane {
				switch {
				case rest == "":
					return c56Expect{Class: "[ipv6]", Accept: true, Host: in, IP: "6"}
				case rest == ":":
					return c56Expect{Class: "trailing-colon"}
				case rest[0] == ':' && c56IsPort(rest[1:]):
					return c56Expect{Class: "[ipv6]:port", Accept: true, Host: in, Port: rest[1:], IP: "6"}
				}
			}
		}
	}
	if c56IsHost(s) {
		if c56IsIPv4(s) {
			return c56Expect{Class: "ipv4", Accept: true, Host: s, IP: "4"}
		}
		return c56Expect{Class: "host", Accept: true, Host: s}
	}
	if i := strings.IndexByte(s, ':'); i > 0 && c56IsHost(s[:i]) && c56IsPort(s[i+1:]) {
		ip := ""
		if c56IsIPv4(s[:i]) {
			ip = "4"
		}
		cl := "host:port"
		if ip != "" {
			cl = "ipv4:port"
		}
		return c56Expect{Class: cl, Accept: true, Host: s[:i], Port: s[i+1:], IP: ip}
	}
	if strings.HasSuffix(s, ":") && !strings.Contains(s, "%") {
		// not a bare IPv6 address (checked above): the colon is a port separator
		// with nothing behind it, or the string is malformed anyway.
		return c56Expect{Class: "trailing-colon"}
	}
	return c56Expect{}
}

func c56SafeParse(s, def string) (h, p string, err error, pan any) {
	defer func() { pan = recover() }()
	h, p, err = parseTarget(s, def)
	return
}

func c56SafeFormat(s string) (out string, err error, pan any) {
	defer func() { pan = recover() }()
	out, err = formatIP(s)
	return
}

var errC56NoDNS = errors.New("c56: DNS path reached (scripted refusal)")

// c56RecCC records what a resolver tells its ClientConn.
type c56RecCC struct {
	states []resolver.State
	errs   []error
	onUpd  func(resolver.State) error
	onErr  func(error)
}

func (c *c56RecCC) UpdateState(s resolver.State) error {
	c.states = append(c.states, s)
	if c.onUpd != nil {
		return c.onUpd(s)
	}
	return nil
}
func (c *c56RecCC) ReportError(err error) {
	c.errs = append(c.errs, err)
	if c.onErr != nil {
		c.onErr(err)
	}
}
func (c *c56RecCC) NewAddress([]resolver.Address) {}
func (c *c56RecCC) ParseServiceConfig(string) *serviceconfig.ParseResult {
	return &serviceconfig.ParseResult{Err: errors.New("c56: no service config")}
}

func c56Target(authority, endpoint string) resolver.Target {
	return resolver.Target{URL: url.URL{Scheme: "dns", Host: authority, Path: "/" + endpoint}}
}

// c56CheckString returns "" or (class, description) of the first failed check.
func c56CheckString(s string) (failClass, desc string, e c56Expect) {
	e = c56Classify(s)
	h, p, err, pan := c56SafeParse(s, "443")
	if pan != nil {
		return "panic", fmt.Sprintf("parseTarget(%q) panicked: %v", s, pan), e
	}
	h2, p2, err2, pan2 := c56SafeParse(s, "443")
	if pan2 != nil || h != h2 || p != p2 || (err == nil) != (err2 == nil) {
		return "nondeterministic", fmt.Sprintf("parseTarget(%q) gave (%q,%q,%v) then (%q,%q,%v)", s, h, p, err, h2, p2, err2), e
	}
	h53, p53, err53, _ := c56SafeParse(s, "53")
	if (err == nil) != (err53 == nil) {
		return "default-port-dependent", fmt.Sprintf("parseTarget(%q): accepted with default port 443 = %v, with default port 53 = %v", s, err == nil, err53 == nil), e
	}
	if e.Class != "" {
		if e.Accept && err != nil {
			return "rejects-" + e.Class, fmt.Sprintf("parseTarget(%q) rejected a %s target: %v", s, e.Class, err), e
		}
		if !e.Accept && err == nil {
			return "accepts-" + e.Class, fmt.Sprintf("parseTarget(%q) = (%q,%q): a %s target must be rejected", s, h, p, e.Class), e
		}
	}
	if err != nil {
		return "", "", e
	}
	// accepted
	if p == "" {
		return "empty-port", fmt.Sprintf("parseTarget(%q) accepted with host=%q and an EMPTY port", s, h), e
	}
	if h == "" {
		// e.g. "[]" -> host "": outside the statement's forms, recorded as an
		// outcome class only (the statement does not speak about it).
		if e.Class != "" {
			return "empty-host", fmt.Sprintf("parseTarget(%q) accepted with an empty host", s), e
		}
		return "", "", e
	}
	if h != h53 || !(p == p53 || (p == "443" && p53 == "53")) {
		return "default-port-dependent", fmt.Sprintf("parseTarget(%q): default 443 -> (%q,%q), default 53 -> (%q,%q)", s, h, p, h53, p53), e
	}
	if e.Class != "" {
		wantPort := e.Port
		if wantPort == "" {
			wantPort = "443"
			if p53 != "53" {
				return "default-port-not-applied", fmt.Sprintf("parseTarget(%q, default 53) port = %q, want the default", s, p53), e
			}
		}
		if h != e.Host || p != wantPort {
			return "wrong-split-" + e.Class, fmt.Sprintf("parseTarget(%q) = (%q,%q), the statement's forms give (%q,%q)", s, h, p, e.Host, wantPort), e
		}
	}
	// re-join: host:port (IPv6 bracketed) must parse back to the same pair
	rj := h + ":" + p
	if strings.Contains(h, ":") {
		rj = "[" + h + "]:" + p
	}
	if e.Class != "" || !strings.ContainsAny(h, "[]%") {
		hr, pr, errr, _ := c56SafeParse(rj, "1")
		if errr != nil || hr != h || pr != p {
			return "rejoin", fmt.Sprintf("parseTarget(%q) = (%q,%q) but re-joined %q parses to (%q,%q,%v)", s, h, p, rj, hr, pr, errr), e
		}
	}
	// formatIP on the host, and what Build emits
	f, ferr, fpan := c56SafeFormat(h)
	if fpan != nil {
		return "panic", fmt.Sprintf("formatIP(%q) panicked: %v", h, fpan), e
	}
	if e.Class != "" {
		switch e.IP {
		case "4":
			if ferr != nil || f != h {
				return "formatIP-v4", fmt.Sprintf("formatIP(%q) = (%q,%v), want the IPv4 address unchanged", h, f, ferr), e
			}
		case "6":
			if ferr != nil || f != "["+h+"]" {
				return "formatIP-v6", fmt.Sprintf("formatIP(%q) = (%q,%v), want it bracketed", h, f, ferr), e
			}
		default:
			if ferr == nil {
				return "formatIP-host", fmt.Sprintf("formatIP(%q) = %q: a host name is not an IP address", h, f), e
			}
		}
		// Build: an IP-literal target is emitted at once as ip:port / [ip6]:port
		cc := &c56RecCC{}
		var r resolver.Resolver
		var berr error
		func() {
			defer func() {
				if x := recover(); x != nil {
					berr = fmt.Errorf("panic: %v", x)
				}
			}()
			r, berr = NewBuilder().Build(c56Target("", s), cc, resolver.BuildOptions{DisableServiceConfig: true})
		}()
		if r != nil {
			r.Close()
		}
		if e.IP == "" {
			if !errors.Is(berr, errC56NoDNS) || len(cc.states) != 0 {
				return "build-host", fmt.Sprintf("Build(%q): host name target did not go to DNS (err=%v, immediate states=%d)", s, berr, len(cc.states)), e
			}
		} else {
			if berr != nil || len(cc.states) != 1 || len(cc.states[0].Addresses) != 1 {
				return "build-ip", fmt.Sprintf("Build(%q): IP target: err=%v states=%d", s, berr, len(cc.states)), e
			}
			got := cc.states[0].Addresses[0].Addr
			want := h + ":" + p
			if e.IP == "6" {
				want = "[" + h + "]:" + p
			}
			sh, sp, serr := net.SplitHostPort(got)
			if got != want || serr != nil || sh != h || sp != p {
				return "emit-" + e.Class, fmt.Sprintf("Build(%q) emitted address %q, want %q (decodes to (%q,%q,%v))", s, got, want, sh, sp, serr), e
			}
		}
	}
	return "", "", e
}

// c56FormatOnly: formatIP on an arbitrary string (not only on parsed hosts).
func c56FormatOnly(s string) (failClass, desc string) {
	f, err, pan := c56SafeFormat(s)
	if pan != nil {
		return "panic", fmt.Sprintf("formatIP(%q) panicked: %v", s, pan)
	}
	v6, sane := c56IsIPv6(s)
	switch {
	case c56IsIPv4(s):
		if err != nil || f != s {
			return "formatIP-v4", fmt.Sprintf("formatIP(%q) = (%q,%v), want unchanged", s, f, err)
		}
	case v6 && sane:
		if err != nil || f != "["+s+"]" {
			return "formatIP-v6", fmt.Sprintf("formatIP(%q) = (%q,%v), want bracketed", s, f, err)
		}
	case !v6 && sane && !strings.Contains(s, "%"):
		if err == nil {
			return "formatIP-nonip", fmt.Sprintf("formatIP(%q) = %q: not an IP address", s, f)
		}
	}
	return "", ""
}

// c56Menu: realistic targets with hand-written expectations (accept, host, port; port "" = default).
var c56Menu = []struct {
	T      string
	Accept bool
	Host   string
	Port   string
}{
	{"www.google.com", true, "www.google.com", ""},
	{"www.google.com:80", true, "www.google.com", "80"},
	{"foo.bar:12345", true, "foo.bar", "12345"},
	{"example.com.", true, "example.com.", ""},
	{"xn--nxasmq6b.example:443", true, "xn--nxasmq6b.example", "443"},
	{"localhost", true, "localhost", ""},
	{"127.0.0.1", true, "127.0.0.1", ""},
	{"127.0.0.1:12345", true, "127.0.0.1", "12345"},
	{"255.255.255.255:1", true, "255.255.255.255", "1"},
	{"256.1.1.1", true, "256.1.1.1", ""},
	{"1.2.3.4.5", true, "1.2.3.4.5", ""},
	{"::1", true, "::1", ""},
	{"::", true, "::", ""},
	{"1::", true, "1::", ""},
	{"2001:db8::1", true, "2001:db8::1", ""},
	{"2001:db8:a0b:12f0::1", true, "2001:db8:a0b:12f0::1", ""},
	{"1:2:3:4:5:6:7:8", true, "1:2:3:4:5:6:7:8", ""},
	{"::ffff:1.2.3.4", true, "::ffff:1.2.3.4", ""},
	{"fe80::1%lo0", true, "fe80::1%lo0", ""},
	{"[::1]", true, "::1", ""},
	{"[::1]:80", true, "::1", "80"},
	{"[2001:db8::1]:443", true, "2001:db8::1", "443"},
	{"[2001:db8:a0b:12f0::1]:21", true, "2001:db8:a0b:12f0::1", "21"},
	{"[::ffff:1.2.3.4]:55", true, "::ffff:1.2.3.4", "55"},
	{"[fe80::1%lo0]:80", true, "fe80::1%lo0", "80"},
	{"[::]:1", true, "::", "1"},
	{"www.google.com:", false, "", ""},
	{"127.0.0.1:", false, "", ""},
	{"[::1]:", false, "", ""},
	{"[2001:db8::1]:", false, "", ""},
	{"localhost:", false, "", ""},
	{"a:", false, "", ""},
	{":", false, "", ""},
}

// c56MenuWeak: realistic malformed / borderline targets, weak checks only.
var c56MenuWeak = []string{"", ":80", "a:b:c", "[::1", "::1]", "[::1]]", "[[::1]]", "host:port:", "[1.2.3.4]:80", "[www.google.com]:80", "1:2:3:4:5:6:7:8:9", "::1::2", "fe80::1%", "[::1]:80:90", "[]:80", "a b", "http://x", "[::1]80", "::1:80", "1.2.3.4:5:6"}

const c56Alphabet = "a1:[].%"

func TestVerif_C56_TargetParsing(t *testing.T) {
	const P = "C56"
	r := vk.Start(t, "c56_target_parsing", "exploration", P)
	defer r.Finish()
	maxLen := r.Pick(6, 7)
	r.Rule(P, fmt.Sprintf("every string of length <= %d over the alphabet {a,1,:,[,],.,%%} plus a menu of %d realistic targets with hand-written expectations and %d malformed ones, each run through the real parseTarget (two default ports), formatIP and (for the statement's forms) Build with a recording ClientConn; oracle = hand-written recogniser of host / host:port / IPv4 / bare IPv6 / [IPv6] / [IPv6]:port / trailing colon; non-trivial = distinct strings that fall into one of the statement's forms (strong checks apply)", maxLen, len(c56Menu), len(c56MenuWeak)))
	oldNR := internal.NewNetResolver
	internal.NewNetResolver = func(string) (internal.NetResolver, error) { return nil, errC56NoDNS }
	defer func() { internal.NewNetResolver = oldNR }()

	report := func(s, class, desc string) {
		r.Violation(P, "parse/"+class, desc, map[string]any{"target": s})
	}
	if r.ReplayFile() != "" {
		var rp struct {
			Target *string `json:"target"`
		}
		if err := r.LoadReplay(&rp); err != nil {
			r.EngineError("replay: %v", err)
			return
		}
		if rp.Target == nil {
			return
		}
		class, desc, e := c56CheckString(*rp.Target)
		if class == "" {
			class, desc = c56FormatOnly(*rp.Target)
		}
		r.Eval(P, 1)
		fmt.Printf("replay target=%q expect=%+v fail=%q %s\n", *rp.Target, e, class, desc)
		if class != "" {
			report(*rp.Target, class, desc)
		}
		return
	}
	var evals, nontriv int64
	classCount := map[string]int64{}
	one := func(s string) {
		evals++
		class, desc, e := c56CheckString(s)
		if class == "" {
			class, desc = c56FormatOnly(s)
		}
		if class != "" {
			report(s, class, desc)
		}
		k := e.Class
		if k == "" {
			h, _, err, _ := c56SafeParse(s, "443")
			if err == nil && h == "" {
				k = "weird/accepted-with-empty-host"
			} else if err == nil {
				k = "weird/accepted"
			} else {
				k = "weird/rejected"
			}
		} else {
			nontriv++
		}
		classCount[k]++
	}
	// all strings up to maxLen
	buf := make([]byte, 0, maxLen)
	var rec func(l int)
	rec = func(l int) {
		one(string(buf))
		if l == maxLen {
			return
		}
		for i := 0; i < len(c56Alphabet); i++ {
			buf = append(buf, c56Alphabet[i])
			rec(l + 1)
			buf = buf[:len(buf)-1]
		}
	}
	rec(0)
	// menus
	for _, m := range c56Menu {
		one(m.T)
		h, p, err, pan := c56SafeParse(m.T, "443")
		wantPort := m.Port
		if wantPort == "" {
			wantPort = "443"
		}
		switch {
		case pan != nil:
			report(m.T, "panic", fmt.Sprintf("parseTarget(%q) panicked: %v", m.T, pan))
		case m.Accept && (err != nil || h != m.Host || p != wantPort):
			report(m.T, "menu", fmt.Sprintf("parseTarget(%q) = (%q,%q,%v), expected (%q,%q)", m.T, h, p, err, m.Host, wantPort))
		case !m.Accept && err == nil:
			report(m.T, "menu", fmt.Sprintf("parseTarget(%q) = (%q,%q), expected rejection", m.T, h, p))
		}
		if e := c56Classify(m.T); e.Class == "" {
			r.EngineError("menu target %q is not recognised by the oracle's forms", m.T)
		}
	}
	for _, s := range c56MenuWeak {
		one(s)
	}
	r.Eval(P, evals)
	r.NontrivialN(P, nontriv)
	for k, n := range classCount {
		r.Outcome(P, "parse:"+k)
		r.Set(P, "parse_class/"+k, n)
	}
	for _, s := range []string{"[::1]:80", "a.a:1", "1::", "a:"} {
		h, p, err, _ := c56SafeParse(s, "443")
		r.Sample(P, map[string]any{"target": s, "oracle": fmt.Sprintf("%+v", c56Classify(s)), "real": fmt.Sprintf("(%q,%q,%v)", h, p, err)})
	}
	r.Assume(P, "parsing leg: strings outside the statement's forms (unbalanced brackets, zone ids with punctuation, empty host, several colons that are not IPv6, ...) only get the weak checks (no panic, deterministic, default-port independence, non-empty parts, re-join)")
}
