//go:build verif

package adaptive

// C41 (leg c, package balancer/rls/internal/adaptive): the adaptive
// throttler's probability is computed from the accept/throttle counts of
// exactly the last 30 seconds.
//
// E3: every event timeline up to the length bound over a small alphabet of
// (clock step, event) pairs is applied to a fresh real Throttler through the
// timeNowFunc / randFunc seams (the clock may go backwards). A ledger of all
// registered events is kept by the harness; after every event the real
// counters are compared with a brute-force count over the ledger.

import (
	"fmt"
	"math/big"
	"reflect"
	"strings"
	"testing"
	"time"

	"google.golang.org/grpc/internal/verif/vk"
)

const c41cP = "C41"

type c41cSym struct {
	dt   time.Duration
	kind byte    // 'A' backend accepted, 'T' backend throttled, 'Q' ShouldThrottle
	rnd  float64 // value of the random source for 'Q' (0 or 0.25: exactly rndNum/4)
}

func (s c41cSym) String() string {
	if s.kind == 'Q' {
		return fmt.Sprintf("%+v:Q(rand=%v)", s.dt, s.rnd)
	}
	return fmt.Sprintf("%+v:%c", s.dt, s.kind)
}

type c41cEv struct {
	t    time.Time
	kind byte // 'A' or 'T'
}

type c41cReplay struct {
	Scenario string   `json:"scenario"`
	Events   []string `json:"events"`
}

const (
	c41cWindow = 30 * time.Second
	c41cBins   = 100 // documented default: "Bins: ... A default of 100 is used"
)

// c41cCount is the brute-force window count for one counter. hw is the latest
// time that counter has been shown. must = events younger than the window
// minus one bin (have to be counted), may = events younger than the window
// (are allowed to be counted); events of age >= 30 s must not be counted.
func c41cCount(ledger []c41cEv, kind byte, hw time.Time) (must, may int64) {
	for _, e := range ledger {
		if e.kind != kind {
			continue
		}
		age := hw.Sub(e.t)
		if age < c41cWindow {
			may++
			if age < c41cWindow-c41cWindow/c41cBins {
				must++
			}
		}
	}
	return
}

// c41cProbGreater reports whether (thr-acc)/(acc+thr+8) > rnd in exact
// arithmetic: probability = (requests - 2*accepts) / (requests + 8).
func c41cProbGreater(acc, thr int64, rnd float64) bool {
	switch rnd {
	case 0:
		return thr-acc > 0 // denominator acc+thr+8 > 0
	case 0.25:
		return 4*(thr-acc) > acc+thr+8
	}
	p := new(big.Rat).SetFrac64(thr-acc, acc+thr+8)
	q := new(big.Rat)
	q.SetFloat64(rnd)
	return p.Cmp(q) > 0
}

type c41cStats struct {
	// counted once per distinct timeline prefix (see i0):
	prefixes, excluding int64
	// counted per executed step:
	steps, exact, slack, backwards, singleWindowDiffers int64
	throttled, passed                                  int64
	sampleDiff                                         string
}

// c41cRunTimeline applies tl to a fresh Throttler, checking after every event.
// Returns the index of the first failing event (-1 = none), a class and a text.
//
// i0: only steps with index >= i0 are CHECKED (earlier ones are just applied):
// in odometer order the prefix tl[:i0] is shared with the previously executed
// timeline, where it has been checked already; so over the whole enumeration
// every distinct timeline prefix is checked exactly once, and the statistics
// count distinct prefixes.
//
// th must be in the state of New() (see c41cReset).
func c41cRunTimeline(th *Throttler, base time.Time, tl []c41cSym, i0 int, st *c41cStats, now *time.Time, rnd *float64) (int, string, string) {
	*now = base
	var ledgerBuf [16]c41cEv
	ledger := ledgerBuf[:0]
	var hwA, hwT, hwAll time.Time // zero = never shown
	show := func(hw *time.Time, t time.Time) {
		if t.After(*hw) {
			*hw = t
		}
	}
	for i, s := range tl {
		*now = now.Add(s.dt)
		t := *now
		chk := i >= i0
		if s.dt < 0 && chk {
			st.backwards++
		}
		switch s.kind {
		case 'A':
			th.RegisterBackendResponse(false)
			ledger = append(ledger, c41cEv{t, 'A'})
			show(&hwA, t)
			show(&hwAll, t)
		case 'T':
			th.RegisterBackendResponse(true)
			ledger = append(ledger, c41cEv{t, 'T'})
			show(&hwT, t)
			show(&hwAll, t)
		case 'Q':
			*rnd = s.rnd
			// both counters are consulted at t
			show(&hwA, t)
			show(&hwT, t)
			show(&hwAll, t)
			got := th.ShouldThrottle()
			if !chk {
				if got {
					ledger = append(ledger, c41cEv{t, 'T'})
				}
				continue
			}
			aMust, aMay := c41cCount(ledger, 'A', hwA)
			tMust, tMay := c41cCount(ledger, 'T', hwT)
			// the sums that were used are the counters' totals, minus the throttle
			// this very call registered at t (which is itself subject to the
			// throttles counter's window: t may lie 30 s or more behind it)
			usedA := th.accepts.total
			usedTlo, usedThi := th.throttles.total, th.throttles.total
			if got {
				if age := hwT.Sub(t); age < c41cWindow {
					usedTlo--
					if age < c41cWindow-c41cWindow/c41cBins {
						usedThi--
					}
				}
			}
			if usedA < aMust || usedA > aMay || usedThi < tMust || usedTlo > tMay {
				return i, "window-sum", fmt.Sprintf("ShouldThrottle at %v (returned %v) used accepts=%d throttles=%d..%d; events of the last 30 s: accepts in [%d,%d], throttles in [%d,%d] (ledger %s)", t.Sub(base), got, usedA, usedTlo, usedThi, aMust, aMay, tMust, tMay, c41cLedger(base, ledger))
			}
			// decision: throttle iff rand < probability, for some admissible counts
			okDecision := false
			for a := aMust; a <= aMay; a++ {
				for x := tMust; x <= tMay; x++ {
					if c41cProbGreater(a, x, s.rnd) == got {
						okDecision = true
					}
				}
			}
			if !okDecision {
				return i, "decision", fmt.Sprintf("ShouldThrottle at %v with rand=%v returned %v; with accepts=%d throttles=%d in the last 30 s the probability (requests-2*accepts)/(requests+8) = %d/%d gives %v", t.Sub(base), s.rnd, got, aMust, tMust, tMust-aMust, aMust+tMust+8, !got)
			}
			if got {
				ledger = append(ledger, c41cEv{t, 'T'}) // a locally throttled request counts as a throttle
				st.throttled++
			} else {
				st.passed++
			}
			// statistics: does a single common window (ending at the latest time
			// the throttler has seen) give the same counts?
			ua, _ := c41cCount(ledger[:len(ledger)-c41cB2i(got)], 'A', hwAll)
			ut, _ := c41cCount(ledger[:len(ledger)-c41cB2i(got)], 'T', hwAll)
			if ua != aMust || ut != tMust {
				st.singleWindowDiffers++
				if st.sampleDiff == "" {
					st.sampleDiff = fmt.Sprintf("%v: per-counter windows give accepts=%d throttles=%d, one window ending at the latest time seen gives accepts=%d throttles=%d", c41cNames(tl[:i+1]), aMust, tMust, ua, ut)
				}
			}
		}
		if !chk {
			continue
		}
		// after every event: each counter's running total is the window count
		// ending at the latest time that counter has been shown
		aMust, aMay := c41cCount(ledger, 'A', hwA)
		tMust, tMay := c41cCount(ledger, 'T', hwT)
		ga, gt := th.accepts.total, th.throttles.total
		if ga < aMust || ga > aMay || gt < tMust || gt > tMay {
			return i, "running-total", fmt.Sprintf("after event #%d (%v) at %v the counters hold accepts=%d throttles=%d; events of the last 30 s: accepts in [%d,%d], throttles in [%d,%d] (ledger %s)", i, s, t.Sub(base), ga, gt, aMust, aMay, tMust, tMay, c41cLedger(base, ledger))
		}
		st.steps++
		st.prefixes++
		if int(aMay+tMay) < len(ledger) {
			st.excluding++
		}
		if aMust == aMay && tMust == tMay {
			st.exact++
		} else {
			st.slack++
		}
	}
	// ring buffer consistent with its total
	for _, lb := range []*lookback{th.accepts, th.throttles} {
		var sum int64
		for _, v := range lb.buf {
			sum += v
			if v < 0 {
				return len(tl) - 1, "negative-bin", fmt.Sprintf("a bin of the lookback buffer is negative (%d)", v)
			}
		}
		if sum != lb.total {
			return len(tl) - 1, "total-vs-bins", fmt.Sprintf("lookback total %d but bins sum to %d", lb.total, sum)
		}
	}
	return -1, "", ""
}

// c41cReset puts th back into the state New() returns, without allocating
// (allocating 2x100 bins per timeline dominated the run time). The harness
// checks reflect.DeepEqual(reset object, New()) at the start and at the end.
func c41cReset(th *Throttler) {
	for _, lb := range []*lookback{th.accepts, th.throttles} {
		lb.head, lb.total = 0, 0
		clear(lb.buf)
	}
}

func c41cB2i(b bool) int {
	if b {
		return 1
	}
	return 0
}

func c41cLedger(base time.Time, l []c41cEv) string {
	var sb strings.Builder
	for i, e := range l {
		if i > 0 {
			sb.WriteByte(' ')
		}
		fmt.Fprintf(&sb, "%c@%v", e.kind, e.t.Sub(base))
	}
	return "[" + sb.String() + "]"
}

func c41cNames(tl []c41cSym) []string {
	out := make([]string, len(tl))
	for i, s := range tl {
		out[i] = s.String()
	}
	return out
}

type c41cScenario struct {
	name string
	syms []c41cSym
	L    int
	base time.Time
}

func c41cAlphabet(dts []time.Duration) []c41cSym {
	var out []c41cSym
	for _, dt := range dts {
		out = append(out, c41cSym{dt, 'A', 0}, c41cSym{dt, 'T', 0}, c41cSym{dt, 'Q', 0}, c41cSym{dt, 'Q', 0.25})
	}
	return out
}

func TestVerif_C41_Throttler(t *testing.T) {
	const P = c41cP
	r := vk.Start(t, "c41c_throttler", "exploration", P)
	defer r.Finish()
	r.Rule(P, "every timeline of exactly L events (every shorter timeline is checked as a prefix) over {clock step} x {backend accept, backend throttle, ShouldThrottle with rand=0, ShouldThrottle with rand=0.25} applied to a fresh real Throttler via the timeNowFunc/randFunc seams. Scenario 'seconds': steps {-31s,-1s,0,+1s,+29s,+31s}, L=5 quick / 6 thorough. Scenario 'subbin': steps {-100ms,0,+100ms,+200ms,+29.5s,+29.8s}, L=4 quick / 5 thorough. After every event each counter's running total, and at every ShouldThrottle the sums it used and its decision, are compared with a brute-force count over the harness's own event ledger. Non-trivial = event steps at which at least one ledger event has aged out of (or was dropped from) the window, counted per distinct timeline prefix")
	r.Assume(P, "'exactly the last 30 seconds' is read as the half-open window (now-30s, now] at the documented granularity of 100 bins: an event younger than 30s-300ms must be counted, an event 30s old or older must not be, in between either (for whole-second timelines this is exact). A ShouldThrottle()==true return registers a throttle at that time (locally rejected requests count as throttled).")
	r.Assume(P, "with a clock that goes backwards, 'now' is read per counter: each of the two counters' windows ends at the latest time that counter has been shown (lookback.sum: 'at the given time or head, whichever is greater'); timelines in which a single common window would give different counts are tallied in single_window_reading_differs, not judged")

	saveNow, saveRand := timeNowFunc, randFunc
	defer func() { timeNowFunc, randFunc = saveNow, saveRand }()
	var now time.Time
	var rnd float64
	timeNowFunc = func() time.Time { return now }
	randFunc = func() float64 { return rnd }

	sec := time.Second
	ms := time.Millisecond
	base := time.Unix(1_000_000_000, 0)
	scens := []c41cScenario{
		{"seconds", c41cAlphabet([]time.Duration{-31 * sec, -1 * sec, 0, 1 * sec, 29 * sec, 31 * sec}), r.Pick(5, 6), base},
		{"subbin", c41cAlphabet([]time.Duration{-100 * ms, 0, 100 * ms, 200 * ms, 29500 * ms, 29800 * ms}), r.Pick(4, 5), base.Add(50 * ms)},
	}

	if f := r.ReplayFile(); f != "" {
		var rp c41cReplay
		if err := r.LoadReplay(&rp); err != nil {
			r.EngineError("replay: %v", err)
			return
		}
		for _, sc := range scens {
			if sc.name != rp.Scenario {
				continue
			}
			var tl []c41cSym
			for _, n := range rp.Events {
				found := false
				for _, s := range sc.syms {
					if s.String() == n {
						tl = append(tl, s)
						found = true
					}
				}
				if !found {
					r.EngineError("replay: unknown event %q", n)
					return
				}
			}
			var st c41cStats
			i, class, msg := c41cRunTimeline(New(), sc.base, tl, 0, &st, &now, &rnd)
			r.Eval(P, 1)
			fmt.Printf("replay %s %v: fail index %d %s %s\n", sc.name, rp.Events, i, class, msg)
			if i >= 0 {
				r.Violation(P, "replay", msg, rp)
			}
		}
		return
	}

	th := New()
	th.RegisterBackendResponse(true)
	th.RegisterBackendResponse(false)
	c41cReset(th)
	if !reflect.DeepEqual(th, New()) {
		r.EngineError("c41cReset does not restore the state of New()")
		return
	}
	defer func() {
		c41cReset(th)
		if !reflect.DeepEqual(th, New()) {
			r.EngineError("c41cReset does not restore the state of New() (end of run)")
		}
	}()
	for _, sc := range scens {
		S := len(sc.syms)
		total := int64(1)
		for i := 0; i < sc.L; i++ {
			total *= int64(S)
		}
		var st c41cStats
		var ran int64
		reported := map[string]bool{}
		perClass := map[string]int{}
		tl := make([]c41cSym, sc.L)
		capped := false
		for idx := int64(0); idx < total; idx++ {
			// shard on the first two symbols
			if !r.Mine(int(idx / (total / int64(S*S)))) {
				idx += total/int64(S*S) - 1
				continue
			}
			if idx%(1<<16) == 0 && r.OverBudget() {
				r.Cap(P, fmt.Sprintf("%s: budget exhausted after %d of %d timelines", sc.name, idx, total))
				capped = true
				break
			}
			x := idx
			i0, tailZero := 0, true
			for k := sc.L - 1; k >= 0; k-- {
				d := x % int64(S)
				tl[k] = sc.syms[d]
				x /= int64(S)
				if tailZero && d != 0 {
					tailZero = false
					i0 = k
				}
			}
			c41cReset(th)
			i, class, msg := c41cRunTimeline(th, sc.base, tl, i0, &st, &now, &rnd)
			ran++
			if i >= 0 {
				names := c41cNames(tl[:i+1])
				key := sc.name + "/" + class + "/" + strings.Join(names, ",")
				if !reported[key] && perClass[class] < 2 {
					reported[key] = true
					perClass[class]++
					r.Violation(P, key, msg+"\n  timeline: "+strings.Join(names, " ; "), c41cReplay{Scenario: sc.name, Events: names})
				}
			}
		}
		_ = capped
		distinct := st.prefixes
		nontrivSteps := st.excluding
		r.Eval(P, distinct)
		r.NontrivialN(P, nontrivSteps)
		r.Set(P, "scenario/"+sc.name, map[string]any{
			"alphabet": S, "depth_bound_length": sc.L, "timelines_executed": ran, "distinct_timelines_incl_prefixes": st.prefixes, "prefixes_with_an_event_outside_the_window": st.excluding, "event_steps_checked": st.steps,
			"steps_with_exact_oracle": st.exact, "steps_with_bin_slack": st.slack, "backward_clock_steps": st.backwards,
			"should_throttle_true": st.throttled, "should_throttle_false": st.passed,
			"single_window_reading_differs": st.singleWindowDiffers,
		})
		if st.sampleDiff != "" {
			if sh, _ := r.Shard(); sh == 0 {
				r.Set(P, "scenario/"+sc.name+"/single_window_sample", st.sampleDiff)
			}
		}
		if st.throttled > 0 {
			r.Outcome(P, sc.name+": ShouldThrottle returned true")
		}
		if st.passed > 0 {
			r.Outcome(P, sc.name+": ShouldThrottle returned false")
		}
		if st.slack > 0 {
			r.Outcome(P, sc.name+": a ledger event lies in the last bin of the window")
		}
		if st.backwards > 0 {
			r.Outcome(P, sc.name+": clock went backwards")
		}
	}
	r.Sample(P, map[string]any{"scenario": "seconds", "timeline": []string{"0s:T", "29s:T", "1s:Q(rand=0)"}, "expected": "the first throttle is exactly 30 s old at the query: throttles=1, accepts=0, probability 1/9 > 0 so the request is throttled"})
	r.Sample(P, map[string]any{"scenario": "seconds", "timeline": []string{"31s:A", "-31s:T", "0s:Q(rand=0)"}, "expected": "clock went back 31 s: accepts counter window ends at +31s, throttles counter window at 0s"})
}
