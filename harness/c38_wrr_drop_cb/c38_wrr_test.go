//go:build verif

package wrr

// C38 (a) random WRR and (b) EDF WRR.
//
// (a) The package's random seam randInt64n is replaced by an enumerator: for a
// WRR built by NewRandom+Add, Next() is executed once for EVERY value the seam
// can return (depth-first over the draws actually requested, each request
// randInt64n(N) having N equiprobable answers), and the exact probability mass
// of each returned item is accumulated in math/big. Oracle (from the statement):
// P(item i) = w_i / sum(w); when all weights are equal (incl. all zero) 1/n; a
// zero-weight item is never returned unless all weights are equal. Two
// consecutive Next() calls are enumerated jointly as well (P(i,j) = p_i*p_j).
//
// (b) For NewEDF+Add, Next() is called 3*sum(w) times; after each multiple m of
// sum(w) picks item i must have been returned exactly m*w_i times.

import (
	"fmt"
	"math/big"
	"sort"
	"strings"
	"testing"

	"google.golang.org/grpc/internal/verif/vk"
)

const c38P = "C38"

// c38Enum enumerates every answer sequence of the random seam.
type c38Enum struct {
	script []int64 // answers to give (prefix); extended with 0 on demand
	args   []int64 // N of each request in the current execution
	pos    int
	bad    string
}

func (e *c38Enum) seam(n int64) int64 {
	if n <= 0 {
		e.bad = fmt.Sprintf("random seam asked for a draw from an empty range (n=%d)", n)
		n = 1
	}
	if e.pos == len(e.script) {
		e.script = append(e.script, 0)
	}
	if e.pos == len(e.args) {
		e.args = append(e.args, 0)
	}
	e.args[e.pos] = n
	d := e.script[e.pos]
	if d >= n { // range changed between executions: non-deterministic use of the seam
		e.bad = fmt.Sprintf("random seam range changed between executions (draw %d, n=%d)", d, n)
		d = n - 1
	}
	e.pos++
	return d
}

// begin prepares one execution; next advances the odometer, false when done.
func (e *c38Enum) begin() { e.pos = 0 }
func (e *c38Enum) next() bool {
	e.script = e.script[:e.pos]
	e.args = e.args[:e.pos]
	for len(e.script) > 0 {
		k := len(e.script) - 1
		e.script[k]++
		if e.script[k] < e.args[k] {
			return true
		}
		e.script = e.script[:k]
		e.args = e.args[:k]
	}
	return false
}

// mass of the current leaf = prod 1/args[k]
func (e *c38Enum) mass() *big.Rat {
	m := big.NewRat(1, 1)
	for _, a := range e.args[:e.pos] {
		m.Mul(m, big.NewRat(1, a))
	}
	return m
}

func c38FmtW(ws []int64) string {
	s := make([]string, len(ws))
	for i, w := range ws {
		s[i] = fmt.Sprint(w)
	}
	return "[" + strings.Join(s, ",") + "]"
}

// c38RefProb: the statement's probability of item i.
func c38RefProb(ws []int64) []*big.Rat {
	var sum int64
	for _, w := range ws {
		sum += w
	}
	out := make([]*big.Rat, len(ws))
	for i, w := range ws {
		if sum == 0 { // all zero = all equal
			out[i] = big.NewRat(1, int64(len(ws)))
		} else {
			out[i] = big.NewRat(w, sum)
		}
	}
	return out
}

func c38Lists(menu []int64, maxN int) [][]int64 {
	var out [][]int64
	for n := 1; n <= maxN; n++ {
		total := 1
		for i := 0; i < n; i++ {
			total *= len(menu)
		}
		for x := 0; x < total; x++ {
			v := make([]int64, n)
			y := x
			for i := n - 1; i >= 0; i-- {
				v[i] = menu[y%len(menu)]
				y /= len(menu)
			}
			out = append(out, v)
		}
	}
	return out
}

// c38RandomCheck enumerates `calls` consecutive Next() calls on a fresh random
// WRR for ws. Returns "" or a violation text; leaves = executions.
func c38RandomCheck(ws []int64, calls int) (msg string, leaves int64, draws int64) {
	saved := randInt64n
	defer func() { randInt64n = saved }()
	e := &c38Enum{}
	randInt64n = e.seam
	w := NewRandom()
	for i, x := range ws {
		w.Add(i, x)
	}
	n := len(ws)
	joint := map[string]*big.Rat{}
	for {
		e.begin()
		key := make([]string, calls)
		var pan any
		func() {
			defer func() { pan = recover() }()
			for c := 0; c < calls; c++ {
				it := w.Next()
				idx, ok := it.(int)
				if !ok || idx < 0 || idx >= n {
					key[c] = fmt.Sprintf("?%v", it)
				} else {
					key[c] = fmt.Sprint(idx)
				}
			}
		}()
		leaves++
		draws += int64(e.pos)
		if pan != nil {
			return fmt.Sprintf("weights %s: Next() panicked with draws %v: %v", c38FmtW(ws), e.script[:e.pos], pan), leaves, draws
		}
		if e.bad != "" {
			return fmt.Sprintf("weights %s: %s", c38FmtW(ws), e.bad), leaves, draws
		}
		k := strings.Join(key, ",")
		if strings.Contains(k, "?") {
			return fmt.Sprintf("weights %s: Next() returned something that is not one of the items (%s) with draws %v", c38FmtW(ws), k, e.script[:e.pos]), leaves, draws
		}
		if joint[k] == nil {
			joint[k] = new(big.Rat)
		}
		joint[k].Add(joint[k], e.mass())
		if !e.next() {
			break
		}
	}
	ref := c38RefProb(ws)
	// every tuple of item indices
	idx := make([]int, calls)
	for {
		want := big.NewRat(1, 1)
		ks := make([]string, calls)
		for c, i := range idx {
			want.Mul(want, ref[i])
			ks[c] = fmt.Sprint(i)
		}
		k := strings.Join(ks, ",")
		got := joint[k]
		if got == nil {
			got = new(big.Rat)
		}
		if got.Cmp(want) != 0 {
			return fmt.Sprintf("weights %s: over every value of the random source, item(s) %s returned with probability %s, statement demands %s", c38FmtW(ws), k, got.RatString(), want.RatString()), leaves, draws
		}
		j := calls - 1
		for j >= 0 {
			idx[j]++
			if idx[j] < n {
				break
			}
			idx[j] = 0
			j--
		}
		if j < 0 {
			break
		}
	}
	return "", leaves, draws
}

func c38RandomClass(ws []int64) string {
	var sum int64
	eq, zero := true, false
	for _, w := range ws {
		sum += w
		if w != ws[0] {
			eq = false
		}
		if w == 0 {
			zero = true
		}
	}
	switch {
	case len(ws) == 1:
		return "single"
	case eq && sum == 0:
		return "all-zero"
	case eq:
		return "all-equal"
	case zero:
		return "unequal-with-zero"
	}
	return "unequal"
}

func TestVerif_C38_Random(t *testing.T) {
	const P = c38P
	r := vk.Start(t, "c38a_random", "exploration", P)
	defer r.Finish()
	menu := []int64{0, 1, 2, 5, 3}
	maxN := 4
	if r.Thorough() {
		menu = []int64{0, 1, 2, 5, 3, 7, 100}
		maxN = 5
	}
	r.Rule(P, fmt.Sprintf("every weight list of length 1..%d over %v added to a fresh NewRandom(); Next() executed for EVERY answer of the randInt64n seam (all draws 0..N-1 of each requested range N), probabilities accumulated exactly; lists of length<=3 also with two consecutive Next() calls enumerated jointly; non-trivial = lists with >=2 items whose weights are not all equal", maxN, menu))
	if r.ReplayFile() != "" {
		var rp struct {
			Weights []int64 `json:"weights"`
			Calls   int     `json:"calls"`
		}
		if err := r.LoadReplay(&rp); err != nil {
			r.EngineError("replay: %v", err)
			return
		}
		msg, _, _ := c38RandomCheck(rp.Weights, rp.Calls)
		r.Eval(P, 1)
		if msg != "" {
			r.Violation(P, fmt.Sprintf("random w=%s calls=%d", c38FmtW(rp.Weights), rp.Calls), msg, rp)
		}
		fmt.Println("replay:", msg)
		return
	}
	var evals, nontriv, leaves, draws int64
	for li, ws := range c38Lists(menu, maxN) {
		if !r.Mine(li) {
			continue
		}
		for calls := 1; calls <= 2; calls++ {
			if calls == 2 && len(ws) > 3 {
				continue
			}
			msg, l, d := c38RandomCheck(ws, calls)
			evals++
			leaves += l
			draws += d
			if msg != "" {
				r.Violation(P, fmt.Sprintf("random w=%s calls=%d", c38FmtW(ws), calls), msg, map[string]any{"weights": ws, "calls": calls})
			}
		}
		cl := c38RandomClass(ws)
		r.Outcome(P, "random:"+cl)
		if strings.HasPrefix(cl, "unequal") {
			nontriv++
		}
	}
	r.Eval(P, evals)
	r.NontrivialN(P, nontriv)
	r.Set(P, "random_executions", leaves)
	r.Set(P, "random_draws", draws)
	r.Sample(P, map[string]any{"weights": []int64{5, 0, 2}, "statement_probabilities": []string{"5/7", "0", "2/7"}, "draws_enumerated": "0..6"})
	r.Assume(P, "the random seam randInt64n(N) returns each of 0..N-1 with equal probability (math/rand/v2.Int64N is trusted); weights are non-negative")
}

// ---- (b) EDF ----

func c38EDFCheck(ws []int64, periods int) (msg string, picks int64) {
	var sum int64
	for _, w := range ws {
		sum += w
	}
	w := NewEDF()
	for i, x := range ws {
		w.Add(i, x)
	}
	counts := make([]int64, len(ws))
	var seq []int
	for m := 1; m <= periods; m++ {
		for k := int64(0); k < sum; k++ {
			var it any
			var pan any
			func() {
				defer func() { pan = recover() }()
				it = w.Next()
			}()
			picks++
			if pan != nil {
				return fmt.Sprintf("weights %s: Next() #%d panicked: %v", c38FmtW(ws), picks, pan), picks
			}
			idx, ok := it.(int)
			if !ok || idx < 0 || idx >= len(ws) {
				return fmt.Sprintf("weights %s: Next() #%d returned %v, not one of the items", c38FmtW(ws), picks, it), picks
			}
			counts[idx]++
			if len(seq) < 64 {
				seq = append(seq, idx)
			}
			if ws[idx] == 0 {
				return fmt.Sprintf("weights %s: Next() #%d returned zero-weight item %d although other items have weight", c38FmtW(ws), picks, idx), picks
			}
		}
		for i := range ws {
			if counts[i] != int64(m)*ws[i] {
				return fmt.Sprintf("weights %s: after %d x sum(weights) = %d picks item %d was returned %d times, proportional share is %d (counts %v, first picks %v)", c38FmtW(ws), m, int64(m)*sum, i, counts[i], int64(m)*ws[i], counts, seq), picks
			}
		}
	}
	return "", picks
}

func TestVerif_C38_EDF(t *testing.T) {
	const P = c38P
	r := vk.Start(t, "c38b_edf", "exploration", P)
	defer r.Finish()
	menu := []int64{0, 1, 2, 5, 3}
	maxN := 4
	if r.Thorough() {
		menu = []int64{0, 1, 2, 5, 3, 7, 100}
		maxN = 5
	}
	const periods = 3
	r.Rule(P, fmt.Sprintf("every weight list of length 1..%d over %v added to a fresh NewEDF(); Next() called %d*sum(weights) times; after each multiple m of sum(weights) picks item i must have been returned exactly m*w_i times and a zero-weight item never; non-trivial = lists with >=2 distinct non-zero weights", maxN, menu, periods))
	if r.ReplayFile() != "" {
		var rp struct {
			Weights []int64 `json:"weights"`
		}
		if err := r.LoadReplay(&rp); err != nil {
			r.EngineError("replay: %v", err)
			return
		}
		msg, _ := c38EDFCheck(rp.Weights, periods)
		r.Eval(P, 1)
		if msg != "" {
			r.Violation(P, "edf w="+c38FmtW(rp.Weights), msg, rp)
		}
		fmt.Println("replay:", msg)
		return
	}
	var evals, nontriv, picks int64
	for li, ws := range c38Lists(menu, maxN) {
		if !r.Mine(li) {
			continue
		}
		msg, p := c38EDFCheck(ws, periods)
		evals++
		picks += p
		if msg != "" {
			r.Violation(P, "edf w="+c38FmtW(ws), msg, map[string]any{"weights": ws})
		}
		d := map[int64]bool{}
		for _, w := range ws {
			if w != 0 {
				d[w] = true
			}
		}
		keys := make([]int, 0, len(d))
		for k := range d {
			keys = append(keys, int(k))
		}
		sort.Ints(keys)
		switch {
		case len(keys) == 0:
			r.Outcome(P, "edf:all-zero(no picks demanded)")
		case len(keys) == 1:
			r.Outcome(P, "edf:one-distinct-weight")
		default:
			r.Outcome(P, "edf:mixed-weights")
			nontriv++
		}
	}
	r.Eval(P, evals)
	r.NontrivialN(P, nontriv)
	r.Set(P, "edf_picks", picks)
	r.Sample(P, map[string]any{"weights": []int64{1, 5, 0, 2}, "picks": 3 * 8, "statement": "after 8, 16, 24 picks: counts (1,5,0,2)*m"})
	r.Assume(P, "EDF 'in proportion' is read at multiples of sum(weights) picks from a fresh selector (first three periods); weights <= 100")
}
