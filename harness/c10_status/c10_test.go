//go:build verif

package h_c10

import (
	"errors"
	"fmt"
	"strings"
	"testing"
	"unicode/utf8"

	spb "google.golang.org/genproto/googleapis/rpc/status"
	"google.golang.org/grpc/codes"
	"google.golang.org/grpc/internal/verif/vk"
	"google.golang.org/grpc/status"
	"google.golang.org/protobuf/proto"
	"google.golang.org/protobuf/protoadapt"
	"google.golang.org/protobuf/types/known/anypb"
	"google.golang.org/protobuf/types/known/wrapperspb"
)

const c10P = "C10"

// ---------------------------------------------------------------- grammar

// Message symbols (ids keep cases valid JSON).
var c10Syms = []struct{ ID, S string }{
	{"a", "a"}, {"sp", " "}, {"pct", "%"}, {"ee", "é"}, {"del", "\x7f"}, {"ff", "\xff"}, {"x80", "\x80"}, {"nl", "\n"},
}

var c10Msg9k = func() string {
	// 9 KiB, mostly ASCII with every symbol of the alphabet sprinkled in
	unit := "status message 0123456789 abcdefghijklmnopqrstuvwxyz %41 é \x7f \n | "
	var sb strings.Builder
	for sb.Len() < 9*1024 {
		sb.WriteString(unit)
	}
	return sb.String()[:9*1024]
}()

// c10MsgText turns a message id ("", "a.pct.ff", "9k", "9k+ff") into the text.
func c10MsgText(id string) string {
	switch id {
	case "":
		return ""
	case "9k":
		return c10Msg9k
	case "9k+ff":
		return c10Msg9k + "\xff"
	}
	var sb strings.Builder
	for _, part := range strings.Split(id, ".") {
		found := false
		for _, s := range c10Syms {
			if s.ID == part {
				sb.WriteString(s.S)
				found = true
			}
		}
		if !found {
			panic("c10: unknown message symbol " + part)
		}
	}
	return sb.String()
}

func c10MsgIDs(maxLen int) []string {
	out := []string{""}
	prev := []string{""}
	for l := 1; l <= maxLen; l++ {
		var next []string
		for _, p := range prev {
			for _, s := range c10Syms {
				id := s.ID
				if p != "" {
					id = p + "." + s.ID
				}
				next = append(next, id)
			}
		}
		out = append(out, next...)
		prev = next
	}
	return out
}

type c10Case struct {
	Shape  string `json:"shape"`  // unary | sstream | bidi
	Timing string `json:"timing"` // immediate | after-header | after-message
	Kind   string `json:"kind"`   // status | nil | plain | okstatus
	Code   uint32 `json:"code"`
	Msg    string `json:"msg"` // message id
	Det    string `json:"det"` // none | any1 | any2 | badany
}

func (c c10Case) String() string {
	return fmt.Sprintf("%s/%s kind=%s code=%d msg=%q det=%s", c.Shape, c.Timing, c.Kind, c.Code, c.Msg, c.Det)
}

// c10Details builds the detail list of a case (fresh messages every time).
func c10Details(det string) []*anypb.Any {
	mk := func(m proto.Message) *anypb.Any {
		a, err := anypb.New(m)
		if err != nil {
			panic(err)
		}
		return a
	}
	switch det {
	case "any1":
		return []*anypb.Any{mk(wrapperspb.String("detail-one"))}
	case "any2":
		return []*anypb.Any{mk(wrapperspb.String("detail-one")), mk(wrapperspb.Int64(-7))}
	case "badany":
		// a detail whose bytes are not a valid encoding of its type
		return []*anypb.Any{{TypeUrl: "type.googleapis.com/google.protobuf.StringValue", Value: []byte{0xff, 0xff, 0xff, 0x07}}}
	}
	return nil
}

// c10OKErr is a non-nil error that carries an OK status (out of contract).
type c10OKErr struct{ msg string }

func (e c10OKErr) Error() string              { return e.msg }
func (e c10OKErr) GRPCStatus() *status.Status { return status.New(codes.OK, e.msg) }

// c10HandlerErr is what the handler returns for the case.
func c10HandlerErr(c c10Case) error {
	msg := c10MsgText(c.Msg)
	switch c.Kind {
	case "nil":
		return nil
	case "plain":
		return errors.New(msg)
	case "okstatus":
		return c10OKErr{msg}
	}
	st := status.New(codes.Code(c.Code), msg)
	switch c.Det {
	case "any1", "any2":
		if codes.Code(c.Code) != codes.OK {
			var ms []protoadapt.MessageV1
			ms = append(ms, protoadapt.MessageV1Of(wrapperspb.String("detail-one")))
			if c.Det == "any2" {
				ms = append(ms, protoadapt.MessageV1Of(wrapperspb.Int64(-7)))
			}
			var err error
			if st, err = st.WithDetails(ms...); err != nil {
				panic(err)
			}
			return st.Err()
		}
		fallthrough
	case "badany":
		st = status.FromProto(&spb.Status{Code: int32(c.Code), Message: msg, Details: c10Details(c.Det)})
	}
	return st.Err()
}

// ---------------------------------------------------------------- reference (from the statement)

type c10Want struct {
	Nil     bool // the client must see a nil error
	Open    bool // out-of-contract handler result: only "terminates" is required
	Code    codes.Code
	Msg     string
	Details []*anypb.Any
}

func c10Ref(c c10Case) c10Want {
	msg := string([]rune(c10MsgText(c.Msg))) // invalid UTF-8 -> U+FFFD, byte by byte
	switch c.Kind {
	case "nil":
		return c10Want{Nil: true}
	case "plain":
		// a non-status error is reported as UNKNOWN with the error text
		return c10Want{Code: codes.Unknown, Msg: msg}
	case "okstatus":
		return c10Want{Open: true}
	}
	if c.Code == 0 {
		// status.New(OK, ...).Err() is nil: the handler returns nil
		return c10Want{Nil: true}
	}
	return c10Want{Code: codes.Code(c.Code), Msg: msg, Details: c10Details(c.Det)}
}

func c10CodeClass(c uint32) string {
	switch {
	case c == 0:
		return "OK"
	case c <= 16:
		return "1..16"
	case c < 1<<31:
		return "17..2^31-1"
	}
	return ">=2^31"
}

func c10MsgClass(m string) string {
	switch {
	case m == "":
		return "empty"
	case len(m) >= 9*1024:
		if !utf8.ValidString(m) {
			return "9KiB+invalid-utf8"
		}
		return "9KiB"
	case !utf8.ValidString(m):
		return "invalid-utf8"
	}
	ascii, ctl, pct := true, false, false
	for i := 0; i < len(m); i++ {
		switch {
		case m[i] >= 0x80:
			ascii = false
		case m[i] < 0x20 || m[i] == 0x7f:
			ctl = true
		case m[i] == '%':
			pct = true
		}
	}
	switch {
	case !ascii:
		return "utf8"
	case ctl:
		return "control"
	case pct:
		return "percent"
	}
	return "ascii"
}

func c10Abbrev(s string) string {
	if len(s) > 40 {
		return fmt.Sprintf("%q..(%d bytes)", s[:24], len(s))
	}
	return fmt.Sprintf("%q", s)
}

func c10DetailsString(ds []*anypb.Any) string {
	var parts []string
	for _, d := range ds {
		parts = append(parts, fmt.Sprintf("%s:%x", d.GetTypeUrl(), d.GetValue()))
	}
	return "[" + strings.Join(parts, " ") + "]"
}

// c10Check compares the client's observation with the reference. It reports
// the first differing aspect only (nil-ness, code, message, details).
func c10Check(c c10Case, res *c10Result) (key, desc, outcome string) {
	want := c10Ref(c)
	raw := c10MsgText(c.Msg)
	if !res.Done {
		return "rpc-hang/" + c.Shape + "/" + c.Timing, "the RPC did not complete at quiescence", ""
	}
	if want.Open {
		if res.Err == nil {
			return "", "", "okstatus-error:client-nil"
		}
		return "", "", "okstatus-error:client-" + status.Code(res.Err).String()
	}
	if want.Nil {
		if res.Err != nil {
			return "nil-became-error/" + c.Kind + "/" + c.Shape + "/" + c.Timing, fmt.Sprintf("handler returned nil, client got %v", res.Err), ""
		}
		return "", "", "nil->nil"
	}
	if res.Err == nil {
		return fmt.Sprintf("error-became-nil/%s/code:%s/msg:%s", c.Kind, c10CodeClass(c.Code), c10MsgClass(raw)),
			fmt.Sprintf("handler returned a non-OK status (code %d), client got a nil error", c.Code), ""
	}
	st, ok := status.FromError(res.Err)
	if !ok {
		return "client-error-not-status", fmt.Sprintf("client error is not a status error: %v", res.Err), ""
	}
	if st.Code() != want.Code {
		return fmt.Sprintf("code-mismatch/%s/sent:%s/got:%s", c.Kind, c10CodeClass(uint32(want.Code)), c10CodeClass(uint32(st.Code()))+"="+st.Code().String()),
			fmt.Sprintf("handler code %d, client code %d (%v), client message %s", uint32(want.Code), uint32(st.Code()), st.Code(), c10Abbrev(st.Message())), ""
	}
	if st.Message() != want.Msg {
		det := "none"
		if len(want.Details) > 0 {
			det = "some"
		}
		return fmt.Sprintf("message-mismatch/%s/msg:%s/det:%s", c.Kind, c10MsgClass(raw), det),
			fmt.Sprintf("handler message %s, want %s at the client, got %s", c10Abbrev(raw), c10Abbrev(want.Msg), c10Abbrev(st.Message())), ""
	}
	got := st.Proto().GetDetails()
	same := len(got) == len(want.Details)
	for i := 0; same && i < len(got); i++ {
		same = proto.Equal(got[i], want.Details[i])
	}
	if !same {
		what := "altered"
		if len(got) == 0 {
			what = "dropped"
		}
		key := fmt.Sprintf("details-%s/message-not-valid-utf8", what)
		if utf8.ValidString(raw) {
			tc := "after-headers"
			if c.Timing == "immediate" {
				tc = "trailers-only"
			}
			key = fmt.Sprintf("details-%s/det:%s/msg:%s/%s", what, c.Det, c10MsgClass(raw), tc)
		}
		return key, fmt.Sprintf("handler details %s, client details %s", c10DetailsString(want.Details), c10DetailsString(got)), ""
	}
	if c.Kind == "plain" {
		return "", "", "plain->UNKNOWN/msg:" + c10MsgClass(raw)
	}
	return "", "", fmt.Sprintf("status:code:%s/msg:%s/det:%s", c10CodeClass(c.Code), c10MsgClass(raw), c.Det)
}

// ---------------------------------------------------------------- enumeration

type c10ST struct{ Shape, Timing string }

var c10STs = []c10ST{
	{"unary", "immediate"}, {"unary", "after-header"},
	{"sstream", "immediate"}, {"sstream", "after-header"}, {"sstream", "after-message"},
	{"bidi", "immediate"}, {"bidi", "after-header"}, {"bidi", "after-message"},
}

var c10Dets = []string{"none", "any1", "any2", "badany"}

func c10Codes() []uint32 {
	var out []uint32
	for i := uint32(0); i <= 17; i++ {
		out = append(out, i)
	}
	return append(out, 100, 1<<31-1, 1<<31, 1<<32-1) // 1<<32-1 is codes.Code(-1)
}

func c10AllCases(thorough bool) []c10Case {
	var out []c10Case
	seen := map[c10Case]bool{}
	add := func(c c10Case) {
		if !seen[c] {
			seen[c] = true
			out = append(out, c)
		}
	}
	msgs := append(c10MsgIDs(3), "9k", "9k+ff")
	short := append(c10MsgIDs(2), "9k", "9k+ff")
	few := []string{"", "a", "ee.ff.pct", "pct.a.a", "9k"}

	// G1: every message x {no details, one detail} x every shape/timing, code INTERNAL
	g1Dets, g1Codes := []string{"none", "any1"}, []uint32{13}
	if thorough {
		g1Dets, g1Codes = c10Dets, []uint32{1, 13, 16, 17, 1<<31 - 1}
	}
	for _, code := range g1Codes {
		for _, m := range msgs {
			for _, d := range g1Dets {
				for _, st := range c10STs {
					add(c10Case{Shape: st.Shape, Timing: st.Timing, Kind: "status", Code: code, Msg: m, Det: d})
				}
			}
		}
	}
	// G1c (thorough): every message of length exactly 4, with and without a detail
	if thorough {
		for _, m := range c10MsgIDs(4)[1+8+64+512:] {
			for _, d := range []string{"none", "any1"} {
				for _, st := range []c10ST{{"unary", "immediate"}, {"bidi", "after-message"}} {
					add(c10Case{Shape: st.Shape, Timing: st.Timing, Kind: "status", Code: 13, Msg: m, Det: d})
				}
			}
		}
	}
	// G1b: messages up to length 2 x the remaining detail kinds
	for _, m := range short {
		for _, d := range c10Dets {
			for _, st := range []c10ST{{"unary", "immediate"}, {"sstream", "after-header"}, {"bidi", "after-message"}} {
				add(c10Case{Shape: st.Shape, Timing: st.Timing, Kind: "status", Code: 2, Msg: m, Det: d})
			}
		}
	}
	// G2: every code x every detail kind x every shape/timing x a few messages
	g2msgs := few
	if thorough {
		g2msgs = short
	}
	for _, code := range c10Codes() {
		for _, d := range c10Dets {
			for _, st := range c10STs {
				for _, m := range g2msgs {
					add(c10Case{Shape: st.Shape, Timing: st.Timing, Kind: "status", Code: code, Msg: m, Det: d})
				}
			}
		}
	}
	// G3: nil, plain errors, errors carrying an OK status
	for _, st := range c10STs {
		add(c10Case{Shape: st.Shape, Timing: st.Timing, Kind: "nil", Det: "none"})
		for _, m := range short {
			add(c10Case{Shape: st.Shape, Timing: st.Timing, Kind: "plain", Msg: m, Det: "none"})
		}
		for _, m := range few {
			add(c10Case{Shape: st.Shape, Timing: st.Timing, Kind: "okstatus", Msg: m, Det: "none"})
		}
	}
	return out
}

// c10Nontrivial: the transport has to transform or carry something beyond a
// plain printable message with a canonical code.
func c10Nontrivial(c c10Case) bool {
	if c.Kind != "status" {
		return true
	}
	cl := c10MsgClass(c10MsgText(c.Msg))
	return c.Det != "none" || c.Code == 0 || c.Code > 16 || (cl != "ascii" && cl != "empty")
}

// ---------------------------------------------------------------- test entry

func TestVerif_C10_Status(t *testing.T) {
	r := vk.Start(t, "c10_status", "exploration", c10P)
	defer r.Finish()
	r.Rule(c10P, "every handler result of the grammar {status(code, message over the 8-symbol alphabet up to length 3 or 9 KiB, details none/1 Any/2 Any/undecodable Any), nil, plain error, error carrying an OK status} x {unary, server-stream, bidi} x {trailers-only, after headers, after a message} inside the stated product blocks, one real RPC each; a case is non-trivial when the status has details, a non-canonical or OK code, a message that is not plain printable ASCII, or is not a status at all (distinct by case text)")
	r.Assume(c10P, "reference: code equal as uint32; message == string([]rune(m)); details compared as google.protobuf.Any (type_url + bytes) in order; nil handler result <=> nil client error (io.EOF on streams)")
	r.Assume(c10P, "status.New(codes.OK, m).Err() is nil by API contract, so every code-0 status case is a 'handler returns nil' case")
	r.Assume(c10P, "a plain (non-status) handler error is expected as UNKNOWN with the error text (documented conversion); a non-nil error whose GRPCStatus() is OK is out of contract: only termination is required and the client's result is recorded as an outcome class")
	r.Assume(c10P, "trusted: testing/synctest quiescence, protobuf-go proto.Equal, x/net/http2 + hpack in the diagnostic tee")

	if r.ReplayFile() != "" {
		var c c10Case
		if err := r.LoadReplay(&c); err != nil {
			r.EngineError("replay: %v", err)
			return
		}
		c10Report(r, t, c)
		return
	}
	cases := c10AllCases(r.Thorough())
	n := 0
	for i, c := range cases {
		if !r.Mine(i) {
			continue
		}
		if r.OverBudget() {
			r.Cap(c10P, fmt.Sprintf("time budget: stopped at case %d of %d", i, len(cases)))
			break
		}
		c10Report(r, t, c)
		n++
	}
	r.Set(c10P, "cases_run", n)
}

func c10Report(r *vk.Run, t *testing.T, c c10Case) {
	res, ran, notes, wireSum, engine := c10Run(t, c)
	if engine != "" {
		r.EngineError("case %s: %s", c.String(), engine)
		return
	}
	r.Eval(c10P, 1)
	if c10Nontrivial(c) {
		r.Nontrivial(c10P, c.String())
	}
	key, desc, outcome := c10Check(c, res)
	if key == "" && ran != 1 {
		key, desc = "handler-count", fmt.Sprintf("handler ran %d times", ran)
	}
	if key != "" {
		r.Violation(c10P, key, fmt.Sprintf("%s | case %s | handler notes %v | server->client wire: %s", desc, c.String(), notes, wireSum), c)
		return
	}
	r.Outcome(c10P, outcome)
	if c10Nontrivial(c) {
		r.Sample(c10P, map[string]any{"case": c.String(), "outcome": outcome, "client_err": fmt.Sprint(res.Err)})
	}
}
