//go:build verif

// Package h_c10 hosts the E4 harness of property C10 (a handler's status
// reaches the client unchanged): every case is one real RPC between a real
// grpc.ClientConn and a real grpc.Server over an in-memory connection inside a
// synctest bubble; a byte tee with its own HTTP/2 + HPACK decoder records the
// trailers for attribution.
package h_c10
