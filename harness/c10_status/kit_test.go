//go:build verif

package h_c10

// E4 kit for C10: real ClientConn <-> real Server over an in-memory pipe inside
// a synctest bubble. The client end is wrapped in a byte tee; the server->client
// bytes are decoded afterwards by an independent Framer + hpack decoder so that a
// violation report can say what the trailers on the wire looked like.

import (
	"bytes"
	"context"
	"fmt"
	"io"
	"net"
	"runtime"
	"strings"
	"sync"
	"testing"
	"testing/synctest"

	"golang.org/x/net/http2"
	"golang.org/x/net/http2/hpack"
	"google.golang.org/grpc"
	"google.golang.org/grpc/credentials/insecure"
	"google.golang.org/grpc/grpclog"
	"google.golang.org/grpc/internal/verif/wire"
	"google.golang.org/grpc/mem"
)

func init() {
	grpclog.SetLoggerV2(grpclog.NewLoggerV2(io.Discard, io.Discard, io.Discard))
}

type c10Codec struct{}

func (c10Codec) Name() string { return "verif-raw" }
func (c10Codec) Marshal(v any) (mem.BufferSlice, error) {
	switch b := v.(type) {
	case []byte:
		return mem.BufferSlice{mem.SliceBuffer(b)}, nil
	case *[]byte:
		return mem.BufferSlice{mem.SliceBuffer(*b)}, nil
	}
	return nil, fmt.Errorf("c10Codec: unsupported %T", v)
}
func (c10Codec) Unmarshal(data mem.BufferSlice, v any) error {
	p, ok := v.(*[]byte)
	if !ok {
		return fmt.Errorf("c10Codec: unsupported %T", v)
	}
	*p = data.Materialize()
	return nil
}

// ---------------------------------------------------------------- tee

type c10Tee struct {
	net.Conn
	mu  sync.Mutex
	s2c []byte
}

func (t *c10Tee) Read(p []byte) (int, error) {
	n, err := t.Conn.Read(p)
	if n > 0 {
		t.mu.Lock()
		t.s2c = append(t.s2c, p[:n]...)
		t.mu.Unlock()
	}
	return n, err
}

func (t *c10Tee) snapshot() []byte {
	t.mu.Lock()
	defer t.mu.Unlock()
	return append([]byte(nil), t.s2c...)
}

// c10WireSummary decodes the server->client bytes and renders the header blocks
// (long values abbreviated) and RST_STREAM frames.
func c10WireSummary(raw []byte) string {
	fr := http2.NewFramer(io.Discard, bytes.NewReader(raw))
	fr.SetMaxReadFrameSize(1 << 24)
	var fields [][2]string
	dec := hpack.NewDecoder(4096, func(f hpack.HeaderField) { fields = append(fields, [2]string{f.Name, f.Value}) })
	var sb strings.Builder
	for {
		f, err := fr.ReadFrame()
		if err != nil {
			if err != io.EOF {
				fmt.Fprintf(&sb, "<decode error: %v>", err)
			}
			return strings.TrimSpace(sb.String())
		}
		switch f := f.(type) {
		case *http2.HeadersFrame:
			dec.Write(f.HeaderBlockFragment())
			if f.HeadersEnded() {
				fmt.Fprintf(&sb, "HEADERS(es=%v)%s ", f.StreamEnded(), c10Fields(fields))
				fields = nil
			}
		case *http2.ContinuationFrame:
			dec.Write(f.HeaderBlockFragment())
			if f.HeadersEnded() {
				fmt.Fprintf(&sb, "..CONT%s ", c10Fields(fields))
				fields = nil
			}
		case *http2.DataFrame:
			fmt.Fprintf(&sb, "DATA(%d,es=%v) ", len(f.Data()), f.StreamEnded())
		case *http2.RSTStreamFrame:
			fmt.Fprintf(&sb, "RST(%v) ", f.ErrCode)
		case *http2.GoAwayFrame:
			fmt.Fprintf(&sb, "GOAWAY(%v) ", f.ErrCode)
		}
	}
}

func c10Fields(fs [][2]string) string {
	var sb strings.Builder
	sb.WriteByte('[')
	for i, f := range fs {
		if i > 0 {
			sb.WriteByte(' ')
		}
		v := f[1]
		if len(v) > 48 {
			v = fmt.Sprintf("%s..(%d bytes)", v[:24], len(v))
		}
		fmt.Fprintf(&sb, "%s=%q", f[0], v)
	}
	sb.WriteByte(']')
	return sb.String()
}

// ---------------------------------------------------------------- world

type c10World struct {
	c      c10Case
	lis    *wire.Listener
	srv    *grpc.Server
	cc     *grpc.ClientConn
	tee    *c10Tee
	mu     sync.Mutex
	ran    int
	hnotes []string
}

var c10Cur *c10World

func (w *c10World) note(format string, a ...any) {
	w.mu.Lock()
	w.hnotes = append(w.hnotes, fmt.Sprintf(format, a...))
	w.mu.Unlock()
}

func c10UnaryHandler(_ any, ctx context.Context, dec func(any) error, _ grpc.UnaryServerInterceptor) (any, error) {
	w := c10Cur
	var in []byte
	if err := dec(&in); err != nil {
		return nil, err
	}
	w.mu.Lock()
	w.ran++
	w.mu.Unlock()
	if w.c.Timing == "after-header" {
		if err := grpc.SendHeader(ctx, nil); err != nil {
			w.note("SendHeader: %v", err)
		}
	}
	if err := c10HandlerErr(w.c); err != nil {
		return nil, err
	}
	return []byte("ok"), nil
}

func c10StreamHandler(_ any, ss grpc.ServerStream) error {
	w := c10Cur
	w.mu.Lock()
	w.ran++
	w.mu.Unlock()
	if w.c.Shape == "sstream" {
		var in []byte
		if err := ss.RecvMsg(&in); err != nil {
			return err
		}
	}
	switch w.c.Timing {
	case "after-header":
		if err := ss.SendHeader(nil); err != nil {
			w.note("SendHeader: %v", err)
		}
	case "after-message":
		if err := ss.SendMsg([]byte("m1")); err != nil {
			w.note("SendMsg: %v", err)
		}
	}
	return c10HandlerErr(w.c)
}

type c10Impl struct{}

var c10Desc = grpc.ServiceDesc{
	ServiceName: "s",
	HandlerType: (*any)(nil),
	Methods:     []grpc.MethodDesc{{MethodName: "u", Handler: c10UnaryHandler}},
	Streams: []grpc.StreamDesc{
		{StreamName: "ss", Handler: c10StreamHandler, ServerStreams: true},
		{StreamName: "b", Handler: c10StreamHandler, ServerStreams: true, ClientStreams: true},
	},
}

var (
	c10SStreamDesc = &grpc.StreamDesc{StreamName: "ss", ServerStreams: true}
	c10BidiDesc    = &grpc.StreamDesc{StreamName: "b", ClientStreams: true, ServerStreams: true}
)

type c10Result struct {
	Done bool
	Err  error // nil when a stream ended with io.EOF
	Msgs int
}

func c10RPC(cc *grpc.ClientConn, ctx context.Context, shape string) *c10Result {
	r := &c10Result{}
	if shape == "unary" {
		var reply []byte
		r.Err = cc.Invoke(ctx, "/s/u", []byte("req"), &reply, grpc.ForceCodecV2(c10Codec{}))
		if r.Err == nil {
			r.Msgs = 1
		}
		r.Done = true
		return r
	}
	desc, method := c10SStreamDesc, "/s/ss"
	if shape == "bidi" {
		desc, method = c10BidiDesc, "/s/b"
	}
	cs, err := cc.NewStream(ctx, desc, method, grpc.ForceCodecV2(c10Codec{}))
	if err != nil {
		r.Err, r.Done = err, true
		return r
	}
	// a SendMsg error other than io.EOF is the RPC's status; io.EOF means "ask RecvMsg"
	if err := cs.SendMsg([]byte("req")); err != nil && err != io.EOF {
		r.Err, r.Done = err, true
		return r
	}
	cs.CloseSend()
	for i := 0; i < 8; i++ {
		var m []byte
		if err := cs.RecvMsg(&m); err != nil {
			if err != io.EOF {
				r.Err = err
			}
			break
		}
		r.Msgs++
	}
	r.Done = true
	return r
}

func c10Bubble(t *testing.T, f func(t *testing.T)) (problem string) {
	defer func() {
		if p := recover(); p != nil {
			problem = fmt.Sprintf("bubble: %v", p)
		}
	}()
	synctest.Test(t, func(t *testing.T) {
		defer func() {
			if p := recover(); p != nil {
				buf := make([]byte, 4096)
				buf = buf[:runtime.Stack(buf, false)]
				problem = fmt.Sprintf("panic on driver goroutine: %v\n%s", p, buf)
			}
		}()
		f(t)
	})
	return problem
}

// c10Run executes one case and returns the client's result, how often the
// handler ran, handler notes and a summary of the server->client wire.
func c10Run(t *testing.T, c c10Case) (res *c10Result, ran int, notes []string, wireSum string, engine string) {
	problem := c10Bubble(t, func(t *testing.T) {
		w := &c10World{c: c}
		c10Cur = w
		w.lis = wire.NewListener()
		w.srv = grpc.NewServer(grpc.ForceServerCodecV2(c10Codec{}))
		w.srv.RegisterService(&c10Desc, &c10Impl{})
		go w.srv.Serve(w.lis)
		cc, err := grpc.NewClient("passthrough:///x", grpc.WithTransportCredentials(insecure.NewCredentials()),
			grpc.WithContextDialer(func(context.Context, string) (net.Conn, error) {
				conn, err := w.lis.Dial()
				if err != nil {
					return nil, err
				}
				w.mu.Lock()
				defer w.mu.Unlock()
				w.tee = &c10Tee{Conn: conn}
				return w.tee, nil
			}))
		if err != nil {
			engine = "NewClient: " + err.Error()
			w.srv.Stop()
			return
		}
		w.cc = cc
		ctx, cancel := context.WithCancel(context.Background())
		ch := make(chan *c10Result, 1)
		go func() { ch <- c10RPC(cc, ctx, c.Shape) }()
		synctest.Wait()
		select {
		case res = <-ch:
		default:
			res = &c10Result{}
		}
		w.mu.Lock()
		ran, notes = w.ran, append([]string(nil), w.hnotes...)
		tee := w.tee
		w.mu.Unlock()
		if tee != nil {
			wireSum = c10WireSummary(tee.snapshot())
		}
		cancel()
		cc.Close()
		w.srv.Stop()
		synctest.Wait()
	})
	if problem != "" && engine == "" {
		engine = problem
	}
	return
}
