//go:build verif

// Package h_c44s hosts the schedule-level (E1-vsched) leg for the generic xDS
// client: the real, vinstr-instrumented xdsclient (with its callback
// serializer and unbounded buffer) runs under every thread schedule with a
// bounded number of preemptions while scripted management servers deliver
// racing responses / stream failures. Virtual package (overlay only); it lives
// below internal/xds/clients/xdsclient to reach that package's test hooks.
package h_c44s
