//go:build verif

package h_c44s

// E1 leg c44_xds_sched: the real generic xDS client (sources instrumented at
// check time, so every lock / atomic / channel step of xdsclient, its callback
// serializer and its unbounded buffer is a scheduling point) under every
// schedule with at most B preemptions, for two windows the history-level legs
// (harness/c42_xdsclient) cannot see because they only judge quiescent states:
//
//	(a) C44: responses of the primary and of the fallback server racing inside
//	    the client (revert-to-primary vs. an update of the server below it);
//	(b) C42: watch ‖ response ‖ stream failure + reconnect.
//
// The scripted transport's Recv blocks on a harness channel; a harness thread
// "delivers" by vsched.Yield() followed by the channel send. Oracles only look
// at the scripted transport's totally ordered wire log and the watcher log.

import (
	"context"
	"errors"
	"fmt"
	"sort"
	"strings"
	"sync"
	"testing"
	"testing/synctest"
	"time"

	"google.golang.org/grpc/internal/verif/vk"
	"google.golang.org/grpc/internal/verif/vsched"
	"google.golang.org/grpc/internal/xds/clients"
	"google.golang.org/grpc/internal/xds/clients/xdsclient"
	xdsclientinternal "google.golang.org/grpc/internal/xds/clients/xdsclient/internal"
	"google.golang.org/protobuf/proto"
	"google.golang.org/protobuf/types/known/anypb"

	v3discoverypb "github.com/envoyproxy/go-control-plane/envoy/service/discovery/v3"
)

const (
	c44sT1      = "type.googleapis.com/verif.c44s.T1"
	c44sNodeID  = "c44s-node"
	c44sBackoff = time.Second
)

func init() {
	xdsclientinternal.StreamBackoff = func(int) time.Duration { return c44sBackoff }
}

// ---- resource type: payload "name|V|value" / "name|X|why" ----

type c44sData struct {
	val string
	raw []byte
}

func (d *c44sData) Equal(o xdsclient.ResourceData) bool {
	od, ok := o.(*c44sData)
	return ok && od != nil && od.val == d.val
}
func (d *c44sData) Bytes() []byte { return d.raw }

type c44sDecoder struct{}

func (c44sDecoder) Decode(res *xdsclient.AnyProto, _ xdsclient.DecodeOptions) (*xdsclient.DecodeResult, error) {
	a := res.ToAny()
	p := strings.Split(string(a.Value), "|")
	if len(p) != 3 {
		return nil, fmt.Errorf("c44s: undecodable resource %q", a.Value)
	}
	if p[1] == "X" {
		return &xdsclient.DecodeResult{Name: p[0]}, fmt.Errorf("c44s: resource %s failed validation (%s)", p[0], p[2])
	}
	return &xdsclient.DecodeResult{Name: p[0], Resource: &c44sData{val: p[2], raw: a.Value}}, nil
}

// ---- wire log ----

// c44sEntry is one entry of the scripted transport's totally ordered log.
// Kind: build close newstream newstream-failed send recv recverr
type c44sEntry struct {
	Kind     string
	Srv, Seq int
	Ver      string
	Nonce    string
	Names    []string
	Node     bool
	Err      bool // send: error_detail present
	Valid    bool // recv: every resource of the response is valid
}

func (e c44sEntry) String() string {
	switch e.Kind {
	case "send":
		s := fmt.Sprintf("S%d#%d send ver=%q nonce=%q names=%v", e.Srv, e.Seq, e.Ver, e.Nonce, e.Names)
		if e.Err {
			s += " NACK"
		}
		if e.Node {
			s += " +node"
		}
		return s
	case "recv":
		return fmt.Sprintf("S%d#%d recv ver=%q nonce=%q valid=%v", e.Srv, e.Seq, e.Ver, e.Nonce, e.Valid)
	}
	return fmt.Sprintf("S%d#%d %s", e.Srv, e.Seq, e.Kind)
}

type c44sCb struct {
	W    int
	Kind byte // C R A
	Val  string
}

type c44sEnv struct {
	mu      sync.Mutex
	connOK  [2]bool
	log     []c44sEntry
	cur     [2]*c44sStream
	nstream [2]int
	pushed  map[[2]int]int
	cbs     []c44sCb
	inCb    map[int]int
	overlap string
	closed  [2]int
	built   [2]int
}

func (e *c44sEnv) add(en c44sEntry) { e.log = append(e.log, en) }

type c44sBuilder struct{ env *c44sEnv }

func (b *c44sBuilder) Build(si clients.ServerIdentifier) (clients.Transport, error) {
	var srv int
	if _, err := fmt.Sscanf(si.ServerURI, "S%d", &srv); err != nil || srv < 0 || srv > 1 {
		return nil, fmt.Errorf("c44s: unknown server %q", si.ServerURI)
	}
	e := b.env
	e.mu.Lock()
	e.built[srv]++
	e.add(c44sEntry{Kind: "build", Srv: srv})
	e.mu.Unlock()
	return &c44sTransport{env: e, srv: srv}, nil
}

type c44sTransport struct {
	env *c44sEnv
	srv int
}

func (t *c44sTransport) NewStream(ctx context.Context, _ string) (clients.Stream, error) {
	e := t.env
	e.mu.Lock()
	defer e.mu.Unlock()
	if ctx.Err() != nil {
		return nil, ctx.Err()
	}
	if !e.connOK[t.srv] {
		e.add(c44sEntry{Kind: "newstream-failed", Srv: t.srv})
		return nil, errors.New("c44s: scripted connection failure")
	}
	e.nstream[t.srv]++
	st := &c44sStream{env: e, srv: t.srv, seq: e.nstream[t.srv], ctx: ctx, in: make(chan c44sWire, 16)}
	e.cur[t.srv] = st
	e.add(c44sEntry{Kind: "newstream", Srv: t.srv, Seq: st.seq})
	return st, nil
}

func (t *c44sTransport) Close() {
	e := t.env
	e.mu.Lock()
	e.closed[t.srv]++
	e.add(c44sEntry{Kind: "close", Srv: t.srv})
	e.mu.Unlock()
}

type c44sWire struct {
	msg  []byte
	err  error
	meta c44sEntry
}

type c44sStream struct {
	env    *c44sEnv
	srv    int
	seq    int
	ctx    context.Context
	in     chan c44sWire
	broken bool
}

func (s *c44sStream) Send(b []byte) error {
	e := s.env
	e.mu.Lock()
	defer e.mu.Unlock()
	if s.broken || s.ctx.Err() != nil {
		return errors.New("c44s: send on a finished stream")
	}
	var req v3discoverypb.DiscoveryRequest
	if err := proto.Unmarshal(b, &req); err != nil {
		return err
	}
	names := append([]string{}, req.GetResourceNames()...)
	sort.Strings(names)
	e.add(c44sEntry{Kind: "send", Srv: s.srv, Seq: s.seq, Ver: req.GetVersionInfo(), Nonce: req.GetResponseNonce(), Names: names,
		Node: req.GetNode() != nil && req.GetNode().GetId() == c44sNodeID, Err: req.GetErrorDetail() != nil})
	return nil
}

// Recv blocks on the harness-owned channel (natively: the scheduler sees the
// reader as at rest) until a harness thread delivers something.
func (s *c44sStream) Recv() ([]byte, error) {
	select {
	case w := <-s.in:
		e := s.env
		e.mu.Lock()
		if w.err != nil {
			s.broken = true
			e.add(c44sEntry{Kind: "recverr", Srv: s.srv, Seq: s.seq})
		} else {
			m := w.meta
			m.Kind, m.Srv, m.Seq = "recv", s.srv, s.seq
			e.add(m)
		}
		e.mu.Unlock()
		return w.msg, w.err
	case <-s.ctx.Done():
		s.env.mu.Lock()
		s.broken = true
		s.env.mu.Unlock()
		return nil, s.ctx.Err()
	}
}

// ---- watchers ----

type c44sWatcher struct {
	env *c44sEnv
	id  int
}

// rec records the callback; the Yield gives it duration so that a second
// callback to the same watcher could overlap if the client did not serialise.
func (w *c44sWatcher) rec(cb c44sCb, done func()) {
	e := w.env
	e.mu.Lock()
	e.inCb[w.id]++
	if e.inCb[w.id] > 1 && e.overlap == "" {
		e.overlap = fmt.Sprintf("watcher w%d: callback %c(%s) started while another callback to it was running", w.id, cb.Kind, cb.Val)
	}
	e.cbs = append(e.cbs, cb)
	e.mu.Unlock()
	vsched.Observe("w%d %c(%s)", w.id, cb.Kind, cb.Val)
	vsched.Yield()
	e.mu.Lock()
	e.inCb[w.id]--
	e.mu.Unlock()
	done()
}

func (w *c44sWatcher) ResourceChanged(d xdsclient.ResourceData, done func()) {
	v := "?"
	if cd, ok := d.(*c44sData); ok && cd != nil {
		v = cd.val
	}
	w.rec(c44sCb{W: w.id, Kind: 'C', Val: v}, done)
}
func (w *c44sWatcher) ResourceError(err error, done func()) {
	w.rec(c44sCb{W: w.id, Kind: 'R', Val: "err"}, done)
}
func (w *c44sWatcher) AmbientError(err error, done func()) {
	w.rec(c44sCb{W: w.id, Kind: 'A', Val: "err"}, done)
}

// ---- world ----

type c44sWorld struct {
	env    *c44sEnv
	client *xdsclient.XDSClient
	w      [2]*c44sWatcher
	respNo int
}

func c44sBuild(nServers int) (*c44sWorld, error) {
	env := &c44sEnv{pushed: map[[2]int]int{}, inCb: map[int]int{}, connOK: [2]bool{true, true}}
	var servers []xdsclient.ServerConfig
	for i := 0; i < nServers; i++ {
		servers = append(servers, xdsclient.ServerConfig{ServerIdentifier: clients.ServerIdentifier{ServerURI: fmt.Sprintf("S%d", i)}})
	}
	cl, err := xdsclient.New(xdsclient.Config{
		Servers:          servers,
		Node:             clients.Node{ID: c44sNodeID, UserAgentName: "c44s", UserAgentVersion: "0"},
		TransportBuilder: &c44sBuilder{env: env},
		ResourceTypes: map[string]xdsclient.ResourceType{
			c44sT1: {TypeURL: c44sT1, TypeName: "T1", AllResourcesRequiredInSotW: false, Decoder: c44sDecoder{}},
		},
		WatchExpiryTimeout: 15 * time.Second,
	})
	if err != nil {
		return nil, err
	}
	w := &c44sWorld{env: env, client: cl}
	for i := range w.w {
		w.w[i] = &c44sWatcher{env: env, id: i + 1}
	}
	return w, nil
}

// pushResp makes server srv send a response (name -> value, "X" = invalid) on
// its current stream; version "v<k>" and nonce "n<k>" are unique.
func (w *c44sWorld) pushResp(srv int, res ...string) bool {
	e := w.env
	e.mu.Lock()
	st := e.cur[srv]
	w.respNo++
	k := w.respNo
	e.mu.Unlock()
	if st == nil {
		return false
	}
	resp := &v3discoverypb.DiscoveryResponse{TypeUrl: c44sT1, VersionInfo: fmt.Sprintf("v%d", k), Nonce: fmt.Sprintf("n%d", k)}
	valid := true
	for i := 0; i+1 < len(res); i += 2 {
		pl := fmt.Sprintf("%s|V|%s", res[i], res[i+1])
		if res[i+1] == "X" {
			pl = fmt.Sprintf("%s|X|u%d", res[i], k)
			valid = false
		}
		resp.Resources = append(resp.Resources, &anypb.Any{TypeUrl: c44sT1, Value: []byte(pl)})
	}
	b, err := proto.Marshal(resp)
	if err != nil {
		panic(err)
	}
	e.mu.Lock()
	e.pushed[[2]int{srv, st.seq}]++
	e.mu.Unlock()
	st.in <- c44sWire{msg: b, meta: c44sEntry{Ver: resp.VersionInfo, Nonce: resp.Nonce, Valid: valid}}
	return true
}

// serverMaySend is the scheduling point of a "server sends a response" step:
// enabled only once the client has sent at least one request on the server's
// current stream (a management server answers requests; it does not push a
// response on a stream on which it has not yet seen the first request).
func (w *c44sWorld) serverMaySend(srv int) {
	vsched.Point(vsched.Op{Kind: vsched.OpYield, Enabled: func() bool {
		e := w.env
		e.mu.Lock()
		defer e.mu.Unlock()
		st := e.cur[srv]
		if st == nil {
			return false
		}
		for _, en := range e.log {
			if en.Kind == "send" && en.Srv == srv && en.Seq == st.seq {
				return true
			}
		}
		return false
	}})
}

func (w *c44sWorld) pushErr(srv int) bool {
	e := w.env
	e.mu.Lock()
	st := e.cur[srv]
	if st != nil {
		e.pushed[[2]int{srv, st.seq}]++
	}
	e.mu.Unlock()
	if st == nil {
		return false
	}
	st.in <- c44sWire{err: errors.New("c44s: scripted stream failure")}
	return true
}

func (w *c44sWorld) values(id int) []string {
	w.env.mu.Lock()
	defer w.env.mu.Unlock()
	var out []string
	for _, c := range w.env.cbs {
		if c.W == id {
			if c.Kind == 'C' {
				out = append(out, c.Val)
			} else {
				out = append(out, string(c.Kind))
			}
		}
	}
	return out
}

// ---- C42 wire oracle (per stream, from the log alone) ----

// c44sCheckWire: every DiscoveryRequest carries, for its stream, the nonce of
// the latest response read on THAT stream ("" before the first) - or of the
// one before while the latest has not been answered yet - never an older one,
// never one of another stream; the version of the last accepted response up to
// the response whose nonce it carries (accepted versions survive stream
// restarts); error_detail exactly on the first request answering a rejected
// response; the node in exactly the first request of a stream. finalNames (if
// non-nil) is what the last request on each live stream must list.
func c44sCheckWire(log []c44sEntry, live map[[2]int]bool, finalNames []string, fail func(key, f string, a ...any)) {
	type resp struct {
		nonce, ver string
		valid      bool
	}
	type sst struct {
		rs       []resp // responses read on this stream, in order
		base     string // accepted version when the stream started
		hi       int    // highest response index a request has carried so far (0 = "")
		sends    int
		answered map[int]bool
		last     *c44sEntry
	}
	accepted := map[int]string{} // per server, after everything read so far on finished streams
	streams := map[[2]int]*sst{}
	get := func(e c44sEntry) *sst {
		k := [2]int{e.Srv, e.Seq}
		s := streams[k]
		if s == nil {
			s = &sst{base: accepted[e.Srv], answered: map[int]bool{}}
			streams[k] = s
		}
		return s
	}
	avUpTo := func(s *sst, j int) string {
		v := s.base
		for i := 0; i < j; i++ {
			if s.rs[i].valid {
				v = s.rs[i].ver
			}
		}
		return v
	}
	// index of the last "close" per server: a response read on a channel that
	// is being released (revert to the primary) may be rejected by the client
	// ("channel is closed") - whether such a response is ACKed or NACKed is not
	// stated, only that the NACK is well-formed.
	lastClose := map[int]int{}
	for i, e := range log {
		if e.Kind == "close" {
			lastClose[e.Srv] = i
		}
	}
	for i := range log {
		e := log[i]
		switch e.Kind {
		case "build":
			accepted[e.Srv] = "" // a new channel starts without an accepted version
		case "newstream":
			get(e)
		case "recv":
			s := get(e)
			s.rs = append(s.rs, resp{nonce: e.Nonce, ver: e.Ver, valid: e.Valid})
			if e.Valid {
				accepted[e.Srv] = e.Ver
			}
		case "send":
			s := get(e)
			s.sends++
			if (s.sends == 1) != e.Node {
				fail("node", "%v: node must be in exactly the first request of a stream (request #%d of the stream)", e, s.sends)
			}
			j := -1
			if e.Nonce == "" {
				j = 0
			}
			for x, r := range s.rs {
				if r.nonce == e.Nonce {
					j = x + 1
				}
			}
			m := len(s.rs)
			switch {
			case j < 0:
				fail("nonce-foreign", "%v: nonce %q is of no response read on this stream (read so far: %v)", e, e.Nonce, s.rs)
				continue
			case j < s.hi || j < m-1:
				fail("nonce-stale", "%v: carries the nonce of response #%d of this stream although #%d was already answered / #%d read", e, j, s.hi, m)
			}
			if j > s.hi {
				s.hi = j
			}
			if c, ok := lastClose[e.Srv]; ok && c > i && j >= 1 && !s.answered[j] && e.Err && s.rs[j-1].valid {
				s.rs[j-1].valid = false // rejected because the channel is going away
			}
			if want := avUpTo(s, j); e.Ver != want {
				fail("version", "%v: must carry version %q (last accepted response up to the one it answers), responses on this stream %v, accepted before the stream %q", e, want, s.rs, s.base)
			}
			first := j >= 1 && !s.answered[j]
			if j >= 1 {
				s.answered[j] = true
			}
			wantErr := first && !s.rs[j-1+0].valid
			if j >= 1 && e.Err != wantErr {
				fail("error-detail", "%v: error_detail present=%v, expected %v (first answer to a rejected response only)", e, e.Err, wantErr)
			}
			if j == 0 && e.Err {
				fail("error-detail", "%v: error_detail on a request that answers no response", e)
			}
			for _, n := range e.Names {
				if n != "a" && n != "b" {
					fail("names", "%v: unknown name", e)
				}
			}
			ee := e
			s.last = &ee
		}
	}
	for k, s := range streams {
		if !live[k] {
			continue
		}
		if s.hi != len(s.rs) {
			fail("unanswered-response", "live stream S%d#%d: %d response(s) read, only %d answered at quiescence", k[0], k[1], len(s.rs), s.hi)
		}
		if finalNames != nil && (s.last == nil || strings.Join(s.last.Names, ",") != strings.Join(finalNames, ",")) {
			fail("names-final", "live stream S%d#%d: the last request must list %v at quiescence, last request: %v", k[0], k[1], finalNames, s.last)
		}
	}
}

func c44sLogStr(log []c44sEntry) string {
	s := make([]string, len(log))
	for i, e := range log {
		s[i] = e.String()
	}
	return strings.Join(s, " ; ")
}

// liveStreams: current stream of every open, connected server, and whether
// everything delivered on it was read.
func (w *c44sWorld) liveStreams(fail func(key, f string, a ...any)) map[[2]int]bool {
	e := w.env
	e.mu.Lock()
	defer e.mu.Unlock()
	read := map[[2]int]int{}
	for _, en := range e.log {
		if en.Kind == "recv" || en.Kind == "recverr" {
			read[[2]int{en.Srv, en.Seq}]++
		}
	}
	live := map[[2]int]bool{}
	for srv, st := range e.cur {
		if st == nil || st.broken || e.closed[srv] >= e.built[srv] {
			continue
		}
		k := [2]int{srv, st.seq}
		live[k] = true
		if read[k] != e.pushed[k] {
			fail("read-stalled", "live stream S%d#%d: %d message(s) delivered, %d read at quiescence", srv, st.seq, e.pushed[k], read[k])
		}
	}
	return live
}

// ---- scenario (a): C44, primary and fallback responses racing ----

// mode 0: two threads (S0 delivers ‖ S1 delivers); 1: one server-side thread
// delivering on S0 then S1; 2: S1 then S0.
func c44sRevertScenario(name string, mode, bound int) vsched.Scenario {
	return vsched.Scenario{Name: name, Bound: bound, Horizon: 20000, MinOutcomes: 1, Body: func(x *vsched.X) {
		x.BackgroundSetup()
		w, err := c44sBuild(2)
		if err != nil {
			x.Fail("C44", "setup", "xdsclient.New: %v", err)
			return
		}
		x.Cleanup(func() { w.client.Close() })
		// set-up (un-scheduled): watch a; S0's stream fails before any response;
		// fallback to S1; S1's first response is cached; S0 reconnects.
		w.client.WatchResource(c44sT1, "a", w.w[0])
		synctest.Wait()
		w.pushErr(0)
		synctest.Wait()
		w.pushResp(1, "a", "1")
		synctest.Wait()
		time.Sleep(c44sBackoff)
		synctest.Wait()
		w.env.mu.Lock()
		ok := w.env.cur[0] != nil && w.env.cur[0].seq == 2 && w.env.cur[1] != nil && w.env.built[1] == 1 && w.env.closed[1] == 0
		w.env.mu.Unlock()
		if v := w.values(1); !ok || len(v) != 1 || v[0] != "1" {
			x.Fail("C44", "setup", "set-up did not reach [fallback to S1, a=1 cached, S0 reconnected]: callbacks %v, log %s", v, c44sLogStr(w.env.log))
			return
		}
		var mu sync.Mutex
		finished := map[string]bool{}
		fin := func(n string) { mu.Lock(); finished[n] = true; mu.Unlock() }
		var names []string
		switch mode {
		case 0:
			names = []string{"S0-delivers", "S1-delivers"}
			x.Go("S0-delivers", func() { w.serverMaySend(0); w.pushResp(0, "a", "2"); fin("S0-delivers") })
			x.Go("S1-delivers", func() { w.serverMaySend(1); w.pushResp(1, "a", "3"); fin("S1-delivers") })
		case 1:
			names = []string{"servers"}
			x.Go("servers", func() {
				w.serverMaySend(0)
				w.pushResp(0, "a", "2")
				w.serverMaySend(1)
				w.pushResp(1, "a", "3")
				fin("servers")
			})
		case 2:
			names = []string{"servers"}
			x.Go("servers", func() {
				w.serverMaySend(1)
				w.pushResp(1, "a", "3")
				w.serverMaySend(0)
				w.pushResp(0, "a", "2")
				fin("servers")
			})
		}
		x.Final(func(x *vsched.X) {
			for _, p := range x.Panics {
				x.Fail("C44", "panic", "%s", p)
			}
			mu.Lock()
			for _, n := range names {
				if !finished[n] {
					x.Fail("C44", "deadlock", "harness thread %s never finished: %s", n, x.Stuck)
				}
			}
			mu.Unlock()
			vals := w.values(1)
			seen2 := false
			for _, v := range vals {
				if v == "2" {
					seen2 = true
				}
				if v == "3" && seen2 {
					x.Fail("C44", "lower-priority-update-after-revert", "watcher got %v: value 3 (from fallback server S1) delivered after value 2 from the primary S0 had been delivered; log: %s", vals, c44sLogStr(w.env.log))
				}
				if v != "1" && v != "2" && v != "3" {
					x.Fail("C44", "unexpected-callback", "watcher got %v", vals)
				}
			}
			if len(vals) == 0 || vals[len(vals)-1] != "2" {
				x.Fail("C44", "primary-update-not-delivered", "at quiescence the watcher's last value must be the primary's (2), got %v; stuck=%q log: %s", vals, x.Stuck, c44sLogStr(w.env.log))
			}
			w.env.mu.Lock()
			if w.env.overlap != "" {
				x.Fail("C44", "callbacks-not-serialised", "%s", w.env.overlap)
			}
			if w.env.closed[1] != 1 || w.env.closed[0] != 0 {
				x.Fail("C44", "lower-channel-not-released", "after the revert S1's transport must be closed exactly once and S0's kept: closes S0=%d S1=%d", w.env.closed[0], w.env.closed[1])
			}
			log := append([]c44sEntry(nil), w.env.log...)
			w.env.mu.Unlock()
			fail := func(key, f string, a ...any) {
				x.Fail("C42", key, f+" | log: %s", append(a, c44sLogStr(log))...)
			}
			live := w.liveStreams(fail)
			c44sCheckWire(log, live, []string{"a"}, fail)
			x.Outcome("values=" + strings.Join(vals, ""))
		})
	}}
}

// ---- scenario (b): C42, watch ‖ response ‖ stream failure + reconnect ----

func c44sWireScenario(name string, withWatch bool, resp string, withBreak bool, bound int) vsched.Scenario {
	return vsched.Scenario{Name: name, Bound: bound, Horizon: 20000, MinOutcomes: 1, Body: func(x *vsched.X) {
		x.BackgroundSetup()
		w, err := c44sBuild(1)
		if err != nil {
			x.Fail("C42", "setup", "xdsclient.New: %v", err)
			return
		}
		x.Cleanup(func() { w.client.Close() })
		// set-up: watch a, first response accepted (so a later stream failure is
		// followed by an immediate reconnect, A57)
		w.client.WatchResource(c44sT1, "a", w.w[0])
		synctest.Wait()
		w.pushResp(0, "a", "1")
		synctest.Wait()
		if v := w.values(1); len(v) != 1 || v[0] != "1" {
			x.Fail("C42", "setup", "set-up did not reach [a=1 cached]: callbacks %v, log %s", v, c44sLogStr(w.env.log))
			return
		}
		var mu sync.Mutex
		finished := map[string]bool{}
		fin := func(n string) { mu.Lock(); finished[n] = true; mu.Unlock() }
		var names []string
		finalNames := []string{"a"}
		if withWatch {
			names = append(names, "watch-b")
			finalNames = []string{"a", "b"}
			x.Go("watch-b", func() {
				w.client.WatchResource(c44sT1, "b", w.w[1])
				fin("watch-b")
			})
		}
		if resp != "" {
			names = append(names, "response")
			x.Go("response", func() {
				w.serverMaySend(0)
				w.pushResp(0, "a", resp)
				fin("response")
			})
		}
		if withBreak {
			names = append(names, "stream-error")
			x.Go("stream-error", func() {
				vsched.Yield()
				w.pushErr(0)
				fin("stream-error")
			})
		}
		x.Final(func(x *vsched.X) {
			for _, p := range x.Panics {
				x.Fail("C42", "panic", "%s", p)
			}
			mu.Lock()
			for _, n := range names {
				if !finished[n] {
					x.Fail("C42", "deadlock", "harness thread %s never finished: %s", n, x.Stuck)
				}
			}
			mu.Unlock()
			w.env.mu.Lock()
			if w.env.overlap != "" {
				x.Fail("C42", "callbacks-not-serialised", "%s", w.env.overlap)
			}
			log := append([]c44sEntry(nil), w.env.log...)
			w.env.mu.Unlock()
			fail := func(key, f string, a ...any) {
				x.Fail("C42", key, f+" | log: %s", append(a, c44sLogStr(log))...)
			}
			live := w.liveStreams(fail)
			if len(live) != 1 {
				fail("no-live-stream", "exactly one live stream is due at quiescence (the client reconnects at once after a stream that had delivered a response), live: %v", live)
			}
			c44sCheckWire(log, live, finalNames, fail)
			nstreams, acks := 0, 0
			for _, e := range log {
				if e.Kind == "newstream" {
					nstreams++
				}
				if e.Kind == "send" && e.Nonce != "" {
					acks++
				}
			}
			x.Outcome(fmt.Sprintf("streams=%d answered=%d w1=%s", nstreams, acks, strings.Join(w.values(1), "")))
		})
	}}
}

func TestVerif_C44_XDSSched(t *testing.T) {
	r := vk.Start(t, "c44_xds_sched", "exploration", "C44", "C42")
	defer r.Finish()
	rule := "every schedule with at most B preemptions (quick 1, thorough 2) of the real, instrumented generic xDS client (ADS reader/sender goroutines, authority and watcher callback serializers are scheduled threads; set-up runs un-scheduled against a scripted transport whose Recv blocks on a harness channel). (a) servers [S0,S1], set-up = watch, S0 fails before any response, fallback to S1, S1's response cached, S0 reconnected; then S0's update (revert to primary, S1 released) races S1's next update: a watcher never gets S1's value after S0's, ends on S0's value, S1's transport is closed exactly once, callbacks to one watcher never overlap, no harness thread hangs. (b) one server: watch(T1,b) ‖ response(T1,a valid or invalid) ‖ stream failure+reconnect: every DiscoveryRequest in the transport's log carries the nonce of the latest response read on its own stream (or of the previous one while the latest is unanswered; empty on a new stream), the version of the last accepted response, error_detail only on the NACK, node only in the first request of a stream; at quiescence every read response is answered and the last request lists {a,b}. Non-trivial = executions deviating from the default schedule."
	for _, p := range []string{"C44", "C42"} {
		r.Rule(p, rule)
		r.Assume(p, "a scripted server sends a response on a stream only after the first request of the client on that stream (an unsolicited response read on a new stream before the sender goroutine has re-sent the subscriptions gets its nonce wiped by sendExisting: observed, outside the protocol, excluded)")
		r.Assume(p, "scheduling points at the sync / atomic / channel / select operations of xdsclient, clients/internal/syncutil and clients/internal/buffer suffice; the backoff helper, protobuf and context packages are not instrumented; stream backoff is the constant 1 s test hook")
	}
	b := r.Pick(1, 2)
	// quick: two-thread windows at bound 1; thorough: the same at bound 2 plus
	// the three-thread windows at bound 1 (a scenario that outgrows its share
	// of the soft budget is reported as capped, never as exhaustive)
	scs := []vsched.Scenario{
		c44sRevertScenario("revert/S0-then-S1", 1, b),
		c44sWireScenario("wire/resp-par-break", false, "2", true, b),
		c44sWireScenario("wire/watch-par-break", true, "", true, b),
		c44sWireScenario("wire/watch-par-resp", true, "2", false, b),
	}
	if r.Thorough() {
		scs = append(scs,
			c44sRevertScenario("revert/S1-then-S0", 2, b),
			c44sRevertScenario("revert/S0-par-S1", 0, 1),
			c44sWireScenario("wire/nack-par-break", false, "X", true, b),
			c44sWireScenario("wire/watch-par-nack", true, "X", false, b),
			c44sWireScenario("wire/watch-resp-break", true, "2", true, 1),
			c44sWireScenario("wire/watch-nack-break", true, "X", true, 1),
		)
	}
	vsched.RunScenarios(t, r, []string{"C44", "C42"}, scs)
	r.Sample("C44", map[string]any{"scenario": "revert/S0-then-S1", "set_up": "watch a; S0 stream fails before any response; fallback S1; S1: a=1; +1s: S0 reconnected", "threads": []string{"servers: S0 delivers a=2, then S1 delivers a=3", "background: S0/S1 ADS reader+sender, authority serializer, watcher serializer"}, "oracle": "no 3 after 2; last value 2; S1 closed once"})
	r.Sample("C42", map[string]any{"scenario": "wire/watch-par-resp / wire/resp-par-break / wire/watch-resp-break", "set_up": "watch a; response a=1 accepted", "threads": []string{"watch-b", "response: a=2", "stream-error (client reconnects at once)"}, "oracle": "per-stream nonce/version/error_detail/node from the transport log"})
}
