//go:build verif

package h_e4chan

import (
	"context"
	"net"
	"testing"
	"testing/synctest"
	"time"

	"golang.org/x/net/http2"
	"google.golang.org/grpc"
	"google.golang.org/grpc/codes"
	"google.golang.org/grpc/credentials/insecure"
	"google.golang.org/grpc/internal/verif/wire"
	"google.golang.org/grpc/status"
)

func TestVerif_E4Smoke(t *testing.T) {
	synctest.Test(t, func(t *testing.T) {
		var peer *wire.Peer
		dial := func(ctx context.Context, _ string) (net.Conn, error) {
			c, s := wire.Pipe()
			peer = wire.NewServerPeer(s)
			peer.AutoAckSettings = true
			peer.WriteSettings(http2.Setting{ID: http2.SettingMaxConcurrentStreams, Val: 10})
			return c, nil
		}
		cc, err := grpc.NewClient("passthrough:///x", grpc.WithContextDialer(dial), grpc.WithTransportCredentials(insecure.NewCredentials()))
		if err != nil {
			t.Fatal(err)
		}
		ctx, cancel := context.WithTimeout(context.Background(), 5*time.Second)
		defer cancel()
		start := time.Now()
		err = cc.Invoke(ctx, "/s/m", []byte("hi"), new([]byte), grpc.ForceCodecV2(rawCodec{}))
		t.Logf("err=%v code=%v elapsed=%v log=%s", err, status.Code(err), time.Since(start), peer.LogString())
		if status.Code(err) != codes.DeadlineExceeded || time.Since(start) != 5*time.Second {
			t.Errorf("unexpected")
		}
		cc.Close()
		peer.Close()
	})
}
