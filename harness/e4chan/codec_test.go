//go:build verif

package h_e4chan

import (
	"fmt"

	"google.golang.org/grpc/mem"
)

// rawCodec passes []byte / *[]byte through unchanged.
type rawCodec struct{}

func (rawCodec) Name() string { return "verif-raw" }
func (rawCodec) Marshal(v any) (mem.BufferSlice, error) {
	switch b := v.(type) {
	case []byte:
		return mem.BufferSlice{mem.SliceBuffer(b)}, nil
	case *[]byte:
		return mem.BufferSlice{mem.SliceBuffer(*b)}, nil
	}
	return nil, fmt.Errorf("rawCodec: unsupported %T", v)
}
func (rawCodec) Unmarshal(data mem.BufferSlice, v any) error {
	p, ok := v.(*[]byte)
	if !ok {
		return fmt.Errorf("rawCodec: unsupported %T", v)
	}
	*p = data.Materialize()
	return nil
}
