//go:build verif

// Package h_e4chan hosts the channel-level E4 harnesses (real grpc.ClientConn /
// grpc.Server against scripted raw HTTP/2 peers inside a synctest bubble).
package h_e4chan
