//go:build verif

package h_e4chan

import (
	"fmt"
	"testing"

	"google.golang.org/grpc/internal/verif/seqx"
	"google.golang.org/grpc/internal/verif/vk"
)

// TestVerif_SeqxSelf: engine self-test — BFS over a 2-counter machine must find
// exactly the reachable states and the seeded failure.
func TestVerif_SeqxSelf(t *testing.T) {
	r := vk.Start(t, "seqx_self", "model_checking", "SELF")
	defer r.Finish()
	seqx.BFS(r, []string{"SELF"}, seqx.Config{Name: "counters", Ops: []string{"incA", "incB", "reset"}, MaxDepth: 6, Congruence: true, CongruenceMax: 50,
		Run: func(h []int) seqx.Outcome {
			a, b := 0, 0
			for _, o := range h {
				switch o {
				case 0:
					a = (a + 1) % 3
				case 1:
					b = (b + 1) % 3
				case 2:
					a, b = 0, 0
				}
			}
			out := seqx.Outcome{Key: fmt.Sprintf("%d,%d", a, b)}
			if a == 2 && b == 2 {
				out.Fails = append(out.Fails, seqx.Fail{Prop: "SELF", Key: "both-two", Desc: "seeded"})
			}
			return out
		}})
	if r.NViolations("SELF") != 1 {
		t.Errorf("want exactly 1 seeded violation, got %d", r.NViolations("SELF"))
	}
}
