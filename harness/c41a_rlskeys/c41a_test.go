//go:build verif

package keys

// C41 (leg a, package balancer/rls/internal/keys): RLS keys are faithful and
// the cache-key string separates different key maps.
//
// E3: every key-builder configuration of a small grammar is parsed by the real
// MakeBuilderMap and every request of a small grammar is run through the real
// BuilderMap.RLSKey. Two oracles, both written from the property sentence:
//
//	(F) faithful: KeyMap.Map == for each header key builder, the comma-joined
//	    values of the FIRST configured header name that is present, plus the
//	    configured host/service/method keys, plus the constant keys; requests
//	    that no key builder serves get no keys.
//	(I) injective: the RLS data cache is keyed by (request path, KeyMap.Str),
//	    so within one configuration and one path two requests whose key MAPS
//	    differ must never get the same Str (brute force over all reachable key
//	    maps, grouped by Str).

import (
	"encoding/json"
	"fmt"
	"runtime"
	"sort"
	"strconv"
	"strings"
	"sync"
	"testing"

	rlspb "google.golang.org/grpc/internal/proto/grpc_lookup_v1"
	"google.golang.org/grpc/internal/verif/vk"
	"google.golang.org/grpc/metadata"
)

const c41aP = "C41"

// ---- specification-level description of a configuration and a request ----

type c41aMatcher struct {
	Key   string   `json:"key"`
	Names []string `json:"names"`
}

type c41aBuilder struct {
	Paths     []string          `json:"paths"` // "/svc/method" or "/svc/" (all methods of svc)
	Headers   []c41aMatcher     `json:"headers"`
	HostKey   string            `json:"host_key"`
	SvcKey    string            `json:"service_key"`
	MethodKey string            `json:"method_key"`
	Const     map[string]string `json:"constant_keys"`
}

type c41aReq struct {
	Headers map[string][]string `json:"headers"` // a name that is not in the map is absent
	Host    string              `json:"host"`
	Path    string              `json:"path"`
}

type c41aCase struct {
	Kind string        `json:"kind"` // faithful | injective
	Cfg  []c41aBuilder `json:"config"`
	Req  c41aReq       `json:"request"`
	Req2 *c41aReq      `json:"request2,omitempty"`
}

// ---- reference (from the property sentence) ----

// c41aRefBuilder: the key builder that serves path: the one naming the exact
// path, else the one naming the whole service.
func c41aRefBuilder(cfg []c41aBuilder, path string) *c41aBuilder {
	for pass := 0; pass < 2; pass++ {
		want := path
		if pass == 1 {
			want = path[:strings.LastIndex(path, "/")+1]
		}
		for i := range cfg {
			for _, p := range cfg[i].Paths {
				if p == want {
					return &cfg[i]
				}
			}
		}
	}
	return nil
}

func c41aRefKeys(cfg []c41aBuilder, rq c41aReq) map[string]string {
	out := map[string]string{}
	b := c41aRefBuilder(cfg, rq.Path)
	if b == nil {
		return out
	}
	for _, m := range b.Headers {
		for _, n := range m.Names {
			if vals, present := rq.Headers[n]; present {
				out[m.Key] = strings.Join(vals, ",")
				break
			}
		}
	}
	parts := strings.Split(rq.Path, "/") // "", service, method
	if b.HostKey != "" {
		out[b.HostKey] = rq.Host
	}
	if b.SvcKey != "" {
		out[b.SvcKey] = parts[1]
	}
	if b.MethodKey != "" {
		out[b.MethodKey] = parts[2]
	}
	for k, v := range b.Const {
		out[k] = v
	}
	return out
}

// c41aCanon is an injective rendering of a key map: sorted pairs, every
// string quoted with strconv.Quote.
func c41aCanon(m map[string]string) string {
	ks := make([]string, 0, len(m))
	for k := range m {
		ks = append(ks, k)
	}
	sort.Strings(ks)
	var sb strings.Builder
	sb.WriteByte('{')
	for i, k := range ks {
		if i > 0 {
			sb.WriteByte(' ')
		}
		sb.WriteString(strconv.Quote(k))
		sb.WriteByte(':')
		sb.WriteString(strconv.Quote(m[k]))
	}
	sb.WriteByte('}')
	return sb.String()
}

func c41aSameMap(a, b map[string]string) bool {
	if len(a) != len(b) {
		return false
	}
	for k, v := range a {
		if w, ok := b[k]; !ok || w != v {
			return false
		}
	}
	return true
}

// ---- the real code ----

func c41aProto(cfg []c41aBuilder) *rlspb.RouteLookupConfig {
	out := &rlspb.RouteLookupConfig{}
	for _, b := range cfg {
		kb := &rlspb.GrpcKeyBuilder{}
		for _, p := range b.Paths {
			parts := strings.Split(p, "/")
			kb.Names = append(kb.Names, &rlspb.GrpcKeyBuilder_Name{Service: parts[1], Method: parts[2]})
		}
		for _, m := range b.Headers {
			kb.Headers = append(kb.Headers, &rlspb.NameMatcher{Key: m.Key, Names: append([]string(nil), m.Names...)})
		}
		if b.HostKey != "" || b.SvcKey != "" || b.MethodKey != "" {
			kb.ExtraKeys = &rlspb.GrpcKeyBuilder_ExtraKeys{Host: b.HostKey, Service: b.SvcKey, Method: b.MethodKey}
		}
		if b.Const != nil {
			kb.ConstantKeys = map[string]string{}
			for k, v := range b.Const {
				kb.ConstantKeys[k] = v
			}
		}
		out.GrpcKeybuilders = append(out.GrpcKeybuilders, kb)
	}
	return out
}

func c41aMD(rq c41aReq) metadata.MD {
	if len(rq.Headers) == 0 {
		return nil
	}
	md := metadata.MD{}
	for k, v := range rq.Headers {
		md[k] = append([]string(nil), v...)
	}
	return md
}

func c41aRealKey(bm BuilderMap, rq c41aReq, md metadata.MD) (km KeyMap, panicked any) {
	defer func() {
		if p := recover(); p != nil {
			panicked = p
		}
	}()
	return bm.RLSKey(md, rq.Host, rq.Path), nil
}

// c41aFaithful returns "" or the violation text for one (config, request); md
// is c41aMD(rq) (RLSKey only reads it).
func c41aFaithful(bm BuilderMap, cfg []c41aBuilder, rq c41aReq, md metadata.MD) (msg string, got KeyMap) {
	got, p := c41aRealKey(bm, rq, md)
	if p != nil {
		return fmt.Sprintf("RLSKey panicked: %v", p), got
	}
	want := c41aRefKeys(cfg, rq)
	if !c41aSameMap(got.Map, want) {
		return fmt.Sprintf("RLSKey built key map %s, the statement gives %s", c41aCanon(got.Map), c41aCanon(want)), got
	}
	return "", got
}

// ---- enumeration ----

func c41aBuilderMenu(full bool) []c41aBuilder {
	nameLists := [][]string{{"h1"}, {"h2"}, {"h1", "h2"}, {"h2", "h1"}}
	var hdrs [][]c41aMatcher
	hdrs = append(hdrs, nil)
	for _, n := range nameLists {
		hdrs = append(hdrs, []c41aMatcher{{Key: "a", Names: n}})
	}
	for _, n1 := range nameLists {
		for _, n2 := range nameLists {
			hdrs = append(hdrs, []c41aMatcher{{Key: "a", Names: n1}, {Key: "b", Names: n2}})
		}
	}
	if !full {
		// reduced menu for the two-builder layouts
		hdrs = [][]c41aMatcher{nil, {{Key: "a", Names: []string{"h1", "h2"}}}, {{Key: "a", Names: []string{"h2"}}, {Key: "b", Names: []string{"h2", "h1"}}}}
	}
	var out []c41aBuilder
	for _, h := range hdrs {
		for extra := 0; extra < 2; extra++ {
			for cst := 0; cst < 2; cst++ {
				b := c41aBuilder{Headers: h}
				if extra == 1 {
					b.HostKey, b.SvcKey, b.MethodKey = "host", "svc", "mth"
				}
				if cst == 1 {
					b.Const = map[string]string{"const": "cv"}
				}
				out = append(out, b)
			}
		}
	}
	return out
}

func c41aConfigs(thorough bool) [][]c41aBuilder {
	var out [][]c41aBuilder
	full := c41aBuilderMenu(true)
	small := c41aBuilderMenu(false)
	with := func(b c41aBuilder, paths ...string) c41aBuilder { b.Paths = paths; return b }
	for _, b := range full {
		out = append(out, []c41aBuilder{with(b, "/s/m")})
		out = append(out, []c41aBuilder{with(b, "/s/")})
		out = append(out, []c41aBuilder{with(b, "/s/m", "/t/")})
	}
	second := small
	if thorough {
		second = full
	}
	first := small
	if thorough {
		first = full
	}
	for _, b1 := range first {
		for _, b2 := range second {
			out = append(out, []c41aBuilder{with(b1, "/s/m"), with(b2, "/s/")})
			out = append(out, []c41aBuilder{with(b1, "/s/"), with(b2, "/t/m")})
		}
	}
	return out
}

func c41aRequests(thorough bool) []c41aReq {
	vals := []string{"a", "c", "a,b=c", "=", ""}
	var lists [][]string
	lists = append(lists, nil) // absent
	for _, v := range vals {
		lists = append(lists, []string{v})
	}
	if thorough {
		for _, v := range vals {
			for _, w := range vals {
				lists = append(lists, []string{v, w})
			}
		}
	} else {
		lists = append(lists, []string{"a", "c"}, []string{"c", "a"}, []string{"a,b=c", "="}, []string{"", "a"}, []string{"", ""})
	}
	var out []c41aReq
	for _, path := range []string{"/s/m", "/s/x", "/t/m"} {
		for _, host := range []string{"hostA", "hostB"} {
			for _, l1 := range lists {
				for _, l2 := range lists {
					rq := c41aReq{Host: host, Path: path, Headers: map[string][]string{}}
					if l1 != nil {
						rq.Headers["h1"] = l1
					}
					if l2 != nil {
						rq.Headers["h2"] = l2
					}
					out = append(out, rq)
				}
			}
		}
	}
	return out
}

func c41aOutcomeName(k int) string {
	switch k {
	case 0:
		return "no key builder serves the path: empty key map"
	case 1:
		return "no header key builders: extra/constant keys only"
	}
	k -= 2
	return fmt.Sprintf("%d of %d header keys present", k/2, k%2+1)
}

type c41aCollision struct {
	cfg    []c41aBuilder
	r1, r2 c41aReq
	m1, m2 string // canonical maps
	str    string
}

// c41aLess orders collisions: smallest configuration, then shortest key maps
// and requests, then a total lexicographic tie-break (deterministic minimum).
func c41aLess(a, b *c41aCollision) bool {
	nb := func(c *c41aCollision) int {
		n := 0
		for _, b := range c.cfg {
			n += 1 + len(b.Paths) + len(b.Headers) + len(b.Const)
			for _, m := range b.Headers {
				n += len(m.Names)
			}
			if b.HostKey != "" {
				n += 3
			}
		}
		return n
	}
	if x, y := nb(a), nb(b); x != y {
		return x < y
	}
	if x, y := len(a.m1)+len(a.m2), len(b.m1)+len(b.m2); x != y {
		return x < y
	}
	full := func(c *c41aCollision) string {
		cj, _ := json.Marshal(c.cfg)
		r1, _ := json.Marshal(c.r1)
		r2, _ := json.Marshal(c.r2)
		return fmt.Sprintf("%06d", len(r1)+len(r2)) + c.m1 + c.m2 + string(cj) + string(r1) + string(r2)
	}
	return full(a) < full(b)
}

const c41aInjKey = "keymap-string-not-injective"

func c41aInjDesc(c *c41aCollision) string {
	cj, _ := json.Marshal(c.cfg)
	return fmt.Sprintf("two requests with DIFFERENT key maps share the cache key (path %q, keys %q): request headers %v -> key map %s; request headers %v -> key map %s; config %s. KeyMap.Str (mapToString) joins k=v pairs with ',' without escaping, so a value containing ',' and '=' imitates a further key.", c.r1.Path, c.str, c.r1.Headers, c.m1, c.r2.Headers, c.m2, cj)
}

func TestVerif_C41_RLSKeys(t *testing.T) {
	const P = c41aP
	r := vk.Start(t, "c41a_rlskeys", "exploration", P)
	defer r.Finish()
	r.Rule(P, "configs: 1 key builder from the full menu {0,1,2 header matchers (keys a,b) x name lists over [h1],[h2],[h1,h2],[h2,h1]} x {extra host/service/method keys on/off} x {constant key on/off} serving /s/m, /s/ (whole service) or {/s/m,/t/}; 2 key builders (exact path + whole-service fallback, or two services) over a reduced (quick) / the full (thorough) menu. Requests: headers h1,h2 each absent, 1 value, or 2 values (quick: 5 chosen pairs; thorough: all 25) over {a, c, 'a,b=c', '=', ''}, 2 hosts, paths {/s/m,/s/x,/t/m}. Every (config, request) goes through the real MakeBuilderMap + RLSKey; oracle (F) recomputes the key map from the sentence, oracle (I) groups all reachable key maps of one (config, path) by KeyMap.Str. Non-trivial = distinct (config, path, key map) triples with at least one header-derived key")
	r.Assume(P, "a header is 'present' when the request metadata has an entry for it (one empty value counts as present); requests served by no key builder get an empty key map; the cache key is (path, KeyMap.Str) as in balancer/rls/cache.go, so injectivity is judged per configuration and path")

	if f := r.ReplayFile(); f != "" {
		var c c41aCase
		if err := r.LoadReplay(&c); err != nil {
			r.EngineError("replay: %v", err)
			return
		}
		r.Eval(P, 1)
		bm, err := MakeBuilderMap(c41aProto(c.Cfg))
		if err != nil {
			r.Violation(P, "replay", "MakeBuilderMap rejected the configuration: "+err.Error(), c)
			return
		}
		msg, got := c41aFaithful(bm, c.Cfg, c.Req, c41aMD(c.Req))
		fmt.Printf("replay: faithful: %q str=%q\n", msg, got.Str)
		if msg != "" {
			r.Violation(P, "replay", msg, c)
		}
		if c.Req2 != nil {
			_, got2 := c41aFaithful(bm, c.Cfg, *c.Req2, c41aMD(*c.Req2))
			if got.Str == got2.Str && c.Req.Path == c.Req2.Path && c41aCanon(got.Map) != c41aCanon(got2.Map) {
				fmt.Printf("replay: collision on %q\n", got.Str)
				r.Violation(P, c41aInjKey, fmt.Sprintf("key maps %s and %s share cache key string %q", c41aCanon(got.Map), c41aCanon(got2.Map), got.Str), c)
			}
		}
		return
	}

	configs := c41aConfigs(r.Thorough())
	reqs := c41aRequests(r.Thorough())
	mds := make([]metadata.MD, len(reqs))
	for i := range reqs {
		mds[i] = c41aMD(reqs[i])
	}
	var mu sync.Mutex
	var evals, nontriv, collisions, groups int64
	var best *c41aCollision
	outcomes := map[string]int64{}
	type fail struct {
		key, msg string
		c        c41aCase
	}
	var fails []fail

	work := make(chan int, 256)
	var wg sync.WaitGroup
	nw := runtime.GOMAXPROCS(0)
	for w := 0; w < nw; w++ {
		wg.Add(1)
		go func() {
			defer wg.Done()
			for ci := range work {
				cfg := configs[ci]
				var lev, lnt, lcol, lgr int64
				var lout [8]int64 // 0: no builder, 1: no header matchers, 2+nh*2+(len-1): nh of len header keys present
				var lbest *c41aCollision
				var lfails []fail
				bm, err := MakeBuilderMap(c41aProto(cfg))
				if err != nil {
					cj, _ := json.Marshal(cfg)
					lfails = append(lfails, fail{"config-rejected " + string(cj), "MakeBuilderMap rejected a valid configuration: " + err.Error(), c41aCase{Kind: "faithful", Cfg: cfg, Req: reqs[0]}})
				} else {
					// per path: Str -> first (canonical map, request)
					type seenT struct {
						canon string
						rq    int
					}
					byStr := map[string]map[string]seenT{}
					maps := map[string]bool{}
					for ri := range reqs {
						rq := reqs[ri]
						msg, got := c41aFaithful(bm, cfg, rq, mds[ri])
						lev++
						if msg != "" {
							if len(lfails) < 3 {
								cj, _ := json.Marshal(cfg)
								rj, _ := json.Marshal(rq)
								lfails = append(lfails, fail{"faithful cfg=" + string(cj) + " req=" + string(rj), msg, c41aCase{Kind: "faithful", Cfg: cfg, Req: rq}})
							}
							continue
						}
						canon := c41aCanon(got.Map)
						b := c41aRefBuilder(cfg, rq.Path)
						switch {
						case b == nil:
							lout[0]++
						case len(b.Headers) == 0:
							lout[1]++
						default:
							nh := 0
							for _, m := range b.Headers {
								if _, ok := got.Map[m.Key]; ok {
									nh++
								}
							}
							lout[2+nh*2+len(b.Headers)-1]++
							if nh > 0 && !maps[rq.Path+"\x00"+canon] {
								lnt++
							}
						}
						maps[rq.Path+"\x00"+canon] = true
						g := byStr[rq.Path]
						if g == nil {
							g = map[string]seenT{}
							byStr[rq.Path] = g
						}
						if s, ok := g[got.Str]; !ok {
							g[got.Str] = seenT{canon, ri}
							lgr++
						} else if s.canon != canon {
							lcol++
							c := &c41aCollision{cfg: cfg, r1: reqs[s.rq], r2: rq, m1: s.canon, m2: canon, str: got.Str}
							if c.m2 < c.m1 {
								c.r1, c.r2, c.m1, c.m2 = c.r2, c.r1, c.m2, c.m1
							}
							if lbest == nil || c41aLess(c, lbest) {
								lbest = c
							}
						}
					}
				}
				mu.Lock()
				evals += lev
				nontriv += lnt
				collisions += lcol
				groups += lgr
				for k, v := range lout {
					if v > 0 {
						outcomes[c41aOutcomeName(k)] += v
					}
				}
				if lbest != nil && (best == nil || c41aLess(lbest, best)) {
					best = lbest
				}
				if len(fails) < 50 {
					fails = append(fails, lfails...)
				}
				mu.Unlock()
			}
		}()
	}
	done := 0
	for ci := range configs {
		if !r.Mine(ci) {
			continue
		}
		if ci%64 == 0 && r.OverBudget() {
			r.Cap(P, fmt.Sprintf("budget exhausted after %d of %d configurations", ci, len(configs)))
			break
		}
		work <- ci
		done++
	}
	close(work)
	wg.Wait()

	r.Eval(P, evals)
	r.NontrivialN(P, nontriv)
	r.Set(P, "configs", done)
	r.Set(P, "requests_per_config", len(reqs))
	r.Set(P, "distinct_cache_key_strings", groups)
	r.Set(P, "colliding_request_pairs_seen", collisions)
	for k := range outcomes {
		r.Outcome(P, k)
	}
	r.Set(P, "outcome_counts", outcomes)
	sort.Slice(fails, func(i, j int) bool {
		if len(fails[i].key) != len(fails[j].key) {
			return len(fails[i].key) < len(fails[j].key)
		}
		return fails[i].key < fails[j].key
	})
	for i, f := range fails {
		if i >= 3 {
			break
		}
		r.Violation(P, f.key, f.msg, f.c)
	}
	if best != nil {
		r2 := best.r2
		r.Violation(P, c41aInjKey, c41aInjDesc(best), c41aCase{Kind: "injective", Cfg: best.cfg, Req: best.r1, Req2: &r2})
	}
	r.Sample(P, map[string]any{"config": []c41aBuilder{{Paths: []string{"/s/"}, Headers: []c41aMatcher{{Key: "a", Names: []string{"h2", "h1"}}}, HostKey: "host", SvcKey: "svc", MethodKey: "mth", Const: map[string]string{"const": "cv"}}}, "request": c41aReq{Headers: map[string][]string{"h1": {"a", "="}}, Host: "hostA", Path: "/s/x"}, "expected_key_map": map[string]string{"a": "a,=", "host": "hostA", "svc": "s", "mth": "x", "const": "cv"}})
	r.Sample(P, map[string]any{"injectivity": "all key maps reachable for one (config, path) grouped by KeyMap.Str; a group with two different maps is a violation"})
}
