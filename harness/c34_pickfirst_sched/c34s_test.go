//go:build verif

package pickfirst

// C34, schedule level (E1): the happy-eyeballs timer callback of pick_first
// racing with the event that cancels the timer (READY / TRANSIENT_FAILURE of
// the subchannel being attempted, a resolver update, Close). balancer/pickfirst
// is instrumented at check time (b.mu and every atomic are scheduling points).
//
// The timer behind pickfirst/internal.TimeAfterFunc is owned by the explorer:
// registering a timer creates a managed "timer" thread whose start (= the
// timer fires) is scheduled like any other step; the returned stop function
// makes a callback that has NOT started yet not run (time.AfterFunc's Stop),
// a callback that already started keeps running — that in-flight callback is
// the window this leg explores.
//
// The harness' own bookkeeping uses native sync: invisible to the scheduler and
// atomic with the step that performs it.

import (
	"bytes"
	"errors"
	"fmt"
	"runtime"
	"strconv"
	"strings"
	"sync"
	"testing"
	"time"

	"google.golang.org/grpc/balancer"
	pfinternal "google.golang.org/grpc/balancer/pickfirst/internal"
	"google.golang.org/grpc/connectivity"
	"google.golang.org/grpc/internal/verif/vk"
	"google.golang.org/grpc/internal/verif/vsched"
	"google.golang.org/grpc/resolver"
)

const c34sP = "C34"

func c34sGoid() uint64 {
	var buf [64]byte
	b := buf[:runtime.Stack(buf[:], false)]
	b = bytes.TrimPrefix(b, []byte("goroutine "))
	if i := bytes.IndexByte(b, ' '); i > 0 {
		n, _ := strconv.ParseUint(string(b[:i]), 10, 64)
		return n
	}
	return 0
}

type c34sTimer struct {
	id        int
	stopped   bool   // the stop function has been called ...
	stoppedBy uint64 // ... by this goroutine
	fired     bool   // the timer thread has been scheduled
	ran       bool   // ... and the callback was started (timer was not stopped at that moment)
	returned  bool
	effects   int // NewSubConn / Connect / UpdateState calls made from the callback
	goid      uint64
}

type c34sSC struct {
	balancer.SubConn
	w        *c34sWorld
	id       int
	name     string
	listener func(balancer.SubConnState)
	state    connectivity.State
	connects int
	shut     bool
}

type c34sWorld struct {
	mu     sync.Mutex
	x      *vsched.X
	bal    *pickfirstBalancer
	scs    []*c34sSC
	timers []*c34sTimer
	byGoid map[uint64]*c34sTimer

	state    connectivity.State
	reported bool
	picker   balancer.Picker
	readySC  *c34sSC // the balancer reported READY with this subconn and it has not left READY

	closeReturned bool
	// resolver update bookkeeping: first effective Connect after the update began
	updFirst      string // first address of the new list ("" = no update issued)
	updFirstSeen  bool
	updArmed      bool
	eventGoid     uint64
	eventDone     bool
	eventFirstLog int // number of fake calls logged when the event began
	calls         []string
}

func (w *c34sWorld) note(format string, a ...any) {
	s := fmt.Sprintf(format, a...)
	w.calls = append(w.calls, s)
	vsched.Observe("%s", s)
	w.evCall()
}

// evCall (w.mu held): the resolver update is being processed from the first
// call the event thread makes into the fake ClientConn after issuing it (the
// harness cannot see the moment the balancer's lock is taken).
func (w *c34sWorld) evCall() {
	if w.updFirst != "" && !w.updArmed && c34sGoid() == w.eventGoid {
		w.updArmed = true
	}
}

// caller (w.mu held): the timer whose callback is making this call, if any.
func (w *c34sWorld) callerTimer() *c34sTimer { return w.byGoid[c34sGoid()] }

// effect (w.mu held) is called for every NewSubConn / Connect / UpdateState.
func (w *c34sWorld) effect(what string) {
	if w.closeReturned {
		w.x.Fail(c34sP, "call-after-close", "%s after Close() had returned", what)
	}
	if t := w.callerTimer(); t != nil {
		t.effects++
		if t.stopped && t.stoppedBy != t.goid {
			w.x.Fail(c34sP, "cancelled-timer-had-effect", "%s was made by the callback of happy-eyeballs timer #%d although that timer had been cancelled (its stop function had returned, called by the event that holds the balancer's lock) before the callback acted", what, t.id)
		}
	}
}

func (s *c34sSC) Connect() {
	w := s.w
	w.mu.Lock()
	defer w.mu.Unlock()
	w.note("#%d(%s).Connect", s.id, s.name)
	if s.shut || s.state != connectivity.Idle {
		return // no-op on a real subchannel
	}
	s.connects++
	w.effect(fmt.Sprintf("Connect on subchannel #%d(%s)", s.id, s.name))
	if w.readySC != nil {
		w.x.Fail(c34sP, "connect-while-ready", "Connect on subchannel #%d(%s) although the balancer reported READY with subchannel #%d(%s), which is still READY", s.id, s.name, w.readySC.id, w.readySC.name)
	}
	if w.updFirst != "" && w.updArmed && !w.updFirstSeen {
		w.updFirstSeen = true
		if s.name != w.updFirst {
			w.x.Fail(c34sP, "update-first-attempt-not-first-address", "after the resolver update the first connection attempt went to %s, the first address of the new list is %s", s.name, w.updFirst)
		}
	}
}

func (s *c34sSC) Shutdown() {
	w := s.w
	w.mu.Lock()
	defer w.mu.Unlock()
	// not Observe()d: pick_first shuts subchannels down in the iteration order
	// of a Go map (resolver.AddressMapV2), which must not enter the
	// determinism signature of an execution
	w.calls = append(w.calls, fmt.Sprintf("#%d(%s).Shutdown", s.id, s.name))
	w.evCall()
	s.shut = true
	if w.readySC == s {
		w.readySC = nil
	}
}
func (s *c34sSC) UpdateAddresses([]resolver.Address)                 {}
func (s *c34sSC) RegisterHealthListener(func(balancer.SubConnState)) {}
func (s *c34sSC) GetOrBuildProducer(balancer.ProducerBuilder) (balancer.Producer, func()) {
	return nil, func() {}
}

type c34sCC struct {
	balancer.ClientConn
	w *c34sWorld
}

func (c *c34sCC) NewSubConn(addrs []resolver.Address, o balancer.NewSubConnOptions) (balancer.SubConn, error) {
	w := c.w
	w.mu.Lock()
	defer w.mu.Unlock()
	s := &c34sSC{w: w, id: len(w.scs), name: addrs[0].Addr, listener: o.StateListener, state: connectivity.Idle}
	w.scs = append(w.scs, s)
	w.note("NewSubConn(%s)=#%d", s.name, s.id)
	w.effect(fmt.Sprintf("NewSubConn(%s)", s.name))
	if w.readySC != nil {
		w.x.Fail(c34sP, "new-subconn-while-ready", "NewSubConn(%s) although the balancer reported READY with subchannel #%d(%s), which is still READY", s.name, w.readySC.id, w.readySC.name)
	}
	return s, nil
}

func (c *c34sCC) UpdateState(st balancer.State) {
	w := c.w
	w.mu.Lock()
	defer w.mu.Unlock()
	w.note("UpdateState(%v)", st.ConnectivityState)
	w.effect(fmt.Sprintf("UpdateState(%v)", st.ConnectivityState))
	w.state, w.reported, w.picker = st.ConnectivityState, true, st.Picker
	w.readySC = nil
	if st.ConnectivityState == connectivity.Ready {
		res, err := st.Picker.Pick(balancer.PickInfo{})
		s, _ := res.SubConn.(*c34sSC)
		if err != nil || s == nil || s.shut || s.state != connectivity.Ready {
			w.x.Fail(c34sP, "ready-unsound", "READY reported but the picker returns (%v, %v), not a live subchannel whose latest state is READY", res.SubConn, err)
			return
		}
		w.readySC = s
		for _, o := range w.scs {
			if o != s && !o.shut {
				w.x.Fail(c34sP, "ready-others-alive", "READY reported with subchannel #%d(%s) while #%d(%s) has not been shut down", s.id, s.name, o.id, o.name)
			}
		}
	}
}
func (c *c34sCC) ResolveNow(resolver.ResolveNowOptions)                {}
func (c *c34sCC) RemoveSubConn(sc balancer.SubConn)                    { sc.Shutdown() }
func (c *c34sCC) UpdateAddresses(balancer.SubConn, []resolver.Address) {}
func (c *c34sCC) Target() string                                       { return "c34s:///x" }

// timeAfterFunc is the explorer-owned replacement of internal.TimeAfterFunc.
func (w *c34sWorld) timeAfterFunc(_ time.Duration, f func()) func() {
	w.mu.Lock()
	t := &c34sTimer{id: len(w.timers)}
	w.timers = append(w.timers, t)
	w.mu.Unlock()
	vsched.Observe("timer#%d armed", t.id)
	vsched.GoNamed(fmt.Sprintf("timer%d", t.id), func() {
		// first step of this thread = the timer fires (at a time the explorer chose)
		w.mu.Lock()
		t.fired = true
		t.goid = c34sGoid()
		if t.stopped {
			w.mu.Unlock()
			vsched.Observe("timer#%d fires: was stopped, callback not run", t.id)
			return
		}
		t.ran = true
		w.byGoid[t.goid] = t
		w.mu.Unlock()
		vsched.Observe("timer#%d fires: callback starts", t.id)
		f()
		w.mu.Lock()
		t.returned = true
		delete(w.byGoid, t.goid)
		w.mu.Unlock()
		vsched.Observe("timer#%d callback returned (%d calls made)", t.id, t.effects)
	})
	return func() {
		w.mu.Lock()
		if !t.stopped {
			t.stopped = true
			t.stoppedBy = c34sGoid()
		}
		w.mu.Unlock()
	}
}

func c34sAddrs(names ...string) []resolver.Address {
	out := make([]resolver.Address, len(names))
	for i, n := range names {
		out[i] = resolver.Address{Addr: n}
	}
	return out
}

func (w *c34sWorld) live(name string) *c34sSC {
	w.mu.Lock()
	defer w.mu.Unlock()
	for i := len(w.scs) - 1; i >= 0; i-- {
		if w.scs[i].name == name && !w.scs[i].shut {
			return w.scs[i]
		}
	}
	return nil
}

// deliver: the subchannel reports a new state (listener call = what the
// channel's serializer does).
func (w *c34sWorld) deliver(s *c34sSC, st connectivity.State) {
	w.mu.Lock()
	s.state = st
	if st != connectivity.Ready && w.readySC == s {
		w.readySC = nil
	}
	w.note("deliver #%d(%s) -> %v", s.id, s.name, st)
	w.mu.Unlock()
	scs := balancer.SubConnState{ConnectivityState: st}
	if st == connectivity.TransientFailure {
		scs.ConnectionError = errors.New("c34s: connection refused")
	}
	s.listener(scs)
}

// Address names: "10.0.0.N:1" (one family, so the list order is the attempt order).
func c34sA(n int) string { return fmt.Sprintf("10.0.0.%d:1", n) }

type c34sEvent struct {
	name string
	run  func(w *c34sWorld)
}

// c34sScenario: start state = resolver list of nAddr addresses, first address
// Connect()ed and CONNECTING, happy-eyeballs timer #0 armed. Threads: timer
// thread(s) (created by the timer seam) and ONE event thread running events.
func c34sScenario(name string, nAddr int, bound int, events []c34sEvent) vsched.Scenario {
	return vsched.Scenario{Name: name, Bound: bound, MinOutcomes: 3, Body: func(x *vsched.X) {
		w := &c34sWorld{x: x, byGoid: map[uint64]*c34sTimer{}}
		old := pfinternal.TimeAfterFunc
		pfinternal.TimeAfterFunc = w.timeAfterFunc
		w.bal = pickfirstBuilder{}.Build(&c34sCC{w: w}, balancer.BuildOptions{}).(*pickfirstBalancer)
		var names []string
		for i := 1; i <= nAddr; i++ {
			names = append(names, c34sA(i))
		}
		w.bal.UpdateClientConnState(balancer.ClientConnState{ResolverState: resolver.State{Addresses: c34sAddrs(names...)}})
		first := w.live(names[0])
		if first == nil || first.connects != 1 || len(w.timers) != 1 {
			x.Fail(c34sP, "engine/setup", "set-up did not reach the start state: subchannels %d timers %d", len(w.scs), len(w.timers))
			return
		}
		w.deliver(first, connectivity.Connecting)
		x.Go("event", func() {
			for _, e := range events {
				vsched.Observe("event %s begins", e.name)
				e.run(w)
				vsched.Observe("event %s returned", e.name)
			}
			w.mu.Lock()
			w.eventDone = true
			w.mu.Unlock()
		})
		x.Final(func(x *vsched.X) {
			if x.Stuck != "" {
				x.Fail(c34sP, "deadlock", "execution stuck: %s", x.Stuck)
			}
			for _, p := range x.Panics {
				x.Fail(c34sP, "panic", "%s", p)
			}
			w.mu.Lock()
			defer w.mu.Unlock()
			if w.readySC != nil {
				for _, o := range w.scs {
					if o != w.readySC && !o.shut {
						x.Fail(c34sP, "ready-others-alive", "at the end the balancer is READY with #%d(%s) but subchannel #%d(%s) was never shut down", w.readySC.id, w.readySC.name, o.id, o.name)
					}
				}
			}
			if w.closeReturned {
				for _, o := range w.scs {
					if !o.shut {
						x.Fail(c34sP, "subconn-alive-after-close", "subchannel #%d(%s) is not shut down after Close()", o.id, o.name)
					}
				}
			}
			// outcome class: what each timer did + final channel state
			var ts []string
			for _, t := range w.timers {
				switch {
				case !t.fired:
					ts = append(ts, "never-fired")
				case !t.ran:
					ts = append(ts, "stopped-before-firing")
				case t.effects > 0:
					ts = append(ts, "ran-with-effect")
				case t.stopped && t.stoppedBy != t.goid:
					ts = append(ts, "in-flight-when-cancelled-no-effect")
				default:
					ts = append(ts, "ran-no-effect")
				}
			}
			live := 0
			for _, o := range w.scs {
				if !o.shut {
					live++
				}
			}
			x.Outcome(fmt.Sprintf("timers=[%s] state=%v subconns=%d live=%d", strings.Join(ts, ","), w.state, len(w.scs), live))
		})
		x.Cleanup(func() {
			pfinternal.TimeAfterFunc = old
		})
	}}
}

func c34sEvReady(n int) c34sEvent {
	return c34sEvent{fmt.Sprintf("%s READY", c34sA(n)), func(w *c34sWorld) {
		if s := w.live(c34sA(n)); s != nil && s.state == connectivity.Connecting {
			w.deliver(s, connectivity.Ready)
		}
	}}
}

func c34sEvTF(n int) c34sEvent {
	return c34sEvent{fmt.Sprintf("%s TRANSIENT_FAILURE", c34sA(n)), func(w *c34sWorld) {
		if s := w.live(c34sA(n)); s != nil && s.state == connectivity.Connecting {
			w.deliver(s, connectivity.TransientFailure)
		}
	}}
}

func c34sEvConnecting(n int) c34sEvent {
	return c34sEvent{fmt.Sprintf("%s CONNECTING", c34sA(n)), func(w *c34sWorld) {
		if s := w.live(c34sA(n)); s != nil && s.state == connectivity.Idle && s.connects > 0 {
			w.deliver(s, connectivity.Connecting)
		}
	}}
}

func c34sEvUpdate(ns ...int) c34sEvent {
	var names []string
	for _, n := range ns {
		names = append(names, c34sA(n))
	}
	return c34sEvent{"resolver update " + strings.Join(names, ","), func(w *c34sWorld) {
		w.mu.Lock()
		w.updFirst, w.updFirstSeen, w.updArmed, w.eventGoid = names[0], false, false, c34sGoid()
		w.mu.Unlock()
		w.bal.UpdateClientConnState(balancer.ClientConnState{ResolverState: resolver.State{Addresses: c34sAddrs(names...)}})
	}}
}

func c34sEvClose() c34sEvent {
	return c34sEvent{"Close", func(w *c34sWorld) {
		w.bal.Close()
		w.mu.Lock()
		w.closeReturned = true
		w.mu.Unlock()
	}}
}

func TestVerif_C34_PickFirstSched(t *testing.T) {
	const P = c34sP
	r := vk.Start(t, "c34_pickfirst_sched", "exploration", P)
	defer r.Finish()
	b := r.Pick(3, 4)
	r.Rule(P, fmt.Sprintf("every schedule with at most %d preemptions of the real pick_first balancer (instrumented at check time: b.mu and every atomic are scheduling points) from the start state {list of 2-3 addresses, first address CONNECTING, happy-eyeballs timer armed}; threads: one thread per armed timer (explorer-owned internal.TimeAfterFunc: the thread's first step is the firing; stop prevents a callback that has not started, a started callback keeps running) and one event thread delivering READY / TRANSIENT_FAILURE of the subchannel being attempted, a resolver update with a disjoint list, Close, or a short sequence of them; non-trivial = executions deviating from the default schedule", b))
	r.Assume(P, "schedule leg: scheduling points at lock/atomic operations of balancer/pickfirst suffice; the fake ClientConn's calls are atomic; sequentially consistent atomics")
	scs := []vsched.Scenario{
		c34sScenario("timer-vs-ready/2addr", 2, b, []c34sEvent{c34sEvReady(1)}),
		c34sScenario("timer-vs-tf/3addr", 3, b, []c34sEvent{c34sEvTF(1)}),
		c34sScenario("timer-vs-update/2addr", 2, b, []c34sEvent{c34sEvUpdate(3, 4)}),
		c34sScenario("timer-vs-close/2addr", 2, b, []c34sEvent{c34sEvClose()}),
		c34sScenario("timer-vs-tf-then-ready/3addr", 3, b, []c34sEvent{c34sEvTF(1), c34sEvConnecting(2), c34sEvReady(2)}),
	}
	if r.Thorough() {
		scs = append(scs,
			c34sScenario("timer-vs-update-then-close/3addr", 3, b, []c34sEvent{c34sEvUpdate(2, 4), c34sEvClose()}),
			c34sScenario("timer-vs-ready/3addr", 3, b, []c34sEvent{c34sEvReady(1)}),
		)
	}
	vsched.RunScenarios(t, r, []string{P}, scs)
	r.Sample(P, map[string]any{"scenario": "timer-vs-ready/2addr", "threads": []string{"timer0: fires (callback starts unless stopped) ; callback = lock b.mu, return if cancelled, else next address", "event: subchannel #0 reports READY (updateSubConnState under b.mu cancels the timer, shuts the others down, reports READY)"}})
	r.Sample(P, map[string]any{"schedule": "timer0 fires and parks at b.mu.Lock ; event runs to completion (READY reported, timer cancelled) ; timer0 resumes", "kind": "one-preemption execution: callback in flight while its timer is cancelled", "required": "no NewSubConn / Connect"})
}
