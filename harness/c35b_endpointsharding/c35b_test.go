//go:build verif

package endpointsharding

import (
	"fmt"
	"sort"
	"strings"
	"testing"
	"testing/synctest"

	"google.golang.org/grpc/balancer"
	"google.golang.org/grpc/connectivity"
	"google.golang.org/grpc/internal/verif/seqx"
	"google.golang.org/grpc/internal/verif/vk"
	"google.golang.org/grpc/resolver"
)

// ---- C35 (leg b): endpointsharding aggregates by the precedence rule and its
// picker round-robins fairly over the children in the aggregate state ----
//
// E2 (seqx BFS over event histories on a fresh real endpointsharding balancer
// with stub children inside a synctest bubble); every history is re-run for
// every value vector of the randIntN seam during its last event.

var c35bAllEps = []string{"e1", "e2", "e3", "e4"}
var c35bEps = c35bAllEps[:3] // thorough tier: all 4
var c35bStates = []connectivity.State{connectivity.Connecting, connectivity.Ready, connectivity.TransientFailure, connectivity.Idle}

func c35bSt(s connectivity.State) string {
	switch s {
	case connectivity.Connecting:
		return "C"
	case connectivity.Ready:
		return "R"
	case connectivity.TransientFailure:
		return "TF"
	case connectivity.Idle:
		return "I"
	}
	return s.String()
}

// ------------------------------------------------------------------ oracle ----

// c35bRef is the reference: which endpoints currently have a child and the
// last state each of those children reported.
type c35bRef struct {
	alive map[string]bool
	gen   map[string]int // how many children were created for the endpoint so far
	state map[string]connectivity.State
	seq   map[string]int // number of the latest report of the live child
}

func c35bNewRef() *c35bRef {
	return &c35bRef{alive: map[string]bool{}, gen: map[string]int{}, state: map[string]connectivity.State{}, seq: map[string]int{}}
}

func (r *c35bRef) update(set map[string]bool) {
	for _, e := range c35bEps {
		switch {
		case set[e] && !r.alive[e]:
			r.alive[e] = true
			r.gen[e]++
			delete(r.state, e)
			delete(r.seq, e)
		case !set[e] && r.alive[e]:
			r.alive[e] = false
			delete(r.state, e)
			delete(r.seq, e)
		}
	}
}

func (r *c35bRef) report(ep string, gen, seq int, s connectivity.State) {
	if r.alive[ep] && gen == r.gen[ep] {
		r.state[ep] = s
		r.seq[ep] = seq
	}
}

// aggregate is the rule of the statement on the multiset of live children.
func (r *c35bRef) aggregate() connectivity.State {
	for _, want := range []connectivity.State{connectivity.Ready, connectivity.Connecting, connectivity.Idle} {
		for _, e := range c35bEps {
			if s, ok := r.state[e]; ok && s == want {
				return want
			}
		}
	}
	return connectivity.TransientFailure
}

// eligible: the children whose state equals the aggregate state (sorted).
func (r *c35bRef) eligible() []string {
	agg := r.aggregate()
	var out []string
	for _, e := range c35bEps {
		if s, ok := r.state[e]; ok && s == agg {
			out = append(out, e)
		}
	}
	return out
}

func (r *c35bRef) describe() string {
	var sb strings.Builder
	sb.WriteString("{")
	for _, e := range c35bEps {
		if s, ok := r.state[e]; ok {
			fmt.Fprintf(&sb, "%s:%s ", e, c35bSt(s))
		} else if r.alive[e] {
			fmt.Fprintf(&sb, "%s:? ", e)
		}
	}
	return strings.TrimSpace(sb.String()) + "}"
}

// ------------------------------------------------------- fakes and stubs ----

type c35bPicker struct {
	c   *c35bChild
	seq int
}

func (p *c35bPicker) Pick(balancer.PickInfo) (balancer.PickResult, error) {
	p.c.w.pickLog = append(p.c.w.pickLog, p)
	return balancer.PickResult{}, nil
}

type c35bChild struct {
	w        *c35bWorld
	ep       string
	gen      int
	cc       balancer.ClientConn
	seq      int
	state    connectivity.State
	reported bool
	uccs     int
	closes   int
	exits    int
}

func (c *c35bChild) report(s connectivity.State) {
	c.seq++
	c.state, c.reported = s, true
	c.w.ref.report(c.ep, c.gen, c.seq, s)
	c.cc.UpdateState(balancer.State{ConnectivityState: s, Picker: &c35bPicker{c: c, seq: c.seq}})
}

// Like pick_first, the stub reports CONNECTING synchronously from its first
// resolver update, TRANSIENT_FAILURE from a resolver error unless READY, and
// CONNECTING from ExitIdle when IDLE. Everything else is explorer-driven.
func (c *c35bChild) UpdateClientConnState(balancer.ClientConnState) error {
	c.uccs++
	if c.uccs == 1 {
		c.report(connectivity.Connecting)
	}
	return nil
}
func (c *c35bChild) ResolverError(error) {
	if !(c.reported && c.state == connectivity.Ready) {
		c.report(connectivity.TransientFailure)
	}
}
func (c *c35bChild) UpdateSubConnState(balancer.SubConn, balancer.SubConnState) {}
func (c *c35bChild) Close()                                                     { c.closes++ }
func (c *c35bChild) ExitIdle() {
	c.exits++
	if c.reported && c.state == connectivity.Idle {
		c.report(connectivity.Connecting)
	}
}

type c35bCC struct {
	balancer.ClientConn
	w *c35bWorld
}

func (cc *c35bCC) UpdateState(s balancer.State) {
	w := cc.w
	w.pushes++
	w.last = &s
	w.checkPush(s)
}
func (cc *c35bCC) ResolveNow(resolver.ResolveNowOptions) {}
func (cc *c35bCC) Target() string                        { return "c35b:///x" }

// -------------------------------------------------------------- the world ----

type c35bWorld struct {
	es       *endpointSharding
	cc       *c35bCC
	ref      *c35bRef
	children map[string]*c35bChild // most recent child per endpoint
	builds   map[string]int
	last     *balancer.State
	pushes   int
	pickLog  []*c35bPicker
	ev       string

	// randIntN seam
	evIdx, callIdx int
	lastEvent      bool
	script         []int
	arities        []int

	picks   int64
	fails   []seqx.Fail
	seen    map[string]bool
	obs     string
	maxMult int
}

var c35bCur *c35bWorld // the world the seam serves (runs are strictly sequential)

func c35bSeam(n int) int {
	w := c35bCur
	if w == nil || n <= 0 {
		return 0
	}
	if !w.lastEvent {
		v := (w.evIdx + w.callIdx) % n
		w.callIdx++
		return v
	}
	i := len(w.arities)
	w.arities = append(w.arities, n)
	if i < len(w.script) {
		return w.script[i] % n
	}
	return 0
}

func (w *c35bWorld) fail(class, format string, a ...any) {
	if w.seen[class] {
		return
	}
	w.seen[class] = true
	w.fails = append(w.fails, seqx.Fail{Prop: "C35", Key: class, Desc: fmt.Sprintf(format, a...)})
}

// checkPush is called for every state the balancer pushes to the channel:
// aggregate state by the precedence rule, then k = mult*n picks on the new
// picker: only children in the aggregate state, each with its latest picker,
// and in every window of consecutive picks each of them ⌊k/n⌋ or ⌈k/n⌉ times.
func (w *c35bWorld) checkPush(s balancer.State) {
	ref := w.ref
	for _, e := range c35bEps {
		if _, ok := ref.state[e]; ref.alive[e] && !ok {
			w.fail("precondition-child-without-state", "%s: the child for %s exists but has never received a resolver update / reported a state", w.ev, e)
		}
	}
	want := ref.aggregate()
	if s.ConnectivityState != want {
		w.fail("aggregate-state", "%s: balancer reported %v, the precedence rule on children %s gives %v", w.ev, s.ConnectivityState, ref.describe(), want)
	}
	el := ref.eligible()
	n := len(el)
	if s.Picker == nil {
		w.fail("nil-picker", "%s: nil picker pushed", w.ev)
		return
	}
	if n == 0 {
		w.pickLog = nil
		for i := 0; i < 3; i++ {
			_, err := w.safePick(s.Picker)
			w.picks++
			if err == nil || len(w.pickLog) > 0 {
				w.fail("pick-without-children", "%s: there are no children but Pick succeeded / delegated to a child picker", w.ev)
			}
		}
		w.obs = "agg=" + c35bSt(want) + " n=0"
		return
	}
	in := map[string]bool{}
	for _, e := range el {
		in[e] = true
	}
	k := w.maxMult * n
	w.pickLog = nil
	for i := 0; i < k; i++ {
		before := len(w.pickLog)
		_, err := w.safePick(s.Picker)
		w.picks++
		if err != nil || len(w.pickLog) != before+1 {
			w.fail("pick-not-delegated", "%s: pick %d on the picker for children %s returned err=%v and invoked %d child pickers", w.ev, i, ref.describe(), err, len(w.pickLog)-before)
			return
		}
		p := w.pickLog[before]
		switch {
		case !in[p.c.ep] || p.c.gen != ref.gen[p.c.ep]:
			w.fail("pick-delegated-outside-aggregate-state", "%s: aggregate state %v, children %s, but pick %d was delegated to the child of %s (generation %d, its state %v)", w.ev, want, ref.describe(), i, p.c.ep, p.c.gen, p.c.state)
		case p.seq != ref.seq[p.c.ep]:
			w.fail("pick-delegated-to-stale-picker", "%s: pick %d was delegated to picker #%d of child %s whose latest picker is #%d", w.ev, i, p.seq, p.c.ep, ref.seq[p.c.ep])
		}
	}
	log := w.pickLog
	for a := 0; a < len(log); a++ {
		cnt := map[string]int{}
		for b := a; b < len(log); b++ {
			cnt[log[b].c.ep]++
			kk := b - a + 1
			lo, hi := kk/n, (kk+n-1)/n
			for _, e := range el {
				if c := cnt[e]; c < lo || c > hi {
					var seq []string
					for _, p := range log {
						seq = append(seq, p.c.ep)
					}
					w.fail("round-robin-unfair", "%s: %d eligible children %v; pick sequence %v: in the window of %d picks starting at pick %d child %s was used %d times, allowed %d..%d", w.ev, n, el, seq, kk, a, e, c, lo, hi)
					a, b = len(log), len(log)
					break
				}
			}
		}
	}
	w.obs = fmt.Sprintf("agg=%s n=%d of %d", c35bSt(want), n, len(ref.state))
}

// safePick never lets a panic escape: checkPush runs under the balancer's mutex.
func (w *c35bWorld) safePick(p balancer.Picker) (res balancer.PickResult, err error) {
	defer func() {
		if x := recover(); x != nil {
			w.fail("pick-panic", "%s: Pick panicked: %v (children %s)", w.ev, x, w.ref.describe())
			err = fmt.Errorf("panic: %v", x)
		}
	}()
	return p.Pick(balancer.PickInfo{})
}

// endOfEvent: what the channel holds now must be the aggregate of the
// children as they are now.
func (w *c35bWorld) endOfEvent() {
	if w.last == nil {
		if len(w.ref.state) > 0 {
			w.fail("no-state-reported", "after %s nothing was ever reported to the channel although children %s exist", w.ev, w.ref.describe())
		}
		return
	}
	if want := w.ref.aggregate(); w.last.ConnectivityState != want {
		w.fail("aggregate-state-stale", "after %s the channel holds state %v, the precedence rule on children %s gives %v", w.ev, w.last.ConnectivityState, w.ref.describe(), want)
	}
	// and its picker must hold exactly the eligible children's latest pickers
	p, ok := w.last.Picker.(*pickerWithChildStates)
	if !ok {
		w.fail("picker-type", "after %s the channel holds a %T", w.ev, w.last.Picker)
		return
	}
	var got []string
	for _, cp := range p.pickers {
		if tp, ok := cp.(*c35bPicker); ok {
			got = append(got, fmt.Sprintf("%s.%d#%d", tp.c.ep, tp.c.gen, tp.seq))
		}
	}
	sort.Strings(got)
	var exp []string
	for _, e := range w.ref.eligible() {
		exp = append(exp, fmt.Sprintf("%s.%d#%d", e, w.ref.gen[e], w.ref.seq[e]))
	}
	if strings.Join(got, ",") != strings.Join(exp, ",") {
		w.fail("picker-stale", "after %s the channel's picker delegates to %v, the children in the aggregate state (latest pickers) are %v", w.ev, got, exp)
	}
}

func (w *c35bWorld) key() string {
	var sb strings.Builder
	ref := w.ref
	for _, e := range c35bEps {
		fmt.Fprintf(&sb, "%s:", e)
		switch {
		case ref.alive[e]:
			if s, ok := ref.state[e]; ok {
				sb.WriteString(c35bSt(s))
			} else {
				sb.WriteString("?")
			}
		case w.children[e] != nil:
			sb.WriteString("x") // removed; its closed child can still talk
		default:
			sb.WriteString("-")
		}
		if c := w.children[e]; c != nil {
			fmt.Fprintf(&sb, "/closes=%d", c.closes)
		}
		sb.WriteString(" ")
	}
	// real private state
	func() {
		w.es.mu.Lock()
		defer w.es.mu.Unlock()
		var real []string
		for ep, st := range w.es.endpoints.All() {
			tag := "nopicker"
			if tp, ok := st.state.Picker.(*c35bPicker); ok {
				tag = "stale"
				if tp.c == w.children[tp.c.ep] && tp.seq == tp.c.seq {
					tag = "latest"
				}
			}
			addr := "<no address>"
			if len(ep.Addresses) > 0 {
				addr = ep.Addresses[0].Addr
			}
			real = append(real, fmt.Sprintf("%s=%s/%s/closed=%v", addr, c35bSt(st.state.ConnectivityState), tag, st.closed))
		}
		sort.Strings(real)
		fmt.Fprintf(&sb, "| real[%s] inhibit=%v", strings.Join(real, " "), w.es.inhibitChildUpdates)
	}()
	if w.last == nil {
		sb.WriteString(" | chan:-")
	} else {
		fmt.Fprintf(&sb, " | chan:%s", c35bSt(w.last.ConnectivityState))
		if p, ok := w.last.Picker.(*pickerWithChildStates); ok {
			var d []string
			for _, cp := range p.pickers {
				if tp, ok := cp.(*c35bPicker); ok {
					tag := "stale"
					if tp.c == w.children[tp.c.ep] && tp.seq == tp.c.seq {
						tag = "latest"
					}
					d = append(d, tp.c.ep+"."+tag)
				} else {
					d = append(d, "err")
				}
			}
			sort.Strings(d)
			fmt.Fprintf(&sb, "→[%s] cs=%d", strings.Join(d, " "), len(p.childStates))
		}
	}
	return sb.String()
}

// ---------------------------------------------------------------- events ----

type c35bOp struct {
	name string
	do   func(w *c35bWorld) bool
}

func c35bOps() []c35bOp {
	var ops []c35bOp
	full := 1<<len(c35bEps) - 1
	for mask := 1; mask <= full+1; mask++ {
		set := map[string]bool{}
		var names []string
		var eps []resolver.Endpoint
		for i, e := range c35bEps {
			if mask&full&(1<<i) != 0 {
				set[e] = true
				names = append(names, e)
				eps = append(eps, resolver.Endpoint{Addresses: []resolver.Address{{Addr: e}}})
			}
		}
		ops = append(ops, c35bOp{"resolverUpdate{" + strings.Join(names, ",") + "}", func(w *c35bWorld) bool {
			w.ref.update(set)
			w.es.UpdateClientConnState(balancer.ClientConnState{ResolverState: resolver.State{Endpoints: eps}})
			return true
		}})
	}
	for _, e := range c35bEps {
		for _, s := range c35bStates {
			e, s := e, s
			ops = append(ops, c35bOp{fmt.Sprintf("child(%s).UpdateState(%s)", e, c35bSt(s)), func(w *c35bWorld) bool {
				c := w.children[e]
				if c == nil {
					return false
				}
				c.report(s)
				return true
			}})
		}
	}
	ops = append(ops, c35bOp{"resolverError", func(w *c35bWorld) bool {
		w.es.ResolverError(fmt.Errorf("c35b resolver error"))
		return true
	}})
	ops = append(ops, c35bOp{"exitIdle", func(w *c35bWorld) bool {
		w.es.ExitIdle()
		return true
	}})
	return ops
}

type c35bOnce struct {
	out     seqx.Outcome
	arities []int
	picks   int64
}

func c35bRunOnce(t *testing.T, ops []c35bOp, disableAuto bool, mult int, hist []int, script []int) (res c35bOnce) {
	synctest.Test(t, func(*testing.T) {
		w := &c35bWorld{ref: c35bNewRef(), children: map[string]*c35bChild{}, builds: map[string]int{}, seen: map[string]bool{}, script: script, maxMult: mult}
		w.cc = &c35bCC{w: w}
		c35bCur = w
		build := func(cc balancer.ClientConn, _ balancer.BuildOptions) balancer.Balancer {
			ep := "?"
			if es, ok := cc.(*endpointState); ok && len(es.endpoint.Addresses) > 0 {
				ep = es.endpoint.Addresses[0].Addr
			}
			w.builds[ep]++
			c := &c35bChild{w: w, ep: ep, gen: w.builds[ep], cc: cc}
			w.children[ep] = c
			return c
		}
		w.es = NewBalancer(w.cc, balancer.BuildOptions{}, build, Options{DisableAutoReconnect: disableAuto}).(*endpointSharding)
		defer func() {
			if p := recover(); p != nil {
				w.fail("panic", "panic: %v", p)
				res.out = seqx.Outcome{Key: "panic " + fmt.Sprint(hist), Terminal: true, Fails: w.fails, Obs: "panic"}
			}
			func() {
				defer func() { recover() }()
				w.es.Close()
			}()
			synctest.Wait()
			res.arities, res.picks = w.arities, w.picks
			c35bCur = nil
		}()
		w.ev = "start"
		for i, h := range hist {
			w.evIdx, w.callIdx, w.lastEvent = i, 0, i == len(hist)-1
			w.ev = ops[h].name
			if !ops[h].do(w) {
				if i == len(hist)-1 {
					res.out = seqx.Outcome{Skip: true}
					return
				}
				w.fail("harness-nondeterminism", "event %s inapplicable in the middle of a history", ops[h].name)
			}
			synctest.Wait() // automatic ExitIdle runs on a goroutine
			w.endOfEvent()
		}
		res.out = seqx.Outcome{Key: w.key(), Fails: w.fails, Obs: w.obs}
	})
	return res
}

// c35bRun runs hist once per value vector of the randIntN seam during the
// last event (all earlier events use fixed values).
func c35bRun(t *testing.T, r *vk.Run, ops []c35bOp, disableAuto bool, mult int, hist []int) seqx.Outcome {
	first := c35bRunOnce(t, ops, disableAuto, mult, hist, nil)
	out := first.out
	picks, vectors := first.picks, int64(1)
	if !out.Skip && len(first.arities) > 0 {
		script := make([]int, len(first.arities))
		for {
			// next vector (odometer)
			i := 0
			for ; i < len(script); i++ {
				script[i]++
				if script[i] < first.arities[i] {
					break
				}
				script[i] = 0
			}
			if i == len(script) {
				break
			}
			o := c35bRunOnce(t, ops, disableAuto, mult, hist, append([]int(nil), script...))
			vectors++
			picks += o.picks
			have := map[string]bool{}
			for _, f := range out.Fails {
				have[f.Key] = true
			}
			for _, f := range o.out.Fails {
				if !have[f.Key] {
					f.Desc += fmt.Sprintf(" [randIntN values in the last event: %v of %v]", script, first.arities)
					out.Fails = append(out.Fails, f)
				}
			}
			if o.out.Key != out.Key || fmt.Sprint(o.arities) != fmt.Sprint(first.arities) {
				if !have["state-depends-on-random-start"] {
					out.Fails = append(out.Fails, seqx.Fail{Prop: "C35", Key: "state-depends-on-random-start", Desc: fmt.Sprintf("randIntN values %v lead to state %q (seam calls %v), values 0 to %q (seam calls %v)", script, o.out.Key, o.arities, out.Key, first.arities)})
				}
			}
		}
	}
	r.AddInt("C35", "endpointsharding_picks_checked", picks)
	r.AddInt("C35", "endpointsharding_seam_vectors_run", vectors)
	return out
}

func TestVerif_C35_EndpointSharding(t *testing.T) {
	const P = "C35"
	r := vk.Start(t, "c35b_endpointsharding", "model_checking", P)
	defer r.Finish()
	r.Rule(P, "leg b (balancer/endpointsharding): breadth-first over ALL event histories up to the depth bound on a fresh real endpointsharding balancer (stub child policies, fake recording channel, synctest bubble run to quiescence after every event). Alphabet: resolver update with every subset of 3 (quick) / 4 (thorough) endpoints (incl. the empty list), child(e).UpdateState(CONNECTING|READY|TRANSIENT_FAILURE|IDLE) with a fresh tagged picker for the most recent child of each endpoint (also after that child was removed), resolver error, ExitIdle. Two scenarios: DisableAutoReconnect (IDLE children stay IDLE) and automatic reconnect (an IDLE child is told to ExitIdle on a goroutine and reports CONNECTING). Every history is re-run for EVERY vector of randIntN values requested during its last event (endpoint rotation and the start index of every picker built). At every state the balancer pushes to the channel: state = precedence rule on the reference multiset; then k = 3n picks on the new picker (n = children in the aggregate state): every pick is delegated to the latest picker of such a child and in EVERY window of consecutive picks each such child is used ⌊k/n⌋ or ⌈k/n⌉ times. A state = reference children + private fields (endpoints map, per-child state/closed, inhibit flag, picker contents); distinct states are the non-trivial cases")
	r.Assume(P, "leg b: stub children behave like pick_first in that they report a state synchronously from their first resolver update (a child that never reported has no state in the sense of the statement); events are delivered one at a time")

	old := randIntN
	randIntN = c35bSeam
	defer func() { randIntN = old }()
	c35bEps = c35bAllEps[:r.Pick(3, 4)]
	r.Set(P, "endpointsharding_endpoints", len(c35bEps))
	ops := c35bOps()
	names := make([]string, len(ops))
	for i, o := range ops {
		names[i] = o.name
	}
	const mult = 3
	for _, sc := range []struct {
		name        string
		disableAuto bool
	}{{"es-manual-reconnect", true}, {"es-auto-reconnect", false}} {
		sc := sc
		seqx.BFS(r, []string{P}, seqx.Config{
			Name: sc.name, Ops: names, MaxDepth: r.Pick(5, 8), Parallel: 1,
			Congruence: r.Thorough(), CongruenceMax: 100, MinStates: 50,
			Run: func(hist []int) seqx.Outcome { return c35bRun(t, r, ops, sc.disableAuto, mult, hist) },
		})
	}
}
