//go:build verif

package h_c58

import (
	"bytes"
	"context"
	"crypto/tls"
	"crypto/x509"
	"errors"
	"fmt"
	"io"
	"net"
	"os"
	"path/filepath"
	"sort"
	"strings"
	"sync"
	"sync/atomic"
	"testing"
	"time"

	"golang.org/x/net/http2"
	"golang.org/x/net/http2/hpack"
	"google.golang.org/grpc"
	"google.golang.org/grpc/codes"
	"google.golang.org/grpc/credentials"
	"google.golang.org/grpc/credentials/insecure"
	"google.golang.org/grpc/credentials/local"
	"google.golang.org/grpc/internal/verif/vk"
	"google.golang.org/grpc/internal/verif/wire"
	"google.golang.org/grpc/mem"
	"google.golang.org/grpc/metadata"
	"google.golang.org/grpc/status"
)

// ---- C58: security-requiring per-RPC credentials never go over weak connections ----
//
// One case = one fresh grpc.Server + one fresh grpc.ClientConn over an
// in-memory connection (no synctest bubble: real TLS handshakes; there is no
// timing oracle). The client end of the connection records every byte the
// client writes (the "wire"); the server handler records the metadata it got.

// ---- raw codec ----

type c58Codec struct{}

func (c58Codec) Name() string { return "c58-raw" }
func (c58Codec) Marshal(v any) (mem.BufferSlice, error) {
	switch b := v.(type) {
	case []byte:
		return mem.BufferSlice{mem.SliceBuffer(b)}, nil
	case *[]byte:
		return mem.BufferSlice{mem.SliceBuffer(*b)}, nil
	}
	return nil, fmt.Errorf("c58Codec: unsupported %T", v)
}
func (c58Codec) Unmarshal(data mem.BufferSlice, v any) error {
	p, ok := v.(*[]byte)
	if !ok {
		return fmt.Errorf("c58Codec: unsupported %T", v)
	}
	*p = data.Materialize()
	return nil
}

// ---- in-memory connections with scripted addresses and a write recorder ----

type c58Addr struct{ network, s string }

func (a c58Addr) Network() string { return a.network }
func (a c58Addr) String() string  { return a.s }

type c58Tee struct {
	mu sync.Mutex
	b  []byte
}

func (t *c58Tee) add(p []byte) { t.mu.Lock(); t.b = append(t.b, p...); t.mu.Unlock() }
func (t *c58Tee) bytes() []byte {
	t.mu.Lock()
	defer t.mu.Unlock()
	return append([]byte(nil), t.b...)
}

type c58Conn struct {
	net.Conn
	la, ra net.Addr
	tee    *c58Tee // client end only
}

func (c *c58Conn) LocalAddr() net.Addr  { return c.la }
func (c *c58Conn) RemoteAddr() net.Addr { return c.ra }
func (c *c58Conn) Write(p []byte) (int, error) {
	if c.tee != nil {
		c.tee.add(p)
	}
	return c.Conn.Write(p)
}

type c58Listener struct {
	ch   chan net.Conn
	done chan struct{}
	once sync.Once
}

func c58NewListener() *c58Listener {
	return &c58Listener{ch: make(chan net.Conn, 16), done: make(chan struct{})}
}
func (l *c58Listener) Accept() (net.Conn, error) {
	select {
	case c := <-l.ch:
		return c, nil
	case <-l.done:
		return nil, errors.New("c58 listener closed")
	}
}
func (l *c58Listener) Close() error   { l.once.Do(func() { close(l.done) }); return nil }
func (l *c58Listener) Addr() net.Addr { return c58Addr{"tcp", "127.0.0.1:443"} }

// ---- custom transport credentials ----

// c58LevelInfo reports a CommonAuthInfo with the given level.
type c58LevelInfo struct{ credentials.CommonAuthInfo }

func (c58LevelInfo) AuthType() string { return "c58-custom" }

// c58BareInfo is an AuthInfo WITHOUT CommonAuthInfo (a pre-SecurityLevel credential).
type c58BareInfo struct{}

func (c58BareInfo) AuthType() string { return "c58-legacy" }

type c58Custom struct {
	level credentials.SecurityLevel
	bare  bool
}

func (c c58Custom) info() credentials.AuthInfo {
	if c.bare {
		return c58BareInfo{}
	}
	return c58LevelInfo{credentials.CommonAuthInfo{SecurityLevel: c.level}}
}
func (c c58Custom) ClientHandshake(_ context.Context, _ string, conn net.Conn) (net.Conn, credentials.AuthInfo, error) {
	return conn, c.info(), nil
}
func (c c58Custom) ServerHandshake(conn net.Conn) (net.Conn, credentials.AuthInfo, error) {
	return conn, c.info(), nil
}
func (c c58Custom) Info() credentials.ProtocolInfo {
	return credentials.ProtocolInfo{SecurityProtocol: "c58-custom"}
}
func (c c58Custom) Clone() credentials.TransportCredentials { return c }
func (c c58Custom) OverrideServerName(string) error         { return nil }

// ---- per-RPC credentials and bundle ----

type c58PerRPC struct {
	md      map[string]string
	require bool
	calls   *int32
}

func (p c58PerRPC) GetRequestMetadata(context.Context, ...string) (map[string]string, error) {
	atomic.AddInt32(p.calls, 1)
	o := map[string]string{}
	for k, v := range p.md {
		o[k] = v
	}
	return o, nil
}
func (p c58PerRPC) RequireTransportSecurity() bool { return p.require }

type c58Bundle struct {
	tc credentials.TransportCredentials
	pr credentials.PerRPCCredentials
}

func (b c58Bundle) TransportCredentials() credentials.TransportCredentials { return b.tc }
func (b c58Bundle) PerRPCCredentials() credentials.PerRPCCredentials       { return b.pr }
func (b c58Bundle) NewWithMode(string) (credentials.Bundle, error)         { return b, nil }

// ---- configuration space ----

// c58Transport describes one kind of connection. Declared is the security
// level the statement's rule looks at: the level the credentials negotiated
// and reported (nil: the credentials do not report a level at all).
type c58Transport struct {
	Name     string
	Declared *credentials.SecurityLevel
	network  string // what the in-memory connection's addresses look like
	cliAddr  string
	srvAddr  string
	mk       func(e *c58Env) (cli, srv credentials.TransportCredentials)
}

func c58Lvl(l credentials.SecurityLevel) *credentials.SecurityLevel { return &l }

func c58Transports() []c58Transport {
	tcp := func(t c58Transport) c58Transport {
		t.network, t.cliAddr, t.srvAddr = "tcp", "127.0.0.1:50001", "127.0.0.1:443"
		return t
	}
	ts := []c58Transport{
		tcp(c58Transport{Name: "insecure", Declared: c58Lvl(credentials.NoSecurity), mk: func(*c58Env) (credentials.TransportCredentials, credentials.TransportCredentials) {
			return insecure.NewCredentials(), insecure.NewCredentials()
		}}),
		tcp(c58Transport{Name: "local/tcp", Declared: c58Lvl(credentials.NoSecurity), mk: func(*c58Env) (credentials.TransportCredentials, credentials.TransportCredentials) {
			return local.NewCredentials(), local.NewCredentials()
		}}),
		{Name: "local/uds", Declared: c58Lvl(credentials.PrivacyAndIntegrity), network: "unix", cliAddr: "@c58-client", srvAddr: "/tmp/c58.sock", mk: func(*c58Env) (credentials.TransportCredentials, credentials.TransportCredentials) {
			return local.NewCredentials(), local.NewCredentials()
		}},
		tcp(c58Transport{Name: "tls", Declared: c58Lvl(credentials.PrivacyAndIntegrity), mk: func(e *c58Env) (credentials.TransportCredentials, credentials.TransportCredentials) {
			return credentials.NewTLS(e.cliTLS.Clone()), credentials.NewTLS(e.srvTLS.Clone())
		}}),
		tcp(c58Transport{Name: "custom/InvalidSecurityLevel", Declared: nil, mk: func(*c58Env) (credentials.TransportCredentials, credentials.TransportCredentials) {
			c := c58Custom{level: credentials.InvalidSecurityLevel}
			return c, c
		}}),
	}
	for _, l := range []credentials.SecurityLevel{credentials.NoSecurity, credentials.IntegrityOnly, credentials.PrivacyAndIntegrity} {
		l := l
		ts = append(ts, tcp(c58Transport{Name: "custom/" + l.String(), Declared: c58Lvl(l), mk: func(*c58Env) (credentials.TransportCredentials, credentials.TransportCredentials) {
			c := c58Custom{level: l}
			return c, c
		}}))
	}
	ts = append(ts, tcp(c58Transport{Name: "custom/no-CommonAuthInfo", Declared: nil, mk: func(*c58Env) (credentials.TransportCredentials, credentials.TransportCredentials) {
		c := c58Custom{bare: true}
		return c, c
	}}))
	return ts
}

const (
	c58SrcDial   = "dial"   // grpc.WithPerRPCCredentials (several may be given; their order is the order of the dial options)
	c58SrcBundle = "bundle" // the PerRPCCredentials of a credentials.Bundle given to grpc.WithCredentialsBundle (at most one)
	c58SrcCall   = "call"   // grpc.PerRPCCredentials call option (at most one takes effect)
)

// c58Cred is one attached per-RPC credential.
type c58Cred struct {
	Source  string `json:"source"`
	Require bool   `json:"requires_transport_security"`
}

func (c c58Cred) String() string {
	if c.Require {
		return c.Source + "(secure)"
	}
	return c.Source + "(plain)"
}

// c58Case: the ORDERED list of attached credentials; dial-level credentials
// are installed in list order.
type c58Case struct {
	Transport string    `json:"transport"`
	Creds     []c58Cred `json:"credentials"`
	Streaming bool      `json:"streaming"`
}

func (c c58Case) String() string {
	rpc := "unary"
	if c.Streaming {
		rpc = "streaming"
	}
	cs := make([]string, len(c.Creds))
	for i, cr := range c.Creds {
		cs[i] = cr.String()
	}
	return fmt.Sprintf("%s|%s|%s", c.Transport, strings.Join(cs, ","), rpc)
}

func (c c58Case) requires() bool {
	for _, cr := range c.Creds {
		if cr.Require {
			return true
		}
	}
	return false
}

// c58CredLists enumerates every ordered list of 1..3 credentials over
// {dial, bundle, call} x {plain, secure} with at most one bundle and at most
// one call credential. Only the relative order of the dial-level credentials
// is observable by the channel (bundle and call credentials are attached
// through their own option), so lists that differ only in where the bundle /
// call entry stands are the same configuration and are kept once (canonical
// form: dial entries in their order, then bundle, then call).
func c58CredLists() [][]c58Cred {
	var out [][]c58Cred
	seen := map[string]bool{}
	syms := []c58Cred{{c58SrcDial, false}, {c58SrcDial, true}, {c58SrcBundle, false}, {c58SrcBundle, true}, {c58SrcCall, false}, {c58SrcCall, true}}
	var rec func(cur []c58Cred)
	rec = func(cur []c58Cred) {
		if len(cur) >= 1 {
			nb, nc := 0, 0
			var canon []c58Cred
			for _, c := range cur {
				if c.Source == c58SrcDial {
					canon = append(canon, c)
				}
			}
			for _, c := range cur {
				if c.Source == c58SrcBundle {
					nb++
					canon = append(canon, c)
				}
			}
			for _, c := range cur {
				if c.Source == c58SrcCall {
					nc++
					canon = append(canon, c)
				}
			}
			if nb <= 1 && nc <= 1 {
				k := fmt.Sprint(canon)
				if !seen[k] {
					seen[k] = true
					out = append(out, canon)
				}
			}
		}
		if len(cur) == 3 {
			return
		}
		for _, sy := range syms {
			rec(append(append([]c58Cred(nil), cur...), sy))
		}
	}
	rec(nil)
	return out
}

func c58Cases() []c58Case {
	var cs []c58Case
	lists := c58CredLists()
	for _, t := range c58Transports() {
		for _, l := range lists {
			for _, st := range []bool{false, true} {
				cs = append(cs, c58Case{Transport: t.Name, Creds: l, Streaming: st})
			}
		}
	}
	return cs
}

// c58CredMD is the metadata supplied by the i-th credential of a case: every
// credential has its own two keys (one text, one binary) so that each can be
// followed separately; the first credential uses the standard "authorization".
func c58CredMD(i int, c c58Cred) map[string]string {
	id := fmt.Sprintf("%s%d", c.Source[:1], i)
	auth := "x-c58-" + id + "-auth"
	if i == 0 {
		auth = "authorization"
	}
	return map[string]string{
		auth:                   fmt.Sprintf("Bearer c58-secret~Token.%d/%s", 100+i, c.Source),
		"x-c58-" + id + "-bin": fmt.Sprintf("\x00\x01c58-secret-%d\xfe\xff", i),
	}
}

// ---- environment ----

type c58Env struct {
	cliTLS, srvTLS *tls.Config
}

func c58LoadEnv() (*c58Env, error) {
	repo := os.Getenv("VERIF_REPO")
	if repo == "" {
		repo = "/repo"
	}
	dir := filepath.Join(repo, "testdata", "x509")
	rd := func(n string) ([]byte, error) { return os.ReadFile(filepath.Join(dir, n)) }
	cert, err := rd("server1_cert.pem")
	if err != nil {
		return nil, err
	}
	key, err := rd("server1_key.pem")
	if err != nil {
		return nil, err
	}
	ca, err := rd("server_ca_cert.pem")
	if err != nil {
		return nil, err
	}
	kp, err := tls.X509KeyPair(cert, key)
	if err != nil {
		return nil, err
	}
	pool := x509.NewCertPool()
	if !pool.AppendCertsFromPEM(ca) {
		return nil, errors.New("cannot parse server_ca_cert.pem")
	}
	// certificate validity is checked at a fixed instant, not at wall-clock time
	fixed := func() time.Time { return time.Date(2026, 1, 1, 0, 0, 0, 0, time.UTC) }
	return &c58Env{
		cliTLS: &tls.Config{RootCAs: pool, ServerName: "x.test.example.com", Time: fixed},
		srvTLS: &tls.Config{Certificates: []tls.Certificate{kp}, Time: fixed},
	}, nil
}

// ---- one case ----

type c58Obs struct {
	NewClientErr string
	RPCErr       string
	RPCCode      codes.Code
	Reply        string
	HandlerCalls int
	HandlerMD    []map[string][]string // credential-related metadata per handler invocation
	WirePlain    bool                  // the client's byte stream is plaintext HTTP/2 (decodable)
	WireFields   [][2]string           // credential-related header fields decoded from the client's byte stream
	WireBytes    int
	MetaCalls    []int32 // GetRequestMetadata invocations per attached credential
	Engine       string
}

func c58IsCredKey(k string) bool {
	return k == "authorization" || strings.HasPrefix(k, "x-c58-")
}

// c58DecodeWire decodes the bytes written by the client as HTTP/2 and returns
// the credential-related header fields of every header block.
func c58DecodeWire(b []byte) (plain bool, fields [][2]string) {
	if !bytes.HasPrefix(b, []byte(http2.ClientPreface)) {
		return false, nil
	}
	dec := hpack.NewDecoder(4096, func(f hpack.HeaderField) {
		if c58IsCredKey(f.Name) {
			fields = append(fields, [2]string{f.Name, f.Value})
		}
	})
	fr := http2.NewFramer(io.Discard, bytes.NewReader(b[len(http2.ClientPreface):]))
	fr.SetMaxReadFrameSize(1 << 24)
	for {
		f, err := fr.ReadFrame()
		if err != nil {
			return true, fields
		}
		switch f := f.(type) {
		case *http2.HeadersFrame:
			dec.Write(f.HeaderBlockFragment())
		case *http2.ContinuationFrame:
			dec.Write(f.HeaderBlockFragment())
		}
	}
}

func c58RunCase(env *c58Env, tr c58Transport, c c58Case) (o c58Obs) {
	cliCreds, srvCreds := tr.mk(env)
	var hmu sync.Mutex
	handler := func(_ any, ss grpc.ServerStream) error {
		md, _ := metadata.FromIncomingContext(ss.Context())
		got := map[string][]string{}
		for k, v := range md {
			if c58IsCredKey(k) {
				got[k] = append([]string(nil), v...)
			}
		}
		hmu.Lock()
		o.HandlerCalls++
		o.HandlerMD = append(o.HandlerMD, got)
		hmu.Unlock()
		var in []byte
		if err := ss.RecvMsg(&in); err != nil {
			return err
		}
		return ss.SendMsg([]byte("pong:" + string(in)))
	}
	srv := grpc.NewServer(grpc.Creds(srvCreds), grpc.UnknownServiceHandler(handler), grpc.ForceServerCodecV2(c58Codec{}), grpc.WaitForHandlers(true))
	lis := c58NewListener()
	served := make(chan struct{})
	go func() { srv.Serve(lis); close(served) }()

	tee := &c58Tee{}
	var dials int32
	dialer := func(ctx context.Context, _ string) (net.Conn, error) {
		if atomic.AddInt32(&dials, 1) > 1 {
			// one connection per case: later attempts (backoff retries) are refused
			return nil, errors.New("c58: only one connection per case")
		}
		cl, sv := wire.Pipe()
		ca, sa := c58Addr{tr.network, tr.cliAddr}, c58Addr{tr.network, tr.srvAddr}
		select {
		case lis.ch <- &c58Conn{Conn: sv, la: sa, ra: ca}:
		case <-lis.done:
			return nil, errors.New("c58: listener closed")
		}
		return &c58Conn{Conn: cl, la: ca, ra: sa, tee: tee}, nil
	}

	calls := make([]int32, len(c.Creds))
	dopts := []grpc.DialOption{grpc.WithContextDialer(dialer)}
	var copts []grpc.CallOption
	copts = append(copts, grpc.ForceCodecV2(c58Codec{}))
	var bundle credentials.Bundle
	for i, cr := range c.Creds {
		pr := c58PerRPC{md: c58CredMD(i, cr), require: cr.Require, calls: &calls[i]}
		switch cr.Source {
		case c58SrcDial:
			dopts = append(dopts, grpc.WithPerRPCCredentials(pr))
		case c58SrcBundle:
			bundle = c58Bundle{tc: cliCreds, pr: pr}
		case c58SrcCall:
			copts = append(copts, grpc.PerRPCCredentials(pr))
		}
	}
	if bundle != nil {
		dopts = append(dopts, grpc.WithCredentialsBundle(bundle))
	} else {
		dopts = append(dopts, grpc.WithTransportCredentials(cliCreds))
	}
	finish := func() {
		srv.Stop()
		lis.Close()
		<-served
		for i := range calls {
			o.MetaCalls = append(o.MetaCalls, atomic.LoadInt32(&calls[i]))
		}
		b := tee.bytes()
		o.WireBytes = len(b)
		o.WirePlain, o.WireFields = c58DecodeWire(b)
	}
	cc, err := grpc.NewClient("passthrough:///x.test.example.com:443", dopts...)
	if err != nil {
		o.NewClientErr = err.Error()
		finish()
		return
	}
	// safety net only: a case that hangs is an engine error, never a verdict
	ctx, cancel := context.WithTimeout(context.Background(), 60*time.Second)
	defer cancel()
	var reply []byte
	if !c.Streaming {
		err = cc.Invoke(ctx, "/c58.S/Unary", []byte("ping"), &reply, copts...)
	} else {
		var cs grpc.ClientStream
		cs, err = cc.NewStream(ctx, &grpc.StreamDesc{ClientStreams: true, ServerStreams: true}, "/c58.S/Stream", copts...)
		if err == nil {
			err = cs.SendMsg([]byte("ping"))
			if err == nil {
				err = cs.CloseSend()
			}
			if err == nil || err == io.EOF {
				err = cs.RecvMsg(&reply)
			}
			if err == nil {
				var extra []byte
				if e2 := cs.RecvMsg(&extra); e2 != io.EOF {
					err = fmt.Errorf("second RecvMsg: %v, want EOF", e2)
				}
			}
		}
	}
	if err != nil {
		o.RPCErr = err.Error()
		o.RPCCode = status.Code(err)
		if ctx.Err() != nil {
			o.Engine = "case did not finish within the safety timeout: " + err.Error()
		}
	}
	o.Reply = string(reply)
	cc.Close()
	finish()
	return
}

// ---- oracle (from the statement) ----

type c58Verdict struct {
	MustBlock bool
	Class     string // outcome class
	Fails     [][2]string
}

func c58Judge(tr c58Transport, c c58Case, o c58Obs) (v c58Verdict) {
	fail := func(class, f string, a ...any) { v.Fails = append(v.Fails, [2]string{class, fmt.Sprintf(f, a...)}) }
	requiring := map[string]bool{} // keys of credentials that require transport security
	attached := map[string]string{}
	for i, cr := range c.Creds {
		for k, val := range c58CredMD(i, cr) {
			attached[k] = val
			if cr.Require {
				requiring[k] = true
			}
		}
	}
	// "a connection whose negotiated security level is below privacy-and-integrity"
	weak := tr.Declared != nil && *tr.Declared < credentials.PrivacyAndIntegrity
	v.MustBlock = weak && len(requiring) > 0

	failed := o.NewClientErr != "" || o.RPCErr != ""
	if v.MustBlock {
		// never sent: neither decoded from the wire nor seen by the handler
		for _, f := range o.WireFields {
			if requiring[f[0]] {
				fail("secure-credential-on-weak-connection", "credential header %q (its PerRPCCredentials require transport security) was written on a connection with security level %v", f[0], *tr.Declared)
			}
		}
		for _, md := range o.HandlerMD {
			for k := range md {
				if requiring[k] {
					fail("secure-credential-on-weak-connection", "the server handler received credential %q (its PerRPCCredentials require transport security) over a connection with security level %v", k, *tr.Declared)
				}
			}
		}
		if !o.WirePlain && o.WireBytes > 0 {
			fail("engine", "client bytes of a weak connection are not decodable HTTP/2")
		}
		if !failed {
			fail("rpc-not-failed-on-weak-connection", "the RPC succeeded although its security-requiring credentials cannot be sent over a connection with security level %v (reply %q)", *tr.Declared, o.Reply)
		}
		switch {
		case o.NewClientErr != "":
			v.Class = "blocked: NewClient error"
		case failed:
			v.Class = "blocked: RPC error " + o.RPCCode.String()
		default:
			v.Class = "NOT blocked"
		}
		return
	}
	// the requirement is satisfied (or nothing requires security): delivered unchanged
	v.Class = "delivered"
	if failed {
		v.Class = "NOT delivered"
		fail("credential-not-delivered", "the connection satisfies the credentials' requirement but the RPC failed: NewClient=%q rpc=%q", o.NewClientErr, o.RPCErr)
		return
	}
	if o.Reply != "pong:ping" {
		fail("credential-not-delivered", "unexpected reply %q", o.Reply)
	}
	if o.HandlerCalls != 1 {
		fail("credential-not-delivered", "the handler ran %d times, want 1", o.HandlerCalls)
		return
	}
	got := o.HandlerMD[0]
	var keys []string
	for k := range attached {
		keys = append(keys, k)
	}
	sort.Strings(keys)
	for _, k := range keys {
		if len(got[k]) != 1 || got[k][0] != attached[k] {
			fail("credential-changed", "credential %q: the handler received %q, the credentials supplied %q", k, got[k], attached[k])
		}
	}
	for k := range got {
		if _, ok := attached[k]; !ok {
			fail("credential-changed", "the handler received credential %q which no attached credential supplies", k)
		}
	}
	return
}

func TestVerif_C58_SecureCreds(t *testing.T) {
	const P = "C58"
	r := vk.Start(t, "c58_secure_creds", "exploration", P)
	defer r.Finish()
	env, err := c58LoadEnv()
	if err != nil {
		r.EngineError("loading test certificates: %v", err)
		return
	}
	trs := map[string]c58Transport{}
	var trNames []string
	for _, tr := range c58Transports() {
		trs[tr.Name] = tr
		trNames = append(trNames, tr.Name)
	}
	cases := c58Cases()
	r.Rule(P, fmt.Sprintf("every combination of transport credentials {%s} x every ORDERED list of 1-3 per-RPC credentials over source {grpc.WithPerRPCCredentials (several, in list order), credentials.Bundle (at most one), grpc.PerRPCCredentials call option (at most one)} x RequireTransportSecurity {false,true} (54 lists; lists differing only in where the bundle/call entry stands are one configuration) x {unary, streaming}: %d configurations, each on a fresh real grpc.Server + grpc.ClientConn over an in-memory connection whose addresses look like TCP loopback or a unix socket; the client's raw byte stream is decoded with an independent HTTP/2+HPACK decoder; non-trivial = configurations in which at least one attached credential requires transport security (the rule either must block or must let through)", strings.Join(trNames, ", "), len(cases)))

	if r.ReplayFile() != "" {
		var c c58Case
		if err := r.LoadReplay(&c); err != nil {
			r.EngineError("replay: %v", err)
			return
		}
		cases = []c58Case{c}
	}
	blocked, delivered := 0, 0
	for _, c := range cases {
		tr, ok := trs[c.Transport]
		if !ok {
			r.EngineError("unknown transport %q", c.Transport)
			continue
		}
		o := c58RunCase(env, tr, c)
		r.Eval(P, 1)
		if o.Engine != "" {
			r.EngineError("%v: %s", c, o.Engine)
			continue
		}
		v := c58Judge(tr, c, o)
		for _, f := range v.Fails {
			if f[0] == "engine" {
				r.EngineError("%v: %s", c, f[1])
				continue
			}
			r.Violation(P, f[0]+"|"+c.String(), f[1]+fmt.Sprintf("\n  case: %v\n  NewClient error: %q\n  RPC error: %q\n  credential headers decoded from the client's bytes: %q\n  handler metadata: %q", c, o.NewClientErr, o.RPCErr, o.WireFields, o.HandlerMD), c)
		}
		if c.requires() {
			r.Nontrivial(P, c.String())
		}
		lvl := "undeclared"
		if tr.Declared != nil {
			lvl = tr.Declared.String()
		}
		r.Outcome(P, fmt.Sprintf("level=%s requires=%v -> %s", lvl, c.requires(), v.Class))
		if v.MustBlock {
			blocked++
			if blocked%80 == 1 {
				r.Sample(P, map[string]any{"case": c.String(), "must_block": true, "outcome": v.Class, "rpc_error": o.RPCErr, "newclient_error": o.NewClientErr, "credential_headers_on_wire": len(o.WireFields), "GetRequestMetadata_calls": fmt.Sprint(o.MetaCalls)})
			}
		} else {
			delivered++
			if delivered%150 == 1 {
				r.Sample(P, map[string]any{"case": c.String(), "must_block": false, "outcome": v.Class, "handler_metadata": fmt.Sprintf("%q", o.HandlerMD), "wire_plaintext": o.WirePlain})
			}
		}
		if r.ReplayFile() != "" {
			fmt.Printf("replay %v\n  observation: %+v\n  verdict: %+v\n", c, o, v)
		}
	}
	mixed := 0
	for _, c := range cases {
		seenPlain := false
		for _, cr := range c.Creds {
			if cr.Source == c58SrcCall {
				continue
			}
			if !cr.Require {
				seenPlain = true
			} else if seenPlain {
				mixed++
				break
			}
		}
	}
	r.AddInt(P, "configurations_with_a_plain_connection_level_credential_ahead_of_a_secure_one", int64(mixed))
	r.AddInt(P, "credential_lists", int64(len(c58CredLists())))
	r.AddInt(P, "configurations_that_must_be_blocked", int64(blocked))
	r.AddInt(P, "configurations_that_must_deliver", int64(delivered))
	r.Assume(P, "credentials that do not report a security level (AuthInfo without CommonAuthInfo, or CommonAuthInfo with InvalidSecurityLevel) have no negotiated level 'below privacy-and-integrity': per the documented backward-compatibility rule of credentials.CheckSecurityLevel they count as satisfying the requirement, and the oracle demands delivery for them")
	r.Assume(P, "no synctest bubble (real TLS handshakes); no timing oracle; a 60s wall-clock timeout per case is a safety net that yields ENGINE-ERROR, never a verdict; certificate validity is evaluated at a fixed instant (tls.Config.Time)")
	r.Assume(P, "one RPC on one connection per configuration (further dial attempts are refused); every attached credential supplies its own distinct metadata keys; 'on the wire' = the bytes the client transport writes to its net.Conn, decoded independently; for TLS the wire is ciphertext and only the handler's view is checked (TLS always satisfies the requirement)")
}
