//go:build verif

// Package h_c58 hosts the configuration-enumeration harness of property C58:
// a real grpc.ClientConn and grpc.Server over in-memory connections with every
// combination of transport credentials and per-RPC credentials.
package h_c58
