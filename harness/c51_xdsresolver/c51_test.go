//go:build verif

package resolver

// C51: a cluster stays usable until every RPC routed to it is committed.
//
// E2 (seqx BFS over event histories, each applied to a FRESH real xDS resolver
// inside a synctest bubble). What is real: the resolver is built by the
// production xdsResolverBuilder.Build, with the real xdsdepmgr.DependencyManager
// behind it; so config-selector construction, clusterInfo.refCount, the
// OnCommitted hook, cluster subscriptions/unsubscriptions in the dependency
// manager, the dependency manager's re-push after the last reference goes away,
// pruneActiveClustersAndPlugins and serviceConfigJSON all run unmodified. What
// is scripted: the xDS client (a fake management server that delivers decoded
// Listener resources with an inline route configuration, and answers every
// Cluster / Endpoints watch the dependency manager starts) and the channel (a
// recording resolver.ClientConn).
//
// Oracle (a ledger written from the property sentence): the set of RPCs that
// were selected and not yet committed, and the route configuration's current
// cluster set.

import (
	"context"
	"encoding/json"
	"fmt"
	"net/url"
	"sort"
	"strings"
	"sync"
	"testing"
	"testing/synctest"
	"time"

	"google.golang.org/grpc"
	iresolver "google.golang.org/grpc/internal/resolver"
	"google.golang.org/grpc/internal/verif/seqx"
	"google.golang.org/grpc/internal/verif/vk"
	"google.golang.org/grpc/internal/wrr"
	"google.golang.org/grpc/internal/xds/balancer/clustermanager"
	"google.golang.org/grpc/internal/xds/bootstrap"
	"google.golang.org/grpc/internal/xds/clients/lrsclient"
	gxdsclient "google.golang.org/grpc/internal/xds/clients/xdsclient"
	"google.golang.org/grpc/internal/xds/httpfilter"
	rinternal "google.golang.org/grpc/internal/xds/resolver/internal"
	"google.golang.org/grpc/internal/xds/xdsclient/xdsresource"
	"google.golang.org/grpc/internal/xds/xdsclient/xdsresource/version"
	"google.golang.org/grpc/resolver"
	"google.golang.org/grpc/serviceconfig"
	"google.golang.org/protobuf/proto"
)

const c51P = "C51"

// ---- scripted xDS client ----

type c51Watch struct {
	typeURL, name string
	w             gxdsclient.ResourceWatcher
	cancelled     bool
}

type c51Client struct {
	bc      *bootstrap.Config
	mu      sync.Mutex
	watches []*c51Watch
	queue   []func() // deliveries not yet made (never made from inside WatchResource: the dependency manager holds its lock there)
}

func (c *c51Client) WatchResource(typeURL, name string, w gxdsclient.ResourceWatcher) func() {
	c.mu.Lock()
	defer c.mu.Unlock()
	wt := &c51Watch{typeURL: typeURL, name: name, w: w}
	c.watches = append(c.watches, wt)
	switch typeURL {
	case version.V3ClusterURL:
		c.queue = append(c.queue, func() {
			if c.live(wt) {
				w.ResourceChanged(&xdsresource.ClusterResourceData{Resource: xdsresource.ClusterUpdate{ClusterName: name, ClusterType: xdsresource.ClusterTypeEDS}}, func() {})
			}
		})
	case version.V3EndpointsURL:
		c.queue = append(c.queue, func() {
			if c.live(wt) {
				w.ResourceChanged(&xdsresource.EndpointsResourceData{Resource: xdsresource.EndpointsUpdate{}}, func() {})
			}
		})
	}
	return func() {
		c.mu.Lock()
		wt.cancelled = true
		c.mu.Unlock()
	}
}

func (c *c51Client) live(wt *c51Watch) bool {
	c.mu.Lock()
	defer c.mu.Unlock()
	return !wt.cancelled
}

func (c *c51Client) ReportLoad(*bootstrap.ServerConfig) (*lrsclient.LoadStore, func(context.Context)) {
	return nil, func(context.Context) {}
}
func (c *c51Client) BootstrapConfig() *bootstrap.Config { return c.bc }

// pump makes all pending deliveries, running to quiescence after each.
func (c *c51Client) pump() {
	for {
		synctest.Wait()
		c.mu.Lock()
		if len(c.queue) == 0 {
			c.mu.Unlock()
			return
		}
		f := c.queue[0]
		c.queue = c.queue[1:]
		c.mu.Unlock()
		f()
	}
}

func (c *c51Client) listenerWatcher() gxdsclient.ResourceWatcher {
	c.mu.Lock()
	defer c.mu.Unlock()
	for _, wt := range c.watches {
		if wt.typeURL == version.V3ListenerURL && !wt.cancelled {
			return wt.w
		}
	}
	return nil
}

// ---- recording HTTP filter (to see interceptors being closed) ----

type c51Interceptor struct {
	id     int
	mu     sync.Mutex
	closes int
}

func (i *c51Interceptor) NewStream(ctx context.Context, _ iresolver.RPCInfo, newStream func(ctx context.Context, opts ...grpc.CallOption) (grpc.ClientStream, error), opts ...grpc.CallOption) (grpc.ClientStream, error) {
	return newStream(ctx, opts...)
}
func (i *c51Interceptor) Close() { i.mu.Lock(); i.closes++; i.mu.Unlock() }
func (i *c51Interceptor) closed() int {
	i.mu.Lock()
	defer i.mu.Unlock()
	return i.closes
}

type c51Filter struct{ w *c51World }

func (c51Filter) TypeURLs() []string { return []string{"verif.c51/filter"} }
func (c51Filter) ParseFilterConfig(proto.Message, httpfilter.ParseOptions) (httpfilter.FilterConfig, error) {
	return nil, nil
}
func (c51Filter) ParseFilterConfigOverride(proto.Message, httpfilter.ParseOptions) (httpfilter.FilterConfig, error) {
	return nil, nil
}
func (c51Filter) IsTerminal() bool { return false }
func (f c51Filter) BuildClientFilter(httpfilter.ClientFilterOptions) httpfilter.ClientFilter {
	return c51ClientFilter{f.w}
}

type c51ClientFilter struct{ w *c51World }

func (f c51ClientFilter) BuildClientInterceptor(_, _ httpfilter.FilterConfig) (httpfilter.ClientInterceptor, error) {
	f.w.mu.Lock()
	defer f.w.mu.Unlock()
	i := &c51Interceptor{id: len(f.w.icpts)}
	f.w.icpts = append(f.w.icpts, i)
	return i, nil
}
func (c51ClientFilter) Close() {}

// ---- recording channel ----

type c51Push struct {
	children []string
	sel      iresolver.ConfigSelector
}

type c51CC struct {
	w      *c51World
	parsed map[*serviceconfig.ParseResult]string
}

func c51Children(js string) ([]string, error) {
	var sc struct {
		LoadBalancingConfig []map[string]struct {
			Children map[string]json.RawMessage `json:"children"`
		} `json:"loadBalancingConfig"`
	}
	if err := json.Unmarshal([]byte(js), &sc); err != nil {
		return nil, err
	}
	var out []string
	for _, lb := range sc.LoadBalancingConfig {
		for name, cfg := range lb {
			if name != xdsClusterManagerName {
				return nil, fmt.Errorf("top-level LB policy %q", name)
			}
			for c := range cfg.Children {
				out = append(out, c)
			}
		}
	}
	sort.Strings(out)
	return out, nil
}

func (cc *c51CC) ParseServiceConfig(js string) *serviceconfig.ParseResult {
	pr := &serviceconfig.ParseResult{}
	cc.w.mu.Lock()
	cc.parsed[pr] = js
	cc.w.mu.Unlock()
	return pr
}

func (cc *c51CC) UpdateState(s resolver.State) error {
	w := cc.w
	w.mu.Lock()
	defer w.mu.Unlock()
	js, ok := cc.parsed[s.ServiceConfig]
	if !ok {
		w.failLocked("harness", "UpdateState with a service config that did not come from ParseServiceConfig")
		return nil
	}
	children, err := c51Children(js)
	if err != nil {
		w.failLocked("bad-service-config", "pushed service config %s: %v", js, err)
	}
	w.pushes = append(w.pushes, c51Push{children: children, sel: iresolver.GetConfigSelector(s)})
	// (S) at the moment of every push: every selected-but-uncommitted RPC's
	// cluster is a child of the pushed configuration
	for _, rpc := range w.rpcs {
		if !c51Has(children, rpc.cluster) {
			w.failLocked("cluster-dropped-while-rpc-uncommitted", "service config pushed with children %v while RPC #%d routed to %s is selected and not yet committed", children, rpc.id, rpc.cluster)
		}
	}
	return nil
}
func (cc *c51CC) ReportError(err error) {
	cc.w.mu.Lock()
	cc.w.reported++
	cc.w.mu.Unlock()
}
func (cc *c51CC) NewAddress([]resolver.Address) {}

func c51Has(l []string, s string) bool {
	for _, x := range l {
		if x == s {
			return true
		}
	}
	return false
}

// ---- world ----

type c51RPC struct {
	id      int
	cluster string // "cluster:A"
	cfg     *iresolver.RPCConfig
	icpt    *c51Interceptor
	sel     iresolver.ConfigSelector
}

type c51World struct {
	mu       sync.Mutex
	client   *c51Client
	r        *xdsResolver
	cc       *c51CC
	routes   []string  // ledger: SET of clusters named by the route configuration delivered last (nil before the first)
	routeName string   // which route configuration that was (several name the same cluster set)
	haveCfg  bool
	rpcs     []*c51RPC // ledger: selected, not yet committed (selection order)
	nextID   int
	icpts    []*c51Interceptor
	pushes   []c51Push
	reported int
	fails    []seqx.Fail
	obs      string
}

func (w *c51World) failLocked(key, format string, a ...any) {
	for _, f := range w.fails {
		if f.Key == key {
			return
		}
	}
	w.fails = append(w.fails, seqx.Fail{Prop: c51P, Key: key, Desc: fmt.Sprintf(format, a...)})
}

func (w *c51World) fail(key, format string, a ...any) {
	w.mu.Lock()
	defer w.mu.Unlock()
	w.failLocked(key, format, a...)
}

func c51NewWorld(bc *bootstrap.Config) (*c51World, error) {
	w := &c51World{}
	w.client = &c51Client{bc: bc}
	w.cc = &c51CC{w: w, parsed: map[*serviceconfig.ParseResult]string{}}
	b, err := newBuilderWithClientForTesting(w.client)
	if err != nil {
		return nil, err
	}
	rr, err := b.Build(resolver.Target{URL: url.URL{Scheme: "xds", Path: "/verif-svc"}}, w.cc, resolver.BuildOptions{Authority: "verif-authority"})
	if err != nil {
		return nil, err
	}
	w.r = rr.(*xdsResolver)
	w.client.pump()
	return w, nil
}

func (w *c51World) close() {
	w.r.Close()
	synctest.Wait()
}

// c51Route is one route of the scripted route configuration: RPCs whose method
// starts with Prefix go to the weighted clusters listed (all weight 1; a
// cluster may be listed more than once, and several routes may name the same
// cluster).
type c51Route struct {
	Prefix   string
	Clusters []string
}

// deliver sends a Listener resource whose inline route configuration routes
// /X/... to cluster X, for the clusters in set (one route per cluster).
func (w *c51World) deliver(set []string) {
	var routes []c51Route
	for _, c := range set {
		routes = append(routes, c51Route{Prefix: "/" + c + "/", Clusters: []string{c}})
	}
	w.deliverRoutes(fmt.Sprint(set), routes)
}

// deliverRoutes sends a Listener resource with the given inline routes. The
// ledger keeps the SET of clusters the route configuration names.
func (w *c51World) deliverRoutes(name string, routes []c51Route) {
	lw := w.client.listenerWatcher()
	if lw == nil {
		w.fail("harness", "no listener watch")
		return
	}
	vh := &xdsresource.VirtualHost{Domains: []string{"*"}}
	seen := map[string]bool{}
	set := []string{}
	for _, rt := range routes {
		prefix := rt.Prefix
		xr := &xdsresource.Route{Prefix: &prefix, ActionType: xdsresource.RouteActionRoute}
		for _, c := range rt.Clusters {
			xr.WeightedClusters = append(xr.WeightedClusters, xdsresource.WeightedCluster{Name: c, Weight: 1})
			if !seen[c] {
				seen[c] = true
				set = append(set, c)
			}
		}
		vh.Routes = append(vh.Routes, xr)
	}
	sort.Strings(set)
	lu := xdsresource.ListenerUpdate{APIListener: &xdsresource.HTTPConnectionManagerConfig{
		InlineRouteConfig: &xdsresource.RouteConfigUpdate{VirtualHosts: []*xdsresource.VirtualHost{vh}},
		HTTPFilters:       []xdsresource.HTTPFilter{{Name: "verif", Filter: c51Filter{w}}},
	}}
	w.mu.Lock()
	w.routes = set
	w.routeName = name
	w.haveCfg = true
	w.mu.Unlock()
	lw.ResourceChanged(&xdsresource.ListenerResourceData{Resource: lu}, func() {})
}

func (w *c51World) lastPush() *c51Push {
	w.mu.Lock()
	defer w.mu.Unlock()
	if len(w.pushes) == 0 {
		return nil
	}
	p := w.pushes[len(w.pushes)-1]
	return &p
}

func (w *c51World) npushes() int {
	w.mu.Lock()
	defer w.mu.Unlock()
	return len(w.pushes)
}

// snapshot of the resolver's private reference counts (quiescent: read on the
// harness goroutine after synctest.Wait, nothing else is running).
func (w *c51World) refs() string {
	var parts []string
	for name, ci := range w.r.activeClusters {
		parts = append(parts, fmt.Sprintf("%s=%d", name, ci.refCount.Load()))
	}
	sort.Strings(parts)
	return strings.Join(parts, ",")
}

type c51Op struct {
	name    string
	kind    string // select commit update advance
	cluster string
	idx     int
	set     []string
	routes  []c51Route // non-nil: delivered instead of one route per cluster of set
}

func c51Ops() []c51Op {
	return []c51Op{
		{name: "select(/A)", kind: "select", cluster: "A"},
		{name: "select(/B)", kind: "select", cluster: "B"},
		{name: "commit(0)x2", kind: "commit", idx: 0},
		{name: "commit(1)x2", kind: "commit", idx: 1},
		{name: "commit(2)x2", kind: "commit", idx: 2},
		{name: "routes{A}", kind: "update", set: []string{"A"}},
		{name: "routes{B}", kind: "update", set: []string{"B"}},
		{name: "routes{A,B}", kind: "update", set: []string{"A", "B"}},
		{name: "routes{}", kind: "update", set: []string{}},
		// the same cluster referenced more than once by one route configuration
		{name: "routes{A,A2->A}", kind: "update", routes: []c51Route{{"/A/", []string{"A"}}, {"/A2/", []string{"A"}}}},
		{name: "routes{A->[A,A],B}", kind: "update", routes: []c51Route{{"/A/", []string{"A", "A"}}, {"/B/", []string{"B"}}}},
		{name: "advance(1m)", kind: "advance"},
	}
}

const c51MaxInFlight = 3

// c51FirstWRR replaces the random weighted picker (seam rinternal.NewWRR): it
// always returns the first cluster added, so that a route listing a cluster
// twice is deterministic. It is stateless, hence safe to install once for all
// concurrently running histories.
type c51FirstWRR struct{ first any }

func (w *c51FirstWRR) Add(item any, _ int64) {
	if w.first == nil {
		w.first = item
	}
}
func (w *c51FirstWRR) Next() any { return w.first }

func c51InstallWRR() (restore func()) {
	saved := rinternal.NewWRR
	rinternal.NewWRR = func() wrr.WRR { return &c51FirstWRR{} }
	return func() { rinternal.NewWRR = saved }
}

func (w *c51World) apply(op c51Op) (applicable bool) {
	switch op.kind {
	case "update":
		if op.routes != nil {
			w.deliverRoutes(op.name, op.routes)
		} else {
			w.deliver(op.set)
		}
		w.client.pump()
		w.obs = "route configuration update"
	case "select":
		p := w.lastPush()
		if p == nil || p.sel == nil || len(w.rpcs) >= c51MaxInFlight {
			return false
		}
		cfg, err := p.sel.SelectConfig(iresolver.RPCInfo{Context: context.Background(), Method: "/" + op.cluster + "/m"})
		routed := c51Has(w.routes, op.cluster)
		if err != nil {
			if routed {
				w.fail("select-failed", "%s: SelectConfig failed although the current route configuration routes it: %v", op.name, err)
			}
			w.obs = "select: no route, RPC fails"
			break
		}
		got := clustermanager.PickedCluster(cfg.Context)
		if !routed || got != "cluster:"+op.cluster {
			w.fail("select-wrong-cluster", "%s: routed to %q; route configuration clusters %v", op.name, got, w.routes)
		}
		rpc := &c51RPC{cluster: got, cfg: cfg, sel: p.sel}
		if il, ok := cfg.Interceptor.(*interceptorList); ok && len(il.interceptors) == 1 {
			rpc.icpt, _ = il.interceptors[0].(*c51Interceptor)
		}
		if rpc.icpt == nil {
			w.fail("harness", "%s: RPC config does not carry the recording interceptor", op.name)
		}
		if cfg.OnCommitted == nil {
			w.fail("no-commit-hook", "%s: SelectConfig returned no OnCommitted hook", op.name)
		}
		w.mu.Lock()
		rpc.id = w.nextID
		w.nextID++
		w.rpcs = append(w.rpcs, rpc)
		w.mu.Unlock()
		w.client.pump()
		w.obs = "select: RPC routed"
	case "commit":
		if op.idx >= len(w.rpcs) {
			return false
		}
		w.mu.Lock()
		rpc := w.rpcs[op.idx]
		w.rpcs = append(append([]*c51RPC(nil), w.rpcs[:op.idx]...), w.rpcs[op.idx+1:]...)
		stillUsed := c51Has(w.routes, strings.TrimPrefix(rpc.cluster, "cluster:"))
		for _, o := range w.rpcs {
			if o.cluster == rpc.cluster {
				stillUsed = true
			}
		}
		w.mu.Unlock()
		if rpc.cfg.OnCommitted != nil {
			rpc.cfg.OnCommitted()
		}
		w.client.pump()
		after1 := w.quiescentState()
		n1 := w.npushes()
		// second call of the same hook: must change nothing
		if rpc.cfg.OnCommitted != nil {
			rpc.cfg.OnCommitted()
		}
		w.client.pump()
		after2 := w.quiescentState()
		if n2 := w.npushes(); after1 != after2 || n2 != n1 {
			w.fail("commit-hook-not-idempotent", "calling the OnCommitted hook of RPC #%d (%s) a second time changed the resolver: after first call %s (%d pushes), after second call %s (%d pushes)", rpc.id, rpc.cluster, after1, n1, after2, n2)
		}
		if stillUsed {
			w.obs = "commit: cluster still referenced"
		} else {
			w.obs = "commit: last reference to a removed cluster"
		}
	case "advance":
		time.Sleep(time.Minute)
		w.client.pump()
		w.obs = "time advances"
	}
	return true
}

// quiescentState renders everything property-relevant: ledger, latest pushed
// children, private reference counts, interceptor liveness per in-flight RPC.
func (w *c51World) quiescentState() string {
	w.mu.Lock()
	defer w.mu.Unlock()
	var sb strings.Builder
	if !w.haveCfg {
		sb.WriteString("routes=<none>")
	} else {
		fmt.Fprintf(&sb, "routes=%s%v", w.routeName, w.routes)
	}
	var cur iresolver.ConfigSelector
	if n := len(w.pushes); n > 0 {
		fmt.Fprintf(&sb, " children=%v", w.pushes[n-1].children)
		cur = w.pushes[n-1].sel
	} else {
		sb.WriteString(" children=<no push>")
	}
	// selector generations: dense rank by first appearance among in-flight RPCs, current selector = "cur"
	rank := map[iresolver.ConfigSelector]int{}
	sb.WriteString(" rpcs=[")
	for i, rpc := range w.rpcs {
		if i > 0 {
			sb.WriteByte(' ')
		}
		g := "cur"
		if rpc.sel != cur {
			if _, ok := rank[rpc.sel]; !ok {
				rank[rpc.sel] = len(rank)
			}
			g = fmt.Sprintf("old%d", rank[rpc.sel])
		}
		closed := -1
		if rpc.icpt != nil {
			closed = rpc.icpt.closed()
		}
		fmt.Fprintf(&sb, "%s/%s/icptclosed=%d", rpc.cluster, g, closed)
	}
	sb.WriteString("]")
	fmt.Fprintf(&sb, " refs={%s}", w.refs())
	open := 0
	for _, i := range w.icpts {
		if i.closed() == 0 {
			open++
		}
	}
	fmt.Fprintf(&sb, " open_interceptors=%d", open)
	return sb.String()
}

// check: the quiescent-state clauses of the property.
func (w *c51World) check(after string) {
	w.mu.Lock()
	defer w.mu.Unlock()
	if len(w.pushes) == 0 {
		if w.haveCfg {
			w.failLocked("no-push", "after %s: a route configuration was delivered and resolved but no service config was pushed", after)
		}
		return
	}
	children := w.pushes[len(w.pushes)-1].children
	need := map[string]string{}
	for _, c := range w.routes {
		need["cluster:"+c] = "named by the current route configuration"
	}
	for _, rpc := range w.rpcs {
		// (S) at quiescence
		if !c51Has(children, rpc.cluster) {
			w.failLocked("cluster-dropped-while-rpc-uncommitted", "after %s: latest service config has children %v while RPC #%d routed to %s is selected and not yet committed", after, children, rpc.id, rpc.cluster)
		}
		// interceptor alive
		if rpc.icpt != nil && rpc.icpt.closed() > 0 {
			w.failLocked("interceptor-closed-while-rpc-uncommitted", "after %s: the interceptor of RPC #%d (%s) was closed before the RPC was committed", after, rpc.id, rpc.cluster)
		}
		need[rpc.cluster] = fmt.Sprintf("RPC #%d uncommitted", rpc.id)
	}
	for c, why := range need {
		if !c51Has(children, c) {
			w.failLocked("needed-cluster-missing", "after %s: latest service config has children %v, missing %s (%s)", after, children, c, why)
		}
	}
	// (D) removed and no longer referenced => dropped
	for _, c := range children {
		if _, ok := need[c]; !ok {
			w.failLocked("removed-cluster-not-dropped", "after %s: latest service config still has child %s although the route configuration (%v) does not name it and no uncommitted RPC is routed to it (in flight: %d)", after, c, w.routes, len(w.rpcs))
		}
	}
	// reference-count ledger: the current config selector holds one reference,
	// each uncommitted RPC one more
	want := map[string]int32{}
	for _, c := range w.routes {
		want["cluster:"+c]++
	}
	for _, rpc := range w.rpcs {
		want[rpc.cluster]++
	}
	for name, ci := range w.r.activeClusters {
		if got := ci.refCount.Load(); got != want[name] {
			w.failLocked("refcount-ledger", "after %s: clusterInfo.refCount[%s]=%d, ledger (1 for the current config selector + 1 per uncommitted RPC) = %d", after, name, got, want[name])
		}
	}
	for name, n := range want {
		if _, ok := w.r.activeClusters[name]; !ok && n > 0 {
			w.failLocked("refcount-ledger", "after %s: %s has %d references in the ledger but is not in activeClusters", after, name, n)
		}
	}
}

func c51Run(t *testing.T, bc *bootstrap.Config, ops []c51Op, hist []int) (out seqx.Outcome) {
	synctest.Test(t, func(*testing.T) {
		w, err := c51NewWorld(bc)
		if err != nil {
			out = seqx.Outcome{Key: "build-error", Terminal: true, Fails: []seqx.Fail{{Prop: c51P, Key: "harness", Desc: "Build: " + err.Error()}}}
			return
		}
		defer func() {
			if p := recover(); p != nil {
				w.fail("panic", "panic: %v", p)
				out = seqx.Outcome{Key: "panic " + fmt.Sprint(hist), Terminal: true, Fails: w.fails, Obs: "panic"}
			}
			func() {
				defer func() { recover() }()
				w.close()
			}()
		}()
		for i, h := range hist {
			w.obs = ""
			if !w.apply(ops[h]) {
				if i == len(hist)-1 {
					out = seqx.Outcome{Skip: true}
					return
				}
				w.fail("harness-nondeterminism", "event %s inapplicable in the middle of a history", ops[h].name)
			}
			w.check(ops[h].name)
		}
		if len(hist) == 0 {
			w.check("start")
		}
		out = seqx.Outcome{Key: w.quiescentState(), Fails: w.fails, Obs: w.obs}
	})
	return out
}

func TestVerif_C51_XDSResolver(t *testing.T) {
	const P = c51P
	r := vk.Start(t, "c51_xdsresolver", "model_checking", P)
	defer r.Finish()
	r.Rule(P, "breadth-first over ALL event histories up to the depth bound, each applied to a fresh real xDS resolver (production Build, real dependency manager) inside a synctest bubble, run to quiescence after every event. Events: route configuration update to clusters {A} | {B} | {A,B} | {} (one prefix route /X/ per cluster) | two routes /A/ and /A2/ both to cluster A | a route /A/ whose weighted clusters list A twice plus /B/ -> B (delivered as a Listener resource with inline routes; Cluster and Endpoints watches are answered), select an RPC on /A or /B through the config selector most recently pushed to the channel (at most 3 uncommitted RPCs), commit the i-th uncommitted RPC by calling its OnCommitted hook TWICE, advance time 1 minute. Checked at every service-config push and at every quiescent point against a ledger of uncommitted RPCs. A state = ledger + children of the latest pushed config + private clusterInfo.refCount values + per-RPC config-selector generation and interceptor liveness; distinct states are the non-trivial cases")
	r.Assume(P, "events are serialized (one at a time, run to quiescence): the interleavings of SelectConfig, OnCommitted and updates inside the resolver are not explored by this leg; RPCs are selected through the config selector of the latest push (the channel swaps selectors before the resolver stops the old one)")
	r.Assume(P, "scripted: xDS client (decoded Listener/Cluster/Endpoints resources delivered directly to the dependency manager's watchers; every cluster resolves) the weighted-cluster picker (seam rinternal.NewWRR: always the first listed cluster) and the channel (recording ClientConn; the cluster_manager LB policy and the real channel's commit logic in stream.go are not running). Listener/route resource-not-found errors (erroring config selector, empty service config) and cluster specifier plugins are out of scope")

	contents, err := bootstrap.NewContentsForTesting(bootstrap.ConfigOptionsForTesting{
		Servers: []byte(`[{"server_uri": "passthrough:///verif", "channel_creds": [{"type": "insecure"}]}]`),
		Node:    []byte(`{"id": "verif-node"}`),
	})
	if err != nil {
		r.EngineError("bootstrap contents: %v", err)
		return
	}
	bc, err := bootstrap.NewConfigFromContents(contents)
	if err != nil {
		r.EngineError("bootstrap config: %v", err)
		return
	}
	defer c51InstallWRR()()
	ops := c51Ops()
	names := make([]string, len(ops))
	for i, o := range ops {
		names[i] = o.name
	}
	seqx.BFS(r, []string{P}, seqx.Config{
		Name: "xdsresolver", Ops: names, MaxDepth: r.Pick(6, 8), Parallel: 16,
		Congruence: r.Thorough(), CongruenceMax: 200, MinStates: 30,
		Run: func(hist []int) seqx.Outcome { return c51Run(t, bc, ops, hist) },
	})
}
