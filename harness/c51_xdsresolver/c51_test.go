//go:build verif

package resolver

// C51: a cluster stays usable until every RPC routed to it is committed.
//
// E2 (seqx BFS over event histories, each applied to a FRESH real xDS resolver
// inside a synctest bubble). What is real: the resolver is built by the
// production xdsResolverBuilder.Build, with the real xdsdepmgr.DependencyManager
// behind it; so config-selector construction, clusterInfo.refCount, the
// OnCommitted hook, cluster subscriptions/unsubscriptions in the dependency
// manager, the dependency manager's re-push after the last reference goes away,
// pruneActiveClustersAndPlugins and serviceConfigJSON all run unmodified. What
// is scripted: the xDS client (a fake management server that delivers decoded
// Listener resources with an inline route configuration, and answers every
// Cluster / Endpoints watch the dependency manager starts) and the channel (a
// recording resolver.ClientConn).
//
// Oracle (a ledger written from the property sentence): the set of RPCs that
// were selected and not yet committed, and the route configuration's current
// cluster set.

import (
	"context"
	"encoding/json"
	"errors"
	"fmt"
	"net/url"
	"sort"
	"strings"
	"sync"
	"testing"
	"testing/synctest"
	"time"

	"google.golang.org/grpc"
	iresolver "google.golang.org/grpc/internal/resolver"
	"google.golang.org/grpc/internal/verif/seqx"
	"google.golang.org/grpc/internal/verif/vk"
	"google.golang.org/grpc/internal/wrr"
	"google.golang.org/grpc/internal/xds/balancer/clustermanager"
	"google.golang.org/grpc/internal/xds/bootstrap"
	"google.golang.org/grpc/internal/xds/clients/lrsclient"
	"google.golang.org/grpc/internal/xds/clusterspecifier"
	gxdsclient "google.golang.org/grpc/internal/xds/clients/xdsclient"
	"google.golang.org/grpc/internal/xds/httpfilter"
	rinternal "google.golang.org/grpc/internal/xds/resolver/internal"
	"google.golang.org/grpc/internal/xds/xdsclient/xdsresource"
	"google.golang.org/grpc/internal/xds/xdsclient/xdsresource/version"
	"google.golang.org/grpc/resolver"
	"google.golang.org/grpc/serviceconfig"
	"google.golang.org/protobuf/proto"
)

const c51P = "C51"

// ---- scripted xDS client ----

type c51Watch struct {
	typeURL, name string
	w             gxdsclient.ResourceWatcher
	cancelled     bool
}

type c51Client struct {
	bc      *bootstrap.Config
	mu      sync.Mutex
	watches []*c51Watch
	queue   []func() // deliveries not yet made (never made from inside WatchResource: the dependency manager holds its lock there)
}

func (c *c51Client) WatchResource(typeURL, name string, w gxdsclient.ResourceWatcher) func() {
	c.mu.Lock()
	defer c.mu.Unlock()
	wt := &c51Watch{typeURL: typeURL, name: name, w: w}
	c.watches = append(c.watches, wt)
	switch typeURL {
	case version.V3ClusterURL:
		c.queue = append(c.queue, func() {
			if c.live(wt) {
				w.ResourceChanged(&xdsresource.ClusterResourceData{Resource: xdsresource.ClusterUpdate{ClusterName: name, ClusterType: xdsresource.ClusterTypeEDS}}, func() {})
			}
		})
	case version.V3EndpointsURL:
		c.queue = append(c.queue, func() {
			if c.live(wt) {
				w.ResourceChanged(&xdsresource.EndpointsResourceData{Resource: xdsresource.EndpointsUpdate{}}, func() {})
			}
		})
	}
	return func() {
		c.mu.Lock()
		wt.cancelled = true
		c.mu.Unlock()
	}
}

func (c *c51Client) live(wt *c51Watch) bool {
	c.mu.Lock()
	defer c.mu.Unlock()
	return !wt.cancelled
}

func (c *c51Client) ReportLoad(*bootstrap.ServerConfig) (*lrsclient.LoadStore, func(context.Context)) {
	return nil, func(context.Context) {}
}
func (c *c51Client) BootstrapConfig() *bootstrap.Config { return c.bc }

// pump makes all pending deliveries, running to quiescence after each.
func (c *c51Client) pump() {
	for {
		synctest.Wait()
		c.mu.Lock()
		if len(c.queue) == 0 {
			c.mu.Unlock()
			return
		}
		f := c.queue[0]
		c.queue = c.queue[1:]
		c.mu.Unlock()
		f()
	}
}

func (c *c51Client) listenerWatcher() gxdsclient.ResourceWatcher {
	c.mu.Lock()
	defer c.mu.Unlock()
	for _, wt := range c.watches {
		if wt.typeURL == version.V3ListenerURL && !wt.cancelled {
			return wt.w
		}
	}
	return nil
}

// ---- recording HTTP filter (to see interceptors being closed) ----

type c51Interceptor struct {
	id     int
	mu     sync.Mutex
	closes int
}

func (i *c51Interceptor) NewStream(ctx context.Context, _ iresolver.RPCInfo, newStream func(ctx context.Context, opts ...grpc.CallOption) (grpc.ClientStream, error), opts ...grpc.CallOption) (grpc.ClientStream, error) {
	return newStream(ctx, opts...)
}
func (i *c51Interceptor) Close() { i.mu.Lock(); i.closes++; i.mu.Unlock() }
func (i *c51Interceptor) closed() int {
	i.mu.Lock()
	defer i.mu.Unlock()
	return i.closes
}

type c51Filter struct{ w *c51World }

func (c51Filter) TypeURLs() []string { return []string{"verif.c51/filter"} }
func (c51Filter) ParseFilterConfig(proto.Message, httpfilter.ParseOptions) (httpfilter.FilterConfig, error) {
	return nil, nil
}
func (c51Filter) ParseFilterConfigOverride(proto.Message, httpfilter.ParseOptions) (httpfilter.FilterConfig, error) {
	return nil, nil
}
func (c51Filter) IsTerminal() bool { return false }
func (f c51Filter) BuildClientFilter(httpfilter.ClientFilterOptions) httpfilter.ClientFilter {
	return c51ClientFilter{f.w}
}

type c51ClientFilter struct{ w *c51World }

func (f c51ClientFilter) BuildClientInterceptor(_, _ httpfilter.FilterConfig) (httpfilter.ClientInterceptor, error) {
	f.w.mu.Lock()
	defer f.w.mu.Unlock()
	i := &c51Interceptor{id: len(f.w.icpts)}
	f.w.icpts = append(f.w.icpts, i)
	return i, nil
}
func (c51ClientFilter) Close() {}

// ---- recording channel ----

type c51Push struct {
	children []string
	sel      iresolver.ConfigSelector
}

type c51CC struct {
	w      *c51World
	parsed map[*serviceconfig.ParseResult]string
}

func c51Children(js string) ([]string, error) {
	var sc struct {
		LoadBalancingConfig []map[string]struct {
			Children map[string]json.RawMessage `json:"children"`
		} `json:"loadBalancingConfig"`
	}
	if err := json.Unmarshal([]byte(js), &sc); err != nil {
		return nil, err
	}
	var out []string
	for _, lb := range sc.LoadBalancingConfig {
		for name, cfg := range lb {
			if name != xdsClusterManagerName {
				return nil, fmt.Errorf("top-level LB policy %q", name)
			}
			for c := range cfg.Children {
				out = append(out, c)
			}
		}
	}
	sort.Strings(out)
	return out, nil
}

func (cc *c51CC) ParseServiceConfig(js string) *serviceconfig.ParseResult {
	pr := &serviceconfig.ParseResult{}
	cc.w.mu.Lock()
	cc.parsed[pr] = js
	cc.w.mu.Unlock()
	return pr
}

func (cc *c51CC) UpdateState(s resolver.State) error {
	w := cc.w
	w.mu.Lock()
	defer w.mu.Unlock()
	js, ok := cc.parsed[s.ServiceConfig]
	if !ok {
		w.failLocked("harness", "UpdateState with a service config that did not come from ParseServiceConfig")
		return nil
	}
	children, err := c51Children(js)
	if err != nil {
		w.failLocked("bad-service-config", "pushed service config %s: %v", js, err)
	}
	sel := iresolver.GetConfigSelector(s)
	w.pushes = append(w.pushes, c51Push{children: children, sel: sel})
	// (S) at the moment of every push: every selected-but-uncommitted RPC's
	// cluster is a child of the pushed configuration (suspended while the
	// Listener/RouteConfiguration resource is in error: see the assumptions)
	if !w.errState {
		for _, rpc := range w.rpcs {
			if !c51Has(children, rpc.cluster) {
				w.failLocked("cluster-dropped-while-rpc-uncommitted", "service config pushed with children %v while RPC #%d routed to %s is selected and not yet committed", children, rpc.id, rpc.cluster)
			}
		}
	}
	// (B) the selector delivered WITH this update routes only to children of
	// THIS update's service config
	kind, targets := c51SelectorTargets(sel)
	for _, tg := range targets {
		if !c51Has(children, tg) {
			w.failLocked("selector-routes-outside-its-service-config", "update pushed with service config children %v and a config selector (%s) that routes RPCs to %s, which is not in that configuration", children, kind, tg)
		}
	}
	return nil
}

// c51SelectorTargets reads (in-package, without calling SelectConfig, which
// would take references) where a pushed config selector can send RPCs: kind is
// "none" (no selector: the channel fails RPCs), "erroring", or "routes" with
// the sorted set of cluster_manager child names its routes point at.
func c51SelectorTargets(sel iresolver.ConfigSelector) (kind string, targets []string) {
	switch cs := sel.(type) {
	case nil:
		return "none", nil
	case *erroringConfigSelector:
		return "erroring", nil
	case *configSelector:
		seen := map[string]bool{}
		for _, rt := range cs.routes {
			for _, rc := range rt.routeClusters {
				if n := rc.Value().name; !seen[n] {
					seen[n] = true
					targets = append(targets, n)
				}
			}
		}
		sort.Strings(targets)
		return "routes", targets
	}
	return fmt.Sprintf("%T", sel), nil
}
func (cc *c51CC) ReportError(err error) {
	cc.w.mu.Lock()
	cc.w.reported++
	cc.w.mu.Unlock()
}
func (cc *c51CC) NewAddress([]resolver.Address) {}

func c51Has(l []string, s string) bool {
	for _, x := range l {
		if x == s {
			return true
		}
	}
	return false
}

// ---- world ----

type c51RPC struct {
	id      int
	cluster string // "cluster:A"
	cfg     *iresolver.RPCConfig
	icpt    *c51Interceptor
	sel     iresolver.ConfigSelector
}

type c51World struct {
	mu       sync.Mutex
	client   *c51Client
	r        *xdsResolver
	cc       *c51CC
	routes   []string  // ledger: SET of cluster_manager child names ("cluster:A", "cluster_specifier_plugin:pA") named by the route configuration delivered last (nil before the first)
	routeName string   // which route configuration that was (several name the same cluster set)
	table    []c51Route // ledger: the routes of that configuration
	errState bool       // ledger: the last management-server event was a resource error (resource removed)
	// zeroSeen: clusterInfo objects that were observed at a quiescent point with
	// refCount 0 while still in activeClusters/activePlugins. Such an entry has
	// already called its unsubscribe (a OnceFunc); whether a live entry is such a
	// re-used one is hidden state that later behaviour depends on, so it is part
	// of the state key.
	zeroSeen map[*clusterInfo]bool
	haveCfg  bool
	rpcs     []*c51RPC // ledger: selected, not yet committed (selection order)
	nextID   int
	icpts    []*c51Interceptor
	pushes   []c51Push
	reported int
	fails    []seqx.Fail
	obs      string
}

func (w *c51World) failLocked(key, format string, a ...any) {
	for _, f := range w.fails {
		if f.Key == key {
			return
		}
	}
	w.fails = append(w.fails, seqx.Fail{Prop: c51P, Key: key, Desc: fmt.Sprintf(format, a...)})
}

func (w *c51World) fail(key, format string, a ...any) {
	w.mu.Lock()
	defer w.mu.Unlock()
	w.failLocked(key, format, a...)
}

func c51NewWorld(bc *bootstrap.Config) (*c51World, error) {
	w := &c51World{}
	w.client = &c51Client{bc: bc}
	w.cc = &c51CC{w: w, parsed: map[*serviceconfig.ParseResult]string{}}
	b, err := newBuilderWithClientForTesting(w.client)
	if err != nil {
		return nil, err
	}
	rr, err := b.Build(resolver.Target{URL: url.URL{Scheme: "xds", Path: "/verif-svc"}}, w.cc, resolver.BuildOptions{Authority: "verif-authority"})
	if err != nil {
		return nil, err
	}
	w.r = rr.(*xdsResolver)
	w.client.pump()
	return w, nil
}

func (w *c51World) close() {
	w.r.Close()
	synctest.Wait()
}

// c51Route is one route of the scripted route configuration: RPCs whose method
// starts with Prefix go either to the weighted clusters listed (all weight 1; a
// cluster may be listed more than once, and several routes may name the same
// cluster) or, if Plugin is set, to that cluster specifier plugin.
type c51Route struct {
	Prefix   string
	Clusters []string
	Plugin   string
}

// children: the cluster_manager child names this route can send RPCs to.
func (rt c51Route) children() []string {
	if rt.Plugin != "" {
		return []string{clusterSpecifierPluginPrefix + rt.Plugin}
	}
	var out []string
	for _, c := range rt.Clusters {
		out = append(out, clusterPrefix+c)
	}
	return out
}

// c51RouteFor: the one-route-per-target convention: target "A" is plain
// cluster A reached by /A/..., target "pA" is cluster specifier plugin pA
// reached by /pA/... (names starting with 'p' are plugins).
func c51RouteFor(target string) c51Route {
	if strings.HasPrefix(target, "p") {
		return c51Route{Prefix: "/" + target + "/", Plugin: target}
	}
	return c51Route{Prefix: "/" + target + "/", Clusters: []string{target}}
}

// deliver sends a Listener resource whose inline route configuration has one
// route per target of set.
func (w *c51World) deliver(set []string) {
	var routes []c51Route
	for _, c := range set {
		routes = append(routes, c51RouteFor(c))
	}
	w.deliverRoutes(fmt.Sprint(set), routes)
}

// deliverRoutes sends a Listener resource with the given inline routes. The
// ledger keeps the route table and the SET of children it names.
func (w *c51World) deliverRoutes(name string, routes []c51Route) {
	lw := w.client.listenerWatcher()
	if lw == nil {
		w.fail("harness", "no listener watch")
		return
	}
	vh := &xdsresource.VirtualHost{Domains: []string{"*"}}
	rcu := &xdsresource.RouteConfigUpdate{VirtualHosts: []*xdsresource.VirtualHost{vh}}
	seen := map[string]bool{}
	set := []string{}
	for _, rt := range routes {
		prefix := rt.Prefix
		xr := &xdsresource.Route{Prefix: &prefix, ActionType: xdsresource.RouteActionRoute}
		if rt.Plugin != "" {
			xr.ClusterSpecifierPlugin = rt.Plugin
			if rcu.ClusterSpecifierPlugins == nil {
				rcu.ClusterSpecifierPlugins = map[string]clusterspecifier.BalancerConfig{}
			}
			// what a (stub) plugin's ParseClusterSpecifierConfig would have produced
			rcu.ClusterSpecifierPlugins[rt.Plugin] = clusterspecifier.BalancerConfig{{"verif_csp_stub": map[string]any{"plugin": rt.Plugin}}}
		}
		for _, c := range rt.Clusters {
			xr.WeightedClusters = append(xr.WeightedClusters, xdsresource.WeightedCluster{Name: c, Weight: 1})
		}
		for _, ch := range rt.children() {
			if !seen[ch] {
				seen[ch] = true
				set = append(set, ch)
			}
		}
		vh.Routes = append(vh.Routes, xr)
	}
	sort.Strings(set)
	lu := xdsresource.ListenerUpdate{APIListener: &xdsresource.HTTPConnectionManagerConfig{
		InlineRouteConfig: rcu,
		HTTPFilters:       []xdsresource.HTTPFilter{{Name: "verif", Filter: c51Filter{w}}},
	}}
	w.mu.Lock()
	w.routes = set
	w.table = append([]c51Route(nil), routes...)
	w.routeName = name
	w.haveCfg = true
	w.errState = false
	w.mu.Unlock()
	lw.ResourceChanged(&xdsresource.ListenerResourceData{Resource: lu}, func() {})
}

// resourceError: the management server removes the Listener resource
// (resource-not-found); the dependency manager reports it to the resolver.
func (w *c51World) resourceError() {
	lw := w.client.listenerWatcher()
	if lw == nil {
		w.fail("harness", "no listener watch")
		return
	}
	w.mu.Lock()
	w.routes = nil
	w.table = nil
	w.routeName = "resource-error"
	w.haveCfg = true
	w.errState = true
	w.mu.Unlock()
	lw.ResourceError(errors.New("verif: listener resource removed"), func() {})
}

// expect: where the ledger's route table sends an RPC with this method (first
// matching prefix; the scripted weighted picker takes the first listed cluster).
func (w *c51World) expect(method string) (child string, ok bool) {
	for _, rt := range w.table {
		if strings.HasPrefix(method, rt.Prefix) {
			return rt.children()[0], true
		}
	}
	return "", false
}

func (w *c51World) lastPush() *c51Push {
	w.mu.Lock()
	defer w.mu.Unlock()
	if len(w.pushes) == 0 {
		return nil
	}
	p := w.pushes[len(w.pushes)-1]
	return &p
}

func (w *c51World) npushes() int {
	w.mu.Lock()
	defer w.mu.Unlock()
	return len(w.pushes)
}

// snapshot of the resolver's private reference counts (quiescent: read on the
// harness goroutine after synctest.Wait, nothing else is running).
func (w *c51World) refs() string {
	var parts []string
	one := func(name string, ci *clusterInfo) {
		n := ci.refCount.Load()
		if n == 0 {
			if w.zeroSeen == nil {
				w.zeroSeen = map[*clusterInfo]bool{}
			}
			w.zeroSeen[ci] = true
			parts = append(parts, fmt.Sprintf("%s=0", name))
		} else if w.zeroSeen[ci] {
			parts = append(parts, fmt.Sprintf("%s=%d(entry re-used after its count had reached 0)", name, n))
		} else {
			parts = append(parts, fmt.Sprintf("%s=%d", name, n))
		}
	}
	for name, ci := range w.r.activeClusters {
		one(name, ci)
	}
	for name, ci := range w.r.activePlugins {
		one(name, ci)
	}
	sort.Strings(parts)
	return strings.Join(parts, ",")
}

type c51Op struct {
	name    string
	kind    string // select commit update error advance
	cluster string
	idx     int
	set     []string
	routes  []c51Route // non-nil: delivered instead of one route per cluster of set
}

// c51Ops: scenario "clusters" = plain-cluster routes (incl. multiply referenced
// clusters); scenario "plugins" = cluster-specifier-plugin routes mixed with one
// plain cluster. Both have the resource-error event.
func c51Ops(scenario string) []c51Op {
	commits := []c51Op{
		{name: "commit(0)x2", kind: "commit", idx: 0},
		{name: "commit(1)x2", kind: "commit", idx: 1},
		{name: "commit(2)x2", kind: "commit", idx: 2},
	}
	var ops []c51Op
	if scenario == "plugins" {
		ops = []c51Op{
			{name: "select(/pA)", kind: "select", cluster: "pA"},
			{name: "select(/pB)", kind: "select", cluster: "pB"},
			{name: "select(/A)", kind: "select", cluster: "A"},
		}
		ops = append(ops, commits...)
		ops = append(ops,
			c51Op{name: "routes{pA}", kind: "update", set: []string{"pA"}},
			c51Op{name: "routes{pB}", kind: "update", set: []string{"pB"}},
			c51Op{name: "routes{pA,pB}", kind: "update", set: []string{"pA", "pB"}},
			c51Op{name: "routes{A}", kind: "update", set: []string{"A"}},
			c51Op{name: "routes{}", kind: "update", set: []string{}},
			c51Op{name: "resource-error", kind: "error"},
		)
		return ops
	}
	ops = []c51Op{
		{name: "select(/A)", kind: "select", cluster: "A"},
		{name: "select(/B)", kind: "select", cluster: "B"},
	}
	ops = append(ops, commits...)
	ops = append(ops,
		c51Op{name: "routes{A}", kind: "update", set: []string{"A"}},
		c51Op{name: "routes{B}", kind: "update", set: []string{"B"}},
		c51Op{name: "routes{A,B}", kind: "update", set: []string{"A", "B"}},
		c51Op{name: "routes{}", kind: "update", set: []string{}},
		// the same cluster referenced more than once by one route configuration
		c51Op{name: "routes{A,A2->A}", kind: "update", routes: []c51Route{{Prefix: "/A/", Clusters: []string{"A"}}, {Prefix: "/A2/", Clusters: []string{"A"}}}},
		c51Op{name: "routes{A->[A,A],B}", kind: "update", routes: []c51Route{{Prefix: "/A/", Clusters: []string{"A", "A"}}, {Prefix: "/B/", Clusters: []string{"B"}}}},
		c51Op{name: "resource-error", kind: "error"},
		c51Op{name: "advance(1m)", kind: "advance"},
	)
	return ops
}

const c51MaxInFlight = 3

// c51FirstWRR replaces the random weighted picker (seam rinternal.NewWRR): it
// always returns the first cluster added, so that a route listing a cluster
// twice is deterministic. It is stateless, hence safe to install once for all
// concurrently running histories.
type c51FirstWRR struct{ first any }

func (w *c51FirstWRR) Add(item any, _ int64) {
	if w.first == nil {
		w.first = item
	}
}
func (w *c51FirstWRR) Next() any { return w.first }

func c51InstallWRR() (restore func()) {
	saved := rinternal.NewWRR
	rinternal.NewWRR = func() wrr.WRR { return &c51FirstWRR{} }
	return func() { rinternal.NewWRR = saved }
}

func (w *c51World) apply(op c51Op) (applicable bool) {
	switch op.kind {
	case "update":
		if op.routes != nil {
			w.deliverRoutes(op.name, op.routes)
		} else {
			w.deliver(op.set)
		}
		w.client.pump()
		w.obs = "route configuration update"
	case "error":
		if !w.haveCfg || w.errState {
			return false
		}
		w.resourceError()
		w.client.pump()
		w.obs = "resource error"
	case "select":
		p := w.lastPush()
		if p == nil || len(w.rpcs) >= c51MaxInFlight {
			return false
		}
		if p.sel == nil {
			// update without a config selector (resource error): the channel has
			// no route for new RPCs and fails them
			if !w.errState {
				w.fail("no-selector", "%s: the latest update carries no config selector although a route configuration is in force", op.name)
			}
			w.obs = "select: channel in error state, RPC fails"
			break
		}
		method := "/" + op.cluster + "/m"
		cfg, err := p.sel.SelectConfig(iresolver.RPCInfo{Context: context.Background(), Method: method})
		want, routed := w.expect(method)
		if err != nil {
			if routed {
				w.fail("select-failed", "%s: SelectConfig failed although the current route configuration routes it to %s: %v", op.name, want, err)
			}
			w.obs = "select: no route, RPC fails"
			break
		}
		got := clustermanager.PickedCluster(cfg.Context)
		if !routed || got != want {
			w.fail("select-wrong-cluster", "%s: the config selector of the latest update routed the RPC to %q; the current route configuration (%s) sends it to %q (routed=%v)", op.name, got, w.routeName, want, routed)
		}
		if !c51Has(p.children, got) {
			w.fail("rpc-routed-to-cluster-not-in-config", "%s: RPC routed to %q, which is not a child of the service config delivered with that selector (%v)", op.name, got, p.children)
		}
		rpc := &c51RPC{cluster: got, cfg: cfg, sel: p.sel}
		if il, ok := cfg.Interceptor.(*interceptorList); ok && len(il.interceptors) == 1 {
			rpc.icpt, _ = il.interceptors[0].(*c51Interceptor)
		}
		if rpc.icpt == nil {
			w.fail("harness", "%s: RPC config does not carry the recording interceptor", op.name)
		}
		if cfg.OnCommitted == nil {
			w.fail("no-commit-hook", "%s: SelectConfig returned no OnCommitted hook", op.name)
		}
		w.mu.Lock()
		rpc.id = w.nextID
		w.nextID++
		w.rpcs = append(w.rpcs, rpc)
		w.mu.Unlock()
		w.client.pump()
		w.obs = "select: RPC routed"
	case "commit":
		if op.idx >= len(w.rpcs) {
			return false
		}
		w.mu.Lock()
		rpc := w.rpcs[op.idx]
		w.rpcs = append(append([]*c51RPC(nil), w.rpcs[:op.idx]...), w.rpcs[op.idx+1:]...)
		stillUsed := c51Has(w.routes, rpc.cluster)
		for _, o := range w.rpcs {
			if o.cluster == rpc.cluster {
				stillUsed = true
			}
		}
		w.mu.Unlock()
		if rpc.cfg.OnCommitted != nil {
			rpc.cfg.OnCommitted()
		}
		w.client.pump()
		after1 := w.quiescentState()
		n1 := w.npushes()
		// second call of the same hook: must change nothing
		if rpc.cfg.OnCommitted != nil {
			rpc.cfg.OnCommitted()
		}
		w.client.pump()
		after2 := w.quiescentState()
		if n2 := w.npushes(); after1 != after2 || n2 != n1 {
			w.fail("commit-hook-not-idempotent", "calling the OnCommitted hook of RPC #%d (%s) a second time changed the resolver: after first call %s (%d pushes), after second call %s (%d pushes)", rpc.id, rpc.cluster, after1, n1, after2, n2)
		}
		if stillUsed {
			w.obs = "commit: cluster still referenced"
		} else {
			w.obs = "commit: last reference to a removed cluster"
		}
	case "advance":
		time.Sleep(time.Minute)
		w.client.pump()
		w.obs = "time advances"
	}
	return true
}

// quiescentState renders everything property-relevant: ledger, latest pushed
// children, private reference counts, interceptor liveness per in-flight RPC.
func (w *c51World) quiescentState() string {
	w.mu.Lock()
	defer w.mu.Unlock()
	var sb strings.Builder
	if !w.haveCfg {
		sb.WriteString("routes=<none>")
	} else {
		fmt.Fprintf(&sb, "routes=%s%v", w.routeName, w.routes)
	}
	if w.errState {
		sb.WriteString(" ERROR-STATE")
	}
	var cur iresolver.ConfigSelector
	if n := len(w.pushes); n > 0 {
		fmt.Fprintf(&sb, " children=%v", w.pushes[n-1].children)
		cur = w.pushes[n-1].sel
		kind, targets := c51SelectorTargets(cur)
		fmt.Fprintf(&sb, " selector=%s%v", kind, targets)
	} else {
		sb.WriteString(" children=<no push>")
	}
	// selector generations: dense rank by first appearance among in-flight RPCs, current selector = "cur"
	rank := map[iresolver.ConfigSelector]int{}
	sb.WriteString(" rpcs=[")
	for i, rpc := range w.rpcs {
		if i > 0 {
			sb.WriteByte(' ')
		}
		g := "cur"
		if rpc.sel != cur {
			if _, ok := rank[rpc.sel]; !ok {
				rank[rpc.sel] = len(rank)
			}
			g = fmt.Sprintf("old%d", rank[rpc.sel])
		}
		closed := -1
		if rpc.icpt != nil {
			closed = rpc.icpt.closed()
		}
		fmt.Fprintf(&sb, "%s/%s/icptclosed=%d", rpc.cluster, g, closed)
	}
	sb.WriteString("]")
	fmt.Fprintf(&sb, " refs={%s}", w.refs())
	open := 0
	for _, i := range w.icpts {
		if i.closed() == 0 {
			open++
		}
	}
	fmt.Fprintf(&sb, " open_interceptors=%d", open)
	return sb.String()
}

// check: the quiescent-state clauses of the property.
func (w *c51World) check(after string) {
	w.mu.Lock()
	defer w.mu.Unlock()
	if len(w.pushes) == 0 {
		if w.haveCfg {
			w.failLocked("no-push", "after %s: a route configuration was delivered and resolved but no service config was pushed", after)
		}
		return
	}
	last := w.pushes[len(w.pushes)-1]
	children := last.children
	active := map[string]*clusterInfo{}
	for name, ci := range w.r.activeClusters {
		active[name] = ci
	}
	for name, ci := range w.r.activePlugins {
		active[name] = ci
	}
	w.refs() // records entries currently at count 0 (zeroSeen)
	// (B) the latest update's selector belongs to the latest route
	// configuration and routes only into that update's service config
	kind, targets := c51SelectorTargets(last.sel)
	if w.errState {
		if kind == "routes" {
			w.failLocked("stale-selector", "after %s: the resource is in error (removed) but the latest update carries a routing config selector (targets %v)", after, targets)
		}
	} else if kind != "routes" || fmt.Sprint(targets) != fmt.Sprint(w.routes) {
		w.failLocked("stale-selector", "after %s: the latest update carries config selector %s%v; the latest route configuration (%s) routes to %v", after, kind, targets, w.routeName, w.routes)
	}
	for _, tg := range targets {
		if !c51Has(children, tg) {
			w.failLocked("selector-routes-outside-its-service-config", "after %s: the latest update has service config children %v and a config selector that routes RPCs to %s", after, children, tg)
		}
	}
	need := map[string]string{}
	for _, c := range w.routes {
		need[c] = "named by the current route configuration"
	}
	for _, rpc := range w.rpcs {
		if w.errState {
			// resource removed: the channel is deliberately given an empty
			// configuration at once (see the assumptions); nothing is required
			need[rpc.cluster] = ""
			continue
		}
		// (S) at quiescence
		if !c51Has(children, rpc.cluster) {
			w.failLocked("cluster-dropped-while-rpc-uncommitted", "after %s: latest service config has children %v while RPC #%d routed to %s is selected and not yet committed", after, children, rpc.id, rpc.cluster)
		}
		// interceptor alive
		if rpc.icpt != nil && rpc.icpt.closed() > 0 {
			w.failLocked("interceptor-closed-while-rpc-uncommitted", "after %s: the interceptor of RPC #%d (%s) was closed before the RPC was committed", after, rpc.id, rpc.cluster)
		}
		need[rpc.cluster] = fmt.Sprintf("RPC #%d uncommitted", rpc.id)
	}
	for c, why := range need {
		if why != "" && !c51Has(children, c) {
			w.failLocked("needed-cluster-missing", "after %s: latest service config has children %v, missing %s (%s)", after, children, c, why)
		}
	}
	// (D) removed and no longer referenced => dropped
	for _, c := range children {
		if _, ok := need[c]; !ok {
			key := "removed-cluster-not-dropped"
			if ci := active[c]; ci != nil && w.zeroSeen[ci] {
				// same clause, own class: the undropped child is an entry that
				// was re-used after its count had reached 0 (see zeroSeen)
				key = "removed-cluster-not-dropped/entry-reused-after-zero"
			}
			w.failLocked(key, "after %s: latest service config still has child %s although the route configuration (%v) does not name it and no uncommitted RPC is routed to it (in flight: %d)", after, c, w.routes, len(w.rpcs))
		}
	}
	// reference-count ledger: the current config selector holds one reference,
	// each uncommitted RPC one more
	want := map[string]int32{}
	for _, c := range w.routes {
		want[c]++
	}
	for _, rpc := range w.rpcs {
		want[rpc.cluster]++
	}
	for name, ci := range active {
		if got := ci.refCount.Load(); got != want[name] {
			w.failLocked("refcount-ledger", "after %s: clusterInfo.refCount[%s]=%d, ledger (1 for the current config selector + 1 per uncommitted RPC) = %d", after, name, got, want[name])
		}
	}
	for name, n := range want {
		if _, ok := active[name]; !ok && n > 0 {
			w.failLocked("refcount-ledger", "after %s: %s has %d references in the ledger but is not in activeClusters/activePlugins", after, name, n)
		}
	}
}

func c51Run(t *testing.T, bc *bootstrap.Config, ops []c51Op, hist []int) (out seqx.Outcome) {
	synctest.Test(t, func(*testing.T) {
		w, err := c51NewWorld(bc)
		if err != nil {
			out = seqx.Outcome{Key: "build-error", Terminal: true, Fails: []seqx.Fail{{Prop: c51P, Key: "harness", Desc: "Build: " + err.Error()}}}
			return
		}
		defer func() {
			if p := recover(); p != nil {
				w.fail("panic", "panic: %v", p)
				out = seqx.Outcome{Key: "panic " + fmt.Sprint(hist), Terminal: true, Fails: w.fails, Obs: "panic"}
			}
			func() {
				defer func() { recover() }()
				w.close()
			}()
		}()
		for i, h := range hist {
			w.obs = ""
			if !w.apply(ops[h]) {
				if i == len(hist)-1 {
					out = seqx.Outcome{Skip: true}
					return
				}
				w.fail("harness-nondeterminism", "event %s inapplicable in the middle of a history", ops[h].name)
			}
			w.check(ops[h].name)
		}
		if len(hist) == 0 {
			w.check("start")
		}
		out = seqx.Outcome{Key: w.quiescentState(), Fails: w.fails, Obs: w.obs}
	})
	return out
}

func TestVerif_C51_XDSResolver(t *testing.T) {
	const P = c51P
	r := vk.Start(t, "c51_xdsresolver", "model_checking", P)
	defer r.Finish()
	r.Rule(P, "breadth-first over ALL event histories up to the depth bound, each applied to a fresh real xDS resolver (production Build, real dependency manager) inside a synctest bubble, run to quiescence after every event. Two alphabets. 'clusters': route configuration update to plain clusters {A} | {B} | {A,B} | {} (one prefix route /X/ per cluster) | two routes /A/ and /A2/ both to cluster A | a route /A/ whose weighted clusters list A twice plus /B/ -> B; select an RPC on /A or /B; 'plugins': route configuration update to cluster-specifier-plugin routes {pA} | {pB} | {pA,pB}, to plain cluster {A}, to {}; select an RPC on /pA, /pB or /A. Both: Listener resource error (resource removed), commit the i-th uncommitted RPC by calling its OnCommitted hook TWICE (at most 3 uncommitted RPCs); RPCs are selected through the config selector delivered with the latest update. Checked at EVERY update the channel receives (service config + config selector pair) and at every quiescent point against a ledger (route table delivered last, uncommitted RPCs): (a) every uncommitted RPC's cluster/plugin is a child of the pushed config and at quiescence the children are exactly route targets + targets of uncommitted RPCs; (b) the selector delivered with an update routes only to children of that update's config, and at quiescence it is the selector of the latest route configuration (none/erroring after a resource error) and routes every selected RPC as that route table says; (c) clusterInfo.refCount (clusters and plugins) == 1 per current selector + 1 per uncommitted RPC; second call of a commit hook changes nothing. A state = ledger + children and selector targets of the latest update + private refCounts + per-RPC selector generation and interceptor liveness; distinct states are the non-trivial cases")
	r.Assume(P, "events are serialized (one at a time, run to quiescence): the interleavings of SelectConfig, OnCommitted and updates inside the resolver are explored by leg c51_resolver_sched, not here; RPCs are selected through the config selector of the latest push (the channel swaps selectors before the resolver stops the old one)")
	r.Assume(P, "scripted: xDS client (decoded Listener/Cluster/Endpoints resources delivered directly to the dependency manager's watchers; every cluster resolves; cluster specifier plugins appear as the decoded RouteConfigUpdate.ClusterSpecifierPlugins entry a stub plugin would produce), the weighted-cluster picker (seam rinternal.NewWRR: always the first listed cluster) and the channel (recording ClientConn; the cluster_manager LB policy and the real channel's commit logic in stream.go are not running)")
	r.Assume(P, "resource error: when the Listener resource is removed the resolver deliberately gives the channel an empty service config and no routing selector at once, even with uncommitted RPCs (the repository's TestResolverRemovedWithRPCs asserts this); clause (a)'s 'stays until committed' is therefore judged for route-configuration changes only and suspended while the resource is in error; what IS judged in that state: no routing selector is delivered, no stale children without uncommitted RPCs, refCount ledger, and everything again after a new route configuration arrives")

	contents, err := bootstrap.NewContentsForTesting(bootstrap.ConfigOptionsForTesting{
		Servers: []byte(`[{"server_uri": "passthrough:///verif", "channel_creds": [{"type": "insecure"}]}]`),
		Node:    []byte(`{"id": "verif-node"}`),
	})
	if err != nil {
		r.EngineError("bootstrap contents: %v", err)
		return
	}
	bc, err := bootstrap.NewConfigFromContents(contents)
	if err != nil {
		r.EngineError("bootstrap config: %v", err)
		return
	}
	defer c51InstallWRR()()
	for _, scenario := range []string{"clusters", "plugins"} {
		ops := c51Ops(scenario)
		names := make([]string, len(ops))
		for i, o := range ops {
			names[i] = o.name
		}
		seqx.BFS(r, []string{P}, seqx.Config{
			Name: "xdsresolver-" + scenario, Ops: names, MaxDepth: r.Pick(6, 8), Parallel: 16,
			Congruence: r.Thorough(), CongruenceMax: 200, MinStates: 30,
			Run: func(hist []int) seqx.Outcome { return c51Run(t, bc, ops, hist) },
		})
	}
}
