//go:build verif

package clusterimpl

// C38 (e): circuit breaking and drops across CONFIG HISTORIES on the real
// clusterimpl balancer (engine E2, seqx BFS).
//
// A history is a sequence over {cluster update with max_requests unset/1/2/3,
// drop config change, EDS service name change (swaps the request counter),
// child publishes READY / CONNECTING, child armed to publish READY / CONNECTING inline while the balancer
// handles the next update (one-shot; otherwise the child is silent on updates), pick with the first / last value of the random source, finish the
// oldest / newest admitted RPC}. Every history is applied to a fresh real
// balancer (real gracefulswitch child wrapper, a stub child policy that only
// publishes when told, a recording parent ClientConn).
//
// Oracle (from the property text), evaluated after EVERY operation with the
// picker the channel currently holds (the last one the balancer published):
//   - for every value of the random source a pick is dropped with probability
//     min(num/den,1) while the child is READY and never otherwise;
//   - a pick that is not dropped is admitted iff fewer than the CURRENT
//     max_requests RPCs are in flight on the current (cluster, EDS service)
//     counter (a limit change takes effect for the next pick);
//   - the real counters always equal the ledger of admitted, unfinished RPCs,
//     and read 0 after all admitted RPCs finish.
// The check after each operation is done with probe picks (one per value of
// the random source) whose admission is finished immediately, so a stale
// picker is detected at the operation that made it stale.

import (
	"context"
	"errors"
	"fmt"
	"strings"
	"sync/atomic"
	"testing"

	"google.golang.org/grpc/balancer"
	"google.golang.org/grpc/codes"
	"google.golang.org/grpc/connectivity"
	estats "google.golang.org/grpc/experimental/stats"
	internalserviceconfig "google.golang.org/grpc/internal/serviceconfig"
	"google.golang.org/grpc/internal/verif/seqx"
	"google.golang.org/grpc/internal/verif/vk"
	"google.golang.org/grpc/internal/xds/bootstrap"
	"google.golang.org/grpc/internal/xds/clients/lrsclient"
	gxdsclient "google.golang.org/grpc/internal/xds/clients/xdsclient"
	"google.golang.org/grpc/internal/xds/xdsclient"
	"google.golang.org/grpc/internal/xds/xdsclient/xdsresource"
	"google.golang.org/grpc/resolver"
	"google.golang.org/grpc/status"
)

// ---- environment stubs ----

type c38eXDS struct{}

func (c38eXDS) WatchResource(string, string, gxdsclient.ResourceWatcher) func() { return func() {} }
func (c38eXDS) ReportLoad(*bootstrap.ServerConfig) (*lrsclient.LoadStore, func(context.Context)) {
	return nil, func(context.Context) {}
}
func (c38eXDS) BootstrapConfig() *bootstrap.Config { return nil }

// c38eCC is the parent ClientConn: it keeps the picker the channel holds.
type c38eCC struct {
	balancer.ClientConn // nil: only the methods below are used
	state               balancer.State
	published           int
}

func (c *c38eCC) UpdateState(s balancer.State)          { c.state = s; c.published++ }
func (c *c38eCC) ResolveNow(resolver.ResolveNowOptions) {}
func (c *c38eCC) Target() string                        { return "c38e" }
func (c *c38eCC) MetricsRecorder() estats.MetricsRecorder {
	return nil
}
func (c *c38eCC) NewSubConn([]resolver.Address, balancer.NewSubConnOptions) (balancer.SubConn, error) {
	return nil, errors.New("c38e: no SubConns in this harness")
}
func (c *c38eCC) RemoveSubConn(balancer.SubConn)                       {}
func (c *c38eCC) UpdateAddresses(balancer.SubConn, []resolver.Address) {}

// c38eCtl is the per-history control block of the stub child policy; it
// travels to the child in the resolver-state attributes.
type c38eCtl struct {
	child *c38eChildBal
	armed *balancer.State // one-shot: the child publishes this inline while the parent handles the next update
}

type c38eCtlKey struct{}

const c38eChildName = "c38e_stub_child"

type c38eChildBuilder struct{}

func (c38eChildBuilder) Name() string { return c38eChildName }
func (c38eChildBuilder) Build(cc balancer.ClientConn, _ balancer.BuildOptions) balancer.Balancer {
	return &c38eChildBal{cc: cc}
}

type c38eChildBal struct {
	cc     balancer.ClientConn
	closed bool
}

func (b *c38eChildBal) UpdateClientConnState(s balancer.ClientConnState) error {
	ctl, _ := s.ResolverState.Attributes.Value(c38eCtlKey{}).(*c38eCtl)
	if ctl == nil {
		return errors.New("c38e: control block missing")
	}
	ctl.child = b
	if st := ctl.armed; st != nil {
		ctl.armed = nil
		b.cc.UpdateState(*st) // inline, while the parent is handling the update
	}
	return nil
}
func (b *c38eChildBal) ResolverError(error)                                        {}
func (b *c38eChildBal) UpdateSubConnState(balancer.SubConn, balancer.SubConnState) {}
func (b *c38eChildBal) Close()                                                     { b.closed = true }
func (b *c38eChildBal) ExitIdle()                                                  {}

func init() { balancer.Register(c38eChildBuilder{}) }

type c38eChildPicker struct{ err error }

func (p c38eChildPicker) Pick(balancer.PickInfo) (balancer.PickResult, error) {
	return balancer.PickResult{}, p.err
}

func c38eChildState(k int) balancer.State {
	if k == 2 {
		return balancer.State{ConnectivityState: connectivity.Connecting, Picker: c38eChildPicker{err: balancer.ErrNoSubConnAvailable}}
	}
	return balancer.State{ConnectivityState: connectivity.Ready, Picker: c38eChildPicker{}}
}

// ---- alphabet ----

var c38eOps = []string{
	"pick(draw=first)",
	"pick(draw=last)",
	"finishOldest",
	"finishNewest",
	"cfg(max_requests=unset)",
	"cfg(max_requests=1)",
	"cfg(max_requests=2)",
	"cfg(max_requests=3)",
	"cfg(drop:next of none,50/100,150/100)",
	"cfg(edsService:toggle)",
	"childPublishes(READY)",
	"childPublishes(CONNECTING)",
	"childWillPublishDuringNextUpdate(READY)",
	"childWillPublishDuringNextUpdate(CONNECTING)",
}

const (
	c38eOpPickFirst = iota
	c38eOpPickLast
	c38eOpFinishOldest
	c38eOpFinishNewest
	c38eOpMaxUnset
	c38eOpMax1
	c38eOpMax2
	c38eOpMax3
	c38eOpDrop
	c38eOpSvc
	c38eOpReady
	c38eOpConnecting
	c38eOpArmReady
	c38eOpArmConnecting
)

type c38eFrac struct{ num, den uint32 }

var c38eDrops = []*c38eFrac{nil, {50, 100}, {150, 100}}

var c38eSeq atomic.Int64

type c38eOpen struct {
	svc  int
	done func(balancer.DoneInfo)
}

// c38eWorld is one fresh real balancer plus the reference ledger.
type c38eWorld struct {
	cluster string
	cc      *c38eCC
	b       *clusterImplBalancer
	ctl     *c38eCtl
	// reference model (what the configuration/child said last)
	hasCfg   bool
	max      int // 0 = unset (1024)
	drop     int // index into c38eDrops
	svc      int // 0/1
	child    int // 0 none, 1 READY, 2 CONNECTING
	armed    int // 0 none, 1 READY, 2 CONNECTING: what the child publishes inline during the next update
	open     []c38eOpen
	inflight [2]uint32
	fails    []seqx.Fail
	obs      string
}

func (w *c38eWorld) fail(key, f string, a ...any) {
	if len(w.fails) < 3 {
		w.fails = append(w.fails, seqx.Fail{Prop: c38cP, Key: key, Desc: fmt.Sprintf(f, a...)})
	}
}

func (w *c38eWorld) svcName(i int) string { return fmt.Sprintf("eds-%c", 'A'+i) }

func (w *c38eWorld) counter(i int) *xdsclient.ClusterRequestsCounter {
	return xdsclient.GetClusterRequestsCounter(w.cluster, w.svcName(i))
}

func (w *c38eWorld) curMax() uint32 {
	if w.max == 0 {
		return 1024 // circuit breaker thresholds absent: default of gRFC A32
	}
	return uint32(w.max)
}

func (w *c38eWorld) sendConfig() {
	cu := &xdsresource.ClusterUpdate{ClusterName: w.cluster, ClusterType: xdsresource.ClusterTypeEDS, EDSServiceName: w.svcName(w.svc)}
	if w.max != 0 {
		m := uint32(w.max)
		cu.MaxRequests = &m
	}
	eu := &xdsresource.EndpointsUpdate{}
	if d := c38eDrops[w.drop]; d != nil {
		eu.Drops = []xdsresource.OverloadDropConfig{{Category: "cat", Numerator: d.num, Denominator: d.den}}
	}
	st := resolver.State{Endpoints: []resolver.Endpoint{{Addresses: []resolver.Address{{Addr: "1.1.1.1:1"}}}}}
	st = xdsclient.SetClient(st, c38eXDS{})
	st.Attributes = st.Attributes.WithValue(c38eCtlKey{}, w.ctl)
	st = xdsresource.SetXDSConfig(st, &xdsresource.XDSConfig{Clusters: map[string]*xdsresource.ClusterResult{
		w.cluster: {Config: xdsresource.ClusterConfig{Cluster: cu, EndpointConfig: &xdsresource.EndpointConfig{EDSUpdate: eu}}},
	}})
	err := w.b.UpdateClientConnState(balancer.ClientConnState{
		ResolverState:  st,
		BalancerConfig: &LBConfig{Cluster: w.cluster, ChildPolicy: &internalserviceconfig.BalancerConfig{Name: c38eChildName}},
	})
	if err != nil {
		w.fail("update-error", "UpdateClientConnState failed: %v", err)
	}
	w.hasCfg = true
	if w.armed != 0 { // the child published inline while the update was handled
		w.child, w.armed = w.armed, 0
	}
}

// seam control for one pick
type c38eSeam struct {
	answer func(n int64) int64
	ranges []int64
}

func (s *c38eSeam) f(n int64) int64 {
	s.ranges = append(s.ranges, n)
	if n <= 0 {
		return 0
	}
	v := s.answer(n)
	if v < 0 || v >= n {
		v = n - 1
	}
	return v
}

const (
	c38eDropped = iota
	c38eAdmitted
	c38eCBRejected
	c38eChildErr
	c38eOther
)

// pickOnce picks on the channel's picker with the given seam answer.
func (w *c38eWorld) pickOnce(answer func(n int64) int64) (res int, done func(balancer.DoneInfo), ranges []int64, desc string) {
	saved := c38cWrrRandInt64n
	sm := &c38eSeam{answer: answer}
	c38cWrrRandInt64n = sm.f
	defer func() { c38cWrrRandInt64n = saved }()
	var pr balancer.PickResult
	var err error
	var pan any
	func() {
		defer func() { pan = recover() }()
		pr, err = w.cc.state.Picker.Pick(balancer.PickInfo{Ctx: context.Background(), FullMethodName: "/s/m"})
	}()
	switch {
	case pan != nil:
		return c38eOther, nil, sm.ranges, fmt.Sprintf("panic: %v", pan)
	case err == nil:
		if pr.Done == nil {
			return c38eOther, nil, sm.ranges, "admitted pick without Done callback"
		}
		return c38eAdmitted, pr.Done, sm.ranges, ""
	case status.Code(err) == codes.Unavailable && strings.Contains(err.Error(), "dropped"):
		return c38eDropped, nil, sm.ranges, ""
	case status.Code(err) == codes.Unavailable && strings.Contains(err.Error(), "max requests"):
		return c38eCBRejected, nil, sm.ranges, ""
	case errors.Is(err, balancer.ErrNoSubConnAvailable):
		return c38eChildErr, nil, sm.ranges, ""
	}
	return c38eOther, nil, sm.ranges, fmt.Sprintf("unexpected pick error: %v", err)
}

func (w *c38eWorld) cfgString() string {
	d := "none"
	if f := c38eDrops[w.drop]; f != nil {
		d = fmt.Sprintf("%d/%d", f.num, f.den)
	}
	m := "unset(1024)"
	if w.max != 0 {
		m = fmt.Sprint(w.max)
	}
	return fmt.Sprintf("current config: max_requests=%s drop=%s edsService=%s; child=%s; in flight on current counter=%d", m, d, w.svcName(w.svc), []string{"never published", "READY", "CONNECTING"}[w.child], w.inflight[w.svc])
}

// judge compares one non-dropped pick result with the ledger.
func (w *c38eWorld) judge(res int, what string) {
	below := w.inflight[w.svc] < w.curMax()
	switch res {
	case c38eAdmitted:
		if w.child != 1 {
			w.fail("admitted-while-child-not-ready", "%s: RPC admitted although the child policy is not READY (%s)", what, w.cfgString())
		} else if !below {
			w.fail("cb-over-admit", "%s: RPC admitted with %d RPCs already in flight, max_requests is %d (%s)", what, w.inflight[w.svc], w.curMax(), w.cfgString())
		}
	case c38eCBRejected:
		if below {
			w.fail("cb-over-reject", "%s: RPC rejected by circuit breaking with %d RPCs in flight < max_requests %d (%s)", what, w.inflight[w.svc], w.curMax(), w.cfgString())
		}
	case c38eChildErr:
		if w.child == 1 {
			w.fail("child-error-while-ready", "%s: pick failed with ErrNoSubConnAvailable although the child is READY (%s)", what, w.cfgString())
		}
	}
}

// probe evaluates the oracle on the channel's current picker for every value
// of the random source; admissions are finished immediately.
func (w *c38eWorld) probe(after string) {
	if w.cc.state.Picker == nil {
		return
	}
	n := int64(1)
	dropped := int64(0)
	for v := int64(0); v < n; v++ {
		vv := v
		res, done, ranges, desc := w.pickOnce(func(int64) int64 { return vv })
		if len(ranges) > 1 {
			w.fail("seam-shape", "after %s: one pick drew %d random numbers with a single drop category", after, len(ranges))
			return
		}
		if len(ranges) == 1 {
			if v == 0 {
				n = ranges[0]
				if n > 1<<20 {
					w.fail("seam-range", "after %s: random range %d", after, n)
					return
				}
			} else if ranges[0] != n {
				w.fail("seam-shape", "after %s: random range changed between picks (%d vs %d)", after, ranges[0], n)
				return
			}
		}
		what := fmt.Sprintf("after %s, probe pick with random draw %d of %d", after, v, n)
		switch res {
		case c38eOther:
			w.fail("pick-error", "%s: %s", what, desc)
			return
		case c38eDropped:
			dropped++
		default:
			w.judge(res, what)
			if done != nil {
				done(balancer.DoneInfo{})
			}
		}
	}
	// exact drop fraction: dropped/n == min(num/den,1) while READY, else 0
	var num, den int64 = 0, 1
	if f := c38eDrops[w.drop]; f != nil && w.child == 1 {
		num, den = int64(f.num), int64(f.den)
		if num > den {
			num = den
		}
	}
	if dropped*den != num*n {
		key := "drop-fraction"
		if w.child != 1 {
			key = "drop-while-child-not-ready"
		}
		w.fail(key, "after %s: %d of the %d values of the random source drop the RPC, statement demands the fraction %d/%d (%s)", after, dropped, n, num, den, w.cfgString())
	}
	w.checkCounters(after + " (probes finished)")
}

func (w *c38eWorld) checkCounters(after string) {
	for i := 0; i < 2; i++ {
		if got := c38cInflight(w.counter(i)); got != w.inflight[i] {
			w.fail("counter-mismatch", "after %s: counter of (%s,%s) reads %d, %d admitted RPCs are unfinished", after, w.cluster, w.svcName(i), got, w.inflight[i])
		}
	}
}

// apply executes one op; returns false if it is not applicable.
func (w *c38eWorld) apply(op int) bool {
	switch op {
	case c38eOpPickFirst, c38eOpPickLast:
		if w.cc.state.Picker == nil {
			return false
		}
		res, done, _, desc := w.pickOnce(func(n int64) int64 {
			if op == c38eOpPickFirst {
				return 0
			}
			return n - 1
		})
		what := c38eOps[op]
		switch res {
		case c38eOther:
			w.fail("pick-error", "%s: %s", what, desc)
		case c38eDropped:
			if w.child != 1 || c38eDrops[w.drop] == nil {
				w.fail("drop-unexpected", "%s: RPC dropped (%s)", what, w.cfgString())
			}
			w.obs = "dropped"
		default:
			if f := c38eDrops[w.drop]; f != nil && f.num >= f.den && w.child == 1 {
				w.fail("drop-missed", "%s: RPC not dropped although the drop fraction is 100%% and the child is READY (%s)", what, w.cfgString())
			}
			w.judge(res, what)
			if res == c38eAdmitted {
				w.open = append(w.open, c38eOpen{svc: w.svc, done: done})
				w.inflight[w.svc]++
				w.obs = "admitted"
			} else if res == c38eCBRejected {
				w.obs = "rejected-by-circuit-breaking"
			} else {
				w.obs = "child-not-ready"
			}
		}
	case c38eOpFinishOldest, c38eOpFinishNewest:
		if len(w.open) == 0 || (op == c38eOpFinishNewest && len(w.open) == 1) {
			return false // newest == oldest: same history as finishOldest
		}
		var o c38eOpen
		if op == c38eOpFinishOldest {
			o, w.open = w.open[0], w.open[1:]
		} else {
			o, w.open = w.open[len(w.open)-1], w.open[:len(w.open)-1]
		}
		o.done(balancer.DoneInfo{})
		w.inflight[o.svc]--
	case c38eOpMaxUnset, c38eOpMax1, c38eOpMax2, c38eOpMax3:
		w.max = op - c38eOpMaxUnset
		w.sendConfig()
	case c38eOpDrop:
		if !w.hasCfg {
			return false // the first configuration is sent by a max_requests op
		}
		w.drop = (w.drop + 1) % len(c38eDrops)
		w.sendConfig()
	case c38eOpSvc:
		if !w.hasCfg {
			return false
		}
		w.svc = 1 - w.svc
		w.sendConfig()
	case c38eOpReady, c38eOpConnecting:
		if w.ctl.child == nil {
			return false // the child policy exists only after the first configuration
		}
		w.child = 1 + op - c38eOpReady
		st := c38eChildState(w.child)
		w.ctl.child.cc.UpdateState(st)
	case c38eOpArmReady, c38eOpArmConnecting:
		a := 1 + op - c38eOpArmReady
		if w.armed == a {
			return false // already armed with this state
		}
		w.armed = a
		st := c38eChildState(a)
		w.ctl.armed = &st
	}
	return true
}

func (w *c38eWorld) key() string {
	var sb strings.Builder
	// reference model
	fmt.Fprintf(&sb, "m:%v/%d/%d/%d/%d/%v/", w.hasCfg, w.max, w.drop, w.svc, w.child, w.armed)
	for _, o := range w.open {
		sb.WriteByte(byte('A' + o.svc))
	}
	// real balancer
	b := w.b
	b.mu.Lock()
	ctrSvc := "-"
	for i := 0; i < 2; i++ {
		if b.requestCounter != nil && b.requestCounter == w.counter(i) {
			ctrSvc = w.svcName(i)
		}
	}
	fmt.Fprintf(&sb, "|b:%d/%s/%s/%v/%v/%v/%v/%v", b.requestCountMax, b.requestCounterService, ctrSvc, b.dropCategories, b.childState.ConnectivityState, b.childState.Picker != nil, b.pendingPickerUpdates, b.inhibitPickerUpdates)
	drops := b.drops
	b.mu.Unlock()
	fmt.Fprintf(&sb, "|n:%d/%d", c38cInflight(w.counter(0)), c38cInflight(w.counter(1)))
	// the picker the channel holds
	if p, ok := w.cc.state.Picker.(*picker); ok && p != nil {
		ps := "-"
		for i := 0; i < 2; i++ {
			if p.counter != nil && p.counter == w.counter(i) {
				ps = w.svcName(i)
			}
		}
		same := len(p.drops) == len(drops)
		for i := 0; same && i < len(drops); i++ {
			same = p.drops[i] == drops[i]
		}
		fmt.Fprintf(&sb, "|p:%d/%s/%v/%d/%v/%v", p.countMax, ps, same, len(p.drops), p.s.ConnectivityState, w.cc.state.ConnectivityState)
	} else {
		fmt.Fprintf(&sb, "|p:%T", w.cc.state.Picker)
	}
	return sb.String()
}

// c38eRun applies prelude+hist to a fresh real balancer.
func c38eRun(prelude, hist []int) seqx.Outcome {
	w := &c38eWorld{cluster: fmt.Sprintf("c38e-%d", c38eSeq.Add(1)), cc: &c38eCC{}, ctl: &c38eCtl{}}
	w.b = balancer.Get(Name).Build(w.cc, balancer.BuildOptions{}).(*clusterImplBalancer)
	defer w.b.Close()
	var out seqx.Outcome
	run := func(ops []int, isPrelude bool) bool {
		for i, op := range ops {
			w.obs = ""
			if !w.apply(op) {
				if isPrelude {
					w.fail("prelude", "prelude op %s not applicable", c38eOps[op])
					return false
				}
				if i == len(ops)-1 {
					out.Skip = true
				} else {
					// cannot happen: BFS only extends applicable histories
					out.Skip = true
				}
				return false
			}
			after := c38eOps[op]
			w.checkCounters(after)
			w.probe(after)
			if len(w.fails) > 0 {
				return false
			}
		}
		return true
	}
	ok := run(prelude, true) && run(hist, false)
	out.Fails = w.fails
	out.Obs = w.obs
	if out.Skip {
		return out
	}
	out.Key = w.key()
	if !ok {
		out.Terminal = true
		return out
	}
	// all admitted RPCs finish: the in-flight count returns to zero
	for _, o := range w.open {
		o.done(balancer.DoneInfo{})
		w.inflight[o.svc]--
	}
	for i := 0; i < 2; i++ {
		if got := c38cInflight(w.counter(i)); got != 0 {
			w.fail("counter-not-zero-at-end", "after every admitted RPC finished the counter of (%s,%s) reads %d", w.cluster, w.svcName(i), got)
		}
	}
	out.Fails = w.fails
	return out
}

func TestVerif_C38_CfgHistory(t *testing.T) {
	const P = c38cP
	r := vk.Start(t, "c38e_cfg_history", "exploration", P)
	defer r.Finish()
	r.Rule(P, "breadth-first over all histories of the 14-op alphabet {pick with first/last random draw, finish oldest/newest admitted RPC, cluster update with max_requests unset/1/2/3, drop config none->50/100->150/100, EDS service name toggle (swaps the request counter), child publishes READY/CONNECTING now, child armed to publish READY/CONNECTING inline during the next update} up to the depth bound, from a fresh balancer and from a warm one (configured, child READY); each history runs on a fresh real clusterimpl balancer with a stub child that only publishes when told; states are deduplicated on a key of the reference ledger, the balancer's private config/child/counter fields and the fields captured by the picker the channel holds; after every op the channel's picker is probed with every value of the random source; non-trivial = distinct states")
	r.Assume(P, "circuit-breaking counters are per (cluster, EDS service name) (gRFC A32); max_requests unset means 1024; a pick is admitted iff fewer than max_requests RPCs are in flight on the current counter; picks, completions, child and config updates are sequential")
	r.Assume(P, "the random source is the real selector's seam internal/wrr.randInt64n (reached with go:linkname), each of its N values equally likely")
	for _, sc := range []struct {
		name    string
		prelude []int
		depth   int
	}{
		{"cfg-history-fresh", nil, r.Pick(9, 11)},
		{"cfg-history-warm", []int{c38eOpMaxUnset, c38eOpReady}, r.Pick(8, 10)},
	} {
		prelude := sc.prelude
		seqx.BFS(r, []string{P}, seqx.Config{
			Name: sc.name, Ops: c38eOps, MaxDepth: sc.depth, Parallel: 1,
			Congruence: r.Thorough(), CongruenceMax: 100, MinStates: 50,
			Run: func(hist []int) seqx.Outcome { return c38eRun(prelude, hist) },
		})
	}
}
