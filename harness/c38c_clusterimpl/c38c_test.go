//go:build verif

package clusterimpl

// C38 (c) xDS drops and (d') circuit breaking, through the real picker.
//
// Drops: for every (numerator, denominator) of the menu the real
// dropRequestsPerMillion -> newDropper -> picker.Pick chain is executed once for
// EVERY answer of the random source. The random source is the real one used by
// the dropper's real wrr.NewRandom selector: the unexported seam
// internal/wrr.randInt64n, reached with go:linkname (nothing in /repo changes).
// The exact probability mass of "dropped" is accumulated in math/big and must
// equal min(numerator/denominator, 1); with a child picker that is not READY
// no RPC may be dropped and the random source must not matter.
//
// Circuit breaking: every sequence of {pick, pick whose child pick fails, finish
// oldest admitted RPC, finish newest admitted RPC} up to a depth, for
// max_requests in {0,1,2}, on a fresh real ClusterRequestsCounter, against an
// in-flight ledger.

import (
	"context"
	"errors"
	"fmt"
	"math/big"
	"reflect"
	"strings"
	"testing"
	_ "unsafe" // go:linkname

	"google.golang.org/grpc/balancer"
	"google.golang.org/grpc/codes"
	"google.golang.org/grpc/connectivity"
	"google.golang.org/grpc/internal/verif/vk"
	"google.golang.org/grpc/internal/xds/clients"
	"google.golang.org/grpc/internal/xds/xdsclient"
	"google.golang.org/grpc/status"
)

const c38cP = "C38"

//go:linkname c38cWrrRandInt64n google.golang.org/grpc/internal/wrr.randInt64n
var c38cWrrRandInt64n func(int64) int64

// c38cEnum enumerates every answer sequence of the random seam (depth-first).
type c38cEnum struct {
	script []int64
	args   []int64
	pos    int
	bad    string
}

func (e *c38cEnum) seam(n int64) int64 {
	if n <= 0 {
		e.bad = fmt.Sprintf("random seam asked for a draw from an empty range (n=%d)", n)
		n = 1
	}
	if e.pos == len(e.script) {
		e.script = append(e.script, 0)
	}
	if e.pos == len(e.args) {
		e.args = append(e.args, 0)
	}
	e.args[e.pos] = n
	d := e.script[e.pos]
	if d >= n {
		e.bad = fmt.Sprintf("random seam range changed between executions (draw %d, n=%d)", d, n)
		d = n - 1
	}
	e.pos++
	return d
}
func (e *c38cEnum) begin() { e.pos = 0 }
func (e *c38cEnum) next() bool {
	e.script = e.script[:e.pos]
	e.args = e.args[:e.pos]
	for len(e.script) > 0 {
		k := len(e.script) - 1
		e.script[k]++
		if e.script[k] < e.args[k] {
			return true
		}
		e.script = e.script[:k]
		e.args = e.args[:k]
	}
	return false
}

// c38cLoad records what the picker reports to the load store.
type c38cLoad struct {
	dropped  []string
	started  int
	finished int
}

func (l *c38cLoad) CallStarted(clients.Locality)                     { l.started++ }
func (l *c38cLoad) CallFinished(clients.Locality, error)             { l.finished++ }
func (l *c38cLoad) CallServerLoad(clients.Locality, string, float64) {}
func (l *c38cLoad) CallDropped(category string)                      { l.dropped = append(l.dropped, category) }

var c38cErrChild = errors.New("c38c: child picker says no")

type c38cChild struct {
	err   error
	calls int
	fail  bool // one-shot: next pick fails
}

func (c *c38cChild) Pick(balancer.PickInfo) (balancer.PickResult, error) {
	c.calls++
	if c.fail {
		c.fail = false
		return balancer.PickResult{}, c38cErrChild
	}
	if c.err != nil {
		return balancer.PickResult{}, c.err
	}
	return balancer.PickResult{}, nil
}

type c38cFrac struct {
	Num, Den uint32
}

// c38cRefDrop: the statement's drop probability of one category.
func c38cRefDrop(f c38cFrac) *big.Rat {
	p := new(big.Rat).SetFrac(new(big.Int).SetUint64(uint64(f.Num)), new(big.Int).SetUint64(uint64(f.Den)))
	if p.Cmp(big.NewRat(1, 1)) > 0 {
		p = big.NewRat(1, 1)
	}
	return p
}

type c38cDropResult struct {
	msg      string
	leaves   int64
	draws    int64
	maxRange int64
	capped   string
}

// c38cDropCheck runs one drop configuration (1 or 2 categories, in order) with
// the child in the given state through every answer of the random source.
func c38cDropCheck(fracs []c38cFrac, state connectivity.State) (res c38cDropResult) {
	saved := c38cWrrRandInt64n
	defer func() { c38cWrrRandInt64n = saved }()
	e := &c38cEnum{}
	c38cWrrRandInt64n = e.seam

	var drops []*dropper
	for i, f := range fracs {
		drops = append(drops, newDropper(DropConfig{Category: fmt.Sprintf("cat%d", i), RequestsPerMillion: dropRequestsPerMillion(f.Num, f.Den)}))
	}
	child := &c38cChild{}
	switch state {
	case connectivity.Connecting, connectivity.Idle:
		child.err = balancer.ErrNoSubConnAvailable
	case connectivity.TransientFailure:
		child.err = c38cErrChild
	}
	ls := &c38cLoad{}
	p := &picker{drops: drops, s: balancer.State{ConnectivityState: state, Picker: child}, loadStore: ls}
	desc := func() string {
		s := make([]string, len(fracs))
		for i, f := range fracs {
			s[i] = fmt.Sprintf("%d/%d", f.Num, f.Den)
		}
		return fmt.Sprintf("drop %s child=%v", strings.Join(s, ","), state)
	}

	// probability mass per outcome: "pass" or "drop:<category>"
	mass := map[string]*big.Rat{}
	uniform := true // all leaves have the same draw ranges: count leaves instead of summing fractions
	var shape []int64
	counts := map[string]int64{}
	for {
		e.begin()
		ls.dropped = ls.dropped[:0]
		child.calls = 0
		var pan any
		var err error
		func() {
			defer func() { pan = recover() }()
			_, err = p.Pick(balancer.PickInfo{Ctx: context.Background(), FullMethodName: "/s/m"})
		}()
		res.leaves++
		res.draws += int64(e.pos)
		if pan != nil {
			res.msg = fmt.Sprintf("%s: Pick panicked with draws %v: %v", desc(), e.script[:e.pos], pan)
			return
		}
		if e.bad != "" {
			res.msg = fmt.Sprintf("%s: %s", desc(), e.bad)
			return
		}
		for _, a := range e.args[:e.pos] {
			if a > res.maxRange {
				res.maxRange = a
			}
		}
		if res.maxRange > 1<<22 {
			// cannot be walked exhaustively in the time budget (the unchanged
			// code never needs more than 10^6 draws): give up on this
			// configuration and say so
			res.capped = fmt.Sprintf("%s: random range %d too large to enumerate", desc(), res.maxRange)
			return
		}
		var out string
		isDrop := err != nil && status.Code(err) == codes.Unavailable && strings.Contains(err.Error(), "dropped")
		switch {
		case isDrop:
			if len(ls.dropped) != 1 {
				res.msg = fmt.Sprintf("%s: draws %v: RPC dropped but load store saw drops %v", desc(), e.script[:e.pos], ls.dropped)
				return
			}
			if child.calls != 0 {
				res.msg = fmt.Sprintf("%s: draws %v: dropped RPC still reached the child picker", desc(), e.script[:e.pos])
				return
			}
			out = "drop:" + ls.dropped[0]
		default:
			if len(ls.dropped) != 0 {
				res.msg = fmt.Sprintf("%s: draws %v: drop %v reported but Pick returned err=%v", desc(), e.script[:e.pos], ls.dropped, err)
				return
			}
			if child.calls != 1 {
				res.msg = fmt.Sprintf("%s: draws %v: RPC not dropped but child picker consulted %d times", desc(), e.script[:e.pos], child.calls)
				return
			}
			if !errors.Is(err, child.err) {
				res.msg = fmt.Sprintf("%s: draws %v: Pick returned %v, child picker returned %v", desc(), e.script[:e.pos], err, child.err)
				return
			}
			out = "pass"
		}
		if state != connectivity.Ready && out != "pass" {
			res.msg = fmt.Sprintf("%s: draws %v: RPC dropped (%s) although the child policy is not READY", desc(), e.script[:e.pos], out)
			return
		}
		// Leaves reached after k draws have mass prod 1/args. Keep exact masses
		// per distinct shape of ranges (there are at most #categories+1 shapes).
		sh := e.args[:e.pos]
		if shape == nil {
			shape = append([]int64{}, sh...)
		}
		if uniform && (len(sh) != len(shape) || !c38cEqual(sh, shape)) {
			// switch to exact per-leaf accumulation from now on, converting counts so far
			uniform = false
			for k, c := range counts {
				m := big.NewRat(c, 1)
				for _, a := range shape {
					m.Mul(m, big.NewRat(1, a))
				}
				mass[k] = m
			}
		}
		if uniform {
			counts[out]++
		} else {
			m := big.NewRat(1, 1)
			for _, a := range sh {
				m.Mul(m, big.NewRat(1, a))
			}
			if mass[out] == nil {
				mass[out] = new(big.Rat)
			}
			mass[out].Add(mass[out], m)
		}
		if !e.next() {
			break
		}
	}
	if uniform {
		for k, c := range counts {
			m := big.NewRat(c, 1)
			for _, a := range shape {
				m.Mul(m, big.NewRat(1, a))
			}
			mass[k] = m
		}
	}
	// oracle
	survive := big.NewRat(1, 1)
	total := new(big.Rat)
	for i, f := range fracs {
		want := new(big.Rat)
		if state == connectivity.Ready {
			want.Mul(survive, c38cRefDrop(f))
			survive.Sub(survive, want)
		}
		got := mass[fmt.Sprintf("drop:cat%d", i)]
		if got == nil {
			got = new(big.Rat)
		}
		total.Add(total, got)
		if got.Cmp(want) != 0 {
			res.msg = fmt.Sprintf("%s: over every value of the random source, category %d (%d/%d) drops a fraction %s of RPCs, statement demands %s", desc(), i, f.Num, f.Den, got.RatString(), want.RatString())
			return
		}
	}
	got := mass["pass"]
	if got == nil {
		got = new(big.Rat)
	}
	if total.Add(total, got).Cmp(big.NewRat(1, 1)) != 0 {
		res.msg = fmt.Sprintf("%s: outcome probabilities sum to %s", desc(), total.RatString())
	}
	return
}

func c38cEqual(a, b []int64) bool {
	for i := range a {
		if a[i] != b[i] {
			return false
		}
	}
	return true
}

func TestVerif_C38_Drop(t *testing.T) {
	const P = c38cP
	r := vk.Start(t, "c38c_drop", "exploration", P)
	defer r.Finish()
	nums := []uint32{0, 1, 50, 100, 150}
	if r.Thorough() {
		nums = append(nums, 3, 99, 101, 9999, 10001, 333333, 999999, 1000000, 1000001, 4294967295)
	}
	dens := []uint32{100, 10000, 1000000}
	states := []connectivity.State{connectivity.Ready, connectivity.Connecting, connectivity.TransientFailure, connectivity.Idle}
	r.Rule(P, fmt.Sprintf("single category: numerator %v x denominator %v x child state {READY,CONNECTING,TRANSIENT_FAILURE,IDLE}; two categories in order: all pairs over {0,1,50,100,150}/100 (READY); each configuration goes through the real dropRequestsPerMillion/newDropper/picker.Pick once for EVERY answer of the real selector's random seam (up to 10^6 draws); non-trivial = READY configurations whose statement fraction is strictly between 0 and 1", nums, dens))

	if r.ReplayFile() != "" {
		var rp struct {
			Fracs []c38cFrac `json:"fracs"`
			State int        `json:"state"`
		}
		if err := r.LoadReplay(&rp); err != nil {
			r.EngineError("replay: %v", err)
			return
		}
		res := c38cDropCheck(rp.Fracs, connectivity.State(rp.State))
		r.Eval(P, 1)
		if res.msg != "" {
			r.Violation(P, "replay drop", res.msg, rp)
		}
		fmt.Println("replay:", res.msg, "executions", res.leaves)
		return
	}

	var evals, nontriv, leaves, draws, maxRange int64
	run := func(fracs []c38cFrac, st connectivity.State) {
		res := c38cDropCheck(fracs, st)
		evals++
		leaves += res.leaves
		draws += res.draws
		if res.maxRange > maxRange {
			maxRange = res.maxRange
		}
		ks := make([]string, len(fracs))
		interesting := false
		for i, f := range fracs {
			ks[i] = fmt.Sprintf("%d/%d", f.Num, f.Den)
			if f.Num > 0 && f.Num < f.Den {
				interesting = true
			}
		}
		if res.msg != "" {
			r.Violation(P, fmt.Sprintf("drop %s child=%v", strings.Join(ks, ","), st), res.msg, map[string]any{"fracs": fracs, "state": int(st)})
		}
		if res.capped != "" {
			r.Cap(P, res.capped)
			return
		}
		if st == connectivity.Ready {
			switch {
			case interesting:
				nontriv++
				r.Outcome(P, fmt.Sprintf("drop:ready:fraction-in-(0,1):%dcat", len(fracs)))
			case fracs[0].Num == 0:
				r.Outcome(P, "drop:ready:0%")
			case fracs[0].Num > fracs[0].Den:
				r.Outcome(P, "drop:ready:capped-at-100%")
			default:
				r.Outcome(P, "drop:ready:100%")
			}
		} else {
			r.Outcome(P, "drop:not-ready:never-dropped")
		}
	}
	i := 0
	for _, den := range dens {
		for _, num := range nums {
			for _, st := range states {
				if r.Mine(i) {
					run([]c38cFrac{{num, den}}, st)
				}
				i++
			}
		}
	}
	for _, a := range []uint32{0, 1, 50, 100, 150} {
		for _, b := range []uint32{0, 1, 50, 100, 150} {
			if r.Mine(i) {
				run([]c38cFrac{{a, 100}, {b, 100}}, connectivity.Ready)
			}
			i++
		}
	}
	r.Eval(P, evals)
	r.NontrivialN(P, nontriv)
	r.Set(P, "drop_executions", leaves)
	r.Set(P, "drop_draws", draws)
	r.Set(P, "drop_largest_draw_range", maxRange)
	r.Sample(P, map[string]any{"numerator": 150, "denominator": 100, "statement": "every RPC dropped (capped at 100%) while READY, none otherwise"})
	r.Sample(P, map[string]any{"numerator": 1, "denominator": 1000000, "statement": "exactly 1 of the 1000000 draws drops"})
	r.Assume(P, "the selector's random seam internal/wrr.randInt64n(N) (math/rand/v2.Int64N in production) returns each of 0..N-1 with equal probability; it is reached from this package with go:linkname")
	r.Assume(P, "several categories are applied in configuration order, each to the RPCs the previous ones let through (gRFC A28 / Envoy drop_overloads)")
}

// ---- circuit breaking through the picker ----

func c38cInflight(c *xdsclient.ClusterRequestsCounter) uint32 {
	return uint32(reflect.ValueOf(c).Elem().FieldByName("numRequests").Uint())
}

var c38cCBOps = []string{"pick", "pickChildFails", "doneOldest", "doneNewest"}

// c38cCBRun applies one op sequence; returns final-state class, whether the
// last op was applicable, or a failure text.
func c38cCBRun(max uint32, seq []int, viaRegistry bool, name string) (fail string, skip bool, admitted, rejected int) {
	var ctr *xdsclient.ClusterRequestsCounter
	if viaRegistry {
		ctr = xdsclient.GetClusterRequestsCounter(name, "svc")
	} else {
		ctr = &xdsclient.ClusterRequestsCounter{ClusterName: name}
	}
	if n := c38cInflight(ctr); n != 0 {
		return fmt.Sprintf("fresh counter starts at %d", n), false, 0, 0
	}
	child := &c38cChild{}
	ls := &c38cLoad{}
	p := &picker{s: balancer.State{ConnectivityState: connectivity.Ready, Picker: child}, loadStore: ls, counter: ctr, countMax: max}
	var open []func(balancer.DoneInfo) // admitted, unfinished RPCs (oldest first)
	hist := func(k int) string {
		s := make([]string, k+1)
		for i := 0; i <= k; i++ {
			s[i] = c38cCBOps[seq[i]]
		}
		return fmt.Sprintf("max_requests=%d ops=%s", max, strings.Join(s, " "))
	}
	for k, op := range seq {
		model := uint32(len(open))
		switch op {
		case 0, 1:
			child.fail = op == 1
			ls.dropped = ls.dropped[:0]
			pr, err := p.Pick(balancer.PickInfo{Ctx: context.Background(), FullMethodName: "/s/m"})
			wantAdmit := model < max
			isCB := err != nil && status.Code(err) == codes.Unavailable && !errors.Is(err, c38cErrChild)
			switch {
			case isCB && wantAdmit:
				return fmt.Sprintf("%s: pick rejected by circuit breaking with %d in flight < max_requests", hist(k), model), false, admitted, rejected
			case !isCB && !wantAdmit:
				return fmt.Sprintf("%s: pick admitted with %d RPCs already in flight (max_requests=%d)", hist(k), model, max), false, admitted, rejected
			}
			child.fail = false
			if isCB {
				rejected++
				if len(ls.dropped) != 1 || ls.dropped[0] != "" {
					return fmt.Sprintf("%s: circuit-breaking rejection reported to the load store as %q", hist(k), ls.dropped), false, admitted, rejected
				}
			} else if op == 1 {
				if !errors.Is(err, c38cErrChild) {
					return fmt.Sprintf("%s: failing child pick returned err=%v", hist(k), err), false, admitted, rejected
				}
				// a failed pick is not an admitted RPC: nothing in flight
			} else {
				if err != nil {
					return fmt.Sprintf("%s: pick failed: %v", hist(k), err), false, admitted, rejected
				}
				if pr.Done == nil {
					return fmt.Sprintf("%s: admitted pick has no Done callback, the slot can never be released", hist(k)), false, admitted, rejected
				}
				admitted++
				open = append(open, pr.Done)
			}
		case 2, 3:
			if len(open) == 0 {
				// nothing to finish: this sequence is the same history as the
				// shorter one without this op (enumerated separately)
				return "", true, admitted, rejected
			}
			var d func(balancer.DoneInfo)
			if op == 2 {
				d, open = open[0], open[1:]
			} else {
				d, open = open[len(open)-1], open[:len(open)-1]
			}
			d(balancer.DoneInfo{})
		}
		if got := c38cInflight(ctr); got != uint32(len(open)) {
			return fmt.Sprintf("%s: counter says %d in flight, %d admitted RPCs are unfinished", hist(k), got, len(open)), false, admitted, rejected
		}
		if uint32(len(open)) > max {
			return fmt.Sprintf("%s: %d RPCs in flight > max_requests", hist(k), len(open)), false, admitted, rejected
		}
	}
	// finish everything: the count must return to zero
	for _, d := range open {
		d(balancer.DoneInfo{})
	}
	if got := c38cInflight(ctr); got != 0 {
		return fmt.Sprintf("%s: after all admitted RPCs finished the counter is %d, not 0", hist(len(seq)-1), got), false, admitted, rejected
	}
	return "", skip, admitted, rejected
}

func TestVerif_C38_PickerCB(t *testing.T) {
	const P = c38cP
	r := vk.Start(t, "c38c_picker_cb", "exploration", P)
	defer r.Finish()
	depth := r.Pick(7, 9)
	r.Rule(P, fmt.Sprintf("every sequence of length 1..%d over {pick, pick whose child pick fails, finish oldest admitted RPC, finish newest admitted RPC} (sequences containing a finish with nothing in flight are skipped: same history as a shorter sequence) for max_requests in {0,1,2} through the real picker.Pick + real ClusterRequestsCounter (fresh per sequence; max_requests=1 also via the global registry), compared after every op with an in-flight ledger; at the end all admitted RPCs are finished and the counter must read 0; non-trivial = sequences with at least one admitted and one rejected pick", depth))
	if r.ReplayFile() != "" {
		var rp struct {
			Max uint32 `json:"max"`
			Seq []int  `json:"seq"`
		}
		if err := r.LoadReplay(&rp); err != nil {
			r.EngineError("replay: %v", err)
			return
		}
		f, _, _, _ := c38cCBRun(rp.Max, rp.Seq, false, "replay")
		r.Eval(P, 1)
		if f != "" {
			r.Violation(P, "replay cb", f, rp)
		}
		fmt.Println("replay:", f)
		return
	}
	var evals, nontriv int64
	id := 0
	for _, max := range []uint32{0, 1, 2} {
		for l := 1; l <= depth; l++ {
			total := 1
			for i := 0; i < l; i++ {
				total *= len(c38cCBOps)
			}
			seq := make([]int, l)
			for x := 0; x < total; x++ {
				id++
				if !r.Mine(id) {
					continue
				}
				y := x
				for i := l - 1; i >= 0; i-- {
					seq[i] = y % len(c38cCBOps)
					y /= len(c38cCBOps)
				}
				via := max == 1 && l <= 4
				f, skip, adm, rej := c38cCBRun(max, seq, via, fmt.Sprintf("c38c-%d", id))
				if skip && f == "" {
					continue
				}
				evals++
				if f != "" {
					// key: the failing prefix is inside the text before ':'; use it as identity
					key := f
					if i := strings.Index(f, ": "); i > 0 {
						key = f[:i]
					}
					r.Violation(P, "cb "+key, f, map[string]any{"max": max, "seq": append([]int(nil), seq...)})
					continue
				}
				switch {
				case adm > 0 && rej > 0:
					nontriv++
					r.Outcome(P, "cb:admitted+rejected")
				case adm > 0:
					r.Outcome(P, "cb:admitted-only")
				case rej > 0:
					r.Outcome(P, "cb:rejected-only")
				default:
					r.Outcome(P, "cb:no-pick-admitted-or-rejected")
				}
			}
		}
	}
	r.Eval(P, evals)
	r.NontrivialN(P, nontriv)
	r.Sample(P, map[string]any{"max_requests": 1, "ops": "pick pick doneOldest pick", "statement": "admitted, rejected, (finish), admitted; counter 1,1,0,1 then 0 after finishing"})
	r.Assume(P, "picks and completions are sequential (the statement is about sequential picks; races may exceed the limit by design); Done is called once per admitted RPC")
	r.Assume(P, "a pick is admitted iff fewer than max_requests RPCs are in flight (the harness also flags a rejection below the limit)")
}
