//go:build verif

package clusterimpl

// C38 (d): xdsclient.ClusterRequestsCounter, driven directly through its exported
// API (the in-flight count is read from the unexported field by reflection; this
// leg lives in the clusterimpl test binary only to save a third build). Every sequence of start/end operations up to
// a depth, for max_requests in {0,1,2} (and with the limit varying per call),
// on a fresh counter, against an in-flight ledger written from the statement:
// a start is admitted iff fewer than max requests are in flight; never more
// than max in flight (for a fixed max); the count is the number of admitted,
// unfinished requests and returns to zero when all of them have ended.

import (
	"fmt"
	"strings"
	"testing"

	"google.golang.org/grpc/internal/verif/vk"
	"google.golang.org/grpc/internal/xds/xdsclient"
)

const c38dP = "C38"

// ops: 0..2 = StartRequest(max=op) ; 3 = EndRequest of one admitted request
var c38dOpNames = []string{"start(max=0)", "start(max=1)", "start(max=2)", "end"}

func c38dRun(alphabet []int, seq []int, ctr *xdsclient.ClusterRequestsCounter) (fail string, skip bool, adm, rej int) {
	if n := c38cInflight(ctr); n != 0 {
		return fmt.Sprintf("fresh counter starts at %d", n), false, 0, 0
	}
	inflight := uint32(0)
	hist := func(k int) string {
		s := make([]string, k+1)
		for i := 0; i <= k; i++ {
			s[i] = c38dOpNames[alphabet[seq[i]]]
		}
		return "ops=" + strings.Join(s, " ")
	}
	fixedMax := -1
	for _, a := range alphabet {
		if a < 3 {
			if fixedMax == -1 {
				fixedMax = a
			} else {
				fixedMax = -2
			}
		}
	}
	for k, oi := range seq {
		op := alphabet[oi]
		if op == 3 {
			if inflight == 0 {
				// ending a request that was never admitted is not a legal history
				return "", true, adm, rej
			}
			ctr.EndRequest()
			inflight--
		} else {
			max := uint32(op)
			err := ctr.StartRequest(max)
			want := inflight < max
			if (err == nil) != want {
				if err == nil {
					return fmt.Sprintf("%s: start admitted with %d requests in flight and max_requests=%d", hist(k), inflight, max), false, adm, rej
				}
				return fmt.Sprintf("%s: start rejected (%v) with %d requests in flight < max_requests=%d", hist(k), err, inflight, max), false, adm, rej
			}
			if err == nil {
				inflight++
				adm++
			} else {
				rej++
			}
		}
		if got := c38cInflight(ctr); got != inflight {
			return fmt.Sprintf("%s: counter reads %d, %d admitted requests are unfinished", hist(k), got, inflight), false, adm, rej
		}
		if fixedMax >= 0 && inflight > uint32(fixedMax) {
			return fmt.Sprintf("%s: %d in flight > max_requests=%d", hist(k), inflight, fixedMax), false, adm, rej
		}
	}
	for ; inflight > 0; inflight-- {
		ctr.EndRequest()
	}
	if got := c38cInflight(ctr); got != 0 {
		return fmt.Sprintf("%s: after every admitted request ended the counter reads %d, not 0", hist(len(seq)-1), got), false, adm, rej
	}
	return "", skip, adm, rej
}

func TestVerif_C38_Counter(t *testing.T) {
	const P = c38dP
	r := vk.Start(t, "c38d_counter", "exploration", P)
	defer r.Finish()
	depth := r.Pick(8, 12)
	mixedDepth := r.Pick(8, 10)
	r.Rule(P, fmt.Sprintf("every sequence of length 1..%d over {start, end} for each fixed max_requests in {0,1,2}, and every sequence of length 1..%d over {start(max=0), start(max=1), start(max=2), end} (limit changing between calls), on a fresh ClusterRequestsCounter (sequences containing an end with nothing in flight are not legal histories and are skipped), compared with an in-flight ledger after every op; finally all admitted requests end and the counter must read 0; the registry GetClusterRequestsCounter is checked to hand out one counter per (cluster, service) key; non-trivial = sequences with at least one admitted and one rejected start", depth, mixedDepth))
	alphabets := [][]int{{0, 3}, {1, 3}, {2, 3}, {0, 1, 2, 3}}
	if r.ReplayFile() != "" {
		var rp struct {
			Alphabet int   `json:"alphabet"`
			Seq      []int `json:"seq"`
		}
		if err := r.LoadReplay(&rp); err != nil {
			r.EngineError("replay: %v", err)
			return
		}
		f, _, _, _ := c38dRun(alphabets[rp.Alphabet], rp.Seq, &xdsclient.ClusterRequestsCounter{ClusterName: "replay"})
		r.Eval(P, 1)
		if f != "" {
			r.Violation(P, "replay counter", f, rp)
		}
		fmt.Println("replay:", f)
		return
	}
	var evals, nontriv int64
	id := 0
	for ai, al := range alphabets {
		d := depth
		if len(al) == 4 {
			d = mixedDepth
		}
		for l := 1; l <= d; l++ {
			total := 1
			for i := 0; i < l; i++ {
				total *= len(al)
			}
			seq := make([]int, l)
			for x := 0; x < total; x++ {
				id++
				if !r.Mine(id) {
					continue
				}
				y := x
				for i := l - 1; i >= 0; i-- {
					seq[i] = y % len(al)
					y /= len(al)
				}
				var ctr *xdsclient.ClusterRequestsCounter
				if l <= 3 {
					// through the registry: a fresh key each time
					ctr = xdsclient.GetClusterRequestsCounter(fmt.Sprintf("c38d-%d", id), "svc")
					if xdsclient.GetClusterRequestsCounter(fmt.Sprintf("c38d-%d", id), "svc") != ctr {
						r.Violation(P, "registry same key", "GetClusterRequestsCounter returned two different counters for one (cluster, service) key", nil)
					}
					if xdsclient.GetClusterRequestsCounter(fmt.Sprintf("c38d-%d", id), "other") == ctr {
						r.Violation(P, "registry different key", "GetClusterRequestsCounter returned the same counter for two different (cluster, service) keys", nil)
					}
				} else {
					ctr = &xdsclient.ClusterRequestsCounter{ClusterName: "c38d"}
				}
				f, skip, adm, rej := c38dRun(al, seq, ctr)
				if skip && f == "" {
					continue
				}
				evals++
				if f != "" {
					key := f
					if i := strings.Index(f, ": "); i > 0 {
						key = f[:i]
					}
					r.Violation(P, fmt.Sprintf("counter alphabet=%d %s", ai, key), f, map[string]any{"alphabet": ai, "seq": append([]int(nil), seq...)})
					continue
				}
				switch {
				case adm > 0 && rej > 0:
					nontriv++
					r.Outcome(P, "counter:admitted+rejected")
				case adm > 0:
					r.Outcome(P, "counter:admitted-only")
				case rej > 0:
					r.Outcome(P, "counter:rejected-only")
				default:
					r.Outcome(P, "counter:nothing")
				}
			}
		}
	}
	r.Eval(P, evals)
	r.NontrivialN(P, nontriv)
	r.Sample(P, map[string]any{"max_requests": 2, "ops": "start start start end start", "statement": "admitted, admitted, rejected, (end), admitted; counter 1,2,2,1,2 then 0 after all end"})
	r.Assume(P, "operations are sequential; EndRequest is only called for a request that was admitted and has not ended")
}
