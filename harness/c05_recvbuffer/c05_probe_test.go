//go:build verif

package transport

import (
	"context"
	"fmt"
	"testing"
	"time"

	"golang.org/x/net/http2"
	"google.golang.org/grpc/codes"
	"google.golang.org/grpc/internal/verif/wire"
	"google.golang.org/grpc/mem"
	"google.golang.org/grpc/status"
)

// throw-away probe: two DATA(END_STREAM) frames on a server stream that is
// already streamDone but still in activeStreams (trailers blocked on flow control)
func TestVerif_C05_Probe(t *testing.T) {
	cconn, sconn := wire.Pipe()
	peer := wire.NewClientPeer(cconn)
	peer.AutoAckSettings = true
	peer.WriteSettings(http2.Setting{ID: http2.SettingInitialWindowSize, Val: 0})
	st, err := NewServerTransport(sconn, &ServerConfig{BufferPool: mem.DefaultBufferPool(), MaxStreams: 100})
	if err != nil {
		t.Fatal(err)
	}
	handlerDone := make(chan struct{})
	var ss *ServerStream
	ht := st.(*http2Server)
	dump := func(when string) {
		ht.mu.Lock()
		n := len(ht.activeStreams)
		ht.mu.Unlock()
		ss.buf.mu.Lock()
		fmt.Printf("%s: activeStreams=%d state=%v buf.err=%v backlog=%d chan=%d\n", when, n, ss.getState(), ss.buf.err, len(ss.buf.backlog), len(ss.buf.c))
		ss.buf.mu.Unlock()
	}
	go st.HandleStreams(context.Background(), func(s *ServerStream) {
		ss = s
		go func() {
			defer close(handlerDone)
			buf := mem.SliceBuffer(make([]byte, 10))
			err := s.Write([]byte{0, 0, 0, 0, 10}, mem.BufferSlice{buf}, &WriteOptions{})
			err2 := s.WriteStatus(status.New(codes.OK, ""))
			fmt.Printf("handler: write err=%v status err=%v state=%v\n", err, err2, s.getState())
		}()
	})
	peer.WriteHeaders(1, [][2]string{{":method", "POST"}, {":scheme", "http"}, {":path", "/s/m"}, {":authority", "x"}, {"content-type", "application/grpc"}, {"te", "trailers"}}, false)
	<-handlerDone
	time.Sleep(200 * time.Millisecond)
	dump("before")
	fmt.Printf("before: log=%s\n", peer.LogString())
	peer.WriteData(1, true, nil)
	time.Sleep(200 * time.Millisecond)
	dump("after first")
	fmt.Printf("after first END_STREAM: log=%s\n", peer.LogString())
	peer.WriteData(1, true, nil)
	time.Sleep(500 * time.Millisecond)
	dump("after second")
	fmt.Printf("after second END_STREAM (no crash): log=%s closed=%v\n", peer.LogString(), peer.Closed())
	st.Close(fmt.Errorf("probe done"))
	peer.Close()
}
