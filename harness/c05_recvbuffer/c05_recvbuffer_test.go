//go:build verif

package transport

// C05 (engine E2, seqx BFS): the real recvBuffer + recvBufferReader against a
// reference byte queue.
//
// recvBuffer.put (producer, transport reader goroutine) and the reader's
// Read/ReadMessageHeader (consumer, application goroutine) synchronise only
// through recvBuffer.mu and the 1-slot channel. To cover every interleaving at
// that granularity SEQUENTIALLY, the consumer's blocking read is split into its
// atomic steps:
//
//	take       = receive one recvMsg from b.get()       (what `case m := <-r.recv.get()` does)
//	finish(n)  = r.readAdditional(m, n)                  (calls b.load(), handles err, splits)
//	finishHdr  = r.readMessageHeaderAdditional(m, hdr)
//	readLast(n)= r.Read(n) while r.last != nil           (never touches the recvBuffer)
//
// and producer puts may happen between any two of them.
//
// Oracle (from the statement only): the concatenation of the bytes returned
// equals the concatenation of the payloads put before the first error, in
// order; the error is surfaced only after all of them and nothing after it.

import (
	"errors"
	"fmt"
	"io"
	"os"
	"strconv"
	"strings"
	"sync"
	"testing"

	"google.golang.org/grpc/internal/envconfig"
	"google.golang.org/grpc/internal/verif/seqx"
	"google.golang.org/grpc/internal/verif/vk"
	"google.golang.org/grpc/mem"
)

var c05ErrOther = errors.New("verif: transport failure")

// c05Byte is the payload byte at absolute stream offset i.
func c05Byte(i int) byte { return byte(i*131+(i>>8)*7) ^ 0x5A }

const c05Poison = 0xDD

// c05Pool is a tracking mem.BufferPool: every slice it hands out is registered,
// Put poisons the whole capacity (so a use after free shows up as wrong bytes),
// nothing is ever re-issued, and a Put of something not outstanding is recorded.
// With bigCaps every slice has a capacity above the pooling threshold, so every
// mem.Buffer built from it is reference counted (mem.NewBuffer turns slices at or
// below the threshold into non-pooled SliceBuffers whose Free is a no-op).
type c05Pool struct {
	mu      sync.Mutex
	bigCaps bool
	out     map[*byte]int // outstanding: first byte -> capacity
	gets    int
	puts    int
	smallGets int // handed out at or below the pooling threshold (never returned by design)
	errs    []string
}

func c05NewPool(bigCaps bool) *c05Pool { return &c05Pool{bigCaps: bigCaps, out: map[*byte]int{}} }

func (p *c05Pool) Get(n int) *[]byte {
	c := n
	if p.bigCaps && c <= 1024 {
		c = 1025
	}
	if c == 0 {
		c = 1
	}
	b := make([]byte, n, c)
	p.mu.Lock()
	p.gets++
	if mem.IsBelowBufferPoolingThreshold(c) {
		p.smallGets++
	} else {
		p.out[&b[:1][0]] = c
	}
	p.mu.Unlock()
	return &b
}

func (p *c05Pool) Put(bp *[]byte) {
	b := (*bp)[:cap(*bp)]
	p.mu.Lock()
	defer p.mu.Unlock()
	p.puts++
	if len(b) == 0 {
		p.errs = append(p.errs, "Put of an empty slice")
		return
	}
	if _, ok := p.out[&b[0]]; !ok {
		p.errs = append(p.errs, fmt.Sprintf("Put of a %d-byte buffer that is not outstanding (double free or foreign buffer)", len(b)))
		return
	}
	delete(p.out, &b[0])
	for i := range b {
		b[i] = c05Poison
	}
}

type c05Op struct {
	name string
	kind string // put, burst, err, take, finish, finishHdr, readLast, hdrLast, afterErr
	n    int
	err  error
}

// c05Ops builds an alphabet. bursts: real-threshold scenarios (macro-ops of
// 600/1100 small frames); core: the reduced alphabet used for the deepest runs.
func c05Ops(bursts, core bool) []c05Op {
	var ops []c05Op
	if core {
		for _, n := range []int{1, 40, 2000} {
			ops = append(ops, c05Op{name: fmt.Sprintf("put(%d)", n), kind: "put", n: n})
		}
		ops = append(ops, c05Op{name: "put(EOF)", kind: "err", err: io.EOF})
		ops = append(ops, c05Op{name: "take", kind: "take"})
		for _, n := range []int{1, 4096} {
			ops = append(ops, c05Op{name: fmt.Sprintf("finish(%d)", n), kind: "finish", n: n})
		}
		ops = append(ops, c05Op{name: "finishHeader(5)", kind: "finishHdr", n: 5})
		for _, n := range []int{1, 4096} {
			ops = append(ops, c05Op{name: fmt.Sprintf("readLast(%d)", n), kind: "readLast", n: n})
		}
		ops = append(ops, c05Op{name: "readHeaderLast(5)", kind: "hdrLast", n: 5})
		ops = append(ops, c05Op{name: "readAfterError", kind: "afterErr"})
		return ops
	}
	if bursts {
		for _, n := range []int{1, 2000} {
			ops = append(ops, c05Op{name: fmt.Sprintf("put(%d)", n), kind: "put", n: n})
		}
		for _, k := range []int{600, 1100} {
			ops = append(ops, c05Op{name: fmt.Sprintf("putBurst(%dx1-2B)", k), kind: "burst", n: k})
		}
	} else {
		for _, n := range []int{1, 2, 40, 57, 200, 2000} {
			ops = append(ops, c05Op{name: fmt.Sprintf("put(%d)", n), kind: "put", n: n})
		}
	}
	ops = append(ops, c05Op{name: "put(EOF)", kind: "err", err: io.EOF})
	ops = append(ops, c05Op{name: "put(err)", kind: "err", err: c05ErrOther})
	ops = append(ops, c05Op{name: "take", kind: "take"})
	sizes := []int{1, 3, 64, 4096}
	if bursts {
		sizes = []int{1, 4096}
	}
	for _, n := range sizes {
		ops = append(ops, c05Op{name: fmt.Sprintf("finish(%d)", n), kind: "finish", n: n})
	}
	ops = append(ops, c05Op{name: "finishHeader(5)", kind: "finishHdr", n: 5})
	for _, n := range sizes {
		ops = append(ops, c05Op{name: fmt.Sprintf("readLast(%d)", n), kind: "readLast", n: n})
	}
	ops = append(ops, c05Op{name: "readHeaderLast(5)", kind: "hdrLast", n: 5})
	ops = append(ops, c05Op{name: "readAfterError", kind: "afterErr"})
	return ops
}

func c05Names(ops []c05Op) []string {
	out := make([]string, len(ops))
	for i, o := range ops {
		out[i] = o.name
	}
	return out
}

// c05World is one fresh real recvBuffer/reader plus the reference model.
type c05World struct {
	pool *c05Pool
	b    *recvBuffer
	r    *recvBufferReader

	taken    *recvMsg // message received from the channel, readAdditional not yet called
	held     []c05Held // every buffer handed to the application (freed at the very end)
	q        int // total payload bytes put before the first error (reference queue length)
	pos      int // bytes delivered so far
	errPut   error
	surfaced bool // the error was returned to the application
	fails    []seqx.Fail
	lastPut     string // fast-path-to-channel / backlogged / compacted / dropped-after-error
	compactions int
}

type c05Held struct {
	buf mem.Buffer
	off int // absolute offset of its first byte
}

func c05NewWorld(bigCaps bool) *c05World {
	w := &c05World{pool: c05NewPool(bigCaps), b: &recvBuffer{}}
	w.b.init(w.pool)
	w.r = &recvBufferReader{recv: w.b} // ctxDone == nil: never selected
	return w
}

func (w *c05World) fail(key, format string, a ...any) {
	for _, f := range w.fails {
		if f.Key == key {
			return
		}
	}
	w.fails = append(w.fails, seqx.Fail{Prop: "C05", Key: key, Desc: fmt.Sprintf(format, a...)})
}

// put hands one DATA payload of n bytes (the next n bytes of the stream) to the
// real buffer, built the way the framer does: a slice from the pool wrapped by
// mem.NewBuffer (reference counted above the pooling threshold).
func (w *c05World) put(n int) {
	bp := w.pool.Get(n)
	base := w.q
	if w.errPut != nil {
		base = 1 << 20 // never delivered: content irrelevant
	}
	for i := range *bp {
		(*bp)[i] = c05Byte(base + i)
	}
	dropped := w.errPut != nil
	if !dropped {
		w.q += n
	}
	lb, lc := len(w.b.backlog), len(w.b.c)
	w.b.put(recvMsg{buffer: mem.NewBuffer(bp, w.pool)})
	w.classify(dropped, lb, lc)
}

// classify names what the last put did, from the observable queue shape only.
func (w *c05World) classify(dropped bool, lb, lc int) {
	la := len(w.b.backlog)
	switch {
	case dropped:
		w.lastPut = "dropped-after-error"
	case la == lb && len(w.b.c) == lc+1:
		w.lastPut = "fast-path-to-channel"
	case la <= lb:
		w.lastPut = "compacted"
		w.compactions++
	default:
		w.lastPut = "backlogged"
	}
}

func (w *c05World) putErr(err error) {
	dropped := w.errPut != nil
	if !dropped {
		w.errPut = err
	}
	lb, lc := len(w.b.backlog), len(w.b.c)
	w.b.put(recvMsg{err: err})
	w.classify(dropped, lb, lc)
}

// deliver checks bytes returned to the application against the reference queue.
func (w *c05World) deliver(what string, data []byte, maxN int) {
	if w.surfaced {
		w.fail("data-after-error", "%s returned %d bytes after the stream's error/EOF had been reported", what, len(data))
		return
	}
	if len(data) == 0 {
		w.fail("empty-read", "%s returned no data and no error", what)
		return
	}
	if len(data) > maxN {
		w.fail("read-too-long", "%s returned %d bytes for a request of %d", what, len(data), maxN)
	}
	if w.pos+len(data) > w.q {
		w.fail("bytes-invented", "%s returned %d bytes at offset %d but only %d bytes were ever received", what, len(data), w.pos, w.q)
		w.pos += len(data)
		return
	}
	for i, c := range data {
		if want := c05Byte(w.pos + i); c != want {
			kind := "bytes-out-of-order-lost-or-duplicated"
			if c == c05Poison {
				kind = "use-after-free"
			}
			w.fail(kind, "%s: byte at stream offset %d is %#02x, want %#02x (returned %d bytes starting at offset %d)", what, w.pos+i, c, want, len(data), w.pos)
			break
		}
	}
	w.pos += len(data)
}

func (w *c05World) gotErr(what string, err error) {
	if w.errPut == nil {
		w.fail("spurious-error", "%s returned error %v but no error/EOF was ever received", what, err)
		w.surfaced = true
		return
	}
	if err != w.errPut {
		w.fail("wrong-error", "%s returned %v, the stream ended with %v", what, err, w.errPut)
	}
	if !w.surfaced && w.pos != w.q {
		w.fail("error-before-data", "%s returned %v after %d bytes although %d bytes arrived before it", what, err, w.pos, w.q)
	}
	w.surfaced = true
}

func (w *c05World) hold(buf mem.Buffer, what string, maxN int) {
	off := w.pos
	w.deliver(what, buf.ReadOnlyData(), maxN)
	w.held = append(w.held, c05Held{buf, off})
}

// apply runs one op; it reports false when the op is not applicable.
func (w *c05World) apply(op c05Op) bool {
	r := w.r
	switch op.kind {
	case "put":
		w.put(op.n)
	case "burst":
		c0 := w.compactions
		for i := 0; i < op.n; i++ {
			w.put(1 + i%2)
		}
		if w.compactions > c0 {
			w.lastPut = "compacted"
		}
	case "err":
		// domain: a stream receives at most one error/EOF (a second error put
		// dereferences the nil r.buffer in recvBuffer.put: reported separately,
		// outside this property's statement)
		if w.errPut != nil {
			return false
		}
		w.putErr(op.err)
	case "take":
		// precondition of `case m := <-r.recv.get()` in r.read: no sticky error, no leftover
		if w.taken != nil || r.err != nil || r.last != nil {
			return false
		}
		select {
		case m := <-w.b.get():
			w.taken = &m
		default:
			return false // the reader would block: not a step
		}
	case "finish":
		if w.taken == nil {
			return false
		}
		m := *w.taken
		w.taken = nil
		buf, err := r.readAdditional(m, op.n)
		r.err = err // what Read does with r.read's result
		if err != nil {
			w.gotErr(op.name, err)
			if buf != nil {
				w.fail("data-with-error", "%s returned a buffer together with error %v", op.name, err)
			}
		} else {
			w.hold(buf, op.name, op.n)
		}
	case "finishHdr":
		if w.taken == nil {
			return false
		}
		m := *w.taken
		w.taken = nil
		hdr := make([]byte, op.n)
		n, err := r.readMessageHeaderAdditional(m, hdr)
		r.err = err
		if err != nil {
			w.gotErr(op.name, err)
			if n != 0 {
				w.fail("data-with-error", "%s returned %d bytes together with error %v", op.name, n, err)
			}
		} else {
			w.deliver(op.name, hdr[:n], op.n)
		}
	case "readLast":
		if r.last == nil || r.err != nil || w.taken != nil {
			return false
		}
		buf, err := r.Read(op.n)
		if err != nil {
			w.gotErr(op.name, err)
		} else {
			w.hold(buf, op.name, op.n)
		}
	case "hdrLast":
		if r.last == nil || r.err != nil || w.taken != nil {
			return false
		}
		hdr := make([]byte, op.n)
		n, err := r.ReadMessageHeader(hdr)
		if err != nil {
			w.gotErr(op.name, err)
		} else {
			w.deliver(op.name, hdr[:n], op.n)
		}
	case "afterErr":
		if r.err == nil {
			return false
		}
		buf, err := r.Read(1)
		if err == nil {
			w.hold(buf, op.name+"/Read", 1)
		} else {
			w.gotErr(op.name+"/Read", err)
		}
		hdr := make([]byte, 5)
		n, err := r.ReadMessageHeader(hdr)
		if err == nil {
			w.deliver(op.name+"/ReadMessageHeader", hdr[:n], 5)
		} else {
			w.gotErr(op.name+"/ReadMessageHeader", err)
		}
	}
	return true
}

// invariants checks the compaction ledger against its definition (transport.go:
// "uncompactedSuffixLen tracks the number of consecutive data messages at the
// tail of backlog that have not been compacted; uncompactedBytes tracks the
// total payload bytes across the trailing uncompactedSuffixLen messages"), and
// the conservation of undelivered bytes across every place the real objects
// keep them.
func (w *c05World) invariants(after string) {
	b := w.b
	b.mu.Lock()
	defer b.mu.Unlock()
	n, sl, sb := len(b.backlog), b.uncompactedSuffixLen, b.uncompactedBytes
	if !envconfig.EnableReceiveBufferCompaction {
		if sl != 0 || sb != 0 {
			w.fail("ledger-nonzero-when-disabled", "after %s: compaction disabled but uncompactedSuffixLen=%d uncompactedBytes=%d", after, sl, sb)
		}
	} else if sl < 0 || sl > n {
		w.fail("suffix-ledger", "after %s: uncompactedSuffixLen=%d outside [0,%d] (backlog length)", after, sl, n)
	} else {
		sum := 0
		for _, m := range b.backlog[n-sl:] {
			if m.buffer == nil || m.err != nil {
				w.fail("suffix-ledger", "after %s: a non-data message lies inside the tracked suffix (uncompactedSuffixLen=%d)", after, sl)
				break
			}
			sum += m.buffer.Len()
		}
		if sum != sb {
			w.fail("suffix-ledger", "after %s: uncompactedBytes=%d but the trailing %d backlog messages hold %d payload bytes", after, sb, sl, sum)
		}
	}
	// conservation: bytes received and not yet delivered are all somewhere
	inBacklog := 0
	for _, m := range b.backlog {
		if m.buffer != nil {
			inBacklog += m.buffer.Len()
		}
	}
	rest := w.q - w.pos - inBacklog
	if w.taken != nil && w.taken.buffer != nil {
		rest -= w.taken.buffer.Len()
	}
	if w.r.last != nil {
		rest -= w.r.last.Len()
	}
	// what remains must sit in the channel slot
	if rest < 0 || (rest > 0 && len(b.c) == 0) {
		w.fail("bytes-not-conserved", "after %s: %d received-and-undelivered bytes, but backlog+taken+leftover+channel account for %d more/less (channel occupied=%v)", after, w.q-w.pos, -rest, len(b.c) == 1)
	}
}

func c05RLE(ms []recvMsg) string {
	var sb strings.Builder
	prev, cnt := "", 0
	flush := func() {
		if cnt > 0 {
			fmt.Fprintf(&sb, "%sx%d,", prev, cnt)
		}
	}
	for _, m := range ms {
		d := "E"
		if m.buffer != nil {
			d = fmt.Sprint(m.buffer.Len())
		} else if m.err == io.EOF {
			d = "F"
		}
		if d != prev {
			flush()
			prev, cnt = d, 0
		}
		cnt++
	}
	flush()
	return sb.String()
}

func (w *c05World) key() string {
	b := w.b
	tk := "-"
	if w.taken != nil {
		switch {
		case w.taken.buffer != nil:
			tk = fmt.Sprint(w.taken.buffer.Len())
		case w.taken.err == io.EOF:
			tk = "F"
		default:
			tk = "E"
		}
	}
	last := -1
	if w.r.last != nil {
		last = w.r.last.Len()
	}
	e := func(err error) string {
		switch err {
		case nil:
			return "-"
		case io.EOF:
			return "F"
		}
		return "E"
	}
	return fmt.Sprintf("c%d t%s l%d re%s be%s s%d/%d rem%d pe%s sf%v|%s", len(b.c), tk, last, e(w.r.err), e(b.err), b.uncompactedSuffixLen, b.uncompactedBytes, w.q-w.pos, e(w.errPut), w.surfaced, c05RLE(b.backlog))
}

// drain finishes the history the way an application would (read until nothing
// more is deliverable without blocking), then releases everything and audits
// the pool.
func (w *c05World) drain() {
	r := w.r
	for guard := 0; guard < 1<<16; guard++ {
		switch {
		case w.taken != nil:
			w.apply(c05Op{name: "drain/finish(4096)", kind: "finish", n: 4096})
		case r.err != nil:
			goto drained
		case r.last != nil:
			w.apply(c05Op{name: "drain/readLast(4096)", kind: "readLast", n: 4096})
		default:
			if !w.apply(c05Op{name: "drain/take", kind: "take"}) {
				goto drained
			}
		}
		if n := len(w.b.backlog); n <= 32 || guard%64 == 0 {
			w.invariants("drain") // O(backlog): sampled while a burst backlog is being drained
		}
	}
drained:
	if w.pos != w.q && len(w.fails) == 0 {
		w.fail("bytes-lost", "after draining: %d of %d received bytes were delivered; nothing more is readable (channel empty, backlog %d)", w.pos, w.q, len(w.b.backlog))
	}
	if w.errPut != nil && !w.surfaced && len(w.fails) == 0 {
		w.fail("error-lost", "after draining: the stream ended with %v but the reader never reported it", w.errPut)
	}
	// the application still holds every buffer it was given: they must still be intact
	for _, h := range w.held {
		for i, c := range h.buf.ReadOnlyData() {
			if want := c05Byte(h.off + i); c != want {
				kind := "held-buffer-corrupted"
				if c == c05Poison {
					kind = "use-after-free"
				}
				w.fail(kind, "a buffer returned to the application (stream offset %d, %d bytes) changed afterwards: byte %d is %#02x, want %#02x", h.off, h.buf.Len(), i, c, want)
				break
			}
		}
	}
	for _, h := range w.held {
		h.buf.Free()
	}
	w.held = nil
	if r.last != nil {
		r.last.Free() // only possible when a failure stopped the drain
		r.last = nil
	}
	w.pool.mu.Lock()
	defer w.pool.mu.Unlock()
	for _, e := range w.pool.errs {
		w.fail("pool-misuse", "%s", e)
	}
	if n := len(w.pool.out); n > 0 && len(w.fails) == 0 {
		w.fail("buffer-leak", "after draining and releasing every buffer, %d pooled buffers (of %d handed out) were never returned to the pool", n, w.pool.gets-w.pool.smallGets)
	}
}

func c05Runner(ops []c05Op, bigCaps bool) func(hist []int) seqx.Outcome {
	return func(hist []int) (out seqx.Outcome) {
		w := c05NewWorld(bigCaps)
		defer func() {
			if p := recover(); p != nil {
				w.fail("panic", "panic: %v", p)
				out.Fails = w.fails
				out.Key = "panic"
				out.Terminal = true
			}
		}()
		for step, oi := range hist {
			op := ops[oi]
			if !w.apply(op) {
				out.Skip = true
				break
			}
			w.invariants(op.name)
			if step == len(hist)-1 {
				out.Obs = c05Obs(w, op)
			}
		}
		out.Key = w.key()
		if !out.Skip {
			w.drain()
		}
		out.Fails = w.fails
		return out
	}
}

func c05Obs(w *c05World, op c05Op) string {
	switch op.kind {
	case "put", "burst":
		return op.kind + "-" + w.lastPut
	case "err":
		if w.lastPut == "dropped-after-error" {
			return "err-dropped-after-error"
		}
		return "err-" + w.lastPut
	case "finish", "finishHdr", "readLast", "hdrLast":
		switch {
		case w.surfaced:
			return op.kind + "-error-surfaced"
		case w.r.last != nil:
			return op.kind + "-partial-leftover"
		}
		return op.kind + "-whole"
	}
	return op.kind
}

func TestVerif_C05_RecvBuffer(t *testing.T) {
	const P = "C05"
	r := vk.Start(t, "c05_recvbuffer", "model_checking", P)
	defer r.Finish()
	r.Rule(P, "BFS over all sequences of producer ops put(len)/putBurst/put(EOF|err) and consumer micro-steps take/finish(n)/finishHeader/readLast(n)/readHeaderLast/readAfterError on a fresh real recvBuffer+recvBufferReader with a tracking pool; scenarios: compaction on with compactionThreshold lowered to 171 (compaction after 2-4 small frames), compaction off, and the real threshold with 600/1100-frame bursts; states deduplicated on channel occupancy, taken message, leftover, sticky errors, suffix ledger, run-length-encoded backlog and the reference queue's undelivered length; every history ends with a drain + pool audit")
	r.Assume(P, "the consumer is a single goroutine following recvBufferReader.Read/ReadMessageHeader; its only interaction points with the producer are the channel receive and load() (both atomic w.r.t. recvBuffer.mu), so sequences of {put, take, finish, readLast} are all the interleavings of one producer and one consumer; context cancellation (clientStream path) is not modelled")
	r.Assume(P, "the lowered-threshold scenarios overwrite the package variable compactionThreshold (171 = 3*(recvMsgSize+1)) for the duration of the scenario; the utilisation rule and recvMsgSize are untouched")
	r.Assume(P, "buffers handed to the application are kept until the end of the history and re-verified (use-after-free shows as poison), then freed; pool slices at or below the pooling threshold are excluded from the leak audit because mem.NewBuffer never returns them by design")

	savedThr, savedFlag := compactionThreshold, envconfig.EnableReceiveBufferCompaction
	defer func() { compactionThreshold, envconfig.EnableReceiveBufferCompaction = savedThr, savedFlag }()
	r.Set(P, "real_compaction_threshold", savedThr)
	r.Set(P, "recvMsgSize", recvMsgSize)

	type sc struct {
		name    string
		on      bool
		thr     int
		bursts  bool
		core    bool
		bigCaps bool
		depth   int
	}
	low := 3 * (recvMsgSize + 1)
	scs := []sc{
		{"lowthr-compaction-on", true, low, false, false, true, r.Pick(6, 7)},
		{"lowthr-compaction-on-core", true, low, false, true, true, r.Pick(8, 10)},
		{"compaction-off", false, savedThr, false, false, true, r.Pick(6, 7)},
		{"compaction-off-core", false, savedThr, false, true, true, r.Pick(8, 10)},
		{"realthr-bursts-compaction-on", true, savedThr, true, false, false, r.Pick(5, 7)},
		{"realthr-bursts-compaction-off", false, savedThr, true, false, false, r.Pick(4, 6)},
	}
	for _, s := range scs {
		if only := os.Getenv("C05_ONLY"); only != "" && only != s.name { // experiments only
			continue
		}
		if v, err := strconv.Atoi(os.Getenv("C05_DEPTH")); err == nil && v > 0 {
			s.depth = v
		}
		compactionThreshold, envconfig.EnableReceiveBufferCompaction = s.thr, s.on
		ops := c05Ops(s.bursts, s.core)
		seqx.BFS(r, []string{P}, seqx.Config{
			Name: s.name, Ops: c05Names(ops), MaxDepth: s.depth, Parallel: 16,
			Congruence: r.Thorough(), CongruenceMax: 100, MinStates: 50,
			Run: c05Runner(ops, s.bigCaps),
		})
	}
}
