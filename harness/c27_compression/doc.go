//go:build verif

// Package h_c27 hosts the E4/E3 harness of property C27 (compression is
// negotiated and applied consistently): every combination of a bounded menu of
// client and server compression settings is run as a real RPC between a real
// grpc.ClientConn and a real grpc.Server over an in-memory connection with a
// byte tee, plus raw-peer legs where one side is a scripted HTTP/2 peer. The
// oracle reads compressed-flags and grpc-encoding / grpc-accept-encoding
// headers off the wire with an independent framer and reference decoders.
package h_c27
