//go:build verif

package h_c27

// Kit: raw-byte codec, the custom compressors (one registered with the
// encoding package, one legacy grpc.Compressor/Decompressor that is not), the
// independent reference decoders, the connection tee and the wire parser.

import (
	"bytes"
	stdgzip "compress/gzip"
	"fmt"
	"io"
	"net"
	"sort"
	"strings"
	"sync"

	"golang.org/x/net/http2"
	"golang.org/x/net/http2/hpack"
	"google.golang.org/grpc"
	"google.golang.org/grpc/encoding"
	_ "google.golang.org/grpc/encoding/gzip" // registers "gzip"
	"google.golang.org/grpc/mem"
)

// ---------------------------------------------------------------- codec

type c27Codec struct{}

func (c27Codec) Name() string { return "verif-raw" }
func (c27Codec) Marshal(v any) (mem.BufferSlice, error) {
	switch b := v.(type) {
	case []byte:
		return mem.BufferSlice{mem.SliceBuffer(b)}, nil
	case *[]byte:
		return mem.BufferSlice{mem.SliceBuffer(*b)}, nil
	}
	return nil, fmt.Errorf("c27Codec: unsupported %T", v)
}
func (c27Codec) Unmarshal(data mem.BufferSlice, v any) error {
	p, ok := v.(*[]byte)
	if !ok {
		return fmt.Errorf("c27Codec: unsupported %T", v)
	}
	*p = data.Materialize()
	return nil
}

// ---------------------------------------------------------------- compressors
//
// Both custom transforms are "magic byte + every payload byte XOR a mask": the
// output is never equal to the input, is longer by one and is trivially
// checkable by the reference decoder.

const (
	c27MagicC, c27MaskC = 0xC7, 0x5A // registered compressor "c"
	c27MagicL, c27MaskL = 0x4C, 0x33 // legacy (unregistered) compressor "l"
)

func c27Xform(magic, mask byte, p []byte) []byte {
	out := make([]byte, 0, len(p)+1)
	out = append(out, magic)
	for _, b := range p {
		out = append(out, b^mask)
	}
	return out
}

func c27Unxform(magic, mask byte, p []byte) ([]byte, error) {
	if len(p) == 0 || p[0] != magic {
		return nil, fmt.Errorf("bad magic")
	}
	out := make([]byte, 0, len(p)-1)
	for _, b := range p[1:] {
		out = append(out, b^mask)
	}
	return out, nil
}

// c27Comp is the encoding.Compressor registered as "c".
type c27Comp struct{}

type c27CompWriter struct {
	w   io.Writer
	buf []byte
}

func (w *c27CompWriter) Write(p []byte) (int, error) { w.buf = append(w.buf, p...); return len(p), nil }
func (w *c27CompWriter) Close() error {
	_, err := w.w.Write(c27Xform(c27MagicC, c27MaskC, w.buf))
	return err
}
func (c27Comp) Name() string { return "c" }
func (c27Comp) Compress(w io.Writer) (io.WriteCloser, error) {
	return &c27CompWriter{w: w}, nil
}
func (c27Comp) Decompress(r io.Reader) (io.Reader, error) {
	b, err := io.ReadAll(r)
	if err != nil {
		return nil, err
	}
	out, err := c27Unxform(c27MagicC, c27MaskC, b)
	if err != nil {
		return nil, err
	}
	return bytes.NewReader(out), nil
}

func init() { encoding.RegisterCompressor(c27Comp{}) }

// c27Legacy implements the deprecated grpc.Compressor and grpc.Decompressor
// under the name "l", which is NOT registered with the encoding package.
type c27Legacy struct{}

func (c27Legacy) Type() string { return "l" }
func (c27Legacy) Do(w io.Writer, p []byte) error {
	_, err := w.Write(c27Xform(c27MagicL, c27MaskL, p))
	return err
}

type c27LegacyDec struct{}

func (c27LegacyDec) Type() string { return "l" }
func (c27LegacyDec) Do(r io.Reader) ([]byte, error) {
	b, err := io.ReadAll(r)
	if err != nil {
		return nil, err
	}
	return c27Unxform(c27MagicL, c27MaskL, b)
}

var (
	_ grpc.Compressor   = c27Legacy{}
	_ grpc.Decompressor = c27LegacyDec{}
)

// c27Registered is the set of names registered with the encoding package in
// this test binary (gzip by import, "c" above).
var c27Registered = []string{"gzip", "c"}

// ---------------------------------------------------------------- reference coders

// c27RefDecode decodes payload under the named encoding with code that shares
// nothing with grpc (stdlib compress/gzip, the XOR transforms above).
func c27RefDecode(enc string, payload []byte) ([]byte, error) {
	switch enc {
	case "gzip":
		zr, err := stdgzip.NewReader(bytes.NewReader(payload))
		if err != nil {
			return nil, err
		}
		return io.ReadAll(zr)
	case "c":
		return c27Unxform(c27MagicC, c27MaskC, payload)
	case "l":
		return c27Unxform(c27MagicL, c27MaskL, payload)
	}
	return nil, fmt.Errorf("no reference decoder for %q", enc)
}

// c27RefEncode produces a valid payload for the named encoding.
func c27RefEncode(enc string, msg []byte) []byte {
	switch enc {
	case "gzip":
		var b bytes.Buffer
		zw := stdgzip.NewWriter(&b)
		zw.Write(msg)
		zw.Close()
		return b.Bytes()
	case "c":
		return c27Xform(c27MagicC, c27MaskC, msg)
	case "l":
		return c27Xform(c27MagicL, c27MaskL, msg)
	}
	// for names without a reference coder ("unknown", identity): some bytes
	// that are certainly not the message itself
	return append([]byte{0xEE}, msg...)
}

func c27Identity(enc string) bool { return enc == "" || enc == "identity" }

// ---------------------------------------------------------------- tee

// c27Tee records every byte the wrapped (client-side) connection writes (up:
// client -> server) and reads (down: server -> client).
type c27Tee struct {
	net.Conn
	mu   sync.Mutex
	up   bytes.Buffer
	down bytes.Buffer
}

func (t *c27Tee) Write(p []byte) (int, error) {
	n, err := t.Conn.Write(p)
	t.mu.Lock()
	t.up.Write(p[:n])
	t.mu.Unlock()
	return n, err
}

func (t *c27Tee) Read(p []byte) (int, error) {
	n, err := t.Conn.Read(p)
	t.mu.Lock()
	t.down.Write(p[:n])
	t.mu.Unlock()
	return n, err
}

func (t *c27Tee) bytes() (up, down []byte) {
	t.mu.Lock()
	defer t.mu.Unlock()
	return append([]byte(nil), t.up.Bytes()...), append([]byte(nil), t.down.Bytes()...)
}

// ---------------------------------------------------------------- wire parser

// c27Msg is one gRPC length-prefixed message found in a stream's DATA bytes.
type c27Msg struct {
	Flag    byte
	Payload []byte
}

// c27Side is what one direction of one HTTP/2 stream carried.
type c27Side struct {
	Blocks    [][][2]string // every complete header block, in order
	Data      []byte
	Msgs      []c27Msg
	Leftover  int // trailing DATA bytes that do not form a complete message
	EndStream bool
	RST       bool
}

// header returns the values of a field in the FIRST header block.
func (s *c27Side) header(name string) (vals []string) {
	if s == nil || len(s.Blocks) == 0 {
		return nil
	}
	for _, f := range s.Blocks[0] {
		if f[0] == name {
			vals = append(vals, f[1])
		}
	}
	return vals
}

// field returns the last value of a field in any header block ("" if absent).
func (s *c27Side) field(name string) string {
	v := ""
	if s == nil {
		return v
	}
	for _, b := range s.Blocks {
		for _, f := range b {
			if f[0] == name {
				v = f[1]
			}
		}
	}
	return v
}

// enc returns the stream's grpc-encoding of this direction ("" if absent).
func (s *c27Side) enc() string {
	if v := s.header("grpc-encoding"); len(v) > 0 {
		return v[len(v)-1]
	}
	return ""
}

// c27ParseWire decodes one direction of a connection with an independent
// http2 framer + hpack decoder and returns what each stream carried.
func c27ParseWire(b []byte, clientSide bool) (map[uint32]*c27Side, error) {
	if clientSide {
		if !bytes.HasPrefix(b, []byte(http2.ClientPreface)) {
			if len(b) == 0 {
				return map[uint32]*c27Side{}, nil
			}
			return nil, fmt.Errorf("no client preface")
		}
		b = b[len(http2.ClientPreface):]
	}
	fr := http2.NewFramer(io.Discard, bytes.NewReader(b))
	fr.SetMaxReadFrameSize(1 << 24)
	fr.AllowIllegalReads = true
	var cur [][2]string
	dec := hpack.NewDecoder(4096, func(f hpack.HeaderField) { cur = append(cur, [2]string{f.Name, f.Value}) })
	out := map[uint32]*c27Side{}
	side := func(id uint32) *c27Side {
		s := out[id]
		if s == nil {
			s = &c27Side{}
			out[id] = s
		}
		return s
	}
	for {
		f, err := fr.ReadFrame()
		if err == io.EOF || err == io.ErrUnexpectedEOF {
			break
		}
		if err != nil {
			return out, err
		}
		id := f.Header().StreamID
		switch f := f.(type) {
		case *http2.HeadersFrame:
			dec.Write(f.HeaderBlockFragment())
			if f.HeadersEnded() {
				side(id).Blocks = append(side(id).Blocks, cur)
				cur = nil
			}
			if f.StreamEnded() {
				side(id).EndStream = true
			}
		case *http2.ContinuationFrame:
			dec.Write(f.HeaderBlockFragment())
			if f.HeadersEnded() {
				side(id).Blocks = append(side(id).Blocks, cur)
				cur = nil
			}
		case *http2.DataFrame:
			s := side(id)
			s.Data = append(s.Data, f.Data()...)
			if f.StreamEnded() {
				s.EndStream = true
			}
		case *http2.RSTStreamFrame:
			side(id).RST = true
		}
	}
	for _, s := range out {
		s.Msgs, s.Leftover = c27SplitMsgs(s.Data)
	}
	return out, nil
}

func c27SplitMsgs(d []byte) (msgs []c27Msg, leftover int) {
	for len(d) >= 5 {
		n := int(d[1])<<24 | int(d[2])<<16 | int(d[3])<<8 | int(d[4])
		if 5+n > len(d) {
			break
		}
		msgs = append(msgs, c27Msg{Flag: d[0], Payload: append([]byte(nil), d[5:5+n]...)})
		d = d[5+n:]
	}
	return msgs, len(d)
}

// c27SplitList splits a comma separated header value list.
func c27SplitList(vals []string) []string {
	var out []string
	for _, v := range vals {
		for _, p := range strings.Split(v, ",") {
			if p = strings.TrimSpace(p); p != "" {
				out = append(out, p)
			}
		}
	}
	sort.Strings(out)
	return out
}

func c27In(set []string, x string) bool {
	for _, s := range set {
		if s == x {
			return true
		}
	}
	return false
}
