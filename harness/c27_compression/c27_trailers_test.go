//go:build verif

package h_c27

// Sub-legs tr / ts: WHERE grpc-encoding appears and WHEN the application reads.
//
// The statement says a receiver decodes each message with the compressor named
// by grpc-encoding of the stream; that is the value in the direction's first
// header block (response HEADERS for a client, request HEADERS for a server).
// A peer or an intermediary may also put a grpc-encoding field into the
// TRAILERS (client side) or into a later HEADERS frame (server side); that
// field must not change how already received, still unread messages - or
// later ones - are checked and decoded.
//
//   tr  real client <- raw server. Response HEADERS carry grpc-encoding hv,
//       TRAILERS carry tv, both over {absent, identity, gzip, c, unknown}
//       (headers only / trailers only / both equal / both different); 1-2
//       messages, each flagged or not; flagged payloads are valid encodings
//       under every codec that hv or tv names (one case per codec; gzip if
//       neither names one); the application reads k = 0..n messages BEFORE
//       the trailers are sent and the rest AFTER the transport has processed
//       them. Plus trailers-only responses carrying each value.
//   ts  raw client -> real server. Request HEADERS carry hv, a later client
//       HEADERS frame (END_STREAM) on the same stream carries tv; one message,
//       flagged or not; the handler reads before / after that frame.
//
// Oracle: c27JudgeDir (W4/W5) with the FIRST header block's encoding, plus: the
// leading messages that are valid under that encoding are delivered intact,
// the first invalid one (flag 1 without a valid decoding) ends the RPC with a
// non-OK status, and if every message is valid and the encoding is supported
// the RPC ends OK (tr; in ts the later HEADERS frame is a protocol violation
// for which the server tears the connection down, so only "whatever was
// delivered is the decoding under hv" is judged).

import (
	"context"
	"fmt"
	"io"
	"net"
	"strings"
	"testing"
	"testing/synctest"
	"time"

	"golang.org/x/net/http2"
	"google.golang.org/grpc"
	"google.golang.org/grpc/codes"
	"google.golang.org/grpc/internal/verif/vk"
	"google.golang.org/grpc/internal/verif/wire"
	"google.golang.org/grpc/status"
)

var c27EncValues = []string{"-", "identity", "gzip", "c", "unknown"}

func c27IsCodec(v string) bool { return v == "gzip" || v == "c" }

// c27PayloadCodecs: the codecs a flagged payload is made valid for, one case
// each: every codec named by hv or tv; gzip if neither names one.
func c27PayloadCodecs(hv, tv string) []string {
	var out []string
	for _, v := range []string{hv, tv} {
		if c27IsCodec(v) && !c27In(out, v) {
			out = append(out, v)
		}
	}
	if len(out) == 0 {
		out = []string{"gzip"}
	}
	return out
}

func c27HeaderValue(v string) (string, bool) {
	if v == "-" {
		return "", false
	}
	return v, true
}

// c27Meaning is the reference meaning of one wire message under encoding enc
// (nil: the message has no valid decoding).
func c27Meaning(enc string, m c27Msg) []byte {
	switch m.Flag {
	case 0:
		return append([]byte{}, m.Payload...)
	case 1:
		if !c27Identity(enc) {
			if dec, err := c27RefDecode(enc, m.Payload); err == nil {
				return append([]byte{}, dec...)
			}
		}
	}
	return nil
}

// ---------------------------------------------------------------- tr

type c27TRCfg struct {
	Hdr          string `json:"hdr"`           // grpc-encoding in the response HEADERS: "-", identity, gzip, c, unknown
	Trl          string `json:"trl"`           // grpc-encoding in the TRAILERS
	Flags        string `json:"flags"`         // compressed-flag of each message: "0","1","00","01","10","11"; "" with TrailersOnly
	PayloadCodec string `json:"payload_codec"` // flagged payloads are valid encodings under this codec
	ReadBefore   int    `json:"read_before"`   // messages the application reads before the trailers are sent
	TrailersOnly bool   `json:"trailers_only"` // the response is a single HEADERS frame with END_STREAM (Trl is its grpc-encoding)
}

func (c c27TRCfg) String() string {
	if c.TrailersOnly {
		return fmt.Sprintf("trailers-only enc=%s", c.Trl)
	}
	return fmt.Sprintf("hdr=%s trl=%s flags=%s payload=%s readBeforeTrailers=%d", c.Hdr, c.Trl, c.Flags, c.PayloadCodec, c.ReadBefore)
}

func c27TRCases() []c27TRCfg {
	var out []c27TRCfg
	for _, hv := range c27EncValues {
		for _, tv := range c27EncValues {
			for _, flags := range []string{"0", "1", "00", "01", "10", "11"} {
				codecs := c27PayloadCodecs(hv, tv)
				if !strings.Contains(flags, "1") {
					codecs = codecs[:1] // no flagged payload: the codec is irrelevant
				}
				for _, pc := range codecs {
					for k := 0; k <= len(flags); k++ {
						out = append(out, c27TRCfg{Hdr: hv, Trl: tv, Flags: flags, PayloadCodec: pc, ReadBefore: k})
					}
				}
			}
		}
	}
	for _, tv := range c27EncValues {
		out = append(out, c27TRCfg{Hdr: "-", Trl: tv, TrailersOnly: true})
	}
	return out
}

var c27TRApp = [][]byte{c27Big2, c27Big}

func c27RunTR(t *testing.T, r *vk.Run, cfg c27TRCfg) (rep c27Report) {
	synctest.Test(t, func(t *testing.T) {
		var peer *wire.Peer
		dials := 0
		dial := func(context.Context, string) (net.Conn, error) {
			dials++
			c, s := wire.Pipe()
			peer = wire.NewServerPeer(s)
			peer.AutoAckSettings, peer.AutoAckPing = true, true
			peer.WriteSettings(http2.Setting{ID: http2.SettingMaxConcurrentStreams, Val: 10})
			return c, nil
		}
		cc, err := grpc.NewClient("passthrough:///x", c27DialOpts(dial, "-")...)
		if err != nil {
			r.EngineError("NewClient: %v", err)
			return
		}
		defer func() {
			cc.Close()
			if peer != nil {
				peer.Close()
			}
			synctest.Wait()
		}()
		ctx, cancel := context.WithTimeout(context.Background(), 10*time.Second)
		defer cancel()
		st, err := cc.NewStream(ctx, &grpc.StreamDesc{ServerStreams: true}, "/s/bidi")
		if err != nil {
			r.EngineError("tr %v: NewStream: %v", cfg, err)
			return
		}
		if err := st.SendMsg(c27Big); err != nil {
			r.EngineError("tr %v: SendMsg: %v", cfg, err)
			return
		}
		st.CloseSend()
		synctest.Wait()
		if peer == nil || dials != 1 {
			r.EngineError("tr %v: %d connections dialled", cfg, dials)
			return
		}
		// the scripted response
		hdr := [][2]string{{":status", "200"}, {"content-type", "application/grpc"}}
		if v, ok := c27HeaderValue(cfg.Hdr); ok {
			hdr = append(hdr, [2]string{"grpc-encoding", v})
		}
		trl := [][2]string{{"grpc-status", "0"}}
		if v, ok := c27HeaderValue(cfg.Trl); ok {
			trl = append(trl, [2]string{"grpc-encoding", v})
		}
		var msgs []c27Msg
		for i, fl := range cfg.Flags {
			if fl == '1' {
				msgs = append(msgs, c27Msg{Flag: 1, Payload: c27RefEncode(cfg.PayloadCodec, c27TRApp[i])})
			} else {
				msgs = append(msgs, c27Msg{Flag: 0, Payload: c27TRApp[i]})
			}
		}
		var delivered [][]byte
		var termErr error
		read := func(max int) {
			for n := 0; termErr == nil && (max < 0 || n < max); n++ {
				var out []byte
				if err := st.RecvMsg(&out); err != nil {
					termErr = err
					return
				}
				delivered = append(delivered, append([]byte{}, out...))
			}
		}
		respSide := &c27Side{}
		if cfg.TrailersOnly {
			to := append(append([][2]string{}, hdr...), trl...)
			peer.WriteHeaders(1, to, true)
			respSide.Blocks = [][][2]string{to}
			synctest.Wait()
			read(-1)
		} else {
			peer.WriteHeaders(1, hdr, false)
			for _, m := range msgs {
				peer.WriteData(1, false, wire.GrpcMsg(m.Flag == 1, m.Payload))
			}
			synctest.Wait()
			read(cfg.ReadBefore)
			peer.WriteHeaders(1, trl, true)
			synctest.Wait() // the transport has processed the trailers
			read(-1)
			respSide.Blocks = [][][2]string{hdr, trl}
			respSide.Msgs = msgs
		}
		code := codes.OK
		if termErr != io.EOF {
			code = status.Code(termErr)
		}
		// ---- judge
		f := &rep.findings
		proj := "trailers/" + cfg.String()
		proj = strings.ReplaceAll(proj, " ", "/")
		pv, ps, _ := c27JudgeDir(c27Dir{Name: "resp", Side: respSide, SenderReal: false, ReceiverReal: true, Delivered: delivered,
			Decodable: c27Decodable("-"), FailCode: code, WantFail: codes.Internal, RecvProj: proj}, f)
		enc := respSide.enc()
		firstBad := len(msgs)
		var want [][]byte
		for k, m := range msgs {
			mean := c27Meaning(enc, m)
			if mean == nil {
				firstBad = k
				break
			}
			want = append(want, mean)
		}
		if ps {
			// supported (or identity) encoding: the valid prefix is delivered intact
			if len(delivered) < len(want) || !c27SameMsgs(delivered[:len(want)], want) {
				f.add("resp-valid-messages-not-delivered", proj, "response HEADERS grpc-encoding %q: the first %d messages are valid under it and must be delivered intact; the application got %q (terminal error %v)", enc, len(want), delivered, termErr)
			}
			if firstBad == len(msgs) && code != codes.OK {
				f.add("resp-valid-stream-failed", proj, "every message is valid under the response HEADERS grpc-encoding %q and the trailers say grpc-status 0, yet the RPC ended with %v", enc, termErr)
			}
		}
		if firstBad < len(msgs) && code == codes.OK {
			f.add("resp-invalid-message-rpc-ok", proj, "message #%d (flag %d) has no valid decoding under the response HEADERS grpc-encoding %q, yet the RPC ended OK with %q delivered", firstBad, msgs[firstBad].Flag, enc, delivered)
		}
		_ = pv
		rep.nontrivial = !cfg.TrailersOnly && (strings.Contains(cfg.Flags, "1") || cfg.Hdr != cfg.Trl)
		if cfg.TrailersOnly {
			rep.nontrivial = cfg.Trl != "-"
		}
		rep.outcome = fmt.Sprintf("tr hdr=%s trl=%s flags=%s -> delivered=%d code=%v", cfg.Hdr, cfg.Trl, cfg.Flags, len(delivered), code)
		if cfg.TrailersOnly {
			rep.outcome = fmt.Sprintf("tr trailers-only enc=%s -> delivered=%d code=%v", cfg.Trl, len(delivered), code)
		}
		rep.detail = fmt.Sprintf("cfg{%v} client: delivered=%q terminal=%v; scripted response: %s", cfg, delivered, termErr, c27SideString(respSide))
	})
	return rep
}

// ---------------------------------------------------------------- ts

type c27TSCfg struct {
	Hdr          string `json:"hdr"`           // grpc-encoding in the request HEADERS
	Later        string `json:"later"`         // grpc-encoding in the later client HEADERS frame (END_STREAM)
	Flag         int    `json:"flag"`          // compressed-flag of the request message
	PayloadCodec string `json:"payload_codec"` // a flagged payload is a valid encoding under this codec
	ReadAfter    bool   `json:"read_after"`    // the handler starts reading only after the later HEADERS frame was processed
}

func (c c27TSCfg) String() string {
	return fmt.Sprintf("hdr=%s later=%s flag=%d payload=%s handlerReadsAfter=%v", c.Hdr, c.Later, c.Flag, c.PayloadCodec, c.ReadAfter)
}

func c27TSCases() []c27TSCfg {
	var out []c27TSCfg
	for _, hv := range c27EncValues {
		for _, tv := range c27EncValues {
			for _, flag := range []int{0, 1} {
				codecs := c27PayloadCodecs(hv, tv)
				if flag == 0 {
					codecs = codecs[:1]
				}
				for _, pc := range codecs {
					for _, after := range []bool{false, true} {
						out = append(out, c27TSCfg{Hdr: hv, Later: tv, Flag: flag, PayloadCodec: pc, ReadAfter: after})
					}
				}
			}
		}
	}
	return out
}

func c27RunTS(t *testing.T, r *vk.Run, cfg c27TSCfg) (rep c27Report) {
	synctest.Test(t, func(t *testing.T) {
		h := &c27Handler{setSend: "-", replies: [][]byte{c27Small}, SetSendErr: "-"}
		if cfg.ReadAfter {
			h.gate = make(chan struct{})
		}
		srv := c27NewServer(h, "-")
		lis := wire.NewListener()
		go srv.Serve(lis)
		conn, err := lis.Dial()
		if err != nil {
			r.EngineError("dial: %v", err)
			return
		}
		peer := wire.NewClientPeer(conn)
		peer.AutoAckSettings, peer.AutoAckPing = true, true
		peer.WriteSettings()
		synctest.Wait()
		fields := [][2]string{{":method", "POST"}, {":scheme", "http"}, {":path", "/s/bidi"}, {":authority", "verif"},
			{"content-type", "application/grpc"}, {"te", "trailers"}}
		if v, ok := c27HeaderValue(cfg.Hdr); ok {
			fields = append(fields, [2]string{"grpc-encoding", v})
		}
		var later [][2]string
		if v, ok := c27HeaderValue(cfg.Later); ok {
			later = append(later, [2]string{"grpc-encoding", v})
		} else {
			later = append(later, [2]string{"x-later", "1"})
		}
		msg := c27Msg{Flag: byte(cfg.Flag), Payload: c27Big}
		if cfg.Flag == 1 {
			msg.Payload = c27RefEncode(cfg.PayloadCodec, c27Big)
		}
		peer.WriteHeaders(1, fields, false)
		peer.WriteData(1, false, wire.GrpcMsg(msg.Flag == 1, msg.Payload))
		synctest.Wait() // an ungated handler has read the message by now
		peer.WriteHeaders(1, later, true)
		synctest.Wait() // the transport has processed the later HEADERS frame
		if h.gate != nil {
			close(h.gate)
		}
		synctest.Wait()
		code, haveStatus := codes.Code(9999), false
		for _, fr := range peer.Log() {
			if fr.Stream == 1 && fr.Type == "HEADERS" {
				if gs, ok := wire.Field(fr.Fields, "grpc-status"); ok {
					var n int
					fmt.Sscanf(gs, "%d", &n)
					code, haveStatus = codes.Code(n), true
				}
			}
		}
		connClosed := peer.Closed()
		srv.Stop()
		peer.Close()
		synctest.Wait()
		h.mu.Lock()
		defer h.mu.Unlock()
		reqSide := &c27Side{Blocks: [][][2]string{fields, later}, Msgs: []c27Msg{msg}}
		f := &rep.findings
		proj := strings.ReplaceAll("later-headers/"+cfg.String(), " ", "/")
		c27JudgeDir(c27Dir{Name: "req", Side: reqSide, SenderReal: false, ReceiverReal: true, Delivered: h.Recv,
			Decodable: c27Decodable("-"), FailCode: code, WantFail: codes.Unimplemented, NoStatus: !haveStatus, RecvProj: proj}, f)
		rep.nontrivial = cfg.Flag == 1 || cfg.Hdr != cfg.Later
		st := "none"
		if haveStatus {
			st = code.String()
		}
		rep.outcome = fmt.Sprintf("ts hdr=%s later=%s flag=%d after=%v -> handlerRecv=%d status=%s connClosed=%v", cfg.Hdr, cfg.Later, cfg.Flag, cfg.ReadAfter, len(h.Recv), st, connClosed)
		rep.detail = fmt.Sprintf("cfg{%v} handler: ran=%d recv=%q recvErr=%q; status=%s connClosedByServer=%v; scripted request: %s", cfg, h.Ran, h.Recv, h.RecvErr, st, connClosed, c27SideString(reqSide))
	})
	return rep
}

