//go:build verif

package h_c27

// C27 — compression is negotiated and applied consistently.
//
// Three sub-legs, all complete enumerations of small configuration grammars,
// one real RPC per case, each case in its own synctest bubble:
//
//   rr  real grpc.ClientConn <-> real grpc.Server over an in-memory connection
//       with a byte tee on the client's connection;
//   rc  scripted raw HTTP/2 client -> real grpc.Server (grpc-encoding, flag,
//       payload validity and grpc-accept-encoding chosen freely);
//   rs  real grpc.ClientConn -> scripted raw HTTP/2 server (response
//       grpc-encoding, flag and payload validity chosen freely).
//
// The oracle (c27Judge) works on what is observable: the bytes of both
// directions decoded with an independent framer/hpack, reference decoders for
// every compressor, and the messages/status the applications saw. It never
// predicts which compressor the implementation "should" pick; it checks the
// clauses of the statement on whatever was negotiated:
//
//   W1 a message has compressed-flag 1 iff the grpc-encoding of its direction
//      is a non-identity name (absent = identity);
//   W2 a real server's non-identity response encoding is one the client
//      advertised in grpc-accept-encoding or the request's grpc-encoding;
//   W3 a real sender's k-th wire message is its k-th application message,
//      encoded with the compressor NAMED by grpc-encoding if flagged (reference
//      decode), verbatim otherwise;
//   W4 every message a real receiver delivered to its application equals the
//      reference decoding of the corresponding wire message (never undecoded,
//      never garbage);
//   W5 a flagged message under an encoding the receiver has no decompressor
//      for fails the RPC with UNIMPLEMENTED (server) / INTERNAL (client);
//   W6 if both encodings are supported (and, on the client, permitted by its
//      AcceptCompressors menu) and every wire message is valid, all messages
//      are delivered intact, in order, and (rr) the RPC status is OK.

import (
	"bytes"
	"context"
	"fmt"
	"io"
	"net"
	"strings"
	"sync"
	"testing"
	"testing/synctest"
	"time"

	"golang.org/x/net/http2"
	"google.golang.org/grpc"
	"google.golang.org/grpc/codes"
	"google.golang.org/grpc/credentials/insecure"
	"google.golang.org/grpc/experimental"
	"google.golang.org/grpc/internal/verif/vk"
	"google.golang.org/grpc/internal/verif/wire"
	"google.golang.org/grpc/status"
)

const c27P = "C27"

// c27StrictEmpty selects the literal reading of "flag set if and only if the
// encoding is non-identity" for ZERO-LENGTH messages too. grpc-go (like the
// gRPC compression spec, which allows an uncompressed message on a compressed
// stream) sends an empty message with flag 0 under any encoding; with false,
// that single deviation from the letter of the statement is tallied
// (outcome/extra counters) instead of being reported as a violation.
const c27StrictEmpty = false

var (
	c27Big   = []byte("payload-payload-payload-payload-payload-payload-payload")
	c27Big2  = []byte("REPLY/REPLY/REPLY/REPLY/REPLY/REPLY/REPLY/REPLY/REPLY")
	c27Small = []byte("x")
)

// ---------------------------------------------------------------- findings

type c27Finding struct{ Class, Proj, Desc string }

type c27Findings struct {
	list  []c27Finding
	notes []string // non-violation observations worth tallying
}

func (f *c27Findings) add(class, proj, format string, a ...any) {
	f.list = append(f.list, c27Finding{class, proj, fmt.Sprintf(format, a...)})
}
func (f *c27Findings) note(s string) { f.notes = append(f.notes, s) }

// ---------------------------------------------------------------- the judge

// c27Dir describes one direction of one RPC for the judge.
type c27Dir struct {
	Name         string    // "req" or "resp"
	Side         *c27Side  // what the wire carried (nil: nothing)
	SenderReal   bool      // sender is grpc-go: W1/W3 apply
	Attempted    [][]byte  // application messages the real sender tried to send, in order
	ReceiverReal bool      // receiver is grpc-go: W4/W5/W6 apply
	Delivered    [][]byte  // messages the receiving application got, in order
	Decodable    []string  // names the real receiver has a decompressor for
	Menu         []string  // client AcceptCompressors menu (nil: none); resp direction only
	FailCode     codes.Code // status the RPC ended with as seen by the client
	WantFail     codes.Code // UNIMPLEMENTED (server receives) / INTERNAL (client receives)
	NoStatus     bool       // the RPC status is not observable (connection torn down): skip the W5 status clause
	SendProj     string    // key projection of the sender's configuration
	RecvProj     string    // key projection of the receiver's configuration
}

func c27JudgeDir(d c27Dir, f *c27Findings) (allValid, supported, permitted bool) {
	enc := ""
	var msgs []c27Msg
	if d.Side != nil {
		enc = d.Side.enc()
		msgs = d.Side.Msgs
	}
	nonid := !c27Identity(enc)
	supported = !nonid || c27In(d.Decodable, enc)
	permitted = !nonid || d.Menu == nil || c27In(d.Menu, enc)
	allValid = true
	anyFlagged := false
	firstFlagged := -1
	decoded := make([][]byte, len(msgs)) // reference meaning of each wire message (nil = none)
	for k, m := range msgs {
		switch m.Flag {
		case 0:
			decoded[k] = m.Payload
			if decoded[k] == nil {
				decoded[k] = []byte{}
			}
		case 1:
			anyFlagged = true
			if firstFlagged < 0 {
				firstFlagged = k
			}
			if nonid {
				if dec, err := c27RefDecode(enc, m.Payload); err == nil {
					if dec == nil {
						dec = []byte{}
					}
					decoded[k] = dec
				}
			}
			if decoded[k] == nil {
				allValid = false
			}
		default:
			allValid = false
		}
		if d.SenderReal {
			var want []byte
			if k >= len(d.Attempted) {
				f.add(d.Name+"-extra-wire-message", d.SendProj, "%s wire message #%d has no application message (only %d were sent)", d.Name, k, len(d.Attempted))
				continue
			}
			want = d.Attempted[k]
			// W1
			switch {
			case m.Flag > 1:
				f.add(d.Name+"-bad-flag", d.SendProj, "%s message #%d has compressed-flag %d", d.Name, k, m.Flag)
			case m.Flag == 1 && !nonid:
				f.add(d.Name+"-flag-set-under-identity", d.SendProj+"/enc="+enc, "%s message #%d (%d app bytes) has compressed-flag 1 but the stream's grpc-encoding is %q", d.Name, k, len(want), enc)
			case m.Flag == 0 && nonid && len(want) == 0:
				if c27StrictEmpty {
					f.add("empty-message-flag-clear-under-nonidentity", d.Name, "%s message #%d is empty and sent with compressed-flag 0 although the stream's grpc-encoding is %q", d.Name, k, enc)
				} else {
					f.note("empty-msg-flag0-under-nonidentity/" + d.Name)
				}
			case m.Flag == 0 && nonid:
				f.add(d.Name+"-flag-clear-under-nonidentity", d.SendProj+"/enc="+enc, "%s message #%d (%d app bytes) has compressed-flag 0 but the stream's grpc-encoding is %q", d.Name, k, len(want), enc)
			}
			// W3
			if m.Flag == 1 && nonid {
				if decoded[k] == nil {
					f.add(d.Name+"-not-encoded-with-named-compressor", d.SendProj+"/enc="+enc, "%s message #%d is flagged but its payload %x is not a valid %q encoding", d.Name, k, m.Payload, enc)
				} else if !bytes.Equal(decoded[k], want) {
					f.add(d.Name+"-wire-message-differs", d.SendProj+"/enc="+enc, "%s message #%d decodes (as %q) to %q, application sent %q", d.Name, k, enc, decoded[k], want)
				}
			} else if m.Flag == 0 && !bytes.Equal(m.Payload, want) {
				f.add(d.Name+"-wire-message-differs", d.SendProj+"/enc="+enc, "%s message #%d is unflagged payload %q, application sent %q", d.Name, k, m.Payload, want)
			}
		}
	}
	if !d.ReceiverReal {
		return
	}
	// W4: everything delivered is the reference meaning of the wire message.
	for k, got := range d.Delivered {
		if k >= len(msgs) {
			f.add(d.Name+"-delivered-without-wire-message", d.RecvProj, "%s receiver got message #%d %q but only %d messages were on the wire", d.Name, k, got, len(msgs))
			continue
		}
		if decoded[k] == nil {
			f.add(d.Name+"-undecodable-message-delivered", d.RecvProj+"/enc="+enc, "%s receiver got %q for wire message #%d (flag %d, grpc-encoding %q, payload %x) which has no valid decoding", d.Name, got, k, msgs[k].Flag, enc, msgs[k].Payload)
		} else if !bytes.Equal(decoded[k], got) {
			f.add(d.Name+"-delivered-differs", d.RecvProj+"/enc="+enc, "%s receiver got %q for wire message #%d whose decoding under grpc-encoding %q (flag %d) is %q", d.Name, got, k, enc, msgs[k].Flag, decoded[k])
		}
	}
	// W5: unsupported encoding.
	if !supported {
		if anyFlagged {
			if len(d.Delivered) > firstFlagged {
				f.add(d.Name+"-unsupported-encoding-delivered", d.RecvProj+"/enc="+enc, "%s receiver has no decompressor for %q yet delivered flagged message #%d", d.Name, enc, firstFlagged)
			}
			if !d.NoStatus && d.FailCode != d.WantFail {
				f.add(d.Name+"-unsupported-encoding-wrong-status", d.RecvProj+"/enc="+enc, "%s: receiver has no decompressor for grpc-encoding %q and a flagged message arrived: RPC ended with %v, want %v", d.Name, enc, d.FailCode, d.WantFail)
			}
		} else if d.NoStatus {
			f.note(d.Name + "-unsupported-enc-unflagged-only:status-unobservable")
		} else if d.FailCode == d.WantFail {
			f.note(d.Name + "-unsupported-enc-unflagged-only:failed-" + d.WantFail.String())
		} else {
			f.note(d.Name + "-unsupported-enc-unflagged-only:" + d.FailCode.String())
		}
	}
	return
}

// c27SrvProj is the key projection of the server's sending configuration. When
// the deprecated RPCCompressor is what compressed the response (it is applied
// unless a SetSendCompressor call was accepted), the projection is coarse so
// that the one documented legacy behaviour maps to one key per compressor.
func c27SrvProj(srvLegacy, setSend, setSendErr, respEnc string) string {
	if srvLegacy != "-" {
		if setSendErr != "" && respEnc == srvLegacy {
			return "legacy-RPCCompressor(" + srvLegacy + ")"
		}
		if setSendErr == "" && setSend == "identity" {
			return "legacy-RPCCompressor(" + srvLegacy + ")+SetSendCompressor(identity)"
		}
	}
	return fmt.Sprintf("srvLegacy=%s/setSend=%s", srvLegacy, setSend)
}

// ---------------------------------------------------------------- rr: real <-> real

type c27RRCfg struct {
	Use       string `json:"use"`        // grpc.UseCompressor: "-" (not given), identity, gzip, c, zz (unregistered)
	CliLegacy string `json:"cli_legacy"` // WithCompressor+WithDecompressor: "-", gzip, l
	Accept    string `json:"accept"`     // experimental.AcceptCompressors: "-", gzip, c
	SrvLegacy string `json:"srv_legacy"` // RPCCompressor+RPCDecompressor: "-", gzip, l
	SetSend   string `json:"set_send"`   // grpc.SetSendCompressor in the handler: "-", identity, gzip, c, zz
	Shape     string `json:"shape"`      // unary-big, unary-empty, bidi
}

func (c c27RRCfg) String() string {
	return fmt.Sprintf("use=%s cliLegacy=%s accept=%s srvLegacy=%s setSend=%s shape=%s", c.Use, c.CliLegacy, c.Accept, c.SrvLegacy, c.SetSend, c.Shape)
}

func c27RRCases(thorough bool) []c27RRCfg {
	var out []c27RRCfg
	accepts := []string{"-", "gzip", "c"}
	if thorough {
		accepts = append(accepts, "gzip,c")
	}
	for _, use := range []string{"-", "identity", "gzip", "c", "zz"} {
		for _, cl := range []string{"-", "gzip", "l"} {
			for _, acc := range accepts {
				for _, sl := range []string{"-", "gzip", "l"} {
					for _, ss := range []string{"-", "identity", "gzip", "c", "zz"} {
						for _, sh := range []string{"unary-big", "unary-empty", "bidi"} {
							out = append(out, c27RRCfg{use, cl, acc, sl, ss, sh})
						}
					}
				}
			}
		}
	}
	return out
}

func c27Msgs(shape string) (req, resp [][]byte) {
	switch shape {
	case "unary-big":
		return [][]byte{c27Big}, [][]byte{c27Big2}
	case "unary-empty":
		return [][]byte{{}}, [][]byte{{}}
	}
	return [][]byte{c27Big, {}, c27Small}, [][]byte{{}, c27Big2, c27Small}
}

// c27Handler is the recording server application.
type c27Handler struct {
	mu         sync.Mutex
	setSend    string
	replies    [][]byte
	Ran        int
	Recv       [][]byte
	RecvErr    string
	SetSendErr string // "-" not called, "" accepted, else the error text
	gate       chan struct{} // if non-nil the bidi handler waits for it before its first RecvMsg
	Advertised []string
	Attempted  [][]byte
}

func (h *c27Handler) begin(ctx context.Context) {
	h.mu.Lock()
	h.Ran++
	h.mu.Unlock()
}

func (h *c27Handler) gotMsg(b []byte) {
	h.mu.Lock()
	h.Recv = append(h.Recv, append([]byte{}, b...))
	h.mu.Unlock()
}

func (h *c27Handler) beforeSend(ctx context.Context) {
	adv, _ := grpc.ClientSupportedCompressors(ctx)
	h.mu.Lock()
	h.Advertised = adv
	h.mu.Unlock()
	if h.setSend != "-" {
		err := grpc.SetSendCompressor(ctx, h.setSend)
		h.mu.Lock()
		if err != nil {
			h.SetSendErr = err.Error()
		} else {
			h.SetSendErr = ""
		}
		h.mu.Unlock()
	}
}

func (h *c27Handler) attempt(b []byte) {
	h.mu.Lock()
	h.Attempted = append(h.Attempted, b)
	h.mu.Unlock()
}

func (h *c27Handler) unary(_ any, ctx context.Context, dec func(any) error, _ grpc.UnaryServerInterceptor) (any, error) {
	h.begin(ctx)
	var in []byte
	if err := dec(&in); err != nil {
		h.mu.Lock()
		h.RecvErr = err.Error()
		h.mu.Unlock()
		return nil, err
	}
	h.gotMsg(in)
	h.beforeSend(ctx)
	h.attempt(h.replies[0])
	return h.replies[0], nil
}

func (h *c27Handler) bidi(_ any, ss grpc.ServerStream) error {
	h.begin(ss.Context())
	if h.gate != nil {
		<-h.gate
	}
	for {
		var in []byte
		err := ss.RecvMsg(&in)
		if err == io.EOF {
			break
		}
		if err != nil {
			h.mu.Lock()
			h.RecvErr = err.Error()
			h.mu.Unlock()
			return err
		}
		h.gotMsg(in)
	}
	h.beforeSend(ss.Context())
	for _, m := range h.replies {
		h.attempt(m)
		if err := ss.SendMsg(m); err != nil {
			return err
		}
	}
	return nil
}

func c27NewServer(h *c27Handler, srvLegacy string) *grpc.Server {
	opts := []grpc.ServerOption{grpc.ForceServerCodecV2(c27Codec{})}
	switch srvLegacy {
	case "gzip":
		opts = append(opts, grpc.RPCCompressor(grpc.NewGZIPCompressor()), grpc.RPCDecompressor(grpc.NewGZIPDecompressor()))
	case "l":
		opts = append(opts, grpc.RPCCompressor(c27Legacy{}), grpc.RPCDecompressor(c27LegacyDec{}))
	}
	srv := grpc.NewServer(opts...)
	srv.RegisterService(&grpc.ServiceDesc{ServiceName: "s", HandlerType: (*any)(nil),
		Methods: []grpc.MethodDesc{{MethodName: "unary", Handler: h.unary}},
		Streams: []grpc.StreamDesc{{StreamName: "bidi", ClientStreams: true, ServerStreams: true, Handler: h.bidi}},
	}, nil)
	return srv
}

func c27Decodable(legacy string) []string {
	d := append([]string(nil), c27Registered...)
	if legacy != "-" && !c27In(d, legacy) {
		d = append(d, legacy)
	}
	return d
}

// c27ClientResult is what the client application saw.
type c27ClientResult struct {
	Attempted [][]byte
	Recv      [][]byte
	Err       error
	Code      codes.Code
}

// c27RunClient performs the RPC of the given shape on cc.
func c27RunClient(cc *grpc.ClientConn, shape string, req [][]byte, opts []grpc.CallOption) (res c27ClientResult) {
	ctx, cancel := context.WithTimeout(context.Background(), 10*time.Second)
	defer cancel()
	if strings.HasPrefix(shape, "unary") {
		var out []byte
		res.Attempted = req[:1]
		err := cc.Invoke(ctx, "/s/unary", req[0], &out, opts...)
		if err == nil {
			res.Recv = append(res.Recv, append([]byte{}, out...))
		}
		res.Err, res.Code = err, status.Code(err)
		return res
	}
	st, err := cc.NewStream(ctx, &grpc.StreamDesc{ClientStreams: true, ServerStreams: true}, "/s/bidi", opts...)
	if err != nil {
		res.Err, res.Code = err, status.Code(err)
		return res
	}
	for _, m := range req {
		res.Attempted = append(res.Attempted, m)
		if err := st.SendMsg(m); err != nil {
			break
		}
	}
	st.CloseSend()
	for {
		var out []byte
		err := st.RecvMsg(&out)
		if err == io.EOF {
			break
		}
		if err != nil {
			res.Err, res.Code = err, status.Code(err)
			break
		}
		res.Recv = append(res.Recv, append([]byte{}, out...))
	}
	return res
}

func c27DialOpts(dial func(context.Context, string) (net.Conn, error), cliLegacy string) []grpc.DialOption {
	dopts := []grpc.DialOption{
		grpc.WithContextDialer(dial),
		grpc.WithTransportCredentials(insecure.NewCredentials()),
		grpc.WithDefaultCallOptions(grpc.ForceCodecV2(c27Codec{})),
	}
	switch cliLegacy {
	case "gzip":
		dopts = append(dopts, grpc.WithCompressor(grpc.NewGZIPCompressor()), grpc.WithDecompressor(grpc.NewGZIPDecompressor()))
	case "l":
		dopts = append(dopts, grpc.WithCompressor(c27Legacy{}), grpc.WithDecompressor(c27LegacyDec{}))
	}
	return dopts
}

func c27CallOpts(use, accept string) []grpc.CallOption {
	var copts []grpc.CallOption
	if use != "-" {
		copts = append(copts, grpc.UseCompressor(use))
	}
	if accept != "-" {
		copts = append(copts, experimental.AcceptCompressors(strings.Split(accept, ",")...))
	}
	return copts
}

func c27Menu(accept string) []string {
	if accept == "-" {
		return nil
	}
	return strings.Split(accept, ",")
}

type c27Report struct {
	findings   c27Findings
	outcome    string
	detail     string
	nontrivial bool
}

// c27SideNontrivial: the direction carries a non-identity grpc-encoding or a
// flagged message.
func c27SideNontrivial(s *c27Side) bool {
	if s == nil {
		return false
	}
	if !c27Identity(s.enc()) {
		return true
	}
	for _, m := range s.Msgs {
		if m.Flag != 0 {
			return true
		}
	}
	return false
}

// c27RunRR executes one real<->real case in its own bubble.
func c27RunRR(t *testing.T, r *vk.Run, cfg c27RRCfg) (rep c27Report) {
	synctest.Test(t, func(t *testing.T) {
		req, resp := c27Msgs(cfg.Shape)
		h := &c27Handler{setSend: cfg.SetSend, replies: resp, SetSendErr: "-"}
		srv := c27NewServer(h, cfg.SrvLegacy)
		lis := wire.NewListener()
		go srv.Serve(lis)
		var tee *c27Tee
		dials := 0
		dial := func(context.Context, string) (net.Conn, error) {
			dials++
			c, err := lis.Dial()
			if err != nil {
				return nil, err
			}
			tee = &c27Tee{Conn: c}
			return tee, nil
		}
		cc, err := grpc.NewClient("passthrough:///x", c27DialOpts(dial, cfg.CliLegacy)...)
		if err != nil {
			r.EngineError("NewClient: %v", err)
			return
		}
		res := c27RunClient(cc, cfg.Shape, req, c27CallOpts(cfg.Use, cfg.Accept))
		synctest.Wait()
		cc.Close()
		srv.Stop()
		synctest.Wait()
		if dials > 1 {
			r.EngineError("rr %v: %d connections dialled, tee covers only the last", cfg, dials)
			return
		}
		var reqSide, respSide *c27Side
		if tee != nil {
			up, down := tee.bytes()
			us, err1 := c27ParseWire(up, true)
			ds, err2 := c27ParseWire(down, false)
			if err1 != nil || err2 != nil {
				r.EngineError("rr %v: wire parse: %v / %v", cfg, err1, err2)
				return
			}
			if len(us) > 1 {
				r.EngineError("rr %v: %d request streams on the wire (retry?)", cfg, len(us))
				return
			}
			reqSide, respSide = us[1], ds[1]
		}
		h.mu.Lock()
		defer h.mu.Unlock()
		f := &rep.findings
		reqEnc, respEnc := "", ""
		if reqSide != nil {
			reqEnc = reqSide.enc()
		}
		if respSide != nil {
			respEnc = respSide.enc()
		}
		cliProj := fmt.Sprintf("use=%s/cliLegacy=%s", cfg.Use, cfg.CliLegacy)
		srvProj := c27SrvProj(cfg.SrvLegacy, cfg.SetSend, h.SetSendErr, respEnc)
		rv, rs, _ := c27JudgeDir(c27Dir{Name: "req", Side: reqSide, SenderReal: true, Attempted: res.Attempted, ReceiverReal: true,
			Delivered: h.Recv, Decodable: c27Decodable(cfg.SrvLegacy), FailCode: res.Code, WantFail: codes.Unimplemented,
			SendProj: cliProj, RecvProj: "srvLegacy=" + cfg.SrvLegacy}, f)
		pv, ps, pp := c27JudgeDir(c27Dir{Name: "resp", Side: respSide, SenderReal: true, Attempted: h.Attempted, ReceiverReal: true,
			Delivered: res.Recv, Decodable: c27Decodable(cfg.CliLegacy), Menu: c27Menu(cfg.Accept), FailCode: res.Code, WantFail: codes.Internal,
			SendProj: srvProj, RecvProj: fmt.Sprintf("cliLegacy=%s/accept=%s", cfg.CliLegacy, cfg.Accept)}, f)
		// W2
		var advertised []string
		if reqSide != nil {
			advertised = c27SplitList(reqSide.header("grpc-accept-encoding"))
		}
		if !c27Identity(respEnc) && !c27In(advertised, respEnc) && respEnc != reqEnc {
			flagged := false
			for _, m := range respSide.Msgs {
				flagged = flagged || m.Flag == 1
			}
			if flagged {
				f.add("resp-compressed-with-unadvertised", fmt.Sprintf("%s/enc=%s", srvProj, respEnc),
					"server compressed the response with %q; the client advertised grpc-accept-encoding %v and used grpc-encoding %q (SetSendCompressor result %q)", respEnc, advertised, reqEnc, h.SetSendErr)
			} else {
				f.note("resp-enc-unadvertised-header-only")
			}
		}
		// W6 / local failure
		switch {
		case reqSide == nil:
			// nothing was sent: the client must have failed the RPC locally
			if res.Code == codes.OK {
				f.add("rpc-ok-without-wire", cliProj, "client reported OK but no request stream was on the wire")
			}
			if h.Ran != 0 {
				f.add("handler-ran-without-wire", cliProj, "handler ran although no request stream was on the wire")
			}
		case rv && rs && pv && ps && pp:
			if res.Code != codes.OK {
				f.add("supported-encodings-rpc-failed", fmt.Sprintf("reqenc=%s/srvLegacy=%s/respenc=%s/cliLegacy=%s/accept=%s", reqEnc, cfg.SrvLegacy, respEnc, cfg.CliLegacy, cfg.Accept),
					"request grpc-encoding %q and response grpc-encoding %q are supported by their receivers, all wire messages are valid, yet the RPC failed: %v", reqEnc, respEnc, res.Err)
			} else {
				if !c27SameMsgs(h.Recv, req) {
					f.add("req-not-delivered-intact", cliProj+"/srvLegacy="+cfg.SrvLegacy, "handler received %q, client sent %q", h.Recv, req)
				}
				if !c27SameMsgs(res.Recv, resp) {
					f.add("resp-not-delivered-intact", srvProj+"/cliLegacy="+cfg.CliLegacy, "client received %q, handler sent %q", res.Recv, resp)
				}
			}
		}
		rep.nontrivial = c27SideNontrivial(reqSide) || c27SideNontrivial(respSide)
		rep.outcome = fmt.Sprintf("reqenc=%s respenc=%s code=%v setSend=%s", c27Show(reqEnc, reqSide), c27Show(respEnc, respSide), res.Code, c27ErrClass(h.SetSendErr))
		rep.detail = fmt.Sprintf("cfg{%v} client: err=%v recv=%q; handler: ran=%d recv=%q recvErr=%q setSendErr=%q advertised=%v attempted=%q; wire req: %s; wire resp: %s",
			cfg, res.Err, res.Recv, h.Ran, h.Recv, h.RecvErr, h.SetSendErr, h.Advertised, h.Attempted, c27SideString(reqSide), c27SideString(respSide))
	})
	return rep
}

func c27Show(enc string, s *c27Side) string {
	if s == nil {
		return "(none)"
	}
	if enc == "" {
		enc = "(absent)"
	}
	var fl []string
	for _, m := range s.Msgs {
		fl = append(fl, fmt.Sprint(m.Flag))
	}
	return enc + "[" + strings.Join(fl, "") + "]"
}

func c27ErrClass(e string) string {
	switch {
	case e == "-":
		return "notcalled"
	case e == "":
		return "accepted"
	case strings.Contains(e, "not registered"):
		return "rejected-unregistered"
	case strings.Contains(e, "does not support"):
		return "rejected-unadvertised"
	}
	return "rejected-other"
}

func c27SameMsgs(a, b [][]byte) bool {
	if len(a) != len(b) {
		return false
	}
	for i := range a {
		if !bytes.Equal(a[i], b[i]) {
			return false
		}
	}
	return true
}

func c27SideString(s *c27Side) string {
	if s == nil {
		return "(no stream)"
	}
	var sb strings.Builder
	for _, b := range s.Blocks {
		fmt.Fprintf(&sb, "HEADERS%v ", b)
	}
	for i, m := range s.Msgs {
		fmt.Fprintf(&sb, "MSG#%d(flag=%d,%x) ", i, m.Flag, m.Payload)
	}
	if s.Leftover > 0 {
		fmt.Fprintf(&sb, "leftover=%d ", s.Leftover)
	}
	if s.RST {
		sb.WriteString("RST ")
	}
	return sb.String()
}

// ---------------------------------------------------------------- rc: raw client -> real server

type c27RCCfg struct {
	Enc       string `json:"enc"`        // request grpc-encoding: "-" (absent), identity, gzip, c, unknown
	Flag      int    `json:"flag"`       // compressed-flag of the request message
	Valid     bool   `json:"valid"`      // payload is a valid encoding of the message for Enc (flag 1) / the message itself (flag 0)
	Accept    string `json:"accept"`     // grpc-accept-encoding: "-" (absent), "gzip", "c", "gzip,c", "unknown"
	SrvLegacy string `json:"srv_legacy"` // "-", gzip
	SetSend   string `json:"set_send"`   // "-", gzip, c
}

func (c c27RCCfg) String() string {
	return fmt.Sprintf("enc=%s flag=%d valid=%v accept=%s srvLegacy=%s setSend=%s", c.Enc, c.Flag, c.Valid, c.Accept, c.SrvLegacy, c.SetSend)
}

func c27RCCases() []c27RCCfg {
	var out []c27RCCfg
	for _, enc := range []string{"-", "identity", "gzip", "c", "unknown"} {
		for _, flag := range []int{0, 1} {
			for _, valid := range []bool{true, false} {
				for _, acc := range []string{"-", "gzip", "c", "gzip,c", "unknown"} {
					for _, sl := range []string{"-", "gzip"} {
						for _, ss := range []string{"-", "gzip", "c"} {
							out = append(out, c27RCCfg{enc, flag, valid, acc, sl, ss})
						}
					}
				}
			}
		}
	}
	return out
}

func c27RunRC(t *testing.T, r *vk.Run, cfg c27RCCfg) (rep c27Report) {
	synctest.Test(t, func(t *testing.T) {
		h := &c27Handler{setSend: cfg.SetSend, replies: [][]byte{c27Big2}, SetSendErr: "-"}
		srv := c27NewServer(h, cfg.SrvLegacy)
		lis := wire.NewListener()
		go srv.Serve(lis)
		conn, err := lis.Dial()
		if err != nil {
			r.EngineError("dial: %v", err)
			return
		}
		peer := wire.NewClientPeer(conn)
		peer.AutoAckSettings, peer.AutoAckPing = true, true
		peer.WriteSettings()
		synctest.Wait()
		fields := [][2]string{{":method", "POST"}, {":scheme", "http"}, {":path", "/s/unary"}, {":authority", "verif"},
			{"content-type", "application/grpc"}, {"te", "trailers"}}
		enc := ""
		if cfg.Enc != "-" {
			enc = cfg.Enc
			fields = append(fields, [2]string{"grpc-encoding", cfg.Enc})
		}
		if cfg.Accept != "-" {
			fields = append(fields, [2]string{"grpc-accept-encoding", cfg.Accept})
		}
		// the request message
		var payload []byte
		switch {
		case cfg.Flag == 0 && cfg.Valid:
			payload = c27Big
		case cfg.Flag == 0:
			// "invalid" for an unflagged message: bytes that would be a valid
			// compressed form -- they must be delivered verbatim, not decoded
			payload = c27RefEncode("gzip", c27Big)
		case cfg.Valid:
			payload = c27RefEncode(enc, c27Big)
		default:
			payload = []byte("\x00garbage-not-a-compressed-payload")
		}
		peer.WriteHeaders(1, fields, false)
		peer.WriteData(1, true, wire.GrpcMsg(cfg.Flag == 1, payload))
		synctest.Wait()
		// what came back
		respSide := &c27Side{}
		for _, fr := range peer.Log() {
			if fr.Stream != 1 {
				continue
			}
			switch fr.Type {
			case "HEADERS":
				respSide.Blocks = append(respSide.Blocks, fr.Fields)
			case "DATA":
				respSide.Data = append(respSide.Data, fr.Data...)
			case "RST_STREAM":
				respSide.RST = true
			}
		}
		respSide.Msgs, respSide.Leftover = c27SplitMsgs(respSide.Data)
		srv.Stop()
		peer.Close()
		synctest.Wait()
		code := codes.Code(9999)
		if gs := respSide.field("grpc-status"); gs != "" {
			var n int
			fmt.Sscanf(gs, "%d", &n)
			code = codes.Code(n)
		}
		reqSide := &c27Side{Blocks: [][][2]string{fields}, Msgs: []c27Msg{{Flag: byte(cfg.Flag), Payload: payload}}}
		h.mu.Lock()
		defer h.mu.Unlock()
		f := &rep.findings
		srvProj := c27SrvProj(cfg.SrvLegacy, cfg.SetSend, h.SetSendErr, respSide.enc())
		rv, rs, _ := c27JudgeDir(c27Dir{Name: "req", Side: reqSide, SenderReal: false, ReceiverReal: true, Delivered: h.Recv,
			Decodable: c27Decodable(cfg.SrvLegacy), FailCode: code, WantFail: codes.Unimplemented,
			RecvProj: fmt.Sprintf("rawclient/srvLegacy=%s/flag=%d/valid=%v", cfg.SrvLegacy, cfg.Flag, cfg.Valid)}, f)
		c27JudgeDir(c27Dir{Name: "resp", Side: respSide, SenderReal: true, Attempted: h.Attempted, ReceiverReal: false, SendProj: srvProj}, f)
		respEnc := respSide.enc()
		var advertised []string
		if cfg.Accept != "-" {
			advertised = c27SplitList([]string{cfg.Accept})
		}
		if !c27Identity(respEnc) && !c27In(advertised, respEnc) && respEnc != enc {
			flagged := false
			for _, m := range respSide.Msgs {
				flagged = flagged || m.Flag == 1
			}
			if flagged {
				f.add("resp-compressed-with-unadvertised", fmt.Sprintf("%s/enc=%s", srvProj, respEnc),
					"server compressed the response with %q; the raw client advertised grpc-accept-encoding %v and used grpc-encoding %q (SetSendCompressor result %q)", respEnc, advertised, enc, h.SetSendErr)
			} else {
				f.note("resp-enc-unadvertised-header-only")
			}
		}
		// W6 (request direction): a valid message under a supported encoding reaches the handler intact and is answered
		if rv && rs {
			want := c27Big
			if cfg.Flag == 0 {
				want = payload
			}
			if len(h.Recv) != 1 || !bytes.Equal(h.Recv[0], want) {
				f.add("req-not-delivered-intact", fmt.Sprintf("rawclient/srvLegacy=%s/enc=%s/flag=%d", cfg.SrvLegacy, cfg.Enc, cfg.Flag), "valid request message under supported grpc-encoding %q (flag %d): handler received %q (status %v)", enc, cfg.Flag, h.Recv, code)
			}
		}
		rep.outcome = fmt.Sprintf("rc enc=%s flag=%d valid=%v -> handlerRecv=%d status=%v respenc=%s setSend=%s", cfg.Enc, cfg.Flag, cfg.Valid, len(h.Recv), code, c27Show(respEnc, respSide), c27ErrClass(h.SetSendErr))
		rep.detail = fmt.Sprintf("cfg{%v} handler: ran=%d recv=%q recvErr=%q setSendErr=%q advertised=%v attempted=%q; wire resp: %s",
			cfg, h.Ran, h.Recv, h.RecvErr, h.SetSendErr, h.Advertised, h.Attempted, c27SideString(respSide))
	})
	return rep
}

// ---------------------------------------------------------------- rs: real client -> raw server

type c27RSCfg struct {
	Enc       string `json:"enc"`        // response grpc-encoding: "-" (absent), identity, gzip, c, l, unknown
	Flag      int    `json:"flag"`       // compressed-flag of the response message
	Valid     bool   `json:"valid"`      // payload validity (as in rc)
	CliLegacy string `json:"cli_legacy"` // "-", gzip, l
	Accept    string `json:"accept"`     // "-", gzip
	Use       string `json:"use"`        // "-", gzip, c
}

func (c c27RSCfg) String() string {
	return fmt.Sprintf("enc=%s flag=%d valid=%v cliLegacy=%s accept=%s use=%s", c.Enc, c.Flag, c.Valid, c.CliLegacy, c.Accept, c.Use)
}

func c27RSCases() []c27RSCfg {
	var out []c27RSCfg
	for _, enc := range []string{"-", "identity", "gzip", "c", "l", "unknown"} {
		for _, flag := range []int{0, 1} {
			for _, valid := range []bool{true, false} {
				for _, cl := range []string{"-", "gzip", "l"} {
					for _, acc := range []string{"-", "gzip"} {
						for _, use := range []string{"-", "gzip", "c"} {
							out = append(out, c27RSCfg{enc, flag, valid, cl, acc, use})
						}
					}
				}
			}
		}
	}
	return out
}

func c27RunRS(t *testing.T, r *vk.Run, cfg c27RSCfg) (rep c27Report) {
	synctest.Test(t, func(t *testing.T) {
		var peer *wire.Peer
		dials := 0
		dial := func(context.Context, string) (net.Conn, error) {
			dials++
			c, s := wire.Pipe()
			peer = wire.NewServerPeer(s)
			peer.AutoAckSettings, peer.AutoAckPing = true, true
			peer.WriteSettings(http2.Setting{ID: http2.SettingMaxConcurrentStreams, Val: 10})
			return c, nil
		}
		cc, err := grpc.NewClient("passthrough:///x", c27DialOpts(dial, cfg.CliLegacy)...)
		if err != nil {
			r.EngineError("NewClient: %v", err)
			return
		}
		enc := ""
		if cfg.Enc != "-" {
			enc = cfg.Enc
		}
		var payload []byte
		switch {
		case cfg.Flag == 0 && cfg.Valid:
			payload = c27Big2
		case cfg.Flag == 0:
			payload = c27RefEncode("gzip", c27Big2)
		case cfg.Valid:
			payload = c27RefEncode(enc, c27Big2)
		default:
			payload = []byte("\x00garbage-not-a-compressed-payload")
		}
		var res c27ClientResult
		done := make(chan struct{})
		go func() {
			defer close(done)
			res = c27RunClient(cc, "unary-big", [][]byte{c27Big}, c27CallOpts(cfg.Use, cfg.Accept))
		}()
		synctest.Wait()
		// the request is on the wire (or the client failed locally); answer it
		var reqSide *c27Side
		if peer != nil {
			reqSide = &c27Side{}
			seen := false
			for _, fr := range peer.Log() {
				if fr.Stream != 1 {
					continue
				}
				seen = true
				switch fr.Type {
				case "HEADERS":
					reqSide.Blocks = append(reqSide.Blocks, fr.Fields)
				case "DATA":
					reqSide.Data = append(reqSide.Data, fr.Data...)
				}
			}
			reqSide.Msgs, reqSide.Leftover = c27SplitMsgs(reqSide.Data)
			if !seen {
				reqSide = nil
			}
		}
		hdr := [][2]string{{":status", "200"}, {"content-type", "application/grpc"}}
		if cfg.Enc != "-" {
			hdr = append(hdr, [2]string{"grpc-encoding", cfg.Enc})
		}
		if reqSide != nil {
			peer.WriteHeaders(1, hdr, false)
			peer.WriteData(1, false, wire.GrpcMsg(cfg.Flag == 1, payload))
			peer.WriteHeaders(1, [][2]string{{"grpc-status", "0"}}, true)
		}
		<-done
		synctest.Wait()
		cc.Close()
		if peer != nil {
			peer.Close()
		}
		synctest.Wait()
		if dials > 1 {
			r.EngineError("rs %v: %d connections dialled", cfg, dials)
			return
		}
		f := &rep.findings
		cliProj := fmt.Sprintf("rawserver/use=%s/cliLegacy=%s", cfg.Use, cfg.CliLegacy)
		c27JudgeDir(c27Dir{Name: "req", Side: reqSide, SenderReal: true, Attempted: res.Attempted, ReceiverReal: false, SendProj: cliProj}, f)
		if reqSide == nil {
			f.add("no-request-on-wire", cliProj, "client sent no request stream: %v", res.Err)
			return
		}
		respSide := &c27Side{Blocks: [][][2]string{hdr}, Msgs: []c27Msg{{Flag: byte(cfg.Flag), Payload: payload}}}
		pv, ps, pp := c27JudgeDir(c27Dir{Name: "resp", Side: respSide, SenderReal: false, ReceiverReal: true, Delivered: res.Recv,
			Decodable: c27Decodable(cfg.CliLegacy), Menu: c27Menu(cfg.Accept), FailCode: res.Code, WantFail: codes.Internal,
			RecvProj: fmt.Sprintf("rawserver/cliLegacy=%s/accept=%s/flag=%d/valid=%v", cfg.CliLegacy, cfg.Accept, cfg.Flag, cfg.Valid)}, f)
		if pv && ps && pp {
			want := c27Big2
			if cfg.Flag == 0 {
				want = payload
			}
			if res.Code != codes.OK || len(res.Recv) != 1 || !bytes.Equal(res.Recv[0], want) {
				f.add("resp-not-delivered-intact", fmt.Sprintf("rawserver/cliLegacy=%s/accept=%s/enc=%s/flag=%d", cfg.CliLegacy, cfg.Accept, cfg.Enc, cfg.Flag),
					"valid response message under supported and accepted grpc-encoding %q (flag %d): client received %q, err=%v", enc, cfg.Flag, res.Recv, res.Err)
			}
		}
		rep.outcome = fmt.Sprintf("rs enc=%s flag=%d valid=%v supported=%v permitted=%v -> clientRecv=%d code=%v reqenc=%s", cfg.Enc, cfg.Flag, cfg.Valid, ps, pp, len(res.Recv), res.Code, c27Show(reqSide.enc(), reqSide))
		rep.detail = fmt.Sprintf("cfg{%v} client: err=%v recv=%q; wire req: %s", cfg, res.Err, res.Recv, c27SideString(reqSide))
	})
	return rep
}

// ---------------------------------------------------------------- driver

type c27Replay struct {
	Leg string    `json:"leg"`
	RR  *c27RRCfg `json:"rr,omitempty"`
	RC  *c27RCCfg `json:"rc,omitempty"`
	RS  *c27RSCfg `json:"rs,omitempty"`
	TR  *c27TRCfg `json:"tr,omitempty"`
	TS  *c27TSCfg `json:"ts,omitempty"`
}

func c27Record(r *vk.Run, sub string, cfgKey string, rep c27Report, rp c27Replay, nontrivial bool, sampled map[string]bool) {
	r.Eval(c27P, 1)
	if nontrivial {
		r.NontrivialN(c27P, 1)
	}
	if rep.outcome != "" {
		r.Outcome(c27P, rep.outcome)
	}
	for _, n := range rep.findings.notes {
		r.AddInt(c27P, "note:"+n, 1)
	}
	seen := map[string]bool{}
	for _, fd := range rep.findings.list {
		key := fd.Class + "/" + fd.Proj
		if seen[key] {
			continue
		}
		seen[key] = true
		r.Violation(c27P, key, "["+sub+"] "+fd.Desc+" || "+rep.detail, rp)
	}
	if len(rep.findings.list) == 0 && nontrivial && !sampled[sub] {
		sampled[sub] = true
		r.Sample(c27P, map[string]any{"subleg": sub, "case": cfgKey, "observed": rep.outcome, "detail": rep.detail})
	}
}

func TestVerif_C27_Compression(t *testing.T) {
	r := vk.Start(t, "c27_compression", "exploration", c27P)
	defer r.Finish()
	rr, rc, rs := c27RRCases(r.Thorough()), c27RCCases(), c27RSCases()
	tr, ts := c27TRCases(), c27TSCases()
	r.Rule(c27P, fmt.Sprintf("full cross products: rr (real client x real server) UseCompressor{-,identity,gzip,c,zz} x legacy WithCompressor/WithDecompressor{-,gzip,l} x AcceptCompressors{-,gzip,c; thorough tier also 'gzip,c'} x legacy RPCCompressor/RPCDecompressor{-,gzip,l} x SetSendCompressor{-,identity,gzip,c,zz} x shape{unary 55B, unary empty, bidi 3+3 msgs} = %d; rc (raw client -> real server) grpc-encoding{-,identity,gzip,c,unknown} x flag{0,1} x payload{valid,invalid} x grpc-accept-encoding{-,gzip,c,'gzip,c',unknown} x RPCCompressor{-,gzip} x SetSendCompressor{-,gzip,c} = %d; rs (real client -> raw server) response grpc-encoding{-,identity,gzip,c,l,unknown} x flag x payload validity x legacy{-,gzip,l} x AcceptCompressors{-,gzip} x UseCompressor{-,gzip,c} = %d; tr (real client <- raw server, WHERE grpc-encoding appears) response-HEADERS value{-,identity,gzip,c,unknown} x TRAILERS value{-,identity,gzip,c,unknown} x compressed flags of 1-2 messages{0,1,00,01,10,11} x number of messages the application reads before the trailers arrive{0..n}, plus trailers-only responses carrying each value = %d; ts (raw client -> real server mirror) request-HEADERS value x value in a later client HEADERS frame x flag{0,1} x handler reads before/after that frame = %d. Non-trivial: at least one direction carries a non-identity grpc-encoding or a flagged message (the flag/encoding clauses are then not vacuous)", len(rr), len(rc), len(rs), len(tr), len(ts)))
	r.Assume(c27P, "registered compressors in the test binary: gzip (encoding/gzip) and custom 'c'; 'l' exists only as legacy grpc.Compressor/Decompressor; 'zz'/'unknown' exist nowhere")
	r.Assume(c27P, "reading of the statement: an UNFLAGGED message under an encoding the receiver does not support may either fail with the required code or be delivered verbatim (it is not 'undecoded data'); W2 is judged only when the server actually sent a flagged message; SetSendCompressor is called before the first response message")
	if !c27StrictEmpty {
		r.Assume(c27P, "zero-length messages sent with flag 0 under a non-identity grpc-encoding are tallied (extra note:empty-msg-flag0-under-nonidentity/*), not reported: grpc-go never compresses an empty message, which the gRPC compression spec permits but the letter of the statement ('if and only if') does not")
	}
	r.Assume(c27P, "the grpc-encoding of a stream direction is the value in that direction's FIRST header block (response HEADERS / request HEADERS); a grpc-encoding field in trailers or in any later HEADERS frame has no meaning and must not change how messages are decoded, whenever the application reads them")
	r.Assume(c27P, "trusted: testing/synctest quiescence, x/net/http2 framer + hpack used by the tee parser and raw peers, stdlib compress/gzip as reference decoder")

	if r.ReplayFile() != "" {
		var rp c27Replay
		if err := r.LoadReplay(&rp); err != nil {
			r.EngineError("replay: %v", err)
			return
		}
		sampled := map[string]bool{}
		switch {
		case rp.RR != nil:
			c27Record(r, "rr", rp.RR.String(), c27RunRR(t, r, *rp.RR), rp, true, sampled)
		case rp.RC != nil:
			c27Record(r, "rc", rp.RC.String(), c27RunRC(t, r, *rp.RC), rp, true, sampled)
		case rp.RS != nil:
			c27Record(r, "rs", rp.RS.String(), c27RunRS(t, r, *rp.RS), rp, true, sampled)
		case rp.TR != nil:
			c27Record(r, "tr", rp.TR.String(), c27RunTR(t, r, *rp.TR), rp, true, sampled)
		case rp.TS != nil:
			c27Record(r, "ts", rp.TS.String(), c27RunTS(t, r, *rp.TS), rp, true, sampled)
		}
		return
	}

	sampled := map[string]bool{}
	item := 0
	over := false
	next := func() bool {
		mine := r.Mine(item)
		item++
		if !mine || over {
			return false
		}
		if r.OverBudget() {
			r.Cap(c27P, "time budget reached before all cases ran")
			over = true
			return false
		}
		return true
	}
	for i := range rr {
		if !next() {
			continue
		}
		cfg := rr[i]
		rep := c27RunRR(t, r, cfg)
		c27Record(r, "rr", cfg.String(), rep, c27Replay{Leg: "rr", RR: &cfg}, rep.nontrivial, sampled)
	}
	for i := range rc {
		if !next() {
			continue
		}
		cfg := rc[i]
		rep := c27RunRC(t, r, cfg)
		nt := cfg.Flag == 1 || (cfg.Enc != "-" && cfg.Enc != "identity") || strings.Contains(rep.outcome, "[1]")
		c27Record(r, "rc", cfg.String(), rep, c27Replay{Leg: "rc", RC: &cfg}, nt, sampled)
	}
	for i := range rs {
		if !next() {
			continue
		}
		cfg := rs[i]
		rep := c27RunRS(t, r, cfg)
		nt := cfg.Flag == 1 || (cfg.Enc != "-" && cfg.Enc != "identity")
		c27Record(r, "rs", cfg.String(), rep, c27Replay{Leg: "rs", RS: &cfg}, nt, sampled)
	}
	for i := range tr {
		if !next() {
			continue
		}
		cfg := tr[i]
		rep := c27RunTR(t, r, cfg)
		c27Record(r, "tr", cfg.String(), rep, c27Replay{Leg: "tr", TR: &cfg}, rep.nontrivial, sampled)
	}
	for i := range ts {
		if !next() {
			continue
		}
		cfg := ts[i]
		rep := c27RunTS(t, r, cfg)
		c27Record(r, "ts", cfg.String(), rep, c27Replay{Leg: "ts", TS: &cfg}, rep.nontrivial, sampled)
	}
}
