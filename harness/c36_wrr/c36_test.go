//go:build verif

package weightedroundrobin

// C36: weighted round robin picks in proportion to weights.
//
// Leg c36_sched: every weight vector of length 1..4 over a value menu is turned
// into real endpointWeights (real OnLoadReport / weight path, "no report yet" for
// the zeros), the real picker.newScheduler builds the scheduler, and the real
// nextIndex is driven through complete windows of 65535*n sequence numbers (plus
// a sliding extension) from three starting values of the real picker.idx
// counter. The oracle is a math/big statement of the property (closed form, see
// c36Expected).
//
// Leg c36_weight: every op sequence (load reports from a menu, virtual-time
// steps chosen to hit the blackout/expiration boundaries exactly, queries) up to
// a depth is applied to a fresh real endpointWeight with the package's TimeNow
// seam on a virtual clock; each query is compared with a history-based oracle.

import (
	"fmt"
	"math/big"
	"runtime"
	"strconv"
	"strings"
	"sync"
	"testing"
	"time"

	v3orcapb "github.com/cncf/xds/go/xds/data/orca/v3"
	"google.golang.org/grpc/balancer"
	"google.golang.org/grpc/balancer/weightedroundrobin/internal"
	"google.golang.org/grpc/connectivity"
	estats "google.golang.org/grpc/experimental/stats"
	internalgrpclog "google.golang.org/grpc/internal/grpclog"
	iserviceconfig "google.golang.org/grpc/internal/serviceconfig"
	"google.golang.org/grpc/internal/verif/vk"
	"google.golang.org/grpc/resolver"
)

const c36P = "C36"

type c36Recorder struct {
	estats.UnimplementedMetricsRecorder
}

var c36Log = internalgrpclog.NewPrefixLogger(logger, "[c36] ")

var c36T0 = time.Date(2030, 1, 1, 0, 0, 0, 0, time.UTC)

func c36FmtW(ws []float64) string {
	s := make([]string, len(ws))
	for i, w := range ws {
		s[i] = strconv.FormatFloat(w, 'g', -1, 64)
	}
	return "[" + strings.Join(s, ",") + "]"
}

// ---------------------------------------------------------------------------
// Oracle for the scheduler (written from the statement, in exact arithmetic).
//
// Statement: over any window of 65535*n consecutive sequence numbers each
// backend is chosen in proportion to its scaled weight; endpoints without a
// usable weight get the mean of the others; plain round robin when fewer than
// two weights are non-zero or all are equal.
//
// "Scaled weight" is the 16-bit quantisation of the weight relative to the
// largest one: s_i = nearest integer to 65535*v_i/max(v), where v_i is the
// weight, or the mean of the non-zero weights for an endpoint without a usable
// weight. A window of 65535*n sequence numbers holds 65535 "turns" of every
// backend; "in proportion to its scaled weight" with 65535 as full scale means
// backend i is chosen in exactly s_i of its 65535 turns. (The largest weight
// has s=65535, i.e. is chosen at every turn, which is also what bounds a pick
// by n sequence numbers.) This is exact, no tolerance: for a stride scheduler
// the multiples of gcd(s_i,65535) hit a length-s_i residue window exactly s_i
// times per 65535 consecutive generations.
//
// The only slack: when 65535*v_i/max is (within float64 evaluation error of) a
// half-integer, "nearest integer" has two admissible answers. The weights are
// float64 values; evaluating 65535/max*v in float64 carries a relative error of
// at most a few ulp (< 4*2^-53 for the product, < 8*2^-53 including the mean of
// up to 4 terms), i.e. an absolute error < 65535*8*2^-53 < 2^-34. A value whose
// fractional part is within 2^-32 of 1/2 therefore admits both neighbours;
// every other value admits exactly one count.
// ---------------------------------------------------------------------------

type c36Exp struct {
	lo, hi []int64 // admissible picks per window for backend i: lo[i]..hi[i] (hi-lo is 0 or 1)
	rr     bool    // plain round robin demanded by the statement
	ties   int
}

func c36Expected(ws []float64) c36Exp {
	n := len(ws)
	e := c36Exp{lo: make([]int64, n), hi: make([]int64, n)}
	nonzero := 0
	allEq := true
	sum := new(big.Rat)
	max := new(big.Rat)
	var first *big.Rat
	for _, w := range ws {
		if w == 0 {
			continue
		}
		nonzero++
		q := new(big.Rat).SetFloat64(w)
		sum.Add(sum, q)
		if q.Cmp(max) > 0 {
			max.Set(q)
		}
		if first == nil {
			first = q
		} else if first.Cmp(q) != 0 {
			allEq = false
		}
	}
	if n == 1 || nonzero < 2 || allEq {
		// fewer than two non-zero weights, or all (usable) weights equal (the
		// unusable ones get the mean, i.e. the same value): plain round robin
		e.rr = true
		for i := range ws {
			e.lo[i], e.hi[i] = 65535, 65535
		}
		return e
	}
	mean := new(big.Rat).Quo(sum, big.NewRat(int64(nonzero), 1))
	half := big.NewRat(1, 2)
	eps := new(big.Rat).SetFrac(big.NewInt(1), new(big.Int).Lsh(big.NewInt(1), 32))
	for i, w := range ws {
		v := mean
		if w != 0 {
			v = new(big.Rat).SetFloat64(w)
		}
		x := new(big.Rat).Mul(big.NewRat(65535, 1), v)
		x.Quo(x, max)
		fl := new(big.Int).Quo(x.Num(), x.Denom()) // x >= 0: floor
		frac := new(big.Rat).Sub(x, new(big.Rat).SetInt(fl))
		d := new(big.Rat).Sub(frac, half)
		ad := new(big.Rat).Abs(d)
		f := fl.Int64()
		switch {
		case ad.Cmp(eps) <= 0:
			e.lo[i], e.hi[i] = f, f+1
			e.ties++
		case d.Sign() < 0:
			e.lo[i], e.hi[i] = f, f
		default:
			e.lo[i], e.hi[i] = f+1, f+1
		}
	}
	return e
}

// c36BuildPicker builds a real picker whose endpoints got weight ws[i] through
// the real load-report path (qps=w, utilization=1, eps=0 => w/(1+0) = w exactly);
// ws[i]==0 means "no load report yet".
func c36BuildPicker(ws []float64) *picker {
	cfg := &lbConfig{BlackoutPeriod: 0, WeightExpirationPeriod: iserviceconfig.Duration(3 * time.Minute), ErrorUtilizationPenalty: 1}
	p := &picker{cfg: cfg, metricsRecorder: c36Recorder{}}
	for _, w := range ws {
		ew := &endpointWeight{logger: c36Log, metricsRecorder: c36Recorder{}, cfg: cfg}
		if w != 0 {
			ew.OnLoadReport(&v3orcapb.OrcaLoadReport{RpsFractional: w, ApplicationUtilization: 1})
		}
		p.weightedPickers = append(p.weightedPickers, pickerWeightedEndpoint{weightedEndpoint: ew})
	}
	return p
}

type c36Runaway struct{}

type c36Fail struct {
	kind   string // short class, part of the violation key
	desc   string
	prefix []int // timeline leg: the op prefix up to and including the failing query
}

type c36VecResult struct {
	fails      []c36Fail
	schedType  string
	counts     [][]int64 // per start
	wrapMax    int
	wrapOverN  int
	wrapN1     string // first pick at the uint32 wrap that consumed exactly n+1 sequence numbers
	engineErr  string
	seqNumbers int64
	picks      int64
}

// c36WrapKey is the ONE canonical violation key (same in every tier) for a pick
// that straddles the uint32 wrap of the sequence counter and consumes exactly
// n+1 sequence numbers; the smallest example goes into the description.
const c36WrapKey = "sched-pick-consumes-n+1-at-uint32-wrap"

const c36Extra = 4096 // sliding extension: every window start in [start, start+4096] is checked

// c36RunVector drives one weight vector through all windows.
func c36RunVector(ws []float64) (res c36VecResult) {
	n := len(ws)
	exp := c36Expected(ws)
	p := c36BuildPicker(ws)
	s := p.newScheduler(false)
	if s == nil {
		res.fails = append(res.fails, c36Fail{kind: "nil-scheduler", desc: "newScheduler returned nil for a non-empty endpoint set"})
		return
	}
	// Wrap the scheduler's counter function: the real picker.inc / picker.idx is
	// still what produces the numbers; the wrapper counts calls (= sequence
	// numbers consumed) and aborts a runaway pick.
	calls := 0
	guard := 1 << 30
	wrapInc := func(orig func() uint32) func() uint32 {
		return func() uint32 {
			calls++
			if calls > guard {
				panic(c36Runaway{})
			}
			return orig()
		}
	}
	switch t := s.(type) {
	case *edfScheduler:
		t.inc = wrapInc(t.inc)
		res.schedType = "edf"
	case *rrScheduler:
		t.inc = wrapInc(t.inc)
		res.schedType = "rr"
	default:
		res.engineErr = fmt.Sprintf("unknown scheduler type %T", s)
		return
	}
	next := func() (idx int, runaway bool, pan any) {
		defer func() {
			if r := recover(); r != nil {
				if _, ok := r.(c36Runaway); ok {
					runaway = true
				} else {
					pan = r
				}
			}
		}()
		calls = 0
		idx = s.nextIndex()
		return
	}
	fail := func(kind, f string, a ...any) {
		if len(res.fails) < 4 {
			res.fails = append(res.fails, c36Fail{kind: kind, desc: fmt.Sprintf(f, a...)})
		}
	}

	P := uint64(65535) * uint64(n)
	total := P + c36Extra
	starts := []uint32{0, 1<<31 + 12345, uint32((uint64(1) << 32) - total - 16)}
	firstPick := make([]int8, c36Extra)
	for _, start := range starts {
		counts := make([]int64, n)
		p.idx.Store(start - 1) // the next inc() yields start
		pos := uint64(0)
		prev := -1
		guard = 64 * n // a pick that needs more than this is reported as non-terminating
		bad := false
		for pos < total && !bad {
			idx, runaway, pan := next()
			consumed := uint64(calls)
			switch {
			case pan != nil:
				fail("panic", "start=%d offset=%d: nextIndex panicked: %v", start, pos, pan)
				bad = true
				continue
			case runaway:
				fail("termination", "start=%d: the pick beginning at sequence number %d consumed more than %d sequence numbers without choosing a backend (n=%d)", start, uint64(start)+pos, guard, n)
				bad = true
				continue
			case consumed == 0:
				fail("no-sequence-number", "start=%d offset=%d: pick consumed no sequence number", start, pos)
				bad = true
				continue
			case idx < 0 || idx >= n:
				fail("index-range", "start=%d offset=%d: nextIndex()=%d outside [0,%d)", start, pos, idx, n)
				bad = true
				continue
			}
			if got := p.idx.Load(); got != start-1+uint32(pos+consumed) {
				fail("counter", "start=%d offset=%d: picker.idx=%d after consuming %d numbers, expected %d", start, pos, got, consumed, start-1+uint32(pos+consumed))
				bad = true
				continue
			}
			if consumed > uint64(n) {
				fail("termination-bound", "start=%d: the pick beginning at sequence number %d consumed %d > n=%d sequence numbers", start, uint64(start)+pos, consumed, n)
			}
			if exp.rr {
				if consumed != 1 {
					fail("rr-skip", "start=%d offset=%d: plain round robin expected but the pick skipped %d sequence numbers", start, pos, consumed-1)
				}
				if prev >= 0 && idx != (prev+1)%n {
					fail("rr-order", "start=%d offset=%d: plain round robin expected but backend %d followed backend %d", start, pos, idx, prev)
				}
			}
			prev = idx
			res.picks++
			// offsets pos .. pos+consumed-2 were skipped, pos+consumed-1 chose idx
			for o := pos; o < pos+consumed && o < total; o++ {
				b := int8(-1)
				if o == pos+consumed-1 {
					b = int8(idx)
				}
				if o < P && b >= 0 {
					counts[b]++
				}
				if o < c36Extra {
					firstPick[o] = b
				}
				if o >= P && firstPick[o-P] != b {
					fail("window-slide", "start=%d: sequence numbers %d and %d (one window apart) differ: %d vs %d (-1 = skipped) => the window starting at %d has different counts than the one starting at %d", start, uint64(start)+o-P, uint64(start)+o, firstPick[o-P], b, uint64(start)+o-P+1, uint64(start)+o-P)
				}
			}
			pos += consumed
		}
		res.seqNumbers += int64(pos)
		res.counts = append(res.counts, counts)
		if bad {
			continue
		}
		for i := range counts {
			if counts[i] < exp.lo[i] || counts[i] > exp.hi[i] {
				want := strconv.FormatInt(exp.lo[i], 10)
				if exp.hi[i] != exp.lo[i] {
					want += " or " + strconv.FormatInt(exp.hi[i], 10)
				}
				fail("proportion", "start=%d: backend %d chosen %d times in the window of %d sequence numbers, scaled weight demands %s (all counts %v)", start, i, counts[i], P, want, counts)
			}
		}
	}

	// Window straddling the uint32 wrap of the counter: termination, index range
	// and the literal "<= n sequence numbers per pick" bound (the exact share is
	// not demanded there: the period does not divide 2^32).
	{
		span := uint64(8*n + 2)
		start := uint32((uint64(1) << 32) - uint64(4*n) - 1)
		p.idx.Store(start - 1)
		guard = 1 << 16
		pos := uint64(0)
		for pos < span {
			idx, runaway, pan := next()
			if pan != nil {
				fail("panic", "wrap: nextIndex panicked: %v", pan)
				break
			}
			if runaway {
				fail("termination", "wrap: the pick beginning at sequence number %d did not terminate within %d sequence numbers", uint32(uint64(start)+pos), guard)
				break
			}
			if idx < 0 || idx >= n {
				fail("index-range", "wrap: nextIndex()=%d outside [0,%d)", idx, n)
				break
			}
			if calls > res.wrapMax {
				res.wrapMax = calls
			}
			if calls > n {
				res.wrapOverN++
				first := uint32(uint64(start) + pos)
				if calls == n+1 {
					if res.wrapN1 == "" {
						res.wrapN1 = fmt.Sprintf("weights %s (n=%d): the pick beginning at sequence number %d (counter wraps 2^32-1 -> 0 during the pick) consumed %d = n+1 sequence numbers before choosing backend %d; the statement allows at most n", c36FmtW(ws), n, first, calls, idx)
					}
				} else {
					fail("wrap-termination-bound-above-n+1", "wrap: the pick beginning at sequence number %d consumed %d > n+1 = %d sequence numbers", first, calls, n+1)
				}
			}
			pos += uint64(calls)
			res.picks++
		}
		res.seqNumbers += int64(pos)
	}
	return
}

func c36Menu(r *vk.Run) []float64 {
	m := []float64{0, 1, 2, 3, 1e-9, 1e9, 7}
	if r.Thorough() {
		// weights produced by the qps/utilization/eps menu of the weight formula:
		// 100/0.5, 100/(1+10/100*1), 1/(0.5+10/1*2), plus non-dyadic small/large
		m = append(m, 200, 100/(1+10.0/100*1), 1/(0.5+10.0/1*2), 0.3, 65535, 65536)
	}
	return m
}

func c36Vectors(menu []float64, maxN int) [][]float64 {
	var out [][]float64
	for n := 1; n <= maxN; n++ {
		total := 1
		for i := 0; i < n; i++ {
			total *= len(menu)
		}
		for x := 0; x < total; x++ {
			v := make([]float64, n)
			y := x
			for i := n - 1; i >= 0; i-- {
				v[i] = menu[y%len(menu)]
				y /= len(menu)
			}
			out = append(out, v)
		}
	}
	return out
}

func TestVerif_C36_Sched(t *testing.T) {
	const P = c36P
	r := vk.Start(t, "c36_sched", "exploration", P)
	defer r.Finish()
	internal.TimeNow = func() time.Time { return c36T0 } // constant: safe for parallel workers
	defer func() { internal.TimeNow = time.Now }()

	menu := c36Menu(r)
	r.Rule(P, fmt.Sprintf("all weight vectors of length 1..4 over the menu %s (0 = endpoint without a load report); each is fed through the real OnLoadReport/weight/newScheduler path and the real nextIndex is walked over 65535*n+%d consecutive values of the real picker.idx counter from 3 starts (0, 2^31+12345, 2^32-window-16) plus a short walk across the uint32 wrap; every window start in [start,start+%d] is checked by the sliding comparison; non-trivial = vectors for which the statement demands unequal shares (>=2 non-zero weights, not all equal)", c36FmtW(menu), c36Extra, c36Extra))

	if r.ReplayFile() != "" {
		var rp struct {
			Weights []float64 `json:"weights"`
		}
		if err := r.LoadReplay(&rp); err != nil {
			r.EngineError("replay: %v", err)
			return
		}
		res := c36RunVector(rp.Weights)
		r.Eval(P, 1)
		for _, f := range res.fails {
			r.Violation(P, "sched w="+c36FmtW(rp.Weights)+" "+f.kind, f.desc, rp)
			fmt.Println("replay:", f.kind, f.desc)
		}
		if res.wrapN1 != "" {
			r.Violation(P, c36WrapKey, res.wrapN1, rp)
			fmt.Println("replay:", c36WrapKey, res.wrapN1)
		}
		fmt.Println("replay: counts", res.counts, "type", res.schedType)
		return
	}

	vecs := c36Vectors(menu, 4)
	var mu sync.Mutex
	var wg sync.WaitGroup
	var evals, nontriv, seqs, picks, ties, wrapOver int64
	wrapMaxOverN := map[int]int{}
	wrapN1Vec, wrapN1Desc, wrapN1Vectors := -1, "", 0
	samples := map[string]any{}
	work := make(chan int, 64)
	nw := runtime.GOMAXPROCS(0)
	for w := 0; w < nw; w++ {
		wg.Add(1)
		go func() {
			defer wg.Done()
			for vi := range work {
				ws := vecs[vi]
				res := c36RunVector(ws)
				exp := c36Expected(ws)
				mu.Lock()
				evals++
				seqs += res.seqNumbers
				picks += res.picks
				ties += int64(exp.ties)
				wrapOver += int64(res.wrapOverN)
				if res.wrapN1 != "" {
					wrapN1Vectors++
					if wrapN1Vec < 0 || vi < wrapN1Vec {
						wrapN1Vec, wrapN1Desc = vi, res.wrapN1
					}
				}
				if res.wrapMax-len(ws) > wrapMaxOverN[len(ws)] {
					wrapMaxOverN[len(ws)] = res.wrapMax - len(ws)
				}
				mu.Unlock()
				if res.engineErr != "" {
					r.EngineError("w=%s: %s", c36FmtW(ws), res.engineErr)
					continue
				}
				class := res.schedType
				if exp.rr {
					class += "/statement:rr"
				} else {
					class += "/statement:weighted"
					hasZero, hasNever := false, false
					for i, w := range ws {
						if w == 0 {
							hasZero = true
						}
						if exp.hi[i] == 0 {
							hasNever = true
						}
					}
					if hasZero {
						class += "+mean-substitution"
					}
					if hasNever {
						class += "+scaled-to-0"
					}
					if exp.ties > 0 {
						class += "+tie"
					}
					mu.Lock()
					nontriv++
					mu.Unlock()
				}
				r.Outcome(P, class)
				for _, f := range res.fails {
					r.Violation(P, "sched w="+c36FmtW(ws)+" "+f.kind, f.desc, map[string]any{"weights": ws})
				}
				if k := c36FmtW(ws); k == "[1,0,2]" || k == "[7,3,0,1e-09]" || k == "[2,2]" {
					mu.Lock()
					samples[k] = map[string]any{"weights": ws, "scheduler": res.schedType, "statement_demands_rr": exp.rr, "expected_lo": exp.lo, "expected_hi": exp.hi, "counts_per_start": res.counts, "wrap_max_consumed": res.wrapMax}
					mu.Unlock()
				}
			}
		}()
	}
	for vi := range vecs {
		if r.Mine(vi) {
			work <- vi
		}
	}
	close(work)
	wg.Wait()
	if wrapN1Vec >= 0 {
		// one canonical key; smallest example (first vector in enumeration order,
		// first such pick) in the description
		r.Violation(P, c36WrapKey, fmt.Sprintf("smallest example: %s (%d of the enumerated weight vectors show it)", wrapN1Desc, wrapN1Vectors), map[string]any{"weights": vecs[wrapN1Vec]})
	}
	r.Eval(P, evals)
	r.NontrivialN(P, nontriv)
	r.Set(P, "sequence_numbers_walked", seqs)
	r.Set(P, "picks", picks)
	r.Set(P, "endpoint_cases_with_two_admissible_roundings", ties)
	r.Set(P, "wrap_picks_consuming_more_than_n", wrapOver)
	for n, d := range wrapMaxOverN {
		if d > 0 {
			r.Set(P, fmt.Sprintf("wrap_max_consumed_minus_n_for_n=%d", n), int64(d))
		}
	}
	for _, k := range []string{"[1,0,2]", "[7,3,0,1e-09]", "[2,2]"} {
		if v, ok := samples[k]; ok {
			r.Sample(P, v)
		}
	}
	r.Assume(P, "scaled weight = nearest integer to 65535*v/max(v) (v = weight, or mean of the non-zero weights for an endpoint without usable weight); where that value is within 2^-32 of a half-integer both neighbours are admitted (float64 evaluation of the scaling cannot be pinned down by the statement)")
	r.Assume(P, "windows straddling the uint32 wrap of the sequence counter are checked for termination, index range and the <=n bound per pick, not for the exact share (65535*n does not divide 2^32)")
	r.Assume(P, "weights are finite non-negative float64; n<=4")
}

// ---------------------------------------------------------------------------
// Weight formula and usability timeline.
// ---------------------------------------------------------------------------

type c36Load struct {
	Qps, App, Cpu, Eps float64
}

// c36RefWeight: qps / (utilization + eps/qps*penalty), exact. utilization is
// the application utilization, or the CPU utilization when that is not
// reported (0). ok=false: the report carries no usable data (qps or
// utilization is zero) and is not a load report in the sense of the statement.
func c36RefWeight(l c36Load, penalty float64) (w *big.Rat, ok bool) {
	util := l.App
	if util == 0 {
		util = l.Cpu
	}
	if l.Qps == 0 || util == 0 {
		return nil, false
	}
	q := new(big.Rat).SetFloat64(l.Qps)
	d := new(big.Rat).SetFloat64(l.Eps)
	d.Quo(d, q)
	d.Mul(d, new(big.Rat).SetFloat64(penalty))
	d.Add(d, new(big.Rat).SetFloat64(util))
	return new(big.Rat).Quo(q, d), true
}

// c36Close: got equals want up to float64 evaluation error of the 4-operation
// formula (each IEEE operation contributes a relative error <= 2^-53; all
// operands are positive so there is no cancellation; 2^-50 covers 4 operations
// with margin 2).
func c36Close(got float64, want *big.Rat) bool {
	g := new(big.Rat).SetFloat64(got)
	if g == nil {
		return false
	}
	d := new(big.Rat).Sub(g, want)
	d.Abs(d)
	tol := new(big.Rat).Mul(want, new(big.Rat).SetFrac(big.NewInt(1), new(big.Int).Lsh(big.NewInt(1), 50)))
	return d.Cmp(tol) <= 0
}

// c36CC is the parent ClientConn of the bare wrrBalancer used by the timeline
// leg: it hands out SubConns and keeps the (wrapped) state listener.
type c36CC struct {
	balancer.ClientConn // nil: only NewSubConn is used
	listener            func(balancer.SubConnState)
}

type c36SC struct {
	balancer.SubConn // nil: never called
	id               int
}

func (c *c36CC) NewSubConn(_ []resolver.Address, o balancer.NewSubConnOptions) (balancer.SubConn, error) {
	c.listener = o.StateListener
	return &c36SC{}, nil
}

type c36MemoKey struct {
	l   *c36Load
	pen float64
}

type c36MemoVal struct {
	w  *big.Rat
	ok bool
}

var c36WeightMemo = map[c36MemoKey]c36MemoVal{}

// memoised by menu entry (pointer identity) and penalty; single goroutine
func c36RefWeightMemo(l *c36Load, pen float64) (*big.Rat, bool) {
	k := c36MemoKey{l, pen}
	v, ok := c36WeightMemo[k]
	if !ok {
		v.w, v.ok = c36RefWeight(*l, pen)
		c36WeightMemo[k] = v
	}
	return v.w, v.ok
}

type c36CloseKey struct {
	got  float64
	want *big.Rat
}

var c36CloseMemo = map[c36CloseKey]bool{}

func c36CloseMemoed(got float64, want *big.Rat) bool {
	k := c36CloseKey{got, want}
	v, ok := c36CloseMemo[k]
	if !ok {
		v = c36Close(got, want)
		c36CloseMemo[k] = v
	}
	return v
}

type c36Event struct {
	t     time.Duration // virtual time since T0
	kind  byte          // 'R' valid report, 'Q' query
	w     *big.Rat      // for 'R'
	label string
}

// c36RefQuery is the oracle for a query at time t given the full history h
// (valid reports and earlier queries, in order). It returns the admissible
// answers: want (nil = 0) and, when the statement leaves the case open, alt.
//
//   - the endpoint is not READY           -> not judged (not in the scheduler)
//   - no report since it (re)became READY -> 0   (reports of an earlier
//     connection do not count, gRFC A58)
//   - latest report is >= E old           -> 0   (after the expiration period)
//   - blackout B>0: less than B since the first report of the current run of
//     reports                             -> 0   (during the blackout period)
//   - else the formula value of the latest report.
//
// A run of reports starts at the first report ever and restarts when the
// weight had expired. The statement does not say whether a silent gap >= E
// between two reports that no weight computation observed restarts the
// blackout (gRFC A58's pseudo-code restarts it only when a computation saw the
// expiry); for exactly those histories both readings are admitted.
func c36RefQuery(h []c36Event, t time.Duration, B, E time.Duration) (want, alt *big.Rat, class string) {
	var last *c36Event
	var strictStart, lenientStart time.Duration
	sawExpiry := false // a query observed expiry since the last report
	ready, reconnectedAfterReport := true, false
	for i := range h {
		ev := &h[i]
		switch ev.kind {
		case 'D': // the endpoint's SubConn left READY
			ready = false
		case 'C': // (re)became READY: only load reports from now on count
			if last != nil {
				reconnectedAfterReport = true
			}
			ready, last, sawExpiry = true, nil, false
		case 'R':
			if last == nil {
				strictStart, lenientStart = ev.t, ev.t
			} else {
				if ev.t-last.t >= E {
					strictStart = ev.t
				}
				if sawExpiry {
					lenientStart = ev.t
				}
			}
			sawExpiry = false
			last = ev
		case 'Q':
			if last != nil && ev.t-last.t >= E {
				sawExpiry = true
			}
		}
	}
	if !ready {
		// an endpoint that is not READY is not part of the scheduler; the
		// statement says nothing about its weight
		return nil, nil, "open:not-ready"
	}
	if last == nil {
		if reconnectedAfterReport {
			return nil, nil, "zero:no-report-since-reconnect"
		}
		return nil, nil, "zero:no-report-yet"
	}
	if t-last.t >= E {
		return nil, nil, "zero:expired"
	}
	ans := func(start time.Duration) *big.Rat {
		if B != 0 && t-start < B {
			return nil
		}
		return last.w
	}
	a, b := ans(strictStart), ans(lenientStart)
	if (a == nil) != (b == nil) {
		return a, b, "open:silent-expiry-gap"
	}
	if a == nil {
		return nil, nil, "zero:blackout"
	}
	return a, nil, "weight:" + last.label
}

type c36Op struct {
	name  string
	load  *c36Load
	adv   time.Duration
	label string // outcome-class label of a valid report
	conn  int    // 1: the endpoint's SubConn becomes READY (again); 2: it leaves READY
}

type c36TimeCfg struct {
	B, E    time.Duration
	penalty float64
}

var c36Now time.Time // virtual clock read by the TimeNow seam (single goroutine)

// c36RunTimeline applies ops to a fresh real endpointWeight, checking every
// query. Returns number of queries checked, outcome classes seen, failure.
func c36RunTimeline(cfg c36TimeCfg, ops []c36Op, seq []int, classes map[string]int64, trace *[]string) (queries int, nontrivial bool, fail *c36Fail) {
	lcfg := &lbConfig{BlackoutPeriod: iserviceconfig.Duration(cfg.B), WeightExpirationPeriod: iserviceconfig.Duration(cfg.E), ErrorUtilizationPenalty: cfg.penalty}
	ew := &endpointWeight{logger: c36Log, metricsRecorder: c36Recorder{}, cfg: lcfg}
	p := &picker{cfg: lcfg, metricsRecorder: c36Recorder{}, weightedPickers: []pickerWeightedEndpoint{{weightedEndpoint: ew}}}
	c36Now = c36T0
	// The endpoint's connectivity goes through the real wrrBalancer.NewSubConn
	// (which wraps the state listener) and the real updateSubConnState.
	cc := &c36CC{}
	addr := resolver.Address{Addr: "10.0.0.1:1"}
	bal := &wrrBalancer{ClientConn: cc, logger: c36Log, addressWeights: resolver.NewAddressMapV2[*endpointWeight](), scToWeight: map[balancer.SubConn]*endpointWeight{}}
	bal.addressWeights.Set(addr, ew)
	var curListener func(balancer.SubConnState)
	isReady, reconnects := false, 0
	connect := func() *c36Fail {
		if isReady {
			return nil
		}
		// every second reconnect uses a new SubConn (the old one is shut down),
		// the others bring the same SubConn back to READY
		if curListener == nil || reconnects%2 == 1 {
			if curListener != nil {
				curListener(balancer.SubConnState{ConnectivityState: connectivity.Shutdown})
			}
			if _, err := bal.NewSubConn([]resolver.Address{addr}, balancer.NewSubConnOptions{StateListener: func(balancer.SubConnState) {}}); err != nil {
				return &c36Fail{kind: "newsubconn", desc: "wrrBalancer.NewSubConn failed: " + err.Error()}
			}
			curListener = cc.listener
			curListener(balancer.SubConnState{ConnectivityState: connectivity.Connecting})
		}
		reconnects++
		curListener(balancer.SubConnState{ConnectivityState: connectivity.Ready})
		isReady = true
		return nil
	}
	if f := connect(); f != nil { // every timeline starts with the endpoint READY
		return 0, false, f
	}
	var now time.Duration
	var hist []c36Event
	for step, oi := range seq {
		op := ops[oi]
		switch {
		case op.load != nil:
			l := op.load
			ew.OnLoadReport(&v3orcapb.OrcaLoadReport{RpsFractional: l.Qps, ApplicationUtilization: l.App, CpuUtilization: l.Cpu, Eps: l.Eps})
			if w, ok := c36RefWeightMemo(l, cfg.penalty); ok {
				hist = append(hist, c36Event{t: now, kind: 'R', w: w, label: op.label})
			}
		case op.adv != 0:
			now += op.adv
			c36Now = c36T0.Add(now)
		case op.conn == 1:
			if !isReady {
				if f := connect(); f != nil {
					return queries, nontrivial, f
				}
				hist = append(hist, c36Event{t: now, kind: 'C'})
			}
		case op.conn == 2:
			if isReady {
				curListener(balancer.SubConnState{ConnectivityState: connectivity.Idle})
				isReady = false
				hist = append(hist, c36Event{t: now, kind: 'D'})
			}
		default: // query through the real picker.endpointWeights (cfg + TimeNow seam)
			got := p.endpointWeights(false)[0]
			want, alt, class := c36RefQuery(hist, now, cfg.B, cfg.E)
			hist = append(hist, c36Event{t: now, kind: 'Q'})
			queries++
			classes[class]++
			if trace != nil {
				*trace = append(*trace, fmt.Sprintf("t=%v real=%v statement=%s", now, got, class))
			}
			if !strings.HasPrefix(class, "zero:no-report") && !strings.HasPrefix(class, "open:") {
				nontrivial = true
			}
			okOne := func(w *big.Rat) bool {
				if w == nil {
					return got == 0
				}
				return got == got && c36CloseMemoed(got, w) // got==got: not NaN
			}
			ok := class == "open:not-ready" || okOne(want)
			if !ok && class == "open:silent-expiry-gap" {
				ok = okOne(alt)
			}
			if !ok {
				ws := "0"
				if want != nil {
					ws = want.FloatString(9)
				}
				return queries, nontrivial, &c36Fail{kind: "weight " + class, prefix: append([]int(nil), seq[:step+1]...), desc: fmt.Sprintf("blackout=%v expiration=%v penalty=%v ops=%s: query #%d (step %d, t=%v) returned %v, statement demands %s (%s)", cfg.B, cfg.E, cfg.penalty, c36SeqString(ops, seq[:step+1]), queries, step, now, got, ws, class)}
			}
		}
	}
	return queries, nontrivial, nil
}

// c36Minimise shrinks a failing op prefix: drop single ops while the shorter
// sequence still fails.
func c36Minimise(cfg c36TimeCfg, ops []c36Op, f *c36Fail) *c36Fail {
	for again := true; again; {
		again = false
		for i := 0; i < len(f.prefix); i++ {
			cand := append(append([]int(nil), f.prefix[:i]...), f.prefix[i+1:]...)
			if _, _, g := c36RunTimeline(cfg, ops, cand, map[string]int64{}, nil); g != nil {
				f = g
				again = true
				break
			}
		}
	}
	return f
}

func c36SeqString(ops []c36Op, seq []int) string {
	s := make([]string, len(seq))
	for i, o := range seq {
		s[i] = ops[o].name
	}
	return strings.Join(s, " ")
}

func TestVerif_C36_Weight(t *testing.T) {
	const P = c36P
	r := vk.Start(t, "c36_weight", "exploration", P)
	defer r.Finish()
	internal.TimeNow = func() time.Time { return c36Now }
	defer func() { internal.TimeNow = time.Now }()

	const B, E = 10 * time.Second, 30 * time.Second
	ops := []c36Op{
		{name: "query"},
		{name: "reportA(qps=100,app=0.5,eps=0)", label: "A", load: &c36Load{Qps: 100, App: 0.5}},
		{name: "reportB(qps=1,app=0,cpu=1,eps=10)", label: "B", load: &c36Load{Qps: 1, Cpu: 1, Eps: 10}},
		{name: "reportEmpty(qps=0,app=0.5)", load: &c36Load{Qps: 0, App: 0.5}},
		{name: "subConnLeavesReady", conn: 2},
		{name: "subConnReadyAgain", conn: 1},
		{name: "+1ns", adv: 1},
		{name: "+10s-1ns", adv: B - 1},
		{name: "+20s", adv: 20 * time.Second},
		{name: "+30s-1ns", adv: E - 1},
	}
	cfgs := []c36TimeCfg{{0, E, 1}, {B, E, 1}, {0, B, 2}, {B, B, 0}}
	depth := r.Pick(6, 8)
	r.Rule(P, fmt.Sprintf("(1) formula: every load report of qps{0,1,100} x application_utilization{0,0.5,1} x cpu_utilization{0,0.5,1} x eps{0,10} x penalty{0,1,2} applied to a fresh endpoint (no blackout) and queried, exact rational oracle; (2) timeline: every sequence of exactly %d ops over {query, 2 valid reports, 1 empty report, SubConn leaves READY, SubConn READY again (real NewSubConn state-listener wrapper / updateSubConnState; alternately the same and a new SubConn), +1ns, +10s-1ns, +20s, +30s-1ns} for (blackout,expiration,penalty) in {0,10s}x{30s,10s} = {(0,30s,1),(10s,30s,1),(0,10s,2),(10s,10s,0)} on a virtual clock, the endpoint starting READY, every query while READY compared with the history oracle; the steps compose to land exactly on, 1ns before and after both period boundaries; non-trivial = sequences with a query after a valid report whose answer the statement fixes", depth))

	if r.ReplayFile() != "" {
		var rp struct {
			Cfg int   `json:"cfg"`
			Seq []int `json:"seq"`
		}
		if err := r.LoadReplay(&rp); err != nil {
			r.EngineError("replay: %v", err)
			return
		}
		cl := map[string]int64{}
		q, _, f := c36RunTimeline(cfgs[rp.Cfg], ops, rp.Seq, cl, nil)
		r.Eval(P, int64(q))
		if f != nil {
			r.Violation(P, "replay "+f.kind, f.desc, rp)
			fmt.Println("replay:", f.desc)
		} else {
			fmt.Println("replay: no failure", cl)
		}
		return
	}

	// (1) formula menu
	var evals, nontriv int64
	classes := map[string]int64{}
	shard, _ := r.Shard()
	if shard == 0 {
		for _, pen := range []float64{0, 1, 2} {
			for _, qps := range []float64{0, 1, 100} {
				for _, app := range []float64{0, 0.5, 1} {
					for _, cpu := range []float64{0, 0.5, 1} {
						for _, eps := range []float64{0, 10} {
							l := c36Load{Qps: qps, App: app, Cpu: cpu, Eps: eps}
							o := []c36Op{{name: fmt.Sprintf("report(qps=%v,app=%v,cpu=%v,eps=%v)", qps, app, cpu, eps), label: "formula-menu", load: &l}, {name: "query"}, {name: "+1s", adv: time.Second}}
							for _, seq := range [][]int{{0, 1}, {0, 2, 1}, {1, 0, 1, 2, 1}} {
								q, nt, f := c36RunTimeline(c36TimeCfg{0, E, pen}, o, seq, classes, nil)
								evals += int64(q)
								if nt {
									nontriv++
								}
								if f != nil {
									r.Violation(P, fmt.Sprintf("formula qps=%v app=%v cpu=%v eps=%v penalty=%v", qps, app, cpu, eps, pen), f.desc, nil)
								}
							}
							if w, ok := c36RefWeight(l, pen); ok && eps > 0 && pen > 0 && qps == 100 && app == 0.5 {
								r.Sample(P, map[string]any{"report": l, "penalty": pen, "statement_weight": w.FloatString(12)})
							}
						}
					}
				}
			}
		}
	}

	// (2) timelines
	seq := make([]int, depth)
	total := 1
	for i := 0; i < depth; i++ {
		total *= len(ops)
	}
	var sequences int64
	for ci, cfg := range cfgs {
		for x := 0; x < total; x++ {
			if !r.Mine(x) {
				continue
			}
			y := x
			for i := depth - 1; i >= 0; i-- {
				seq[i] = y % len(ops)
				y /= len(ops)
			}
			q, nt, f := c36RunTimeline(cfg, ops, seq, classes, nil)
			sequences++
			evals += int64(q)
			if nt {
				nontriv++
			}
			if f != nil {
				// canonical narrow key: configuration + the failing prefix minimised by
				// greedy single-op deletion (deterministic)
				f = c36Minimise(cfg, ops, f)
				r.Violation(P, fmt.Sprintf("timeline cfg=%d ops=%s", ci, c36SeqString(ops, f.prefix)), f.desc, map[string]any{"cfg": ci, "seq": f.prefix})
			}
		}
	}
	for c, n := range classes {
		r.Outcome(P, c)
		r.AddInt(P, "queries_"+c, n)
	}
	r.Eval(P, evals)
	r.NontrivialN(P, nontriv)
	r.Set(P, "timeline_sequences", sequences)
	{
		sseq := []int{1, 7, 0, 6, 0, 4, 5, 0, 2, 0}
		var tr []string
		c36RunTimeline(cfgs[1], ops, sseq, map[string]int64{}, &tr)
		r.Sample(P, map[string]any{"cfg": "blackout=10s expiration=30s penalty=1", "ops": c36SeqString(ops, sseq), "queries": tr})
	}
	r.Assume(P, "every timeline starts with the endpoint READY; load reports received before the endpoint (re)became READY do not count (gRFC A58: weight state is reset when the endpoint's connection is re-established); queries while the endpoint is not READY are not judged (it is not in the scheduler; counted as queries_open:not-ready)")
	r.Assume(P, "boundary instants follow gRFC A58: the weight is expired once now-lastReport >= expiration, and usable once now-firstReport >= blackout; reports with qps=0 or utilization=0 carry no usable data and are ignored; utilization = application_utilization, else cpu_utilization")
	r.Assume(P, "float64 evaluation of the formula is compared with the exact rational value at relative tolerance 2^-50 (4 IEEE operations on positive operands)")
	r.Assume(P, "histories in which two reports are separated by a gap >= expiration that no weight computation observed leave the blackout restart open; both answers are admitted there (counted as queries_open:silent-expiry-gap)")
}
