//go:build verif

package resolver

// C51, schedule-level leg (E1-vsched): the production xDS resolver (package
// internal/xds/resolver instrumented: every atomic on clusterInfo.refCount,
// every lock of the OnCommitted OnceFunc and every map range is a scheduling
// point) is built in the un-scheduled set-up phase exactly as in the E2 leg
// (c51_xdsresolver: production Build, real dependency manager, scripted xDS
// client) with routes {A,B} pushed. Then RPC threads (SelectConfig; in flight;
// OnCommitted), a route-configuration update to {B} and optionally a second
// caller of the same commit hook run under every schedule with at most B
// preemptions. The resolver's callback serializer goroutine is not
// instrumented; it is adopted as a scheduled thread at its first scheduling
// point inside resolver code.
//
// The channel is modelled by c51sCC: like grpc's SafeConfigSelector +
// applyServiceConfig it swaps (config selector, service config) atomically
// under a write lock that waits for running SelectConfig calls.

import (
	"context"
	"fmt"
	"net/url"
	"sort"
	"strings"
	"testing"

	iresolver "google.golang.org/grpc/internal/resolver"
	"google.golang.org/grpc/internal/verif/vk"
	"google.golang.org/grpc/internal/verif/vsched"
	"google.golang.org/grpc/internal/verif/vsync"
	"google.golang.org/grpc/internal/xds/balancer/clustermanager"
	"google.golang.org/grpc/internal/xds/bootstrap"
	"google.golang.org/grpc/resolver"
	"google.golang.org/grpc/serviceconfig"
)

const c51sP = "C51"

type c51sCC struct {
	w      *c51World
	x      *vsched.X
	sel    vsync.RWMutex // models SafeConfigSelector.mu
	cur    iresolver.ConfigSelector
	parsed map[*serviceconfig.ParseResult]string // guarded by w.mu
}

func (cc *c51sCC) ParseServiceConfig(js string) *serviceconfig.ParseResult {
	pr := &serviceconfig.ParseResult{}
	cc.w.mu.Lock()
	cc.parsed[pr] = js
	cc.w.mu.Unlock()
	return pr
}

func (cc *c51sCC) UpdateState(s resolver.State) error {
	w := cc.w
	cc.sel.Lock() // scheduling point; enabled only when no SelectConfig is running
	w.mu.Lock()
	js, ok := cc.parsed[s.ServiceConfig]
	children, err := c51Children(js)
	if !ok || err != nil {
		cc.x.Fail(c51sP, "harness", "UpdateState: unknown or unparsable service config %q: %v", js, err)
	}
	sel := iresolver.GetConfigSelector(s)
	w.pushes = append(w.pushes, c51Push{children: children, sel: sel})
	for _, rpc := range w.rpcs {
		if !c51Has(children, rpc.cluster) {
			cc.x.Fail(c51sP, "cluster-dropped-while-rpc-uncommitted", "service config pushed with children %v while RPC #%d routed to %s is selected and not yet committed", children, rpc.id, rpc.cluster)
		}
		if rpc.icpt != nil && rpc.icpt.closed() > 0 {
			cc.x.Fail(c51sP, "interceptor-closed-while-rpc-uncommitted", "at a push: the interceptor of uncommitted RPC #%d (%s) is closed", rpc.id, rpc.cluster)
		}
	}
	kind, targets := c51SelectorTargets(sel)
	for _, tg := range targets {
		if !c51Has(children, tg) {
			cc.x.Fail(c51sP, "selector-routes-outside-its-service-config", "update pushed with service config children %v and a config selector (%s) that routes RPCs to %s", children, kind, tg)
		}
	}
	w.mu.Unlock()
	cc.cur = sel
	vsched.Observe("push %v selector->%v", children, targets)
	cc.sel.Unlock()
	return nil
}
func (cc *c51sCC) ReportError(error)             {}
func (cc *c51sCC) NewAddress([]resolver.Address) {}

type c51sWorld struct {
	*c51World
	scc *c51sCC
	x   *vsched.X
}

func c51sNewWorld(x *vsched.X, bc *bootstrap.Config) (*c51sWorld, error) {
	w := &c51World{}
	w.client = &c51Client{bc: bc}
	scc := &c51sCC{w: w, x: x, parsed: map[*serviceconfig.ParseResult]string{}}
	b, err := newBuilderWithClientForTesting(w.client)
	if err != nil {
		return nil, err
	}
	rr, err := b.Build(resolver.Target{URL: url.URL{Scheme: "xds", Path: "/verif-svc"}}, scc, resolver.BuildOptions{Authority: "verif-authority"})
	if err != nil {
		return nil, err
	}
	w.r = rr.(*xdsResolver)
	w.client.pump()
	return &c51sWorld{c51World: w, scc: scc, x: x}, nil
}

// selectRPC is what the channel does for a new RPC: SelectConfig on the current
// selector under the read lock. The ledger entry is made in the same step in
// which SelectConfig returns.
func (w *c51sWorld) selectRPC(name, cluster string) *c51RPC {
	w.scc.sel.RLock()
	defer w.scc.sel.RUnlock()
	cs := w.scc.cur
	if cs == nil {
		w.x.Fail(c51sP, "harness", "no config selector pushed during set-up")
		return nil
	}
	cfg, err := cs.SelectConfig(iresolver.RPCInfo{Context: context.Background(), Method: "/" + cluster + "/m"})
	if err != nil {
		vsched.Observe("%s: no route", name)
		return nil
	}
	rpc := &c51RPC{cluster: clustermanager.PickedCluster(cfg.Context), cfg: cfg, sel: cs}
	if il, ok := cfg.Interceptor.(*interceptorList); ok && len(il.interceptors) == 1 {
		rpc.icpt, _ = il.interceptors[0].(*c51Interceptor)
	}
	if want := c51RouteFor(cluster).children()[0]; rpc.cluster != want {
		w.x.Fail(c51sP, "select-wrong-cluster", "%s: RPC on /%s routed to %q", name, cluster, rpc.cluster)
	}
	if cfg.OnCommitted == nil {
		w.x.Fail(c51sP, "no-commit-hook", "%s: SelectConfig returned no OnCommitted hook", name)
	}
	w.mu.Lock()
	rpc.id = w.nextID
	w.nextID++
	w.rpcs = append(w.rpcs, rpc)
	w.mu.Unlock()
	vsched.Observe("%s selected %s", name, rpc.cluster)
	return rpc
}

// commit: the RPC counts as committed from the moment its hook is invoked.
func (w *c51sWorld) commit(name string, rpc *c51RPC) {
	w.mu.Lock()
	for i, o := range w.rpcs {
		if o == rpc {
			w.rpcs = append(append([]*c51RPC(nil), w.rpcs[:i]...), w.rpcs[i+1:]...)
			break
		}
	}
	w.mu.Unlock()
	vsched.Observe("%s commits", name)
	if rpc.cfg.OnCommitted != nil {
		rpc.cfg.OnCommitted()
	}
}

func (w *c51sWorld) latestChildren() []string {
	w.mu.Lock()
	defer w.mu.Unlock()
	if len(w.pushes) == 0 {
		return nil
	}
	return w.pushes[len(w.pushes)-1].children
}

type c51sRPCSpec struct {
	cluster string
	flight  int  // number of Yield steps between selection and commit
	dup     bool // a second thread calls the same commit hook concurrently
}

// initial == nil: one route per cluster, /A/ -> A and /B/ -> B.
// to: the single target ("B" or plugin "pB") the concurrent update switches to.
func c51sScenario(name string, bc *bootstrap.Config, initial []c51Route, to string, rpcs []c51sRPCSpec, bound int) vsched.Scenario {
	final := c51RouteFor(to).children()[0]
	wantChildren := "[" + final + "]"
	wantRefs := final + "=1"
	return vsched.Scenario{Name: name, Bound: bound, Horizon: 4000, Body: func(x *vsched.X) {
		x.BackgroundSetup()
		w, err := c51sNewWorld(x, bc)
		if err != nil {
			x.Fail(c51sP, "harness", "Build: %v", err)
			return
		}
		if initial != nil {
			w.deliverRoutes("initial", initial)
		} else {
			w.deliver([]string{"A", "B"})
			initial = []c51Route{c51RouteFor("A"), c51RouteFor("B")}
		}
		w.client.pump()
		var wantInit []string
		for _, rt := range initial {
			for _, ch := range rt.children() {
				if !c51Has(wantInit, ch) {
					wantInit = append(wantInit, ch)
				}
			}
		}
		sort.Strings(wantInit)
		if got := fmt.Sprint(w.latestChildren()); got != fmt.Sprint(wantInit) {
			x.Fail(c51sP, "harness", "set-up: children %s after the initial route configuration, want %v", got, wantInit)
		}
		results := make([]string, len(rpcs))
		selected := make([]*c51RPC, len(rpcs))
		decided := make([]bool, len(rpcs))
		for i, spec := range rpcs {
			tn := fmt.Sprintf("rpc%d", i+1)
			x.Go(tn, func() {
				rpc := w.selectRPC(tn, spec.cluster)
				w.mu.Lock()
				selected[i], decided[i] = rpc, true
				w.mu.Unlock()
				if rpc == nil {
					results[i] = tn + "=noroute"
					return
				}
				results[i] = tn + "=" + spec.cluster
				for k := 0; k < spec.flight; k++ {
					vsched.Yield() // the RPC is in flight
				}
				w.commit(tn, rpc)
			})
			if spec.dup {
				dn := tn + "-dup"
				x.Go(dn, func() {
					// wait until the RPC has been selected, then call the same hook
					vsched.Point(vsched.Op{Kind: vsched.OpUser, Enabled: func() bool {
						w.mu.Lock()
						defer w.mu.Unlock()
						return decided[i]
					}})
					w.mu.Lock()
					rpc := selected[i]
					w.mu.Unlock()
					if rpc != nil {
						w.commit(dn, rpc)
					}
				})
			}
		}
		x.Go("update", func() {
			vsched.Yield()
			vsched.Observe("routes{%s} delivered", to)
			w.deliver([]string{to})
		})
		x.OnStuck(func() bool {
			// deliveries of the scripted xDS client (none expected in these programs)
			c := w.client
			c.mu.Lock()
			if len(c.queue) == 0 {
				c.mu.Unlock()
				return false
			}
			f := c.queue[0]
			c.queue = c.queue[1:]
			c.mu.Unlock()
			f()
			return true
		})
		x.Final(func(x *vsched.X) {
			for _, p := range x.Panics {
				x.Fail(c51sP, "panic", "%s", p)
			}
			if x.Stuck != "" {
				x.Fail(c51sP, "deadlock", "%s", x.Stuck)
				return
			}
			w.client.pump() // quiescence (scheduler released: everything runs natively)
			w.mu.Lock()
			left := len(w.rpcs)
			npush := len(w.pushes)
			w.mu.Unlock()
			if left != 0 {
				x.Fail(c51sP, "harness", "%d RPCs still uncommitted at the end", left)
			}
			// all RPCs committed, routes {B}: the removed cluster is gone
			if got := fmt.Sprint(w.latestChildren()); got != wantChildren {
				x.Fail(c51sP, "removed-cluster-not-dropped", "at quiescence after all commits the latest service config has children %s, want %s", got, wantChildren)
			}
			refs := w.refs()
			if refs != wantRefs {
				x.Fail(c51sP, "refcount-ledger", "at quiescence clusterInfo.refCount = {%s}, ledger {%s} (one reference for the current config selector, no uncommitted RPC)", refs, wantRefs)
			}
			// the selector of the latest update is the one of the latest route configuration
			if lp := w.lastPush(); lp != nil {
				if kind, tg := c51SelectorTargets(lp.sel); kind != "routes" || fmt.Sprint(tg) != wantChildren {
					x.Fail(c51sP, "stale-selector", "at quiescence the latest update carries config selector %s%v; the latest route configuration routes to %s", kind, tg, wantChildren)
				}
			}
			// a further update must not bring the cluster back or find stale state
			w.deliver([]string{to})
			w.client.pump()
			if got := fmt.Sprint(w.latestChildren()); got != wantChildren {
				x.Fail(c51sP, "removed-cluster-not-dropped", "after a further update the latest service config has children %s, want %s", got, wantChildren)
			}
			if refs := w.refs(); refs != wantRefs {
				x.Fail(c51sP, "refcount-ledger", "after a further update clusterInfo.refCount = {%s}, ledger {%s}", refs, wantRefs)
			}
			res := append([]string(nil), results...)
			sort.Strings(res)
			x.Outcome(fmt.Sprintf("%s pushes=%d", strings.Join(res, " "), npush))
		})
		x.Cleanup(func() { w.close() })
	}}
}

func TestVerif_C51_ResolverSched(t *testing.T) {
	const P = c51sP
	r := vk.Start(t, "c51_resolver_sched", "exploration", P)
	defer r.Finish()
	r.Rule(P, "every schedule with at most B preemptions (quick 2, thorough 3) of closed drivers on the production xDS resolver (internal/xds/resolver instrumented: clusterInfo.refCount atomics, the OnCommitted OnceFunc lock and map ranges are scheduling points; built un-scheduled by the production Build with the real dependency manager and a scripted xDS client, routes {A,B} pushed; one scenario starts from a route configuration that references cluster A three times, one uses cluster-specifier-plugin routes pA,pB -> pB). Threads: 2 RPCs (SelectConfig through the channel's current selector under a SafeConfigSelector-like read lock; 1-2 in-flight steps; OnCommitted), a route-configuration update to {B}, optionally a second thread calling the same commit hook; the resolver's callback serializer goroutine is adopted as a scheduled thread. Checked at every service-config push (under the write lock) and at the quiescent end against a ledger of selected-but-uncommitted RPCs; non-trivial = executions deviating from the default schedule")
	r.Assume(P, "scheduling points only inside internal/xds/resolver: the callback serializer (grpcsync), the dependency manager's mutex and grpcsync.RefCounted are not instrumented (their steps are atomic with the surrounding resolver step); the channel is modelled (selector + service config swapped atomically under a write lock that waits for running SelectConfig calls, as SafeConfigSelector does); an RPC counts as committed from the moment its hook is invoked")

	contents, err := bootstrap.NewContentsForTesting(bootstrap.ConfigOptionsForTesting{
		Servers: []byte(`[{"server_uri": "passthrough:///verif", "channel_creds": [{"type": "insecure"}]}]`),
		Node:    []byte(`{"id": "verif-node"}`),
	})
	if err != nil {
		r.EngineError("bootstrap contents: %v", err)
		return
	}
	bc, err := bootstrap.NewConfigFromContents(contents)
	if err != nil {
		r.EngineError("bootstrap config: %v", err)
		return
	}
	defer c51InstallWRR()()
	b := r.Pick(2, 3)
	scs := []vsched.Scenario{
		c51sScenario("rpcA+rpcB+update", bc, nil, "B", []c51sRPCSpec{{cluster: "A", flight: 1}, {cluster: "B", flight: 1}}, b),
		c51sScenario("rpcA+rpcA+update", bc, nil, "B", []c51sRPCSpec{{cluster: "A", flight: 1}, {cluster: "A", flight: 2}}, b),
		// cluster A referenced three times by the initial route configuration
		// (two routes, one of them listing it twice in weighted_clusters)
		c51sScenario("A-referenced-3x/rpcA+rpcA+update", bc, []c51Route{{Prefix: "/A/", Clusters: []string{"A", "A"}}, {Prefix: "/A2/", Clusters: []string{"A"}}, {Prefix: "/B/", Clusters: []string{"B"}}}, "B", []c51sRPCSpec{{cluster: "A", flight: 1}, {cluster: "A", flight: 2}}, b),
		// cluster specifier plugin routes: pA and pB configured, the update leaves only pB
		c51sScenario("plugins/rpcPA+rpcPA+update", bc, []c51Route{c51RouteFor("pA"), c51RouteFor("pB")}, "pB", []c51sRPCSpec{{cluster: "pA", flight: 1}, {cluster: "pA", flight: 2}}, b),
		// largest scenario last: it gets whatever is left of the leg budget
		c51sScenario("rpcA-doublecommit+rpcA+update", bc, nil, "B", []c51sRPCSpec{{cluster: "A", flight: 1, dup: true}, {cluster: "A", flight: 2}}, b),
	}
	vsched.RunScenarios(t, r, []string{P}, scs)
	r.Sample(P, map[string]any{"scenario": "rpcA-doublecommit+rpcA+update", "threads": []string{"rpc1: SelectConfig(/A/m); yield; OnCommitted()", "rpc1-dup: wait until rpc1 is selected; OnCommitted() of rpc1 again", "rpc2: SelectConfig(/A/m); yield; yield; OnCommitted()", "update: yield; route configuration -> {B}", "callback serializer (adopted): Update -> newConfigSelector -> prune -> push -> stop old selector"}})
}
