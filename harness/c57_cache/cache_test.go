//go:build verif

package cache

import (
	"fmt"
	"sync/atomic"
	"testing"
	"time"

	"google.golang.org/grpc/internal/verif/vk"
	"google.golang.org/grpc/internal/verif/vsched"
)

const c57Timeout = 5 * time.Second

// c57Scenario: one entry "k" added in set-up; threads race removal, clearing and
// expiry. Oracle (from the statement): the expiry callback runs at most once;
// never if the entry was removed (Remove returned ok) before it expired; exactly
// once if it expired or the cache was cleared with callbacks; a removal returns
// the entry to exactly one caller. Hence, at the end:
//   callbacks + successful Removes + entries taken by Clear(false) == 1.
func c57Scenario(name string, removers int, clear string, adds int, bound int) vsched.Scenario {
	return vsched.Scenario{Name: name, Bound: bound, MinOutcomes: 2, Body: func(x *vsched.X) {
		c := NewTimeoutCache(c57Timeout)
		var cbs, okRemoves, addOK atomic.Int32
		var clearDone, advStarted, expiredBeforeClear atomic.Bool
		cb := func() { cbs.Add(1) }
		if adds == 0 {
			c.Add("k", "v", cb)
		}
		var perAddCb [4]atomic.Int32
		var perAddOK [4]atomic.Bool
		for i := 0; i < adds; i++ {
			id := i
			x.Go(fmt.Sprintf("add%d", id), func() {
				if _, ok := c.Add("k", fmt.Sprintf("v%d", id), func() { perAddCb[id].Add(1); cbs.Add(1) }); ok {
					perAddOK[id].Store(true)
					// a second successful Add of the same key is legitimate only
					// after the first entry expired (its callback has run)
					if addOK.Add(1) > 1 && cbs.Load() == 0 {
						x.Fail("C57", "add-not-exclusive", "two concurrent Adds of one key both succeeded while the first entry was still cached")
					}
				}
			})
		}
		for i := 0; i < removers; i++ {
			x.Go(fmt.Sprintf("remove%d", i), func() {
				if it, ok := c.Remove("k"); ok {
					okRemoves.Add(1)
					if it == nil {
						x.Fail("C57", "remove-nil-item", "Remove returned ok with a nil item")
					}
				}
			})
		}
		if clear != "" {
			x.Go("clear", func() {
				if cbs.Load() > 0 {
					expiredBeforeClear.Store(true)
				}
				c.Clear(clear == "cb")
				if !advStarted.Load() {
					clearDone.Store(true) // Clear finished before time moved at all
				}
			})
		}
		x.Go("clock", func() {
			advStarted.Store(true)
			vsched.Advance(c57Timeout)
		})
		x.Final(func(x *vsched.X) {
			if x.Stuck != "" {
				x.Fail("C57", "deadlock", "execution stuck: %s", x.Stuck)
			}
			for _, p := range x.Panics {
				x.Fail("C57", "panic", "%s", p)
			}
			// let any timer goroutine released by teardown finish
			time.Sleep(2 * c57Timeout)
			n, rm := cbs.Load(), okRemoves.Load()
			x.Outcome(fmt.Sprintf("callbacks=%d okRemoves=%d addOK=%d len=%d", n, rm, addOK.Load(), c.Len()))
			if adds == 0 && n > 1 {
				x.Fail("C57", "callback-twice", "expiry callback ran %d times for one entry", n)
			}
			for i := 0; i < adds; i++ {
				// no removals in the Add scenarios: every added entry expires exactly once
				if got, ok := perAddCb[i].Load(), perAddOK[i].Load(); (ok && got != 1) || (!ok && got != 0) {
					x.Fail("C57", "callback-count", "Add #%d returned ok=%v but its expiry callback ran %d times", i, ok, got)
				}
			}
			if rm > 1 {
				x.Fail("C57", "removed-twice", "the entry was returned to %d removers", rm)
			}
			if rm >= 1 && n != 0 {
				x.Fail("C57", "callback-after-remove", "Remove returned the entry but its expiry callback still ran (%d)", n)
			}
			if adds == 0 {
				switch clear {
				case "":
					if n+rm != 1 {
						x.Fail("C57", "entry-lost-or-duplicated", "callbacks(%d)+successful removes(%d) != 1 after expiry time passed", n, rm)
					}
				case "cb":
					if n+rm != 1 {
						x.Fail("C57", "entry-lost-or-duplicated", "with Clear(true): callbacks(%d)+successful removes(%d) != 1", n, rm)
					}
				case "nocb":
					if clearDone.Load() && n != 0 {
						x.Fail("C57", "callback-after-clear", "Clear(false) completed before any time passed but the callback ran")
					}
				}
			}
			if c.Len() != 0 && adds == 0 {
				x.Fail("C57", "entry-remains", "entry still cached after timeout/removal/clear")
			}
		})
	}}
}

// c57ReAddScenario: entry "k" (callback cbOld) is removed while its timer may
// already have fired, and the same key is added again (callback cbNew). The old
// entry's callback must never run once Remove returned it, and the new entry
// must expire exactly once on its own schedule.
func c57ReAddScenario(bound int) vsched.Scenario {
	return vsched.Scenario{Name: "remove+readd+expiry", Bound: bound, MinOutcomes: 2, Body: func(x *vsched.X) {
		c := NewTimeoutCache(c57Timeout)
		var oldCb, newCb atomic.Int32
		var removedOK, readded atomic.Bool
		c.Add("k", "old", func() { oldCb.Add(1) })
		x.Go("remove+readd", func() {
			if _, ok := c.Remove("k"); ok {
				removedOK.Store(true)
			}
			if _, ok := c.Add("k", "new", func() { newCb.Add(1) }); ok {
				readded.Store(true)
			}
		})
		x.Go("clock", func() { vsched.Advance(c57Timeout) })
		x.Final(func(x *vsched.X) {
			if x.Stuck != "" {
				x.Fail("C57", "deadlock", "execution stuck: %s", x.Stuck)
			}
			for _, p := range x.Panics {
				x.Fail("C57", "panic", "%s", p)
			}
			time.Sleep(3 * c57Timeout) // every live timer has fired by now
			o, n := oldCb.Load(), newCb.Load()
			x.Outcome(fmt.Sprintf("old=%d new=%d removed=%v readded=%v", o, n, removedOK.Load(), readded.Load()))
			if removedOK.Load() && o != 0 {
				x.Fail("C57", "callback-after-remove", "Remove returned the old entry but its expiry callback ran %d time(s)", o)
			}
			if !removedOK.Load() && o != 1 {
				x.Fail("C57", "entry-lost-or-duplicated", "old entry was not returned by Remove, so it expired: its callback must have run once, ran %d", o)
			}
			if readded.Load() && n != 1 {
				x.Fail("C57", "readded-entry-callback-count", "the re-added entry's expiry callback ran %d times after its timeout (want exactly 1)", n)
			}
			if c.Len() != 0 {
				x.Fail("C57", "entry-remains", "entry still cached after every timeout passed")
			}
		})
	}}
}

func TestVerif_C57_TimeoutCache(t *testing.T) {
	const P = "C57"
	r := vk.Start(t, "c57_timeoutcache", "exploration", P)
	defer r.Finish()
	r.Rule(P, "every schedule with at most B preemptions (quick 3, thorough 4) of the real TimeoutCache (instrumented; real time.AfterFunc timers in a synctest bubble, fired by an explicit Advance step so 'timer fired but callback not yet holding the lock' is a reachable state): Remove x1-2 / Clear(true|false) / Add x2 racing with expiry; non-trivial = executions deviating from the default schedule")
	r.Assume(P, "scheduling points at sync operations suffice; sequentially consistent atomics")
	b := r.Pick(3, 4)
	scs := []vsched.Scenario{
		c57Scenario("remove1+expiry", 1, "", 0, b),
		c57Scenario("remove2+expiry", 2, "", 0, b),
		c57Scenario("clearcb+remove1+expiry", 1, "cb", 0, b),
		c57Scenario("clearnocb+expiry", 0, "nocb", 0, b),
		c57Scenario("add2+expiry", 0, "", 2, b),
		c57ReAddScenario(b),
	}
	vsched.RunScenarios(t, r, []string{P}, scs)
	r.Sample(P, map[string]any{"scenario": "remove1+expiry", "threads": []string{"remove0: Remove(k)", "clock: Advance(5s) fires the entry's real timer; its callback goroutine is adopted and parks before c.mu.Lock"}})
}
