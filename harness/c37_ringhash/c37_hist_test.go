//go:build verif

package ringhash

// C37, leg c37_hist — engine E2 (seqx): breadth-first over ALL update HISTORIES
// up to a depth bound on a fresh real ringhashBalancer.
//
// The statement says the ring "depends only on that set (not on update order)"
// and "has between min_ring_size and max_ring_size entries": both are claims
// about the ring the CURRENT picker uses after ANY history of resolver / config
// / child-state updates, so the oracle after every step is differential: the
// ring in the last published picker must be entry-for-entry the ring that a
// FRESH balancer (real bb.Build, one single update) builds from the current
// endpoint list and the current LB config, and it must pass the exact
// size / proportion / order oracle of leg c37_ring for the current config.
//
// Alphabet: one ClientConnState update that changes only min_ring_size, only
// max_ring_size, both, neither (resend), only the endpoint list (add / remove /
// re-weight), the endpoint list together with one or both bounds; plus
// connectivity-state changes reported by the per-endpoint child policies.

import (
	"fmt"
	"hash/fnv"
	"sort"
	"strings"
	"sync"
	"sync/atomic"
	"testing"

	"google.golang.org/grpc/balancer"
	"google.golang.org/grpc/balancer/endpointsharding"
	"google.golang.org/grpc/connectivity"
	iringhash "google.golang.org/grpc/internal/ringhash"
	"google.golang.org/grpc/internal/verif/seqx"
	"google.golang.org/grpc/internal/verif/vk"
	"google.golang.org/grpc/resolver"
)

// endpoint lists: endpoint i has address c37Addrs[i]; a list is the weight
// vector of endpoints 0..n-1 (so lists differ by adding/removing the last
// endpoints or re-weighting). All (list, min, max) combinations of the domain
// were chosen so that a fresh ring obeys the bounds (the float defects known
// from leg c37_ring do not occur here); the leg checks this itself.
type c37hSet struct {
	name string
	ws   []uint32
}

// c37hOp is one letter of the alphabet.
type c37hOp struct {
	name  string
	set   int    // index into sets, -1 = unchanged
	min   uint64 // 0 = unchanged
	max   uint64 // 0 = unchanged
	child int    // endpoint index for a child state change, -1 = none
	st    connectivity.State
}

func c37hOps(sets []c37hSet, mins, maxs []uint64, both [][2]uint64, withChildren bool) []c37hOp {
	var ops []c37hOp
	add := func(o c37hOp) {
		var parts []string
		if o.set >= 0 {
			parts = append(parts, "eps="+sets[o.set].name)
		}
		if o.min > 0 {
			parts = append(parts, fmt.Sprintf("min=%d", o.min))
		}
		if o.max > 0 {
			parts = append(parts, fmt.Sprintf("max=%d", o.max))
		}
		if o.child >= 0 {
			parts = append(parts, fmt.Sprintf("child%d->%s", o.child, c37StatesStr([]connectivity.State{o.st})))
		}
		if len(parts) == 0 {
			parts = []string{"resend"}
		}
		o.name = strings.Join(parts, ",")
		ops = append(ops, o)
	}
	add(c37hOp{set: -1, child: -1}) // neither bound changes, same endpoints
	for _, v := range mins {
		add(c37hOp{set: -1, min: v, child: -1})
	}
	for _, v := range maxs {
		add(c37hOp{set: -1, max: v, child: -1})
	}
	for _, p := range both {
		add(c37hOp{set: -1, min: p[0], max: p[1], child: -1})
	}
	for s := range sets {
		add(c37hOp{set: s, child: -1})
	}
	for s := range sets {
		for _, v := range []uint64{mins[0], mins[len(mins)-1]} {
			add(c37hOp{set: s, min: v, child: -1})
		}
		for _, v := range []uint64{maxs[0], maxs[len(maxs)-1]} {
			add(c37hOp{set: s, max: v, child: -1})
		}
	}
	for s := range sets {
		p := both[s%len(both)]
		add(c37hOp{set: s, min: p[0], max: p[1], child: -1})
	}
	if withChildren {
		maxN := 0
		for _, s := range sets {
			if len(s.ws) > maxN {
				maxN = len(s.ws)
			}
		}
		for i := 0; i < maxN; i++ {
			for _, st := range c37States {
				add(c37hOp{set: -1, child: i, st: st})
			}
		}
	}
	return ops
}

// ---- controllable child policies (stand in for lazy pick_first) ----

type c37hWorld struct {
	mu       sync.Mutex
	children map[string]*c37hChild // address -> most recent child
	exitIdle int64                 // ExitIdle calls (arrive on goroutines; counted, not part of the state)
	rec      c37Rec
}

type c37hChild struct {
	w      *c37hWorld
	cc     balancer.ClientConn
	addr   string
	closed bool
}

func (c *c37hChild) UpdateClientConnState(s balancer.ClientConnState) error {
	if len(s.ResolverState.Endpoints) == 1 && len(s.ResolverState.Endpoints[0].Addresses) > 0 {
		c.w.mu.Lock()
		c.addr = s.ResolverState.Endpoints[0].Addresses[0].Addr
		c.w.children[c.addr] = c
		c.w.mu.Unlock()
	}
	return nil
}
func (c *c37hChild) ResolverError(error)                                    {}
func (c *c37hChild) UpdateSubConnState(balancer.SubConn, balancer.SubConnState) {}
func (c *c37hChild) Close()                                                 { c.w.mu.Lock(); c.closed = true; c.w.mu.Unlock() }
func (c *c37hChild) ExitIdle()                                              { atomic.AddInt64(&c.w.exitIdle, 1) }

// c37hBuild assembles the balancer exactly as bb.Build does, except that the
// per-endpoint child policy (lazy pick_first) is replaced by a controllable
// stub that starts IDLE like the lazy balancer.
func c37hBuild(cc balancer.ClientConn, w *c37hWorld) *ringhashBalancer {
	b := &ringhashBalancer{
		ClientConn:     cc,
		endpointStates: resolver.NewEndpointMap[*endpointState](),
	}
	builder := func(ccc balancer.ClientConn, _ balancer.BuildOptions) balancer.Balancer {
		ch := &c37hChild{w: w, cc: ccc}
		ccc.UpdateState(balancer.State{ConnectivityState: connectivity.Idle, Picker: &c37FakePicker{rec: &w.rec, id: 0, st: connectivity.Idle}})
		return ch
	}
	b.child = endpointsharding.NewBalancer(b, balancer.BuildOptions{}, builder, endpointsharding.Options{DisableAutoReconnect: true})
	b.logger = prefixLogger(b)
	return b
}

// ---- fresh-balancer reference ring, cached per (set, min, max) ----

type c37hFreshKey struct {
	set    int
	lo, hi uint64
}

type c37hFresh struct {
	sig []c37Ent
	err error
}

func c37hEndpoints(ws []uint32) []resolver.Endpoint {
	eps := make([]resolver.Endpoint, len(ws))
	for i, w := range ws {
		eps[i] = c37Endpoint(i, w)
	}
	return eps
}

func c37hSigHash(sig []c37Ent) string {
	h := fnv.New64a()
	for _, e := range sig {
		fmt.Fprintf(h, "%d/%s/%d;", e.hash, e.key, e.weight)
	}
	return fmt.Sprintf("%d:%x", len(sig), h.Sum64())
}

type c37hScenario struct {
	name     string
	sets     []c37hSet
	ops      []c37hOp
	realKids bool // true: real bb.Build (lazy pick_first children, never leave IDLE), no child ops
	fresh    sync.Map
	defSet   int
	defMin   uint64
	defMax   uint64
}

func (sc *c37hScenario) freshRing(set int, lo, hi uint64) c37hFresh {
	k := c37hFreshKey{set, lo, hi}
	if v, ok := sc.fresh.Load(k); ok {
		return v.(c37hFresh)
	}
	sig, err := c37BalancerRun([][]resolver.Endpoint{c37hEndpoints(sc.sets[set].ws)}, lo, hi)
	f := c37hFresh{sig, err}
	sc.fresh.Store(k, f)
	return f
}

// run applies one history to a fresh balancer and checks the oracle after every step.
func (sc *c37hScenario) run(hist []int) (out seqx.Outcome) {
	fail := func(class, format string, a ...any) {
		for _, f := range out.Fails {
			if f.Key == class {
				return
			}
		}
		out.Fails = append(out.Fails, seqx.Fail{Prop: c37P, Key: class, Desc: fmt.Sprintf(format, a...)})
	}
	defer func() {
		if p := recover(); p != nil {
			fail("panic", "history panicked: %v", p)
			out.Key = fmt.Sprintf("panic:%v", p)
			out.Terminal = true
		}
	}()
	cc := &c37CC{}
	w := &c37hWorld{children: map[string]*c37hChild{}}
	var b *ringhashBalancer
	if sc.realKids {
		b = bb{}.Build(cc, balancer.BuildOptions{}).(*ringhashBalancer)
	} else {
		b = c37hBuild(cc, w)
	}
	defer b.Close()

	// reference model: what the channel has told the balancer last, and what the children reported last
	set, lo, hi := sc.defSet, sc.defMin, sc.defMax
	delivered := false
	childSt := map[int]connectivity.State{} // endpoint index -> state (current endpoints only)
	for step, oi := range hist {
		o := sc.ops[oi]
		last := step == len(hist)-1
		if o.child >= 0 {
			st, present := childSt[o.child]
			_ = st
			if !delivered || !present {
				if last {
					out.Skip = true
					return
				}
				fail("harness", "inapplicable op inside a history")
				return
			}
			w.mu.Lock()
			ch := w.children[c37Addrs[o.child]]
			w.mu.Unlock()
			if ch == nil || ch.closed {
				fail("child-missing", "step %d (%s): no live child policy for endpoint %d although it is in the current endpoint list", step, o.name, o.child)
				return
			}
			ch.cc.UpdateState(balancer.State{ConnectivityState: o.st, Picker: &c37FakePicker{rec: &w.rec, id: o.child, st: o.st}})
			childSt[o.child] = o.st
		} else {
			nset, nlo, nhi := set, lo, hi
			if o.set >= 0 {
				nset = o.set
			}
			if o.min > 0 {
				nlo = o.min
			}
			if o.max > 0 {
				nhi = o.max
			}
			if nlo > nhi { // the LB config parser rejects min > max: not a deliverable config
				if last {
					out.Skip = true
					return
				}
				fail("harness", "inapplicable op inside a history")
				return
			}
			set, lo, hi = nset, nlo, nhi
			err := b.UpdateClientConnState(balancer.ClientConnState{
				ResolverState:  resolver.State{Endpoints: c37hEndpoints(sc.sets[set].ws)},
				BalancerConfig: &iringhash.LBConfig{MinRingSize: lo, MaxRingSize: hi},
			})
			if err != nil {
				fail("update-error", "step %d (%s): UpdateClientConnState failed: %v", step, o.name, err)
			}
			delivered = true
			n := len(sc.sets[set].ws)
			for i := range childSt {
				if i >= n {
					delete(childSt, i) // endpoint removed: its child is closed, a later re-add starts IDLE
				}
			}
			for i := 0; i < n; i++ {
				if _, ok := childSt[i]; !ok {
					childSt[i] = connectivity.Idle
				}
			}
		}
		// ---- oracle after every step ----
		where := fmt.Sprintf("after step %d (%s), endpoints %s=%s min_ring_size=%d max_ring_size=%d", step+1, o.name, sc.sets[set].name, c37WS(sc.sets[set].ws), lo, hi)
		pk, ok := cc.last.Picker.(*picker)
		if !ok {
			fail("no-picker", "%s: last published picker is %T", where, cc.last.Picker)
			continue
		}
		b.mu.Lock()
		bring := b.ring
		b.mu.Unlock()
		if pk.ring != bring {
			fail("picker-ring-not-current", "%s: the published picker does not use the balancer's current ring", where)
		}
		if pk.ring == nil {
			fail("no-ring", "%s: picker without ring", where)
			continue
		}
		fr := sc.freshRing(set, lo, hi)
		if fr.err != nil {
			fail("fresh-balancer", "%s: fresh balancer failed: %v", where, fr.err)
			continue
		}
		if eq, why := c37RingEq(fr.sig, pk.ring); !eq {
			fail("ring-depends-on-history", "%s: the ring used by the current picker (%d entries) is not the ring a fresh balancer builds from the same endpoints and config (%d entries): %s", where, len(pk.ring.items), len(fr.sig), why)
		}
		probs, _ := c37CheckRing(sc.sets[set].ws, lo, hi, pk.ring)
		for _, p := range probs {
			fail("hist-"+p.class, "%s: %s", where, p.desc)
		}
		// the picker's endpoint-state cache (what the A61 walk reads) shows the latest child states
		for i, st := range childSt {
			es, ok := pk.endpointStates[c37Addrs[i]]
			if !ok {
				fail("picker-endpoint-missing", "%s: picker has no state for endpoint %d", where, i)
			} else if !sc.realKids && es.state.ConnectivityState != st {
				fail("picker-endpoint-state-stale", "%s: picker sees endpoint %d as %v, its child last reported %v", where, i, es.state.ConnectivityState, st)
			}
		}
		if len(pk.endpointStates) != len(childSt) {
			fail("picker-endpoint-extra", "%s: picker caches %d endpoint states for %d endpoints", where, len(pk.endpointStates), len(childSt))
		}
	}
	// ---- canonical state key: reference model + private fields ----
	var sb strings.Builder
	if !delivered {
		sb.WriteString("initial")
	} else {
		fmt.Fprintf(&sb, "M[%s %d %d", sc.sets[set].name, lo, hi)
		idx := make([]int, 0, len(childSt))
		for i := range childSt {
			idx = append(idx, i)
		}
		sort.Ints(idx)
		for _, i := range idx {
			fmt.Fprintf(&sb, " %d%s", i, c37StatesStr([]connectivity.State{childSt[i]}))
		}
		sb.WriteString("]")
	}
	b.mu.Lock()
	if b.config != nil {
		fmt.Fprintf(&sb, " cfg=%d/%d", b.config.MinRingSize, b.config.MaxRingSize)
	}
	fmt.Fprintf(&sb, " regen=%v inhibit=%v", b.shouldRegenerateRing, b.inhibitChildUpdates)
	var ess []string
	for _, es := range b.endpointStates.All() {
		ess = append(ess, fmt.Sprintf("%s:%d:%v", es.hashKey, es.weight, es.state.ConnectivityState))
	}
	sort.Strings(ess)
	fmt.Fprintf(&sb, " eps=%v", ess)
	if b.ring != nil {
		fmt.Fprintf(&sb, " ring=%s", c37hSigHash(c37Sig(b.ring)))
	}
	b.mu.Unlock()
	if pk, ok := cc.last.Picker.(*picker); ok && pk.ring != nil {
		var ps []string
		for k, es := range pk.endpointStates {
			ps = append(ps, fmt.Sprintf("%s:%v", k, es.state.ConnectivityState))
		}
		sort.Strings(ps)
		fmt.Fprintf(&sb, " pick=%s/%v/conn=%v agg=%v", c37hSigHash(c37Sig(pk.ring)), ps, pk.hasEndpointInConnectingState, cc.last.ConnectivityState)
	}
	out.Key = sb.String()
	if delivered {
		rel := "N=natural"
		if pk, ok := cc.last.Picker.(*picker); ok && pk.ring != nil {
			switch n := uint64(len(pk.ring.items)); {
			case n == lo && n == hi:
				rel = "N=min=max"
			case n == lo:
				rel = "N=min(binding)"
			case n == hi:
				rel = "N=max(binding)"
			}
		}
		out.Obs = fmt.Sprintf("n=%d,%s,agg=%v", len(sc.sets[set].ws), rel, cc.last.ConnectivityState)
	}
	return out
}

func TestVerif_C37_Hist(t *testing.T) {
	r := vk.Start(t, "c37_hist", "exploration", c37P)
	defer r.Finish()
	sets := []c37hSet{{"E1", []uint32{1}}, {"E2", []uint32{1, 1}}, {"E3", []uint32{1, 3}}, {"E4", []uint32{1, 1, 2}}}
	mins := []uint64{1, 3, 10}
	maxs := []uint64{3, 10, 100}
	both := [][2]uint64{{1, 3}, {3, 3}, {10, 10}, {1, 100}, {3, 100}, {10, 100}}
	if r.Thorough() {
		sets = append(sets, c37hSet{"E5", []uint32{2, 1, 1}})
		maxs = []uint64{2, 3, 10, 100}
	}
	mk := func(name string, realKids bool) *c37hScenario {
		return &c37hScenario{name: name, sets: sets, ops: c37hOps(sets, mins, maxs, both, !realKids), realKids: realKids, defSet: 1, defMin: 3, defMax: 10}
	}
	names := func(ops []c37hOp) []string {
		out := make([]string, len(ops))
		for i, o := range ops {
			out[i] = o.name
		}
		return out
	}
	r.Rule(c37P, fmt.Sprintf("leg c37_hist (E2): breadth-first over ALL histories up to the depth bound on a fresh real ringhashBalancer. Alphabet: one ClientConnState update that changes nothing (resend) / only min_ring_size in %v / only max_ring_size in %v / both (%v) / only the endpoint list (E1=[1] E2=[1,1] E3=[1,3] E4=[1,1,2]%s: add, remove, re-weight) / the endpoint list together with one bound or both; plus child(i) reports IDLE|CONNECTING|READY|TRANSIENT_FAILURE for every current endpoint (scenario hist: controllable stub children, balancer assembled as in bb.Build; scenario hist_realbuild: the real bb.Build with lazy pick_first children that stay IDLE, no child ops). min/max values bind below and above the natural ring sizes (2,3,4,10,12). Updates with min>max are not deliverable (skipped). After EVERY step: ring of the last published picker == ring of a FRESH balancer (real bb.Build, single update) for the current endpoints+config, entry for entry; == balancer's ring; exact size/proportion/order oracle of leg c37_ring for the current config; picker's endpoint-state cache == latest child states. State = reference model (endpoints, config, child states) + private fields (config, shouldRegenerateRing, inhibit flag, endpointStates, ring signature, picker ring/cache/connecting flag, aggregate state); distinct states are the non-trivial cases", mins, maxs, both, map[bool]string{true: " E5=[2,1,1]", false: ""}[r.Thorough()]))
	a := mk("hist", false)
	seqx.BFS(r, []string{c37P}, seqx.Config{
		Name: a.name, Ops: names(a.ops), MaxDepth: r.Pick(4, 5), Parallel: 16,
		Congruence: true, CongruenceMax: r.Pick(60, 300), MinStates: 50, Run: a.run,
	})
	b := mk("hist_realbuild", true)
	seqx.BFS(r, []string{c37P}, seqx.Config{
		Name: b.name, Ops: names(b.ops), MaxDepth: r.Pick(3, 4), Parallel: 16,
		Congruence: true, CongruenceMax: r.Pick(60, 300), MinStates: 20, Run: b.run,
	})
	r.Assume(c37P, "c37_hist: child policies are stubs that report the states the history dictates (a superset of what lazy pick_first can report); their ExitIdle is counted only. The fresh-balancer reference ring comes from the same newRing code: the leg decides history/config dependence, the absolute ring contents are judged by the exact oracle of c37_ring")
}
