//go:build verif

package ringhash

// C37 — "Ring hash builds bounded deterministic rings and walks them per A61".
//
// Engine E3 (bounded-exhaustive input enumeration), two legs:
//
//	c37_ring  ring construction: every endpoint set inside the bounds, every
//	          insertion order (direct newRing) and every resolver-update order
//	          (real ringhashBalancer), every (min,max) ring size pair.
//	c37_pick  the real picker (built by the real newPickerLocked) for every
//	          connectivity-state assignment and every boundary request hash,
//	          against a reference walk written from the statement / gRFC A61 /
//	          gRFC A76.
//
// Oracles are exact (math/big) or brute force; nothing is sampled.

import (
	"context"
	"fmt"
	"math"
	"math/big"
	"os"
	"runtime"
	"runtime/debug"
	"sort"
	"strconv"
	"strings"
	"sync"
	"sync/atomic"
	"testing"
	"time"

	xxhash "github.com/cespare/xxhash/v2"
	"google.golang.org/grpc/balancer"
	"google.golang.org/grpc/connectivity"
	"google.golang.org/grpc/experimental/balancer/weight"
	iringhash "google.golang.org/grpc/internal/ringhash"
	"google.golang.org/grpc/internal/verif/vk"
	"google.golang.org/grpc/metadata"
	"google.golang.org/grpc/resolver"
)

const c37P = "C37"

// Endpoint identities: endpoint i always has address c37Addrs[i] (the address is
// the ring hash key, A61). Index 8 is the "extra" endpoint of the shrink mode.
var c37Addrs = []string{
	"10.0.0.1:443", "10.0.0.2:443", "[2001:db8::3]:443", "backend-4.example.com:8080",
	"10.0.0.5:443", "10.0.0.6:443", "10.0.0.7:443", "10.0.0.8:443", "192.0.2.99:1",
}

const c37Extra = 8

var c37Sizes = []uint64{1, 2, 3, 10, 100, 1024, 4096}

// ---------------------------------------------------------------------------
// failure bookkeeping: per failure class keep the smallest failing case in the
// canonical enumeration order, so that the violation key is stable although the
// enumeration runs on all CPUs.

type c37Fail struct {
	ord    []uint64
	key    string
	desc   string
	replay any
}

type c37Fails struct {
	mu    sync.Mutex
	best  map[string]*c37Fail
	count map[string]int64
	all   map[string][]c37Fail // every failing case (ord + case text), for the examples list
}

func c37NewFails() *c37Fails {
	return &c37Fails{best: map[string]*c37Fail{}, count: map[string]int64{}, all: map[string][]c37Fail{}}
}

func c37OrdLess(a, b []uint64) bool {
	for i := 0; i < len(a) && i < len(b); i++ {
		if a[i] != b[i] {
			return a[i] < b[i]
		}
	}
	return len(a) < len(b)
}

func (f *c37Fails) add(class string, ord []uint64, caseStr, desc string, replay any) {
	f.mu.Lock()
	defer f.mu.Unlock()
	f.count[class]++
	if len(f.all[class]) < 100000 {
		f.all[class] = append(f.all[class], c37Fail{ord: append([]uint64(nil), ord...), key: caseStr})
	}
	if b := f.best[class]; b == nil || c37OrdLess(ord, b.ord) {
		f.best[class] = &c37Fail{ord: append([]uint64(nil), ord...), key: class + ": " + caseStr, desc: desc, replay: replay}
	}
}

func (f *c37Fails) report(r *vk.Run) {
	f.mu.Lock()
	defer f.mu.Unlock()
	classes := make([]string, 0, len(f.best))
	for c := range f.best {
		classes = append(classes, c)
	}
	sort.Strings(classes)
	examples := map[string][]string{}
	for _, c := range classes {
		l := f.all[c]
		sort.Slice(l, func(i, j int) bool { return c37OrdLess(l[i].ord, l[j].ord) })
		for i := 0; i < len(l) && len(examples[c]) < 8; i++ {
			if i == 0 || l[i].key != l[i-1].key {
				examples[c] = append(examples[c], l[i].key)
			}
		}
	}
	if len(examples) > 0 {
		r.Set(c37P, "failing_examples_smallest_first", examples)
	}
	for _, c := range classes {
		b := f.best[c]
		// key = class + number of failing cases of the class in this tier's domain +
		// the smallest one: any change of the failing set changes the key.
		key := strings.Replace(b.key, ": ", fmt.Sprintf(" x%d, smallest: ", f.count[c]), 1)
		r.Violation(c37P, key, fmt.Sprintf("%s (smallest of %d failing cases of class %q in the %s tier domain)", b.desc, f.count[c], c, r.Tier()), b.replay)
	}
}

// c37Case is the replay artefact: one endpoint set + one ring size pair. The
// replay re-runs every order / state / hash of that set and pair.
type c37Case struct {
	Kind    string   `json:"kind"` // "ring" | "pick"
	Weights []uint32 `json:"weights"`
	Min     uint64   `json:"min"`
	Max     uint64   `json:"max"`
	Detail  string   `json:"detail,omitempty"`
}

// ---------------------------------------------------------------------------
// building inputs the way the balancer does

func c37Endpoint(i int, w uint32) resolver.Endpoint {
	ep := resolver.Endpoint{Addresses: []resolver.Address{{Addr: c37Addrs[i]}}}
	return weight.Set(ep, weight.EndpointInfo{Weight: w})
}

// c37Map inserts endpoints order[0], order[1], … into a fresh EndpointMap,
// populating endpointState exactly as ringhashBalancer.UpdateState does
// (hashKey(endpoint), getWeightAttribute(endpoint)).
func c37Map(ws []uint32, order []int, dress func(i int, es *endpointState)) *resolver.EndpointMap[*endpointState] {
	m := resolver.NewEndpointMap[*endpointState]()
	for _, i := range order {
		ep := c37Endpoint(i, ws[i])
		es := &endpointState{hashKey: hashKey(ep), weight: getWeightAttribute(ep), state: balancer.State{ConnectivityState: connectivity.Idle}}
		if dress != nil {
			dress(i, es)
		}
		m.Set(ep, es)
	}
	return m
}

func c37EnvInt(name string, def int) int {
	if v, err := strconv.Atoi(os.Getenv(name)); err == nil {
		return v
	}
	return def
}

func c37Identity(n int) []int {
	p := make([]int, n)
	for i := range p {
		p[i] = i
	}
	return p
}

// c37Perms returns all permutations of 0..n-1 in lexicographic order (identity first).
func c37Perms(n int) [][]int {
	var out [][]int
	cur := make([]int, 0, n)
	used := make([]bool, n)
	var rec func()
	rec = func() {
		if len(cur) == n {
			out = append(out, append([]int(nil), cur...))
			return
		}
		for i := 0; i < n; i++ {
			if !used[i] {
				used[i] = true
				cur = append(cur, i)
				rec()
				cur = cur[:len(cur)-1]
				used[i] = false
			}
		}
	}
	rec()
	return out
}

// c37Tuples enumerates menu^n in odometer order (last position fastest).
func c37Tuples(menu []uint32, n int) [][]uint32 {
	total := 1
	for i := 0; i < n; i++ {
		total *= len(menu)
	}
	out := make([][]uint32, 0, total)
	for x := 0; x < total; x++ {
		t := make([]uint32, n)
		y := x
		for k := n - 1; k >= 0; k-- {
			t[k] = menu[y%len(menu)]
			y /= len(menu)
		}
		out = append(out, t)
	}
	return out
}

func c37Pairs(sizes []uint64) [][2]uint64 {
	var out [][2]uint64
	for _, lo := range sizes {
		for _, hi := range sizes {
			if lo <= hi {
				out = append(out, [2]uint64{lo, hi})
			}
		}
	}
	return out
}

func c37WS(ws []uint32) string {
	s := make([]string, len(ws))
	for i, w := range ws {
		s[i] = fmt.Sprint(w)
	}
	return "[" + strings.Join(s, ",") + "]"
}

func c37Ord(ws []uint32, rest ...uint64) []uint64 {
	o := []uint64{uint64(len(ws))}
	for _, w := range ws {
		o = append(o, uint64(w))
	}
	return append(o, rest...)
}

// c37ParSets runs f(i) for i in [0,n) on all CPUs (dynamic work stealing; the
// result does not depend on the distribution because failures are reduced to
// the canonical minimum and counters are sums).
func c37ParSets(n int, f func(i int)) {
	workers := runtime.GOMAXPROCS(0)
	if workers < 1 {
		workers = 1
	}
	var next int64 = -1
	var wg sync.WaitGroup
	for w := 0; w < workers; w++ {
		wg.Add(1)
		go func() {
			defer wg.Done()
			for {
				i := int(atomic.AddInt64(&next, 1))
				if i >= n {
					return
				}
				f(i)
			}
		}()
	}
	wg.Wait()
}

// ---------------------------------------------------------------------------
// ring-level oracle (exact)

type c37Ent struct {
	hash   uint64
	key    string
	weight uint32
}

func c37Sig(rg *ring) []c37Ent {
	out := make([]c37Ent, len(rg.items))
	for i, it := range rg.items {
		out[i] = c37Ent{it.hash, it.hashKey, it.weight}
	}
	return out
}

func c37SigEq(a, b []c37Ent) (bool, string) {
	if len(a) != len(b) {
		return false, fmt.Sprintf("ring sizes differ: %d vs %d", len(a), len(b))
	}
	for i := range a {
		if a[i] != b[i] {
			return false, fmt.Sprintf("entry %d differs: {hash %d key %s w %d} vs {hash %d key %s w %d}", i, a[i].hash, a[i].key, a[i].weight, b[i].hash, b[i].key, b[i].weight)
		}
	}
	return true, ""
}

func c37RingEq(a []c37Ent, rg *ring) (bool, string) {
	if len(a) != len(rg.items) {
		return false, fmt.Sprintf("ring sizes differ: %d vs %d", len(a), len(rg.items))
	}
	for i, it := range rg.items {
		if a[i].hash != it.hash || a[i].key != it.hashKey || a[i].weight != it.weight {
			return false, fmt.Sprintf("entry %d differs: {hash %d key %s w %d} vs {hash %d key %s w %d}", i, a[i].hash, a[i].key, a[i].weight, it.hash, it.hashKey, it.weight)
		}
	}
	return true, ""
}

func c37SafeNewRing(m *resolver.EndpointMap[*endpointState], lo, hi uint64) (rg *ring, pan any) {
	defer func() {
		if p := recover(); p != nil {
			pan = p
		}
	}()
	return newRing(m, lo, hi, c37Logger), nil
}

// a real (quiet) prefix logger: a nil logger would make newRing format its
// verbose log lines for every ring.
var c37Logger = prefixLogger(&ringhashBalancer{})

// c37CheckNormalize is the guard + first oracle: the "normalized weight" of
// endpoint i is w_i/Σw (exact rational). The implementation computes it in
// float64, so a relative error of 2^-50 is granted (one division is correctly
// rounded to 2^-53). If this does not hold the set is UNSAFE: newRing's entry
// loop is driven by these numbers and may not terminate, so the ring is not
// built for such a set (the normalisation failure is the reported violation).
func c37CheckNormalize(ws []uint32) (ok bool, desc string) {
	var pan any
	var got []endpointInfo
	var gotMin float64
	func() {
		defer func() { pan = recover() }()
		got, gotMin = normalizeWeights(c37Map(ws, c37Identity(len(ws)), nil))
	}()
	if pan != nil {
		return false, fmt.Sprintf("normalizeWeights panicked: %v", pan)
	}
	if len(got) != len(ws) {
		return false, fmt.Sprintf("normalizeWeights returned %d endpoints for %d", len(got), len(ws))
	}
	sum := new(big.Int)
	for _, w := range ws {
		sum.Add(sum, new(big.Int).SetUint64(uint64(w)))
	}
	byKey := map[string]float64{}
	for _, g := range got {
		byKey[g.hashKey] = g.scaledWeight
	}
	tol := new(big.Rat).SetFrac(big.NewInt(1), new(big.Int).Lsh(big.NewInt(1), 50))
	minP := new(big.Rat).SetInt64(2)
	for i, w := range ws {
		nw, present := byKey[c37Addrs[i]]
		if !present {
			return false, fmt.Sprintf("normalizeWeights lost endpoint %s", c37Addrs[i])
		}
		if math.IsNaN(nw) || math.IsInf(nw, 0) {
			return false, fmt.Sprintf("normalized weight of endpoint %d (weight %d, exact sum of weights %s) is %v", i, w, sum, nw)
		}
		p := new(big.Rat).SetFrac(new(big.Int).SetUint64(uint64(w)), sum)
		if p.Cmp(minP) < 0 {
			minP = p
		}
		d := new(big.Rat).Sub(new(big.Rat).SetFloat64(nw), p)
		d.Abs(d)
		if d.Cmp(new(big.Rat).Mul(p, tol)) > 0 {
			pf, _ := p.Float64()
			return false, fmt.Sprintf("normalized weight of endpoint %d (weight %d) is %v, but weight/sum = %d/%s = %.17g", i, w, nw, w, sum, pf)
		}
	}
	if math.IsNaN(gotMin) || math.IsInf(gotMin, 0) {
		return false, fmt.Sprintf("minimum normalized weight is %v", gotMin)
	}
	d := new(big.Rat).Sub(new(big.Rat).SetFloat64(gotMin), minP)
	d.Abs(d)
	if d.Cmp(new(big.Rat).Mul(minP, tol)) > 0 {
		pf, _ := minP.Float64()
		return false, fmt.Sprintf("minimum normalized weight reported as %v, exact minimum is %.17g", gotMin, pf)
	}
	return true, ""
}

type c37Problem struct{ class, desc string }

type c37Facts struct {
	n         int
	counts    []int
	zero      int     // endpoints without any entry
	rounding  bool    // some N*p_i is not an integer (rounding really happens)
	maxDevN   float64 // max_i |c_i - N*p_i|
	collision bool
}

// c37CheckRing states the three ring clauses of the property exactly.
//
//	size:  min <= N always (the endpoint count can never prevent reaching the
//	       minimum); N <= max whenever n <= max (with more endpoints than max
//	       entries "the endpoint count does not permit" is granted and the
//	       clause is not applied).
//	proportional up to rounding: "c_i proportional to p_i up to rounding" means
//	       there is ONE real proportionality constant k > 0 such that every c_i
//	       is a rounding (down, up or nearest) of k*p_i, i.e. |c_i - k*p_i| < 1
//	       for all i, p_i = w_i/Σw. Exactly (math/big.Rat): the open intervals
//	       ((c_i-1)/p_i, (c_i+1)/p_i) have a common point:
//	       max_i (c_i-1)/p_i < min_i (c_i+1)/p_i.
//	       (Summing gives |N - k| < n; the stricter reading k = N, i.e.
//	       |c_i - N*p_i| < 1, is NOT implied by the statement and is only
//	       measured, see max_abs_dev_from_N_times_p.)
//	order: entries are in ascending hash order with idx = position (this is what
//	       "clockwise" means for pick/next).
func c37CheckRing(ws []uint32, lo, hi uint64, rg *ring) ([]c37Problem, c37Facts) {
	var probs []c37Problem
	f := c37Facts{n: len(rg.items), counts: make([]int, len(ws))}
	idx := map[string]int{}
	for i := range ws {
		idx[c37Addrs[i]] = i
	}
	for pos, it := range rg.items {
		i, ok := idx[it.hashKey]
		if !ok {
			probs = append(probs, c37Problem{"ring-foreign-entry", fmt.Sprintf("entry %d has hash key %q which is not an endpoint of the set", pos, it.hashKey)})
			continue
		}
		f.counts[i]++
		if it.weight != ws[i] {
			probs = append(probs, c37Problem{"ring-entry-weight", fmt.Sprintf("entry %d of endpoint %d carries weight %d, endpoint weight is %d", pos, i, it.weight, ws[i])})
		}
		if it.idx != pos {
			probs = append(probs, c37Problem{"ring-order", fmt.Sprintf("entry at position %d has idx %d", pos, it.idx)})
		}
		if pos > 0 {
			if rg.items[pos-1].hash > it.hash {
				probs = append(probs, c37Problem{"ring-order", fmt.Sprintf("entries %d,%d not in ascending hash order (%d > %d)", pos-1, pos, rg.items[pos-1].hash, it.hash)})
			} else if rg.items[pos-1].hash == it.hash {
				f.collision = true
			}
		}
	}
	N := f.n
	if N == 0 {
		probs = append(probs, c37Problem{"ring-size", "ring is empty"})
		return probs, f
	}
	if uint64(N) < lo {
		probs = append(probs, c37Problem{"ring-size", fmt.Sprintf("ring has %d entries < min_ring_size %d", N, lo)})
	}
	if uint64(len(ws)) <= hi && uint64(N) > hi {
		probs = append(probs, c37Problem{"ring-size", fmt.Sprintf("ring has %d entries > max_ring_size %d (only %d endpoints)", N, hi, len(ws))})
	}
	sum := new(big.Int)
	for _, w := range ws {
		sum.Add(sum, new(big.Int).SetUint64(uint64(w)))
	}
	var L, U *big.Rat
	bigN := new(big.Rat).SetInt64(int64(N))
	for i, w := range ws {
		c := f.counts[i]
		if c == 0 {
			f.zero++
		}
		invP := new(big.Rat).SetFrac(sum, new(big.Int).SetUint64(uint64(w))) // 1/p_i
		l := new(big.Rat).Mul(new(big.Rat).SetInt64(int64(c-1)), invP)
		u := new(big.Rat).Mul(new(big.Rat).SetInt64(int64(c+1)), invP)
		if L == nil || l.Cmp(L) > 0 {
			L = l
		}
		if U == nil || u.Cmp(U) < 0 {
			U = u
		}
		np := new(big.Rat).Quo(bigN, invP) // N*p_i
		if !np.IsInt() {
			f.rounding = true
		}
		dev := new(big.Rat).Sub(new(big.Rat).SetInt64(int64(c)), np)
		dev.Abs(dev)
		if d, _ := dev.Float64(); d > f.maxDevN {
			f.maxDevN = d
		}
	}
	if cmp := L.Cmp(U); cmp >= 0 {
		lf, _ := L.Float64()
		uf, _ := U.Float64()
		if cmp == 0 {
			// the intervals touch: the counts are admissible only with a deviation of
			// EXACTLY 1 (k = L = U), i.e. one endpoint has one entry more and another
			// one entry less than k*p_i although no rounding is needed there.
			probs = append(probs, c37Problem{"ring-proportion-boundary", fmt.Sprintf("entry counts %v (ring size %d) are not roundings of k*w_i/Σw for any single k: need k > %.6f and k < %.6f (with k = %.6f some endpoint deviates by exactly one whole entry)", f.counts, N, lf, uf, lf)})
		} else {
			probs = append(probs, c37Problem{"ring-proportion", fmt.Sprintf("entry counts %v (ring size %d) are not roundings of k*w_i/Σw for any single k: need k > %.6f and k < %.6f", f.counts, N, lf, uf)})
		}
	}
	return probs, f
}

// c37CheckSearch checks ring.pick and ring.next on one ring for h in every
// entry hash ±{0,1}, 0 and MaxUint64 against a linear sweep over an
// independently sorted copy of the hashes ("first entry clockwise whose hash is
// >= h", wrapping to the smallest hash), and for rings of <=128 entries
// additionally against a brute-force minimum search over the unsorted entries.
func c37CheckSearch(rg *ring) (n int64, prob *c37Problem) {
	defer func() {
		if p := recover(); p != nil {
			prob = &c37Problem{"search-panic", fmt.Sprintf("ring.pick/next panicked: %v", p)}
		}
	}()
	N := len(rg.items)
	if N == 0 {
		return 0, nil
	}
	S := make([]uint64, N)
	for i, it := range rg.items {
		S[i] = it.hash
	}
	sort.Slice(S, func(i, j int) bool { return S[i] < S[j] })
	Q := make([]uint64, 0, 3*N+2)
	Q = append(Q, 0, math.MaxUint64)
	for _, h := range S {
		Q = append(Q, h)
		if h > 0 {
			Q = append(Q, h-1)
		}
		if h < math.MaxUint64 {
			Q = append(Q, h+1)
		}
	}
	sort.Slice(Q, func(i, j int) bool { return Q[i] < Q[j] })
	j := 0
	for qi, q := range Q {
		if qi > 0 && Q[qi-1] == q {
			continue
		}
		for j < N && S[j] < q {
			j++
		}
		want := S[0]
		if j < N {
			want = S[j]
		}
		if N <= 128 { // brute force over the entries as stored
			var best *ringEntry
			var lowest *ringEntry
			for _, it := range rg.items {
				if lowest == nil || it.hash < lowest.hash {
					lowest = it
				}
				if it.hash >= q && (best == nil || it.hash < best.hash) {
					best = it
				}
			}
			if best == nil {
				best = lowest
			}
			if best.hash != want {
				return n, &c37Problem{"search-oracle-mismatch", fmt.Sprintf("harness oracles disagree for h=%d: %d vs %d", q, best.hash, want)}
			}
		}
		got := rg.pick(q)
		n++
		if got == nil || got.hash != want {
			gh := "nil"
			if got != nil {
				gh = fmt.Sprint(got.hash)
			}
			return n, &c37Problem{"ring-pick", fmt.Sprintf("ring.pick(%d) returned entry with hash %s, first entry clockwise with hash >= h has hash %d (ring size %d)", q, gh, want, N)}
		}
	}
	// next: clockwise successor
	for _, it := range rg.items {
		k := sort.Search(N, func(i int) bool { return S[i] > it.hash })
		want := S[0]
		if k < N {
			want = S[k]
		}
		if N > 1 && k > 0 && k < N && S[k-1] != it.hash {
			continue // unreachable; defensive
		}
		got := rg.next(it)
		n++
		if got == nil || (got.hash != want && !(N == 1 && got.hash == it.hash)) {
			return n, &c37Problem{"ring-next", fmt.Sprintf("ring.next(entry hash %d) is not the clockwise successor (want hash %d)", it.hash, want)}
		}
	}
	return n, nil
}

// ---------------------------------------------------------------------------
// update orders through the real balancer

type c37CC struct {
	balancer.ClientConn // nil: any method other than UpdateState panics (recovered → engine error)
	last                balancer.State
	updates             int
}

func (c *c37CC) UpdateState(s balancer.State) { c.last = s; c.updates++ }

func c37BalancerRun(steps [][]resolver.Endpoint, lo, hi uint64) (sig []c37Ent, err error) {
	defer func() {
		if p := recover(); p != nil {
			err = fmt.Errorf("panic: %v", p)
		}
	}()
	cc := &c37CC{}
	b := bb{}.Build(cc, balancer.BuildOptions{})
	defer b.Close()
	for si, eps := range steps {
		if e := b.UpdateClientConnState(balancer.ClientConnState{
			ResolverState:  resolver.State{Endpoints: eps},
			BalancerConfig: &iringhash.LBConfig{MinRingSize: lo, MaxRingSize: hi},
		}); e != nil {
			return nil, fmt.Errorf("step %d: UpdateClientConnState: %v", si, e)
		}
	}
	rb := b.(*ringhashBalancer)
	rb.mu.Lock()
	rg := rb.ring
	rb.mu.Unlock()
	if rg == nil {
		return nil, fmt.Errorf("balancer has no ring after %d updates", len(steps))
	}
	pk, ok := cc.last.Picker.(*picker)
	if !ok {
		return nil, fmt.Errorf("last published picker is %T, not *picker", cc.last.Picker)
	}
	if pk.ring != rg {
		return nil, fmt.Errorf("published picker does not use the balancer's current ring")
	}
	return c37Sig(rg), nil
}

var c37BalModes = []string{"add", "reweight", "shrink"}

// c37BalSteps builds the resolver-update sequence of one mode for the final set
// ws visited in order perm.
func c37BalSteps(mode string, ws []uint32, perm []int) [][]resolver.Endpoint {
	n := len(ws)
	var steps [][]resolver.Endpoint
	switch mode {
	case "add": // endpoints appear one at a time in perm order
		for k := 1; k <= n; k++ {
			var eps []resolver.Endpoint
			for _, i := range perm[:k] {
				eps = append(eps, c37Endpoint(i, ws[i]))
			}
			steps = append(steps, eps)
		}
	case "reweight": // all endpoints start with weight 1, weights are corrected one at a time in perm order
		cur := make([]uint32, n)
		for i := range cur {
			cur[i] = 1
		}
		for k := 0; k <= n; k++ {
			if k > 0 {
				cur[perm[k-1]] = ws[perm[k-1]]
			}
			var eps []resolver.Endpoint
			for _, i := range perm {
				eps = append(eps, c37Endpoint(i, cur[i]))
			}
			steps = append(steps, eps)
		}
	case "shrink": // an extra endpoint is present first and then removed
		var eps0, eps1 []resolver.Endpoint
		for _, i := range perm {
			eps0 = append(eps0, c37Endpoint(i, ws[i]))
			eps1 = append(eps1, c37Endpoint(i, ws[i]))
		}
		eps0 = append([]resolver.Endpoint{c37Endpoint(c37Extra, 5)}, eps0...)
		steps = [][]resolver.Endpoint{eps0, eps1}
	}
	return steps
}

// ---------------------------------------------------------------------------
// leg 1 driver

type c37RingStats struct {
	mu          sync.Mutex
	evals       int64
	nontrivial  int64
	rings       int64
	balRuns     int64
	searches    int64
	unsafeSets  int64
	zeroCases   int64
	devGE1      int64
	maxDev      float64
	maxDevCase  string
	maxRing     int
	collisions  int64
	outcomes    map[string]int64
	skippedSets int64
}

// c37OrderPlan says which endpoint orders are run for a ring size pair: direct =
// insertion orders into the EndpointMap given to newRing (first one must be the
// identity), bal = update orders through the real balancer (nil/empty = none).
type c37OrderPlan struct {
	direct func(hi uint64) [][]int
	bal    func(lo, hi uint64) [][]int
}

// c37FewOrders: identity, reversal and the cyclic rotations of the identity.
func c37FewOrders(n int) [][]int {
	out := [][]int{c37Identity(n)}
	if n == 1 {
		return out
	}
	rev := make([]int, n)
	for i := range rev {
		rev[i] = n - 1 - i
	}
	out = append(out, rev)
	for k := 1; k < n; k++ {
		rot := make([]int, n)
		for i := range rot {
			rot[i] = (i + k) % n
		}
		dup := false
		for _, o := range out {
			if fmt.Sprint(o) == fmt.Sprint(rot) {
				dup = true
			}
		}
		if !dup {
			out = append(out, rot)
		}
	}
	return out
}

func c37SizeClass(N int, lo, hi uint64, n int) string {
	switch {
	case uint64(n) > hi:
		return "n>max"
	case uint64(N) > hi:
		return "N>max"
	case uint64(N) < lo:
		return "N<min"
	case lo == hi:
		return "N=min=max"
	case uint64(N) == lo:
		return "N=min"
	case uint64(N) == hi:
		return "N=max"
	default:
		return "min<N<max"
	}
}

// c37RingSet runs everything of leg 1 for one endpoint set.
func c37RingSet(ws []uint32, pairs [][2]uint64, plan c37OrderPlan, fl *c37Fails, st *c37RingStats) {
	n := len(ws)
	var evals, nontriv, rings, balRuns, searches, zeroCases, devGE1, collisions int64
	var maxDev float64
	var maxDevCase string
	maxRing := 0
	outcomes := map[string]int64{}
	merge := func() {
		st.mu.Lock()
		st.evals += evals
		st.nontrivial += nontriv
		st.rings += rings
		st.balRuns += balRuns
		st.searches += searches
		st.zeroCases += zeroCases
		st.devGE1 += devGE1
		st.collisions += collisions
		if maxDev > st.maxDev || (maxDev == st.maxDev && maxDevCase < st.maxDevCase) {
			st.maxDev, st.maxDevCase = maxDev, maxDevCase
		}
		if maxRing > st.maxRing {
			st.maxRing = maxRing
		}
		for k, v := range outcomes {
			st.outcomes[k] += v
		}
		st.mu.Unlock()
	}
	defer merge()

	evals++
	if ok, desc := c37CheckNormalize(ws); !ok {
		fl.add("normalize", c37Ord(ws), fmt.Sprintf("weights=%s", c37WS(ws)),
			fmt.Sprintf("endpoint weights %s: %s; the ring is NOT built for this set because newRing's entry loop is driven by these numbers (unbounded or non-terminating ring)", c37WS(ws), desc),
			c37Case{Kind: "ring", Weights: ws, Min: 1, Max: 1, Detail: "normalize"})
		st.mu.Lock()
		st.unsafeSets++
		st.outcomes["unsafe-set(normalized weights wrong, ring not built)"]++
		st.mu.Unlock()
		return
	}
	id := c37Identity(n)
	var sumW uint64
	for _, w := range ws {
		sumW += uint64(w)
	}
	for _, pr := range pairs {
		lo, hi := pr[0], pr[1]
		caseStr := fmt.Sprintf("weights=%s min=%d max=%d", c37WS(ws), lo, hi)
		rep := c37Case{Kind: "ring", Weights: ws, Min: lo, Max: hi}
		r0, pan := c37SafeNewRing(c37Map(ws, id, nil), lo, hi)
		rings++
		evals++
		if pan != nil {
			fl.add("ring-panic", c37Ord(ws, lo, hi), caseStr, fmt.Sprintf("newRing(%s) panicked: %v", caseStr, pan), rep)
			continue
		}
		probs, facts := c37CheckRing(ws, lo, hi, r0)
		for _, p := range probs {
			fl.add(p.class, c37Ord(ws, lo, hi), caseStr, caseStr+": "+p.desc, rep)
		}
		if facts.n > maxRing {
			maxRing = facts.n
		}
		if facts.collision {
			collisions++
		}
		if facts.zero > 0 {
			zeroCases++
		}
		if facts.maxDevN >= 1 {
			devGE1++
		}
		if facts.maxDevN > maxDev {
			maxDev, maxDevCase = facts.maxDevN, fmt.Sprintf("%s counts=%v", caseStr, facts.counts)
		}
		if n >= 2 && facts.rounding {
			nontriv++
		}
		oc := c37SizeClass(facts.n, lo, hi, n)
		if facts.zero > 0 {
			oc += ",some endpoint has 0 entries"
		} else {
			oc += ",every endpoint present"
		}
		outcomes[oc]++
		var ns int64
		var sp *c37Problem
		if !facts.collision { // equal entry hashes: "first clockwise" is ambiguous (never observed; counted)
			ns, sp = c37CheckSearch(r0)
		}
		searches += ns
		if sp != nil {
			fl.add(sp.class, c37Ord(ws, lo, hi), caseStr, caseStr+": "+sp.desc, rep)
		}
		sig0 := c37Sig(r0)
		perms := plan.direct(hi) // perms[0] is always the identity (the canonical ring)
		// order independence, direct: every insertion order
		for pi, perm := range perms {
			if pi == 0 {
				continue
			}
			rp, pan := c37SafeNewRing(c37Map(ws, perm, nil), lo, hi)
			rings++
			evals++
			if pan != nil {
				fl.add("ring-panic", c37Ord(ws, lo, hi, uint64(pi)), caseStr, fmt.Sprintf("newRing(%s, insertion order %v) panicked: %v", caseStr, perm, pan), rep)
				continue
			}
			if eq, why := c37RingEq(sig0, rp); !eq {
				fl.add("ring-order-dependence", c37Ord(ws, lo, hi, uint64(pi)), caseStr, fmt.Sprintf("%s: ring built after inserting endpoints in order %v differs from the ring for order %v: %s", caseStr, perm, id, why), rep)
			}
		}
		// order independence, through the real balancer: every update order
		if plan.bal != nil {
			for pi, perm := range plan.bal(lo, hi) {
				for mi, mode := range c37BalModes {
					if mode == "shrink" && sumW+5 > math.MaxUint32 {
						// the intermediate set (with the extra endpoint of weight 5)
						// would leave the domain in which the weight sum fits uint32
						continue
					}
					sig, err := c37BalancerRun(c37BalSteps(mode, ws, perm), lo, hi)
					balRuns++
					evals++
					if err != nil {
						fl.add("balancer-run", c37Ord(ws, lo, hi, uint64(pi), uint64(mi)), caseStr, fmt.Sprintf("%s mode=%s order=%v: %v", caseStr, mode, perm, err), rep)
						continue
					}
					if eq, why := c37SigEq(sig0, sig); !eq {
						fl.add("ring-update-order-dependence", c37Ord(ws, lo, hi, uint64(pi), uint64(mi)), caseStr, fmt.Sprintf("%s: ring held by the real balancer after update sequence mode=%s order=%v differs from the ring built directly from the final set: %s", caseStr, mode, perm, why), rep)
					}
				}
			}
		}
	}
}

func TestVerif_C37_Ring(t *testing.T) {
	r := vk.Start(t, "c37_ring", "exploration", c37P)
	defer r.Finish()
	// many short-lived ring entries, tiny live heap: keep the collector from
	// running every few MB
	defer debug.SetGCPercent(debug.SetGCPercent(c37EnvInt("C37_GCPERCENT", 200)))
	fl := c37NewFails()
	st := &c37RingStats{outcomes: map[string]int64{}}
	allPairs := c37Pairs(c37Sizes)
	if !r.Thorough() && r.ReplayFile() == "" {
		// quick: the 15 pairs with max<=100 and 5 of the 13 pairs with max>=1024
		var q [][2]uint64
		for _, pr := range allPairs {
			if pr[1] <= 100 || pr == [2]uint64{1, 1024} || pr == [2]uint64{100, 1024} || pr == [2]uint64{1024, 1024} || pr == [2]uint64{1024, 4096} || pr == [2]uint64{4096, 4096} {
				q = append(q, pr)
			}
		}
		allPairs = q
	}

	if r.ReplayFile() != "" {
		var c c37Case
		if err := r.LoadReplay(&c); err != nil {
			r.EngineError("replay: %v", err)
			return
		}
		if len(c.Weights) == 0 || len(c.Weights) > 8 {
			r.EngineError("replay: bad weights %v", c.Weights)
			return
		}
		var rperms [][]int
		if len(c.Weights) <= 4 {
			rperms = c37Perms(len(c.Weights))
		} else {
			rperms = c37FewOrders(len(c.Weights))
		}
		c37RingSet(c.Weights, [][2]uint64{{c.Min, c.Max}}, c37OrderPlan{
			direct: func(uint64) [][]int { return rperms },
			bal: func(lo, hi uint64) [][]int {
				if len(c.Weights) > 4 {
					return nil
				}
				return rperms
			}}, fl, st)
		r.Eval(c37P, st.evals)
		r.Rule(c37P, "replay of one endpoint set and ring size pair (all orders)")
		fl.report(r)
		fmt.Printf("replay: %d failing classes\n", len(fl.best))
		return
	}

	full := []uint32{1, 2, 3, 7, 100, 1000000000, math.MaxUint32}
	// quick: n<=3 over the full weight menu, n=4 over a sub-menu; thorough: n<=4 over the full menu
	menu4 := full
	if !r.Thorough() {
		menu4 = []uint32{1, 7, 1000000000, math.MaxUint32}
	}
	type job struct {
		ws    []uint32
		pairs [][2]uint64
		plan  c37OrderPlan
	}
	var jobs []job
	thorough := r.Thorough()
	for n := 1; n <= 4; n++ {
		m := full
		if n == 4 {
			m = menu4
		}
		perms := c37Perms(n)
		few := c37FewOrders(n)
		two := few
		if len(two) > 2 {
			two = few[:2] // identity, reversal
		}
		n := n
		plan := c37OrderPlan{
			direct: func(hi uint64) [][]int {
				switch {
				case hi <= 100:
					return perms
				case thorough && (n <= 3 || hi <= 1024):
					return perms
				case thorough:
					return few // n=4, max=4096
				case n <= 3:
					return two
				default:
					return perms[:1]
				}
			},
			bal: func(lo, hi uint64) [][]int {
				pr := [2]uint64{lo, hi}
				if thorough {
					switch {
					case hi <= 100:
						return perms
					case pr == [2]uint64{100, 1024} || pr == [2]uint64{1024, 1024} || pr == [2]uint64{1024, 4096}:
						return two
					}
					return nil
				}
				if pr == [2]uint64{1, 1} || pr == [2]uint64{1, 3} || pr == [2]uint64{3, 10} || pr == [2]uint64{10, 100} || pr == [2]uint64{100, 100} {
					return perms
				}
				return nil
			},
		}
		for _, ws := range c37Tuples(m, n) {
			jobs = append(jobs, job{ws, allPairs, plan})
		}
	}
	// wide sets (beyond the n<=4 bound of the plan; few orders, no balancer
	// runs): more endpoints make the float accumulation of the per-endpoint
	// targets longer.
	wideMenus := map[int][]uint32{5: {1, 3, 7}, 6: {1, 3}}
	if thorough {
		wideMenus = map[int][]uint32{5: {1, 3, 7, 1000000000}, 6: {1, 3, 7}, 7: {1, 3}, 8: {1, 3}}
	}
	nWide := 0
	for n := 5; n <= 8; n++ {
		if wideMenus[n] == nil {
			continue
		}
		two := c37FewOrders(n)[:2]
		plan := c37OrderPlan{direct: func(hi uint64) [][]int {
			if hi >= 1024 && !thorough {
				return two[:1]
			}
			return two
		}}
		for _, ws := range c37Tuples(wideMenus[n], n) {
			jobs = append(jobs, job{ws, allPairs, plan})
			nWide++
		}
	}
	// heavy jobs first so that the tail of the parallel loop is short; the
	// result does not depend on the order.
	order := make([]int, len(jobs))
	for i := range order {
		order[i] = i
	}
	sort.SliceStable(order, func(a, b int) bool { return len(jobs[order[a]].ws) > len(jobs[order[b]].ws) })
	var capped int64
	c37ParSets(len(order), func(k int) {
		if r.OverBudget() {
			atomic.AddInt64(&capped, 1)
			return
		}
		j := jobs[order[k]]
		t0 := time.Now()
		if os.Getenv("C37_PROGRESS") != "" {
			fmt.Fprintf(os.Stderr, "c37 start %d ws=%v\n", k, j.ws)
		}
		c37RingSet(j.ws, j.pairs, j.plan, fl, st)
		if os.Getenv("C37_PROGRESS") != "" { // debugging aid only; never influences the result
			fmt.Fprintf(os.Stderr, "c37 job %d/%d n=%d ws=%v %.2fs\n", k, len(order), len(j.ws), j.ws, time.Since(t0).Seconds())
		}
	})
	if capped > 0 {
		r.Cap(c37P, fmt.Sprintf("c37_ring: soft budget reached, %d endpoint sets not evaluated", capped))
	}
	fl.report(r)

	rule := "endpoint sets: n=1..4 distinct endpoints (fixed addresses = hash keys), every assignment of weights from {1,2,3,7,100,1e9,2^32-1}"
	if thorough {
		rule += " x all 28 (min,max) pairs over {1,2,3,10,100,1024,4096} with min<=max; insertion orders into the EndpointMap given to the real newRing: ALL n! (n=4 with max=4096: identity, reversal and the rotations); update orders through a real ringhashBalancer (3 sequence shapes: add one endpoint at a time / start at weight 1 and correct one weight at a time / extra endpoint added then removed): ALL n! for the 15 pairs with max<=100, identity+reversal for (100,1024),(1024,1024),(1024,4096); wide sets n=5 over {1,3,7,1e9}, n=6 over {1,3,7}, n=7,8 over {1,3} in 2 orders"
	} else {
		rule += " (n=4: from {1,7,1e9,2^32-1}) x 20 (min,max) pairs (the 15 with max<=100 plus (1,1024),(100,1024),(1024,1024),(1024,4096),(4096,4096)); insertion orders into the EndpointMap given to the real newRing: ALL n! for max<=100, identity+reversal (n=4: identity only) for max>=1024; update orders through a real ringhashBalancer (3 sequence shapes: add one endpoint at a time / start at weight 1 and correct one weight at a time / extra endpoint added then removed): ALL n! for (1,1),(1,3),(3,10),(10,100),(100,100); wide sets n=5 over {1,3,7}, n=6 over {1,3} in <=2 orders"
	}
	rule += "; on every canonical ring ring.pick/ring.next for every entry hash +-{0,1}, 0, MaxUint64 vs linear sweep / brute force. One evaluation = one ring built and checked/compared, one balancer update sequence, or one normalisation check. Non-trivial = (set, size pair) with n>=2 where some N*w_i/sum(w) is not an integer, i.e. rounding really decides the entry counts; counted once per (set,pair)"
	r.Rule(c37P, rule)
	r.Eval(c37P, st.evals)
	r.NontrivialN(c37P, st.nontrivial)
	ocs := make([]string, 0, len(st.outcomes))
	for o := range st.outcomes {
		ocs = append(ocs, o)
	}
	sort.Strings(ocs)
	for _, o := range ocs {
		r.Outcome(c37P, "ring: "+o)
	}
	r.Set(c37P, "ring_outcome_totals", st.outcomes)
	r.Set(c37P, "rings_built_directly", st.rings)
	r.Set(c37P, "balancer_update_sequences", st.balRuns)
	r.Set(c37P, "ring_search_queries", st.searches)
	r.Set(c37P, "endpoint_sets", int64(len(jobs)))
	r.Set(c37P, "wide_endpoint_sets", int64(nWide))
	r.Set(c37P, "unsafe_sets_not_built", st.unsafeSets)
	r.Set(c37P, "cases_with_an_endpoint_without_entries", st.zeroCases)
	r.Set(c37P, "cases_with_abs_dev_from_N_times_p_ge_1", st.devGE1)
	r.Set(c37P, "max_abs_dev_from_N_times_p", fmt.Sprintf("%.6f at %s", st.maxDev, st.maxDevCase))
	r.Set(c37P, "largest_ring", int64(st.maxRing))
	if st.collisions > 0 {
		r.Set(c37P, "rings_with_equal_entry_hashes", st.collisions)
	}
	r.Sample(c37P, map[string]any{"leg": "ring", "weights": []uint32{3, 3, 100}, "min": 10, "max": 100, "orders": 6, "oracle": "identical rings; 10<=N<=100; exists k with |c_i-k*w_i/106|<1 for all i"})
	r.Sample(c37P, map[string]any{"leg": "ring", "weights": []uint32{1, 1000000000}, "min": 1024, "max": 4096, "update_sequence": "reweight, order [1 0]"})
	r.Assume(c37P, "ring construction: endpoint identity = fixed distinct single-address endpoints with the default hash key (first address); custom hash keys (A76 endpoint metadata) and multi-address endpoints are not varied")
	r.Assume(c37P, "the real balancer legs keep every child IDLE (no subchannel is created); endpointsharding's random rotation of the endpoint list is left random because the property says the order is irrelevant")
	r.Assume(c37P, "rounding bound: the statement is read as 'one common proportionality constant k with |c_i - k*p_i| < 1'; the stricter |c_i - N*p_i| < 1 is measured, not demanded")
	r.Assume(c37P, "max_ring_size is not demanded when there are more endpoints than max_ring_size ('when the endpoint count permits')")
}

// ---------------------------------------------------------------------------
// leg 2: the picker

type c37Rec struct {
	picks []int // endpoint ids whose child picker was consulted, in order
	exits []int // endpoint ids whose exitIdle was called directly
	rands int   // randUint64 calls
}

func (r *c37Rec) reset() { r.picks = r.picks[:0]; r.exits = r.exits[:0]; r.rands = 0 }

type c37SubConn struct {
	balancer.SubConn
	id int
}

var (
	c37SCs    [9]*c37SubConn
	c37TFErrs [9]error
)

func init() {
	for i := range c37SCs {
		c37SCs[i] = &c37SubConn{id: i}
		c37TFErrs[i] = fmt.Errorf("c37: endpoint %d is in TRANSIENT_FAILURE", i)
	}
}

// c37FakePicker plays the child (lazy pick_first) picker of one endpoint:
// READY → its SubConn; IDLE → queues the pick and (being the lazy balancer's
// idle picker) would start connecting, which the harness counts as a connection
// trigger; CONNECTING → queues; TRANSIENT_FAILURE → fails with that endpoint's error.
type c37FakePicker struct {
	rec *c37Rec
	id  int
	st  connectivity.State
}

func (p *c37FakePicker) Pick(balancer.PickInfo) (balancer.PickResult, error) {
	p.rec.picks = append(p.rec.picks, p.id)
	switch p.st {
	case connectivity.Ready:
		return balancer.PickResult{SubConn: c37SCs[p.id]}, nil
	case connectivity.Idle, connectivity.Connecting:
		return balancer.PickResult{}, balancer.ErrNoSubConnAvailable
	default:
		return balancer.PickResult{}, c37TFErrs[p.id]
	}
}

var c37States = []connectivity.State{connectivity.Idle, connectivity.Connecting, connectivity.Ready, connectivity.TransientFailure}

func c37StatesStr(ss []connectivity.State) string {
	s := make([]string, len(ss))
	for i, x := range ss {
		s[i] = map[connectivity.State]string{connectivity.Idle: "I", connectivity.Connecting: "C", connectivity.Ready: "R", connectivity.TransientFailure: "T"}[x]
	}
	return strings.Join(s, "")
}

// c37BuildPicker fills the balancer's endpoint-state map the way UpdateState
// does and lets the REAL newPickerLocked produce the picker (endpoint state
// cache + hasEndpointInConnectingState).
func c37BuildPicker(ws []uint32, states []connectivity.State, rg *ring, lo, hi uint64, header string, rec *c37Rec) *picker {
	m := c37Map(ws, c37Identity(len(ws)), func(i int, es *endpointState) {
		es.state = balancer.State{ConnectivityState: states[i], Picker: &c37FakePicker{rec: rec, id: i, st: states[i]}}
		es.exitIdle = func() { rec.exits = append(rec.exits, i) }
	})
	b := &ringhashBalancer{endpointStates: m, ring: rg, config: &iringhash.LBConfig{MinRingSize: lo, MaxRingSize: hi, RequestHashHeader: header}}
	return b.newPickerLocked()
}

type c37CW struct {
	hash uint64
	ep   int
}

// c37Exp is what the statement + A61 + A76 demand of one pick.
type c37Exp struct {
	kind     string // "sc" (complete with the SubConn of ep), "queue", "fail" (error of ep)
	ep       int
	consult  []int // child pickers that MUST be consulted (exactly, in order) when mustConsult
	must     bool
	trig     int // endpoint that must be told to connect; -1 none
	skipped  int
	wrapped  bool
	tgtState string
}

// c37Ref is the reference walk, written from:
//   - statement: "returns the first ring entry clockwise whose hash is at least
//     the request hash, skipping endpoints in TRANSIENT_FAILURE"; "a pick with a
//     random hash returns the first READY endpoint and triggers at most one
//     connection attempt".
//   - A61: entry READY → its pick; IDLE → trigger a connection attempt on it and
//     queue; CONNECTING → queue; all TRANSIENT_FAILURE → the failure of the first entry.
//   - A76: random hash: first READY entry wins; if no endpoint at all is
//     CONNECTING, the first IDLE entry met on the way is told to connect (one,
//     not more); no READY entry: queue if a connection is in progress or was just
//     requested, else the failure of the first entry.
//
// cw is the ring in clockwise order (ascending hash, sorted by the harness).
func c37Ref(cw []c37CW, states []connectivity.State, h uint64, random bool) c37Exp {
	N := len(cw)
	start := -1
	for j := 0; j < N; j++ { // linear: first entry with hash >= h
		if cw[j].hash >= h {
			start = j
			break
		}
	}
	e := c37Exp{trig: -1}
	if start < 0 {
		start = 0
		e.wrapped = true
	}
	first := cw[start].ep
	if !random {
		for k := 0; k < N; k++ {
			j := start + k
			if j >= N {
				j -= N
				e.wrapped = true
			}
			ep := cw[j].ep
			switch states[ep] {
			case connectivity.TransientFailure:
				e.skipped++
				continue
			case connectivity.Ready:
				e.kind, e.ep, e.consult, e.must, e.tgtState = "sc", ep, []int{ep}, true, "READY"
			case connectivity.Idle:
				e.kind, e.ep, e.consult, e.trig, e.tgtState = "queue", ep, []int{ep}, ep, "IDLE"
			case connectivity.Connecting:
				e.kind, e.ep, e.consult, e.tgtState = "queue", ep, []int{ep}, "CONNECTING"
			}
			return e
		}
		e.kind, e.ep, e.consult, e.must, e.tgtState = "fail", first, []int{first}, true, "allTF"
		e.wrapped = false
		return e
	}
	anyConnecting := false
	for _, s := range states {
		if s == connectivity.Connecting {
			anyConnecting = true
		}
	}
	wr := e.wrapped
	for k := 0; k < N; k++ {
		j := start + k
		if j >= N {
			j -= N
			wr = true
		}
		ep := cw[j].ep
		if states[ep] == connectivity.Ready {
			e.kind, e.ep, e.consult, e.must, e.tgtState = "sc", ep, []int{ep}, true, "READY"
			e.wrapped = wr
			return e
		}
		e.skipped++
		if !anyConnecting && e.trig < 0 && states[ep] == connectivity.Idle {
			e.trig = ep
		}
	}
	if anyConnecting || e.trig >= 0 {
		e.kind, e.ep, e.tgtState = "queue", -1, "noREADY"
		return e
	}
	e.kind, e.ep, e.consult, e.must, e.tgtState = "fail", first, []int{first}, true, "allTF"
	return e
}

// c37Judge compares one real pick with the reference.
func c37Judge(e c37Exp, states []connectivity.State, random bool, res balancer.PickResult, err error, rec *c37Rec, wantRands int) *c37Problem {
	// result
	switch e.kind {
	case "sc":
		sc, _ := res.SubConn.(*c37SubConn)
		if err != nil || sc == nil || sc.id != e.ep {
			return &c37Problem{"pick-result", fmt.Sprintf("expected the SubConn of endpoint %d (first eligible entry clockwise), got SubConn=%v err=%v", e.ep, c37SCid(res), err)}
		}
	case "queue":
		if err != balancer.ErrNoSubConnAvailable || res.SubConn != nil {
			return &c37Problem{"pick-result", fmt.Sprintf("expected the pick to be queued (ErrNoSubConnAvailable), got SubConn=%v err=%v", c37SCid(res), err)}
		}
	case "fail":
		if err != c37TFErrs[e.ep] {
			return &c37Problem{"pick-result", fmt.Sprintf("all ring entries are in TRANSIENT_FAILURE: expected the failure of the first entry's endpoint %d, got SubConn=%v err=%v", e.ep, c37SCid(res), err)}
		}
	}
	// child pickers consulted
	if e.must {
		if len(rec.picks) != len(e.consult) || (len(rec.picks) > 0 && rec.picks[0] != e.consult[0]) {
			return &c37Problem{"pick-consulted", fmt.Sprintf("child pickers consulted %v, expected exactly %v", rec.picks, e.consult)}
		}
	} else {
		for _, p := range rec.picks {
			allowed := false
			for _, c := range e.consult {
				if c == p {
					allowed = true
				}
			}
			if random && states[p] == connectivity.Connecting {
				allowed = true
			}
			if !allowed {
				return &c37Problem{"pick-consulted", fmt.Sprintf("child pickers consulted %v, only %v may be consulted", rec.picks, e.consult)}
			}
		}
		if len(rec.picks) > 1 {
			return &c37Problem{"pick-consulted", fmt.Sprintf("child pickers consulted %v (more than one)", rec.picks)}
		}
	}
	// connection triggers = direct exitIdle calls + consultations of an IDLE child's (lazy) picker
	var trig []int
	trig = append(trig, rec.exits...)
	for _, p := range rec.picks {
		if states[p] == connectivity.Idle {
			trig = append(trig, p)
		}
	}
	if len(trig) > 1 {
		cls := "pick-multi-trigger"
		if random {
			cls = "random-multi-trigger"
		}
		return &c37Problem{cls, fmt.Sprintf("one pick triggered %d connection attempts (endpoints %v); at most one is allowed", len(trig), trig)}
	}
	for _, x := range trig {
		if states[x] != connectivity.Idle {
			return &c37Problem{"pick-trigger", fmt.Sprintf("connection attempt triggered on endpoint %d which is %v, not IDLE", x, states[x])}
		}
	}
	if e.trig < 0 && len(trig) != 0 {
		return &c37Problem{"pick-trigger", fmt.Sprintf("connection attempt triggered on endpoint %v, none expected", trig)}
	}
	if e.trig >= 0 && (len(trig) != 1 || trig[0] != e.trig) {
		return &c37Problem{"pick-trigger", fmt.Sprintf("connection attempts triggered on %v, expected exactly one on endpoint %d (first IDLE entry on the walk)", trig, e.trig)}
	}
	if rec.rands != wantRands {
		return &c37Problem{"pick-rand-calls", fmt.Sprintf("random hash generator called %d times, expected %d", rec.rands, wantRands)}
	}
	return nil
}

func c37SCid(res balancer.PickResult) string {
	if res.SubConn == nil {
		return "nil"
	}
	if sc, ok := res.SubConn.(*c37SubConn); ok {
		return fmt.Sprintf("endpoint-%d", sc.id)
	}
	return fmt.Sprintf("%T", res.SubConn)
}

func c37SafePick(p *picker, info balancer.PickInfo) (res balancer.PickResult, err error, pan any) {
	defer func() {
		if x := recover(); x != nil {
			pan = x
		}
	}()
	res, err = p.Pick(info)
	return
}

const c37Header = "x-c37-hash"

var c37HeaderVals = [][]string{{""}, {"a"}, {"user-4711"}, {"a", "b"}, {"\x00\xff"}}

type c37PickStats struct {
	mu         sync.Mutex
	evals      int64
	nontrivial int64
	rings      int64
	totals     map[string]int64
	perSet     map[string]int64
	capDup     int64
}

// c37PickRing runs every state assignment x mode x hash on one ring.
func c37PickRing(ws []uint32, lo, hi uint64, fl *c37Fails, st *c37PickStats) {
	n := len(ws)
	caseStr0 := fmt.Sprintf("weights=%s min=%d max=%d", c37WS(ws), lo, hi)
	rep := c37Case{Kind: "pick", Weights: ws, Min: lo, Max: hi}
	var evals, nontriv int64
	totals := map[string]int64{}
	defer func() {
		st.mu.Lock()
		st.evals += evals
		st.nontrivial += nontriv
		st.rings++
		for k, v := range totals {
			st.totals[k] += v
			st.perSet[k]++
		}
		st.mu.Unlock()
	}()
	rg, pan := c37SafeNewRing(c37Map(ws, c37Identity(n), nil), lo, hi)
	if pan != nil || rg == nil || len(rg.items) == 0 {
		fl.add("ring-panic", c37Ord(ws, lo, hi), caseStr0, fmt.Sprintf("newRing(%s) panicked or returned an empty ring: %v", caseStr0, pan), rep)
		return
	}
	idx := map[string]int{}
	for i := range ws {
		idx[c37Addrs[i]] = i
	}
	cw := make([]c37CW, 0, len(rg.items))
	for _, it := range rg.items {
		i, ok := idx[it.hashKey]
		if !ok {
			fl.add("ring-foreign-entry", c37Ord(ws, lo, hi), caseStr0, caseStr0+": ring entry with unknown hash key "+it.hashKey, rep)
			return
		}
		cw = append(cw, c37CW{it.hash, i})
	}
	sort.Slice(cw, func(a, b int) bool { return cw[a].hash < cw[b].hash })
	for j := 1; j < len(cw); j++ {
		if cw[j].hash == cw[j-1].hash {
			st.mu.Lock()
			st.capDup++
			st.mu.Unlock()
			return // clockwise order ambiguous; reported as a cap
		}
	}
	// request hashes
	hs := []uint64{0, math.MaxUint64}
	for _, e := range cw {
		hs = append(hs, e.hash)
		if e.hash > 0 {
			hs = append(hs, e.hash-1)
		}
		if e.hash < math.MaxUint64 {
			hs = append(hs, e.hash+1)
		}
	}
	sort.Slice(hs, func(a, b int) bool { return hs[a] < hs[b] })
	uniq := hs[:0]
	for i, h := range hs {
		if i == 0 || h != hs[i-1] {
			uniq = append(uniq, h)
		}
	}
	hs = uniq
	xdsInfos := make([]balancer.PickInfo, len(hs))
	for i, h := range hs {
		xdsInfos[i] = balancer.PickInfo{FullMethodName: "/c37.S/M", Ctx: iringhash.SetXDSRequestHash(context.Background(), h)}
	}
	plainInfo := balancer.PickInfo{FullMethodName: "/c37.S/M", Ctx: context.Background()}
	type hdrCase struct {
		info balancer.PickInfo
		h    uint64
	}
	var hdrCases []hdrCase
	for _, vals := range c37HeaderVals {
		md := metadata.MD{}
		md.Append(c37Header, vals...)
		// A76: the request hash is the XXH64 of the header values joined with ","
		hdrCases = append(hdrCases, hdrCase{balancer.PickInfo{FullMethodName: "/c37.S/M", Ctx: metadata.NewOutgoingContext(context.Background(), md)}, xxhash.Sum64String(strings.Join(vals, ","))})
	}

	total := 1
	for i := 0; i < n; i++ {
		total *= 4
	}
	states := make([]connectivity.State, n)
	rec := &c37Rec{}
	var curH uint64
	for x := 0; x < total; x++ {
		y := x
		for k := n - 1; k >= 0; k-- {
			states[k] = c37States[y%4]
			y /= 4
		}
		ss := c37StatesStr(states)
		pXDS := c37BuildPicker(ws, states, rg, lo, hi, "", rec)
		pHdr := c37BuildPicker(ws, states, rg, lo, hi, c37Header, rec)
		pHdr.randUint64 = func() uint64 { rec.rands++; return curH }
		pXDS.randUint64 = func() uint64 { rec.rands++; return curH }
		one := func(mode string, mi uint64, p *picker, info balancer.PickInfo, h uint64, hi64 uint64, random bool, wantRands int) {
			rec.reset()
			curH = h
			res, err, pan := c37SafePick(p, info)
			evals++
			caseStr := fmt.Sprintf("%s mode=%s states=%s h=%d", caseStr0, mode, ss, h)
			ord := c37Ord(ws, lo, hi, mi, uint64(x), hi64)
			if pan != nil {
				fl.add("pick-panic", ord, caseStr, fmt.Sprintf("%s: Pick panicked: %v", caseStr, pan), rep)
				return
			}
			e := c37Ref(cw, states, h, random)
			if pr := c37Judge(e, states, random, res, err, rec, wantRands); pr != nil {
				fl.add(pr.class, ord, caseStr, fmt.Sprintf("%s (ring clockwise: %s): %s", caseStr, c37CWStr(cw), pr.desc), rep)
			}
			if e.skipped > 0 || e.wrapped {
				nontriv++
			}
			oc := mode + ":" + e.kind + "(" + e.tgtState + ")"
			if e.trig >= 0 {
				oc += "+connect"
			}
			if e.skipped > 0 {
				oc += ",skipped"
			}
			if e.wrapped {
				oc += ",wrapped"
			}
			totals[oc]++
		}
		for i, h := range hs {
			one("xds", 0, pXDS, xdsInfos[i], h, uint64(i), false, 0)
			one("random", 1, pHdr, plainInfo, h, uint64(i), true, 1)
		}
		for i, hc := range hdrCases {
			one("header", 2, pHdr, hc.info, hc.h, uint64(i), false, 0)
		}
		// no request hash from the xDS config selector: the pick must fail without
		// consulting or connecting anything (not in the statement: recorded only)
		rec.reset()
		_, err, pan := c37SafePick(pXDS, plainInfo)
		evals++
		if pan != nil {
			fl.add("pick-panic", c37Ord(ws, lo, hi, 3, uint64(x)), caseStr0+" mode=nohash states="+ss, "Pick without request hash panicked: "+fmt.Sprint(pan), rep)
		} else if err != nil && err != balancer.ErrNoSubConnAvailable && len(rec.picks) == 0 && len(rec.exits) == 0 {
			totals["nohash:error,nothing touched"]++
		} else {
			totals["nohash:other"]++
		}
	}
}

func c37CWStr(cw []c37CW) string {
	if len(cw) > 12 {
		return fmt.Sprintf("%d entries", len(cw))
	}
	s := make([]string, len(cw))
	for i, e := range cw {
		s[i] = fmt.Sprintf("%d→ep%d", e.hash, e.ep)
	}
	return strings.Join(s, " ")
}

func TestVerif_C37_Pick(t *testing.T) {
	r := vk.Start(t, "c37_pick", "exploration", c37P)
	defer r.Finish()
	fl := c37NewFails()
	st := &c37PickStats{totals: map[string]int64{}, perSet: map[string]int64{}}
	pairs := [][2]uint64{{1, 1}, {2, 3}, {3, 10}, {10, 10}, {10, 100}, {100, 100}}

	if r.ReplayFile() != "" {
		var c c37Case
		if err := r.LoadReplay(&c); err != nil {
			r.EngineError("replay: %v", err)
			return
		}
		if len(c.Weights) == 0 || len(c.Weights) > 5 || c.Max > 4096 {
			r.EngineError("replay: bad case %+v", c)
			return
		}
		if ok, desc := c37CheckNormalize(c.Weights); !ok {
			r.EngineError("replay: unsafe set: %s", desc)
			return
		}
		c37PickRing(c.Weights, c.Min, c.Max, fl, st)
		r.Eval(c37P, st.evals)
		r.Rule(c37P, "replay of one endpoint set and ring size pair (all states, modes, hashes)")
		fl.report(r)
		fmt.Printf("replay: %d failing classes\n", len(fl.best))
		return
	}

	menu := []uint32{1, 2, 7, 100}
	maxN := r.Pick(3, 4)
	type job struct {
		ws []uint32
		pr [2]uint64
	}
	var jobs []job
	for n := maxN; n >= 1; n-- {
		for _, ws := range c37Tuples(menu, n) {
			for _, pr := range pairs {
				jobs = append(jobs, job{ws, pr})
			}
		}
	}
	var capped int64
	c37ParSets(len(jobs), func(i int) {
		if r.OverBudget() {
			atomic.AddInt64(&capped, 1)
			return
		}
		c37PickRing(jobs[i].ws, jobs[i].pr[0], jobs[i].pr[1], fl, st)
	})
	if capped > 0 {
		r.Cap(c37P, fmt.Sprintf("c37_pick: soft budget reached, %d rings not evaluated", capped))
	}
	if st.capDup > 0 {
		r.Cap(c37P, fmt.Sprintf("c37_pick: %d rings with equal entry hashes skipped (clockwise order ambiguous)", st.capDup))
	}
	fl.report(r)

	r.Rule(c37P, fmt.Sprintf("rings: endpoint sets n=1..%d over weights {1,2,7,100} x (min,max) in {(1,1),(2,3),(3,10),(10,10),(10,100),(100,100)} built by the real newRing; for each ring ALL 4^n assignments of {IDLE,CONNECTING,READY,TRANSIENT_FAILURE}; picker built by the real newPickerLocked over fake child pickers; request hash h in every ring entry hash +-{0,1}, 0, MaxUint64, delivered (a) as xDS request hash in the context, (b) as the value of the random generator with request_hash_header configured but absent (random-hash path); plus 5 header values hashed with XXH64 (A76) and one pick without any hash. Reference = linear clockwise walk over a harness-sorted copy of the ring. Non-trivial = picks whose walk skipped at least one entry (TRANSIENT_FAILURE, or non-READY on the random path) or wrapped past the largest hash", maxN))
	r.Eval(c37P, st.evals)
	r.NontrivialN(c37P, st.nontrivial)
	ocs := make([]string, 0, len(st.totals))
	for o := range st.totals {
		ocs = append(ocs, o)
	}
	sort.Strings(ocs)
	for _, o := range ocs {
		r.Outcome(c37P, "pick: "+o)
	}
	r.Set(c37P, "pick_outcome_totals", st.totals)
	r.Set(c37P, "pick_rings", st.rings)
	r.Set(c37P, "pick_cases", st.evals)
	r.Sample(c37P, map[string]any{"leg": "pick", "weights": []uint32{1, 2, 7}, "min": 3, "max": 10, "states": "T I R", "mode": "xds", "h": "hash of an entry of endpoint 0, +1", "oracle": "walk clockwise, skip endpoint 0 (TF); first IDLE/CONNECTING/READY entry decides"})
	r.Sample(c37P, map[string]any{"leg": "pick", "weights": []uint32{100, 1, 1}, "min": 10, "max": 100, "states": "I I T", "mode": "random", "oracle": "no READY: exactly one exitIdle on the first IDLE entry clockwise, pick queued"})
	r.Assume(c37P, "child pickers are fakes: the IDLE child's picker stands for the lazy balancer's idle picker (consulting it counts as a connection trigger); real pick_first children are not run")
	r.Assume(c37P, "gRFC A61/A76 pseudo-code was taken from memory of the published gRFCs (no network): IDLE→connect+queue, CONNECTING→queue, all TF→failure of the first entry; random hash: first READY, one connect on the first IDLE iff no endpoint is CONNECTING")
	if len(st.totals) < 8 {
		r.EngineError("vacuous pick exploration: only %d outcome classes", len(st.totals))
	}
}
